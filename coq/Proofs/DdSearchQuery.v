(* Proofs about Model/DdSearch.v (C30), part 4: the query level — negation, AND / OR lists, groups —
   and the round trip of whole trees. *)
From Coq Require Import String List NArith ZArith Bool Lia PeanoNat.
From Coq Require Import Floats.SpecFloat.
From VRL Require Import Base.Bytes Base.Value Base.Lit Model.DdNode Model.DdSearch
  Proofs.DdSearchProofs Proofs.DdSearchNum Proofs.DdSearchRT Proofs.DdSearchWild.
Import ListNotations.
Local Open Scope N_scope.

(* ---------- which trees ---------- *)

Definition is_none_node (n : node) : bool := match n with NNone => true | _ => false end.
Definition is_not_all (n : node) : bool := match n with NNot NAll => true | _ => false end.
Definition is_not_not (n : node) : bool := match n with NNot (NNot _) => true | _ => false end.

Section Safe.
  Variable fok : spec_float -> bool.

  Definition cmp_val_ok (cv : cval) : bool :=
    match cv with
    | CUnb => false
    | CInt z => i64_range z
    | CStr s => term_ok s && negb (numlike s)
    | CFloat f => fok f
    end.

  (* the leaves whose text is read back as the same clause *)
  Definition leaf_ok (n : node) : bool :=
    match n with
    | NAll => true
    | NExists a | NMissing a => raw_ok a
    | NTerm a v | NPrefix a v => attr_ok a && term_ok v
    | NQuoted a _ => attr_ok a
    | NCmp a _ cv => attr_ok a && cmp_val_ok cv
    | NRange a lo li hi ui => attr_ok a && Bool.eqb li ui && bound_ok fok lo && bound_ok fok hi
    | NWild a v => attr_ok a && wild_ok a v
    | _ => false
    end.

  (* safe n: n printed as a whole (sub)query is read back as n (NNot NAll as NNone).
     Under a NOT / as an item of a list: not NNone, not NNot NAll (a parenthesised "NOT *:*" is folded
     to NNone); as an AND item moreover not a double negation (printed "NOT NOT x"). *)
  Fixpoint safe (n : node) : bool :=
    match n with
    | NNone => true
    | NNot m => negb (is_none_node m) && negb (is_not_all m) && safe m
    | NBool op ns =>
        (2 <=? List.length ns)%nat &&
        (fix go (l : list node) : bool :=
           match l with
           | [] => true
           | x :: r =>
               negb (is_none_node x) && safe x
               && (match op with BAnd => negb (is_not_not x) | BOr => true end)
               && go r
           end) ns
    | _ => leaf_ok n
    end.

  Definition item_ok (op : bop) (x : node) : bool :=
    negb (is_none_node x) && safe x && (match op with BAnd => negb (is_not_not x) | BOr => true end).

  Lemma safe_bool op ns : safe (NBool op ns) = (2 <=? List.length ns)%nat && forallb (item_ok op) ns.
  Proof.
    cbn [safe]. apply f_equal. induction ns as [|x r IH]; [reflexivity|]. cbn [forallb]. unfold item_ok at 1.
    rewrite <- IH. reflexivity.
  Qed.
End Safe.

(* paren nesting *)
Fixpoint depth (n : node) : nat :=
  match n with
  | NNot m => S (depth m)
  | NBool _ ns => S ((fix go (l : list node) : nat := match l with [] => O | x :: r => Nat.max (depth x) (go r) end) ns)
  | _ => O
  end.

Lemma depth_bool op ns : depth (NBool op ns) = S (fold_right (fun x m => Nat.max (depth x) m) O ns).
Proof. cbn [depth]. apply f_equal. induction ns as [|x r IH]; [reflexivity|]. cbn. rewrite IH. reflexivity. Qed.

(* ---------- the printed forms ---------- *)

Section Print.
  Variable fdisp : spec_float -> bytes.
  Notation tl := (to_lucene fdisp).

  (* how a node is printed after "NOT " or as an item: NOT-nodes and lists in parentheses *)
  Definition wrapped (n : node) : bytes :=
    if is_not_node n || is_bool_node n then paren (tl n) else tl n.

  (* an item of a list *)
  Definition item_text (n : node) : bytes :=
    match n with
    | NNot m => bs "NOT " ++ wrapped m
    | _ => wrapped n
    end.

  Lemma tl_not m : tl (NNot m) = bs "NOT " ++ wrapped m.
  Proof. cbn [to_lucene]. unfold wrapped. destruct (is_not_node m || is_bool_node m); reflexivity. Qed.

  Definition sep (op : bop) : bytes := match op with BAnd => bs " AND " | BOr => bs " OR " end.

  Fixpoint items_text (op : bop) (ns : list node) : bytes :=
    match ns with
    | [] => []
    | x :: r => sep op ++ item_text x ++ items_text op r
    end.

  Lemma and_item_text x :
    is_not_not x = false ->
    (match x with
     | NNot m => bs "NOT " ++ (if is_bool_node m then paren (tl m) else tl m)
     | _ => if is_bool_node x then paren (tl x) else tl x
     end) = item_text x.
  Proof.
    intros H. destruct x; try reflexivity.
    cbn [item_text]. unfold wrapped. destruct x; try reflexivity. discriminate.
  Qed.

  Lemma or_item_text x :
    (if is_bool_node x then paren (tl x) else tl x) = item_text x.
  Proof.
    destruct x; try reflexivity. cbn [is_bool_node item_text]. apply tl_not.
  Qed.

  Lemma tl_and x ns :
    forallb (fun y => negb (is_not_not y)) (x :: ns) = true ->
    tl (NBool BAnd (x :: ns)) = item_text x ++ items_text BAnd ns.
  Proof.
    intros H. cbn [to_lucene].
    assert (forall l, forallb (fun y => negb (is_not_not y)) l = true ->
              (fix go (l : list node) (first : bool) {struct l} : bytes :=
                 match l with
                 | [] => []
                 | x :: r =>
                     (if first then [] else bs " AND ") ++
                     match x with
                     | NNot m => bs "NOT " ++ (if is_bool_node m then paren (tl m) else tl m)
                     | _ => if is_bool_node x then paren (tl x) else tl x
                     end ++ go r false
                 end) l false = items_text BAnd l) as G.
    { induction l as [|y l IH]; [reflexivity|]. cbn [forallb]. intros Hl. apply andb_true_iff in Hl as [Hy Hl].
      apply negb_true_iff in Hy. cbn [items_text sep]. rewrite <- (and_item_text y Hy), <- IH by exact Hl. reflexivity. }
    cbn [forallb] in H. apply andb_true_iff in H as [Hx H]. apply negb_true_iff in Hx.
    rewrite <- (and_item_text x Hx), <- G by exact H. reflexivity.
  Qed.

  Lemma tl_or x ns : tl (NBool BOr (x :: ns)) = item_text x ++ items_text BOr ns.
  Proof.
    cbn [to_lucene].
    assert (forall l,
              (fix go (l : list node) (first : bool) {struct l} : bytes :=
                 match l with
                 | [] => []
                 | x :: r =>
                     (if first then [] else bs " OR ") ++
                     (if is_bool_node x then paren (tl x) else tl x) ++ go r false
                 end) l false = items_text BOr l) as G.
    { induction l as [|y l IH]; [reflexivity|]. cbn [items_text sep]. rewrite <- (or_item_text y), <- IH. reflexivity. }
    rewrite <- (or_item_text x), <- G. reflexivity.
  Qed.
End Print.

(* ---------- small facts ---------- *)

Lemma strip_prefix_none_iff p s : strip_prefix p s = None <-> starts_with s p = false.
Proof.
  revert s; induction p as [|c p IH]; intros s; cbn.
  - split; discriminate.
  - destruct s as [|x s]; [split; reflexivity|]. destruct (x =? c); cbn; [apply IH | split; reflexivity].
Qed.

Lemma strip_prefix_some p s r : strip_prefix p s = Some r -> s = p ++ r.
Proof.
  revert s; induction p as [|c p IH]; intros s; cbn.
  - intros H; inversion H; reflexivity.
  - destruct s as [|x s]; [discriminate|]. destruct (N.eqb_spec x c) as [->|]; [|discriminate].
    intros H. apply IH in H. subst. reflexivity.
Qed.

(* what follows an item inside a list: blank, then AND / OR *)
Definition follows_conj (rest : bytes) : bool :=
  match rest with c :: r => is_ws c && kw_and_or (skip r) | [] => false end.

(* the end of a (sub)query: end of input or the closing parenthesis *)
Definition group_end (rest : bytes) : bool :=
  match rest with [] => true | c :: _ => c =? 41 end.

Lemma group_end_term_end rest : group_end rest = true -> term_end rest = true.
Proof. destruct rest as [|c r]; [reflexivity|]. cbn. intros ->. rewrite !orb_true_r. reflexivity. Qed.

Lemma follows_conj_term_end rest : follows_conj rest = true -> term_end rest = true.
Proof.
  destruct rest as [|c r]; [discriminate|]. cbn. intros H. apply andb_true_iff in H as [-> _]. reflexivity.
Qed.

Lemma mods_none_head c r :
  (c =? 43) = false -> (c =? 45) = false -> starts_with (c :: r) (bs "NOT") = false ->
  parse_modifiers (c :: r) = None.
Proof.
  intros H1 H2 H3. unfold parse_modifiers.
  change (bs "+") with [43]. change (bs "-") with [45].
  rewrite (strip_prefix_head_neq 43 [] c r H1), (strip_prefix_head_neq 45 [] c r H2).
  apply strip_prefix_none_iff in H3. rewrite H3. reflexivity.
Qed.

Lemma kw_free_not s : kw_free s = true -> starts_with s (bs "NOT") = false.
Proof. unfold kw_free. intros H. apply negb_true_iff in H. split_orb_false H. assumption. Qed.

Lemma not_lit_in : In (bs "NOT") [bs "AND"; bs "&&"; bs "OR"; bs "||"; bs "NOT"].
Proof. cbn. tauto. Qed.

(* text printed raw (an attribute) followed by the colon *)
Lemma raw_colon_facts a X :
  raw_ok a = true ->
  exists c r, a ++ 58 :: X = c :: r /\ head_ok c /\
    parse_modifiers (a ++ 58 :: X) = None /\ multiterm_lookahead (a ++ 58 :: X) = false.
Proof.
  intros Ha. destruct (raw_ok_parts a Ha) as (T & P & El & Eu). destruct (raw_head a Ha) as (c & r & Ea & Hc).
  destruct (term_ok_parts a T) as (N & W & U & K).
  exists c, (r ++ 58 :: X). split; [rewrite Ea; reflexivity|]. split; [exact Hc|]. split.
  - assert (starts_with (a ++ 58 :: X) (bs "NOT") = false) as H3.
    { rewrite <- El. apply kw_lit_escaped; auto using not_lit_in, kw_free_not. }
    rewrite Ea in *. cbn [app] in *. apply mods_none_head; auto; apply head_ok_neq; auto; discriminate.
  - unfold multiterm_lookahead. rewrite <- El at 1. rewrite (lex_term_escaped a (58 :: X) T eq_refl). reflexivity.
Qed.

(* an escaped term / prefix value at the start of the text *)
Lemma escaped_facts v rest :
  term_ok v = true -> stops rest = true ->
  exists c r, lucene_escape v ++ rest = c :: r /\ head_ok c /\ parse_modifiers (lucene_escape v ++ rest) = None.
Proof.
  intros T S. destruct (term_ok_parts v T) as (N & W & U & K). destruct (escaped_head v N W) as (c & r & Ev & Hc).
  exists c, (r ++ rest). split; [rewrite Ev; reflexivity|]. split; [exact Hc|].
  assert (starts_with (lucene_escape v ++ rest) (bs "NOT") = false) as H3.
  { apply kw_lit_escaped; auto using not_lit_in, kw_free_not. }
  rewrite Ev in *. cbn [app] in *. apply mods_none_head; auto; apply head_ok_neq; auto; discriminate.
Qed.

(* ---------- leaves in context ---------- *)

Section Leaves.
  Variable sub : bytes -> bytes -> option (list qitem * bytes).
  Variable fdisp : spec_float -> bytes.
  Variable fok : spec_float -> bool.
  Hypothesis Hfloat : forall f, fok f = true -> num_text_ok (fdisp f) (CFloat f).
  Notation tl := (to_lucene fdisp).

  Lemma leaf_clause n rest :
    leaf_ok fok n = true -> term_end rest = true ->
    parse_clause sub DEFAULT_FIELD (tl n ++ rest) = Some (VOk n, rest).
  Proof.
    intros L E. destruct n; cbn [leaf_ok] in L; try discriminate.
    - apply clause_all.
    - apply clause_exists; auto.
    - apply clause_missing; auto.
    - apply andb_true_iff in L as [L Hhi]. apply andb_true_iff in L as [L Hlo]. apply andb_true_iff in L as [A B].
      apply eqb_prop in B. subst ui. apply clause_range with (fok := fok); auto.
    - apply andb_true_iff in L as [A C]. destruct v as [|s|z|f]; cbn [cmp_val_ok] in C; try discriminate.
      + apply andb_true_iff in C as [T NL]. apply negb_true_iff in NL. apply clause_cmp_str; auto.
      + apply clause_cmp_int; auto.
      + apply clause_cmp_float with (fok := fok); auto.
    - apply andb_true_iff in L as [A T]. apply clause_term; auto.
    - apply clause_quoted; auto.
    - apply andb_true_iff in L as [A T]. apply clause_prefix; auto.
    - apply andb_true_iff in L as [A T]. apply clause_wild; auto.
  Qed.

  (* the text of a leaf with an explicit field, or of _exists_ / _missing_, starts with raw text and a colon *)
  Definition colon_form (n : node) : Prop :=
    exists a X, raw_ok a = true /\ forall rest, tl n ++ rest = a ++ 58 :: X ++ rest.

  Lemma explicit_attr a V : attr_ok a = true -> bytes_eqb a DEFAULT_FIELD = false ->
    forall rest, (is_default_attr a ++ V) ++ rest = a ++ 58 :: V ++ rest.
  Proof. intros A D rest. unfold is_default_attr. rewrite D, <- !app_assoc. reflexivity. Qed.

  Lemma default_attr a V : bytes_eqb a DEFAULT_FIELD = true -> is_default_attr a ++ V = V.
  Proof. intros D. unfold is_default_attr. rewrite D. reflexivity. Qed.

  Definition is_default_term (n : node) : bool :=
    match n with NTerm a _ => bytes_eqb a DEFAULT_FIELD | _ => false end.

  (* facts about the start of a printed leaf, however it continues (rest: what may follow a term) *)
  Lemma leaf_start n rest :
    leaf_ok fok n = true -> term_end rest = true ->
    skip (tl n ++ rest) = tl n ++ rest /\ parse_modifiers (tl n ++ rest) = None /\
    (follows_conj rest = true \/ is_default_term n = false -> multiterm_lookahead (tl n ++ rest) = false).
  Proof.
    intros L E.
    assert (forall a X, raw_ok a = true ->
              skip (a ++ 58 :: X) = a ++ 58 :: X /\ parse_modifiers (a ++ 58 :: X) = None /\
              (follows_conj rest = true \/ false = false -> multiterm_lookahead (a ++ 58 :: X) = false)) as Colon0.
    { intros a X Ha. destruct (raw_colon_facts a X Ha) as (c & r & Ec & Hc & M & La).
      repeat split; auto. rewrite Ec. apply head_skip; exact Hc. }
    assert (forall a X (P : Prop), raw_ok a = true ->
              skip (a ++ 58 :: X) = a ++ 58 :: X /\ parse_modifiers (a ++ 58 :: X) = None /\
              (P -> multiterm_lookahead (a ++ 58 :: X) = false)) as Colon.
    { intros a X P Ha. destruct (Colon0 a X Ha) as (A1 & A2 & A3). repeat split; auto. }
    clear Colon0.
    assert (forall v, term_ok v = true -> forall rest', stops rest' = true ->
              skip (lucene_escape v ++ rest') = lucene_escape v ++ rest' /\
              parse_modifiers (lucene_escape v ++ rest') = None) as Esc.
    { intros v T rest' S. destruct (escaped_facts v rest' T S) as (c & r & Ec & Hc & M).
      split; auto. rewrite Ec. apply head_skip; exact Hc. }
    destruct n; cbn [leaf_ok] in L; try discriminate.
    - (* *:* *) repeat split; try reflexivity.
    - (* _exists_ *)
      cbn [to_lucene]. change (bs "_exists_:") with (EXISTS_FIELD ++ [58]). rewrite <- !app_assoc. cbn [app].
      apply Colon. reflexivity.
    - cbn [to_lucene]. change (bs "_missing_:") with (MISSING_FIELD ++ [58]). rewrite <- !app_assoc. cbn [app].
      apply Colon. reflexivity.
    - (* range *)
      apply andb_true_iff in L as [L _]. apply andb_true_iff in L as [L _]. apply andb_true_iff in L as [A _].
      cbn [to_lucene]. destruct (bytes_eqb attr DEFAULT_FIELD) eqn:D.
      + rewrite (default_attr attr _ D). destruct li; repeat split; reflexivity.
      + rewrite (explicit_attr attr _ A D). apply Colon. apply attr_ok_raw; exact A.
    - (* comparison *)
      apply andb_true_iff in L as [A _]. cbn [to_lucene]. destruct (bytes_eqb attr DEFAULT_FIELD) eqn:D.
      + rewrite (default_attr attr _ D). destruct op; repeat split; reflexivity.
      + rewrite (explicit_attr attr _ A D). apply Colon. apply attr_ok_raw; exact A.
    - (* term *)
      apply andb_true_iff in L as [A T]. cbn [to_lucene]. destruct (bytes_eqb attr DEFAULT_FIELD) eqn:D.
      + rewrite (default_attr attr _ D). destruct (Esc v T rest (term_end_stops rest E)) as [S M].
        repeat split; auto. intros [F|F]; [|cbn [is_default_term] in F; congruence]. unfold multiterm_lookahead.
        rewrite (lex_term_escaped v rest T (term_end_stops rest E)).
        destruct rest as [|c r]; [discriminate|]. cbn [follows_conj] in F. apply andb_true_iff in F as [W K].
        assert ((c =? 58) || (c =? 42) = false) as ->.
        { apply is_ws_cases in W as [ -> | [ -> | [ -> | -> ] ] ]; reflexivity. }
        rewrite W. cbn [skip]. rewrite W, K. reflexivity.
      + rewrite (explicit_attr attr _ A D). apply Colon. apply attr_ok_raw; exact A.
    - (* quoted *)
      cbn [to_lucene]. destruct (bytes_eqb attr DEFAULT_FIELD) eqn:D.
      + rewrite (default_attr attr _ D). repeat split; reflexivity.
      + rewrite (explicit_attr attr _ L D). apply Colon. apply attr_ok_raw; exact L.
    - (* prefix *)
      apply andb_true_iff in L as [A T]. cbn [to_lucene]. destruct (bytes_eqb attr DEFAULT_FIELD) eqn:D.
      + rewrite (default_attr attr _ D). rewrite <- app_assoc. cbn [app].
        destruct (Esc v T (42 :: rest) eq_refl) as [S M]. repeat split; auto.
        intros _. unfold multiterm_lookahead. rewrite (lex_term_escaped v (42 :: rest) T eq_refl). reflexivity.
      + rewrite (explicit_attr attr _ A D). apply Colon. apply attr_ok_raw; exact A.
    - (* wildcard *)
      apply andb_true_iff in L as [A T]. cbn [to_lucene]. destruct (bytes_eqb attr DEFAULT_FIELD) eqn:D.
      + rewrite (default_attr attr _ D). destruct (wild_start attr v rest A T D E) as (S & M & La).
        repeat split; auto.
      + rewrite (explicit_attr attr _ A D). apply Colon. apply attr_ok_raw; exact A.
  Qed.
End Leaves.

(* ---------- folding the items (visit_query) ---------- *)

Definition items_of (n : node) : list qitem :=
  match n with
  | NNot m => [QMod true; QClause (VOk m)]
  | _ => [QClause (VOk n)]
  end.

Fixpoint list_items (isor : bool) (ns : list node) : list qitem :=
  match ns with
  | [] => []
  | x :: r => QConj isor :: items_of x ++ list_items isor r
  end.

Notation finish := finish_query.

Lemma fold_items_nil df grp grps :
  fold_items df [] false grp grps = finish (new_boolean BOr (rev (new_boolean BAnd (rev grp) :: grps))).
Proof. reflexivity. Qed.

Lemma fold_items_of df x its grp grps :
  fold_items df (items_of x ++ its) false grp grps = fold_items df its false (x :: grp) grps.
Proof. destruct x; reflexivity. Qed.

Lemma fold_and df ns : forall grp grps,
  fold_items df (list_items false ns) false grp grps = fold_items df [] false (rev ns ++ grp) grps.
Proof.
  induction ns as [|y ns IH]; intros grp grps; [reflexivity|].
  cbn [list_items]. cbn [fold_items]. rewrite fold_items_of, IH. cbn [rev]. rewrite <- app_assoc. reflexivity.
Qed.

Lemma fold_or df ns : forall g grps,
  fold_items df (list_items true ns) false [g] grps = finish (new_boolean BOr (rev grps ++ g :: ns)).
Proof.
  induction ns as [|y ns IH]; intros g grps.
  - rewrite fold_items_nil. reflexivity.
  - cbn [list_items]. cbn [fold_items]. rewrite fold_items_of, IH. cbn [rev new_boolean].
    rewrite <- app_assoc. reflexivity.
Qed.

Theorem fold_and_list df x y ns :
  fold_query df (items_of x ++ list_items false (y :: ns)) = VOk (NBool BAnd (x :: y :: ns)).
Proof.
  unfold fold_query. rewrite fold_items_of, fold_and, fold_items_nil.
  rewrite rev_app_distr, rev_involutive. reflexivity.
Qed.

Theorem fold_or_list df x y ns :
  fold_query df (items_of x ++ list_items true (y :: ns)) = VOk (NBool BOr (x :: y :: ns)).
Proof. unfold fold_query. rewrite fold_items_of, fold_or. reflexivity. Qed.

Theorem fold_single df x : fold_query df (items_of x) = finish x.
Proof.
  unfold fold_query. rewrite <- (app_nil_r (items_of x)), fold_items_of, fold_items_nil. reflexivity.
Qed.

(* ---------- the end of a (sub)query ---------- *)

Section End.
  Variable sub : bytes -> bytes -> option (list qitem * bytes).

  Lemma parse_next_end rest : group_end rest = true -> parse_next sub DEFAULT_FIELD (skip rest) = None.
  Proof.
    destruct rest as [|c r]; [reflexivity|]. cbn [group_end]. intros H. apply N.eqb_eq in H. subst c. reflexivity.
  Qed.

  Lemma parse_more_end fuel rest : group_end rest = true -> parse_more sub fuel DEFAULT_FIELD rest = ([], rest).
  Proof. intros H. destruct fuel; [reflexivity|]. cbn [parse_more]. rewrite parse_next_end by exact H. reflexivity. Qed.
End End.

(* ---------- the induction over the tree ---------- *)

Lemma skip_length s : (List.length (skip s) <= List.length s)%nat.
Proof. induction s as [|c s IH]; cbn; [lia|]. destruct (is_ws c); cbn; lia. Qed.

Lemma skip_fix c r : skip (c :: r) = c :: r -> is_ws c = false.
Proof.
  cbn. destruct (is_ws c); [|reflexivity]. intros H. pose proof (skip_length r) as L. rewrite H in L. cbn in L. lia.
Qed.

Lemma multiterm_more_end fuel rest : group_end rest = true -> multiterm_more fuel rest = ([], rest).
Proof.
  intros H. destruct fuel; [reflexivity|]. destruct rest as [|c r]; [reflexivity|].
  cbn [group_end] in H. apply N.eqb_eq in H. subst c. reflexivity.
Qed.

Section Main.
  Variable fdisp : spec_float -> bytes.
  Variable fok : spec_float -> bool.
  Hypothesis Hfloat : forall f, fok f = true -> num_text_ok (fdisp f) (CFloat f).
  Notation tl := (to_lucene fdisp).
  Notation wrapped := (wrapped fdisp).
  Notation item_text := (item_text fdisp).
  Notation items_text := (items_text fdisp).
  Notation safe := (safe fok).
  Notation leaf_ok := (leaf_ok fok).

  (* n printed as a clause (in parentheses when it is a NOT or a list) *)
  Definition CL (n : node) : Prop :=
    forall f rest, (depth n <= f)%nat -> term_end rest = true ->
    parse_clause (parse_query f) DEFAULT_FIELD (wrapped n ++ rest) = Some (VOk n, rest).

  (* n printed as a whole (sub)query *)
  Definition QR (n : node) : Prop :=
    forall f rest, (depth n <= S f)%nat -> group_end rest = true ->
    exists items, parse_query (S f) DEFAULT_FIELD (tl n ++ rest) = Some (items, rest) /\
                  fold_query DEFAULT_FIELD items = finish n.

  (* n printed as an item of a list *)
  Definition IT (n : node) : Prop :=
    forall f rest, (depth n <= f)%nat -> term_end rest = true ->
    parse_mod_clause (parse_query f) DEFAULT_FIELD (item_text n ++ rest) = Some (items_of n, rest).

  Lemma leaf_shape n : leaf_ok n = true -> is_not_node n = false /\ is_bool_node n = false /\ is_none_node n = false.
  Proof. destruct n; cbn; intros H; try discriminate; auto. Qed.

  Lemma leaf_wrapped n : leaf_ok n = true -> wrapped n = tl n /\ item_text n = tl n /\ items_of n = [QClause (VOk n)].
  Proof.
    intros H. destruct (leaf_shape n H) as (A & B & _). unfold DdSearchQuery.wrapped. rewrite A, B.
    destruct n; try discriminate; repeat split; cbn [DdSearchQuery.item_text]; unfold DdSearchQuery.wrapped; cbn; reflexivity.
  Qed.

  Lemma leaf_nonws n rest : leaf_ok n = true -> skip (tl n ++ rest) = tl n ++ rest.
  Proof.
    intros L. destruct (tl n) as [|c r] eqn:E.
    - pose proof (leaf_clause (fun _ _ => None) fdisp fok Hfloat n [] L eq_refl) as H. rewrite E in H. discriminate.
    - destruct (leaf_start fdisp fok n [] L eq_refl) as (S & _). rewrite E, app_nil_r in S.
      cbn [app]. apply skip_head. apply (skip_fix c r S).
  Qed.

  Lemma leaf_CL n : leaf_ok n = true -> CL n.
  Proof.
    intros L f rest _ E. destruct (leaf_wrapped n L) as (-> & _). apply leaf_clause with (fok := fok); auto.
  Qed.

  Lemma leaf_IT n : leaf_ok n = true -> IT n.
  Proof.
    intros L f rest _ E. destruct (leaf_wrapped n L) as (_ & -> & ->).
    unfold parse_mod_clause. destruct (leaf_start fdisp fok n rest L E) as (S & M & _).
    rewrite M, S. rewrite (leaf_clause _ fdisp fok Hfloat n rest L E). reflexivity.
  Qed.

  Lemma leaf_QR n : leaf_ok n = true -> QR n.
  Proof.
    intros L f rest _ G. pose proof (group_end_term_end rest G) as E.
    destruct (leaf_start fdisp fok n rest L E) as (S & M & La).
    cbn [parse_query]. unfold parse_query_body, parse_multiterm, multiterm_item.
    destruct (is_default_term n) eqn:D.
    - (* a bare term: read as a multiterm of one *)
      destruct n; try discriminate. cbn [is_default_term] in D. apply bytes_eqb_eq in D. subst attr.
      cbn [DdSearchQuery.leaf_ok] in L. apply andb_true_iff in L as [_ T].
      change (tl (NTerm DdSearch.DEFAULT_FIELD v)) with (lucene_escape v) in *.
      assert (multiterm_lookahead (lucene_escape v ++ rest) = true) as ->.
      { unfold multiterm_lookahead. rewrite (lex_term_escaped v rest T (term_end_stops rest E)).
        destruct rest as [|c r]; [reflexivity|]. cbn [group_end] in G. apply N.eqb_eq in G. subst c. reflexivity. }
      rewrite S, (lex_term_escaped v rest T (term_end_stops rest E)).
      rewrite (multiterm_more_end _ rest G), (parse_more_end _ _ rest G).
      eexists. split; [reflexivity|]. cbn. rewrite unescape_lucene_escape. reflexivity.
    - rewrite (La (or_intror eq_refl)). unfold parse_mod_clause. rewrite M, S.
      rewrite (leaf_clause _ fdisp fok Hfloat n rest L E). cbn [app]. rewrite (parse_more_end _ _ rest G).
      eexists. split; [reflexivity|]. destruct (leaf_wrapped n L) as (_ & _ & <-). apply fold_single.
  Qed.

  (* a parenthesised NOT / list is read through the sub-query *)
  Lemma clause_of_query n :
    is_not_node n || is_bool_node n = true -> is_not_all n = false ->
    (forall rest, skip (tl n ++ rest) = tl n ++ rest) -> QR n -> CL n.
  Proof.
    intros W NA Hs Hq f rest D E. unfold DdSearchQuery.wrapped. rewrite W.
    destruct f as [|f].
    { destruct n; cbn in W; try discriminate; cbn in D; lia. }
    destruct (Hq f (41 :: rest) D eq_refl) as (items & Pq & Fq).
    rewrite parse_clause_eq. unfold paren. cbn [app]. rewrite <- app_assoc. cbn [app].
    change (strip_prefix (bs "*:*") (40 :: tl n ++ 41 :: rest)) with (@None bytes).
    change (parse_field_opt (40 :: tl n ++ 41 :: rest)) with (@None bytes, 40 :: tl n ++ 41 :: rest).
    cbv beta iota zeta.
    change (skip (40 :: tl n ++ 41 :: rest)) with (40 :: tl n ++ 41 :: rest).
    change (parse_value (40 :: tl n ++ 41 :: rest)) with (@None (pvalue * bytes)).
    change (strip_prefix [40] (40 :: tl n ++ 41 :: rest)) with (Some (tl n ++ 41 :: rest)).
    cbv beta iota. rewrite Hs. cbn [or_default]. rewrite Pq.
    change (strip_prefix [41] (skip (41 :: rest))) with (Some rest).
    cbv beta iota. rewrite Fq. destruct n; try discriminate; try reflexivity.
    destruct n; try reflexivity. discriminate.
  Qed.

  (* --- items --- *)

  Lemma not_item m :
    CL m -> (forall rest, skip (wrapped m ++ rest) = wrapped m ++ rest) ->
    forall f rest, (depth m <= f)%nat -> term_end rest = true ->
    parse_mod_clause (parse_query f) DEFAULT_FIELD (bs "NOT " ++ wrapped m ++ rest) = Some (items_of (NNot m), rest).
  Proof.
    intros Hc Hs f rest D E. unfold parse_mod_clause.
    change (parse_modifiers (bs "NOT " ++ wrapped m ++ rest)) with (Some (true, 32 :: wrapped m ++ rest)).
    cbv beta iota. change (skip (32 :: wrapped m ++ rest)) with (skip (wrapped m ++ rest)).
    rewrite Hs, (Hc f rest D E). reflexivity.
  Qed.

  Lemma paren_nonws X rest : skip (paren X ++ rest) = paren X ++ rest.
  Proof. reflexivity. Qed.

  (* the first character of what is printed for a safe node is not a blank *)
  Lemma wrapped_nonws n rest :
    safe n = true -> is_none_node n = false -> skip (wrapped n ++ rest) = wrapped n ++ rest.
  Proof.
    intros S N. unfold DdSearchQuery.wrapped. destruct (is_not_node n || is_bool_node n) eqn:W; [reflexivity|].
    apply leaf_nonws. destruct n; try discriminate; exact S.
  Qed.

  Lemma item_nonws n rest :
    safe n = true -> is_none_node n = false -> skip (item_text n ++ rest) = item_text n ++ rest.
  Proof.
    intros S N. destruct n; try (apply wrapped_nonws; assumption). reflexivity.
  Qed.

  Lemma and_items_not_not ns :
    forallb (item_ok fok BAnd) ns = true -> forallb (fun y => negb (is_not_not y)) ns = true.
  Proof.
    induction ns as [|y ns IH]; [reflexivity|]. cbn [forallb]. intros H. apply andb_true_iff in H as [Hy H].
    unfold item_ok in Hy. apply andb_true_iff in Hy as [_ Hy]. rewrite Hy, IH; auto.
  Qed.

  Lemma tl_list op x ns :
    forallb (item_ok fok op) (x :: ns) = true -> tl (NBool op (x :: ns)) = item_text x ++ items_text op ns.
  Proof.
    intros H. destruct op; [apply tl_and; apply and_items_not_not; exact H | apply tl_or].
  Qed.

  Lemma item_ok_parts op x :
    item_ok fok op x = true -> is_none_node x = false /\ safe x = true.
  Proof.
    unfold item_ok. intros H. apply andb_true_iff in H as [H _]. apply andb_true_iff in H as [N S].
    apply negb_true_iff in N. auto.
  Qed.

  Lemma tl_nonws n rest : safe n = true -> skip (tl n ++ rest) = tl n ++ rest.
  Proof.
    intros S. destruct n; try (apply leaf_nonws; exact S); try reflexivity.
    - rewrite tl_not. reflexivity.
    - rewrite safe_bool in S. apply andb_true_iff in S as [L F].
      destruct ns as [|x ns]; [discriminate|]. rewrite (tl_list op x ns F).
      cbn [forallb] in F. apply andb_true_iff in F as [Fx F]. destruct (item_ok_parts op x Fx) as [Nx Sx].
      rewrite <- app_assoc. apply item_nonws; assumption.
  Qed.

  (* an item that is not a negation *)
  Lemma plain_item x :
    is_not_node x = false -> is_none_node x = false -> safe x = true -> CL x ->
    forall f rest, (depth x <= f)%nat -> term_end rest = true ->
    parse_mod_clause (parse_query f) DEFAULT_FIELD (item_text x ++ rest) = Some (items_of x, rest).
  Proof.
    intros NN N S Hc f rest D E.
    assert (item_text x = wrapped x /\ items_of x = [QClause (VOk x)]) as [-> ->].
    { destruct x; try discriminate; split; reflexivity. }
    unfold parse_mod_clause.
    assert (parse_modifiers (wrapped x ++ rest) = None) as ->.
    { unfold DdSearchQuery.wrapped. rewrite NN. cbn [orb]. destruct (is_bool_node x) eqn:B; [reflexivity|].
      assert (leaf_ok x = true) as L by (destruct x; try discriminate; exact S).
      apply (leaf_start fdisp fok x rest L E). }
    rewrite (wrapped_nonws x rest S N), (Hc f rest D E). reflexivity.
  Qed.

  (* in first position the text of an item is not taken for a multiterm *)
  Lemma first_no_multiterm x rest :
    safe x = true -> is_none_node x = false -> follows_conj rest = true ->
    parse_multiterm (item_text x ++ rest) = None.
  Proof.
    intros S N F. unfold parse_multiterm, multiterm_item.
    assert (multiterm_lookahead (item_text x ++ rest) = false) as ->; [|reflexivity].
    destruct x; try discriminate; try reflexivity;
      try (apply (leaf_start fdisp fok _ rest S (follows_conj_term_end rest F)); left; exact F).
    (* a parenthesised / negated list *)
    all: cbn [DdSearchQuery.item_text]; unfold DdSearchQuery.wrapped; cbn [is_not_node is_bool_node orb]; reflexivity.
  Qed.

  Lemma sep_follows op X : follows_conj (sep op ++ X) = true.
  Proof. destruct op; reflexivity. Qed.

  Lemma items_text_end op ns rest :
    group_end rest = true -> term_end (items_text op ns ++ rest) = true.
  Proof.
    intros G. destruct ns as [|x ns]; [apply group_end_term_end; exact G|]. destruct op; reflexivity.
  Qed.

  Lemma items_text_length op ns rest : (List.length ns <= List.length (items_text op ns ++ rest))%nat.
  Proof.
    induction ns as [|x ns IH]; [cbn; lia|]. cbn [DdSearchQuery.items_text]. rewrite <- !app_assoc, !app_length.
    rewrite app_length in IH. assert (1 <= List.length (sep op))%nat by (destruct op; cbn; lia). cbn [List.length]. lia.
  Qed.

  (* the rest of a list: ( AND|OR item )* up to the end of the (sub)query *)
  Lemma more_items op f ns : forall fuel rest,
    Forall (fun x => IT x /\ safe x = true /\ is_none_node x = false /\ (depth x <= f)%nat) ns ->
    (List.length ns <= fuel)%nat -> group_end rest = true ->
    parse_more (parse_query f) fuel DEFAULT_FIELD (items_text op ns ++ rest) =
    (list_items (match op with BAnd => false | BOr => true end) ns, rest).
  Proof.
    induction ns as [|y ns IH]; intros fuel rest HF L G.
    - apply parse_more_end; exact G.
    - inversion HF as [|? ? (Hit & Sy & Ny & Dy) HF']; subst. destruct fuel as [|fuel]; [cbn in L; lia|].
      cbn [DdSearchQuery.items_text]. rewrite <- !app_assoc. cbn [parse_more].
      set (R := items_text op ns ++ rest).
      assert (term_end R = true) as ER by (apply items_text_end; exact G).
      assert (parse_next (parse_query f) DEFAULT_FIELD (skip (sep op ++ item_text y ++ R)) =
              Some (QConj (match op with BAnd => false | BOr => true end) :: items_of y, R)) as ->.
      { unfold parse_next. destruct op.
        - change (skip (sep BAnd ++ item_text y ++ R)) with (bs "AND" ++ 32 :: item_text y ++ R).
          change (parse_multiterm (bs "AND" ++ 32 :: item_text y ++ R)) with (@None (list bytes * bytes)).
          change (parse_conjunction (bs "AND" ++ 32 :: item_text y ++ R)) with (Some (false, 32 :: item_text y ++ R)).
          cbv beta iota. change (skip (32 :: item_text y ++ R)) with (skip (item_text y ++ R)).
          rewrite (item_nonws y R Sy Ny), (Hit f R Dy ER). reflexivity.
        - change (skip (sep BOr ++ item_text y ++ R)) with (bs "OR" ++ 32 :: item_text y ++ R).
          change (parse_multiterm (bs "OR" ++ 32 :: item_text y ++ R)) with (@None (list bytes * bytes)).
          change (parse_conjunction (bs "OR" ++ 32 :: item_text y ++ R)) with (Some (true, 32 :: item_text y ++ R)).
          cbv beta iota. change (skip (32 :: item_text y ++ R)) with (skip (item_text y ++ R)).
          rewrite (item_nonws y R Sy Ny), (Hit f R Dy ER). reflexivity. }
      unfold R. rewrite (IH fuel rest HF'); [reflexivity | cbn in L; lia | exact G].
  Qed.

  (* --- the tree --- *)

  Definition good (n : node) : Prop :=
    safe n = true ->
    QR n /\ (is_none_node n = false -> IT n /\ (is_not_all n = false -> CL n)).

  Lemma max_depth_le f ns :
    (fold_right (fun x m => Nat.max (depth x) m) O ns <= f)%nat -> Forall (fun x => (depth x <= f)%nat) ns.
  Proof.
    induction ns as [|x ns IH]; [constructor|]. cbn [fold_right]. intros H. constructor; [lia|]. apply IH. lia.
  Qed.

  Lemma children_items op f ns :
    Forall good ns -> forallb (item_ok fok op) ns = true -> Forall (fun x => (depth x <= f)%nat) ns ->
    Forall (fun x => IT x /\ safe x = true /\ is_none_node x = false /\ (depth x <= f)%nat) ns.
  Proof.
    induction ns as [|x ns IH]; intros HG HF HD; [constructor|].
    inversion HG; subst. inversion HD; subst. cbn [forallb] in HF. apply andb_true_iff in HF as [Hx HF].
    destruct (item_ok_parts op x Hx) as [Nx Sx]. constructor; [|apply IH; auto].
    destruct (H1 Sx) as [_ Hit]. destruct (Hit Nx) as [It _]. auto.
  Qed.

  Theorem all_good n : good n.
  Proof.
    induction n using node_ind'; intros S.
    - (* *:* *) split; [apply leaf_QR; exact S | intros _; split; [apply leaf_IT; exact S | intros _; apply leaf_CL; exact S]].
    - (* -*:* *) split; [|discriminate]. intros f rest _ G. exists [QMod true; QClause (VOk NAll)]. split; [|reflexivity].
      cbn [parse_query]. unfold parse_query_body.
      change (parse_multiterm (tl NNone ++ rest)) with (@None (list bytes * bytes)).
      change (parse_mod_clause (parse_query f) DEFAULT_FIELD (tl NNone ++ rest))
        with (Some ([QMod true; QClause (VOk NAll)], rest)).
      cbv beta iota. rewrite (parse_more_end _ _ rest G). reflexivity.
    - split; [apply leaf_QR; exact S | intros _; split; [apply leaf_IT; exact S | intros _; apply leaf_CL; exact S]].
    - split; [apply leaf_QR; exact S | intros _; split; [apply leaf_IT; exact S | intros _; apply leaf_CL; exact S]].
    - split; [apply leaf_QR; exact S | intros _; split; [apply leaf_IT; exact S | intros _; apply leaf_CL; exact S]].
    - split; [apply leaf_QR; exact S | intros _; split; [apply leaf_IT; exact S | intros _; apply leaf_CL; exact S]].
    - split; [apply leaf_QR; exact S | intros _; split; [apply leaf_IT; exact S | intros _; apply leaf_CL; exact S]].
    - split; [apply leaf_QR; exact S | intros _; split; [apply leaf_IT; exact S | intros _; apply leaf_CL; exact S]].
    - split; [apply leaf_QR; exact S | intros _; split; [apply leaf_IT; exact S | intros _; apply leaf_CL; exact S]].
    - split; [apply leaf_QR; exact S | intros _; split; [apply leaf_IT; exact S | intros _; apply leaf_CL; exact S]].
    - (* NOT *)
      cbn [DdSearchQuery.safe] in S. apply andb_true_iff in S as [S Sm]. apply andb_true_iff in S as [Nm NAm].
      apply negb_true_iff in Nm, NAm. destruct (IHn Sm) as [_ Hm]. destruct (Hm Nm) as [_ Hcl].
      specialize (Hcl NAm). pose proof (fun rest => wrapped_nonws n rest Sm Nm) as Hs.
      assert (QR (NNot n)) as Hq.
      { intros f rest D G. cbn [depth] in D. exists (items_of (NNot n)). split; [|apply fold_single].
        cbn [parse_query]. unfold parse_query_body. rewrite tl_not, <- app_assoc.
        change (parse_multiterm (bs "NOT " ++ wrapped n ++ rest)) with (@None (list bytes * bytes)).
        rewrite (not_item n Hcl Hs f rest) by (try lia; apply group_end_term_end; exact G).
        rewrite (parse_more_end _ _ rest G). reflexivity. }
      split; [exact Hq|]. intros _. split.
      + intros f rest D E. cbn [depth] in D. cbn [DdSearchQuery.item_text]. rewrite <- app_assoc.
        apply not_item; auto. lia.
      + intros NA. apply clause_of_query; auto. intros rest. apply tl_nonws.
        cbn [DdSearchQuery.safe]. rewrite Nm, NAm, Sm. reflexivity.
    - (* lists *)
      pose proof S as S0. rewrite safe_bool in S. apply andb_true_iff in S as [L F].
      destruct ns as [|x [|y ns]]; try discriminate.
      assert (QR (NBool op (x :: y :: ns))) as Hq.
      { intros f rest D G. rewrite depth_bool in D. apply le_S_n in D. apply max_depth_le in D.
        pose proof (children_items op f _ H F D) as HI. inversion HI as [|? ? (Itx & Sx & Nx & Dx) HI']; subst.
        exists (items_of x ++ list_items (match op with BAnd => false | BOr => true end) (y :: ns)).
        split; [|destruct op; [apply fold_and_list | apply fold_or_list]].
        cbn [parse_query]. unfold parse_query_body. rewrite (tl_list op x (y :: ns) F), <- app_assoc.
        set (R := items_text op (y :: ns) ++ rest).
        assert (follows_conj R = true) as FR.
        { unfold R. cbn [DdSearchQuery.items_text]. rewrite <- app_assoc. apply sep_follows. }
        rewrite (first_no_multiterm x R Sx Nx FR).
        rewrite (Itx f R Dx (follows_conj_term_end R FR)).
        unfold R. rewrite (more_items op f (y :: ns) _ rest HI' (items_text_length op (y :: ns) rest) G).
        reflexivity. }
      split; [exact Hq|]. intros _.
      assert (CL (NBool op (x :: y :: ns))) as Hc.
      { apply clause_of_query; auto. intros rest. apply tl_nonws. exact S0. }
      split; [|intros _; exact Hc]. intros f rest D E. apply plain_item; auto.
  Qed.

  (* --- fuel: the nesting depth is below the length of the text --- *)

  Lemma wrapped_length n : (List.length (tl n) <= List.length (wrapped n))%nat.
  Proof.
    unfold DdSearchQuery.wrapped. destruct (is_not_node n || is_bool_node n); [|lia].
    unfold paren. cbn [List.length]. rewrite app_length. lia.
  Qed.

  Lemma item_length n : (List.length (tl n) <= List.length (item_text n))%nat.
  Proof. destruct n; try apply wrapped_length. rewrite tl_not. cbn [DdSearchQuery.item_text]. lia. Qed.

  Lemma items_length op ns c :
    In c ns -> (List.length (item_text c) + 4 <= List.length (items_text op ns))%nat.
  Proof.
    induction ns as [|y ns IH]; [contradiction|]. cbn [DdSearchQuery.items_text]. rewrite !app_length.
    assert (4 <= List.length (sep op))%nat by (destruct op; cbn; lia).
    intros [->|Hc]; [lia | specialize (IH Hc); lia].
  Qed.

  Lemma depth_le_length n : safe n = true -> (depth n <= List.length (tl n))%nat.
  Proof.
    induction n using node_ind'; intros S; try (cbn [depth]; lia).
    - cbn [DdSearchQuery.safe] in S. apply andb_true_iff in S as [_ Sm]. specialize (IHn Sm).
      rewrite tl_not, app_length. pose proof (wrapped_length n). cbn [depth]. cbn [List.length bs]. lia.
    - rewrite safe_bool in S. apply andb_true_iff in S as [L F].
      destruct ns as [|x [|y ns]]; try discriminate. rewrite (tl_list op x (y :: ns) F), app_length, depth_bool.
      assert (forall c, In c (x :: y :: ns) ->
                (depth c + 4 <= List.length (item_text x) + List.length (items_text op (y :: ns)))%nat) as B.
      { intros c Hc. rewrite Forall_forall in H. rewrite forallb_forall in F.
        destruct (item_ok_parts op c (F c Hc)) as [_ Sc]. pose proof (H c Hc Sc) as Dc. pose proof (item_length c) as Lc.
        destruct Hc as [->|Hc].
        - assert (4 <= List.length (items_text op (y :: ns)))%nat.
          { cbn [DdSearchQuery.items_text]. rewrite app_length. destruct op; cbn; lia. }
          lia.
        - pose proof (items_length op (y :: ns) c Hc). lia. }
      assert (forall l, (forall c, In c l -> In c (x :: y :: ns)) ->
                (fold_right (fun x m => Nat.max (depth x) m) O l + 4
                 <= List.length (item_text x) + List.length (items_text op (y :: ns)))%nat) as M.
      { induction l as [|c l IHl]; intros Hl; cbn [fold_right].
        - pose proof (B x (or_introl eq_refl)). lia.
        - pose proof (B c (Hl c (or_introl eq_refl))). assert (forall c0, In c0 l -> In c0 (x :: y :: ns)) as Hl'.
          { intros c0 Hc0. apply Hl. right. exact Hc0. }
          specialize (IHl Hl'). lia. }
      specialize (M (x :: y :: ns) (fun c Hc => Hc)). lia.
  Qed.

  (* --- the round trip of a whole tree --- *)

  Theorem roundtrip n :
    safe n = true -> is_not_all n = false -> all_whitespace (tl n) = false ->
    parse (tl n) = PRNode n.
  Proof.
    intros S NA W. unfold parse. rewrite W.
    destruct (all_good n S) as [Hq _].
    destruct (Hq (List.length (tl n)) [] (Nat.le_trans _ _ _ (depth_le_length n S) (Nat.le_succ_diag_r _)) eq_refl)
      as (items & Pq & Fq).
    rewrite app_nil_r in Pq. rewrite Pq. cbn [skip]. rewrite Fq.
    destruct n; try reflexivity. destruct n; try reflexivity. discriminate.
  Qed.
End Main.

(* the parser never answers NOT *:* for a whole query (visit_query turns it into MatchNoDocs) *)
Lemma finish_not_all q n : finish q = VOk n -> is_not_all n = false.
Proof.
  destruct q; cbn; intros H; inversion H; subst; try reflexivity.
  destruct q; inversion H; subst; reflexivity.
Qed.

Lemma fold_items_not_all df items : forall b grp grps n,
  fold_items df items b grp grps = VOk n -> is_not_all n = false.
Proof.
  induction items as [|it items IH]; intros b grp grps n H.
  - cbn [fold_items] in H. apply finish_not_all in H. exact H.
  - cbn [fold_items] in H. destruct it as [ts|[|]|[|]|[m|]]; try (eapply IH; exact H). discriminate.
Qed.

Theorem parse_not_all q n : parse q = PRNode n -> is_not_all n = false.
Proof.
  unfold parse. destruct (all_whitespace q); [intros H; inversion H; reflexivity|].
  destruct (parse_query _ _ q) as [[items rest]|]; [|discriminate].
  destruct (skip rest); [|discriminate].
  destruct (fold_query DEFAULT_FIELD items) eqn:F; [|discriminate].
  intros H; inversion H; subst. unfold fold_query in F. eapply fold_items_not_all; exact F.
Qed.

(* the property in its own words: what the parser produced, printed and parsed again *)
Theorem text_roundtrip fdisp fok :
  (forall f, fok f = true -> num_text_ok (fdisp f) (CFloat f)) ->
  forall q n, parse q = PRNode n -> safe fok n = true -> all_whitespace (to_lucene fdisp n) = false ->
  parse (to_lucene fdisp n) = parse q.
Proof.
  intros Hf q n P S W. rewrite P. apply roundtrip with (fok := fok); auto. apply (parse_not_all q n P).
Qed.
