(* Basic lemmas for the Kind model: association lists, membership unfolding, monotonicity of
   membership in the flags it does not look at, the infinite kinds. *)
From Coq Require Import List NArith ZArith Bool Lia.
From VRL Require Import Base.Bytes Base.Value Model.ValueCrud Model.Kind Proofs.ValueCrudProofs.
Import ListNotations.

(* ---------- association lists ---------- *)

Section AssocLemmas.
  Context {K A : Type}.
  Variable keqb : K -> K -> bool.
  Variable kcmp : K -> K -> comparison.
  Hypothesis keqb_spec : forall a b, keqb a b = true <-> a = b.
  Hypothesis kcmp_spec : forall a b, kcmp a b = Eq <-> a = b.

  Lemma keqb_refl a : keqb a a = true.
  Proof. apply keqb_spec; reflexivity. Qed.

  Lemma keqb_neq a b : a <> b -> keqb a b = false.
  Proof. intros H. destruct (keqb a b) eqn:E; auto. apply keqb_spec in E. contradiction. Qed.

  Lemma aget_aset_same (m : list (K * A)) k x : aget keqb (aset kcmp m k x) k = Some x.
  Proof.
    induction m as [|[k' y] m IH]; cbn.
    - rewrite keqb_refl; reflexivity.
    - destruct (kcmp k' k) eqn:E; cbn.
      + rewrite keqb_refl; reflexivity.
      + rewrite keqb_neq; auto. intros ->. rewrite (proj2 (kcmp_spec k k) eq_refl) in E. discriminate.
      + rewrite keqb_refl; reflexivity.
  Qed.

  Lemma aget_aset_other (m : list (K * A)) k k' x : k' <> k -> aget keqb (aset kcmp m k x) k' = aget keqb m k'.
  Proof.
    intros Hne. induction m as [|[k0 y] m IH]; cbn.
    - rewrite keqb_neq; auto.
    - destruct (kcmp k0 k) eqn:E; cbn.
      + apply kcmp_spec in E; subst k0. rewrite keqb_neq; auto.
      + destruct (keqb k0 k'); auto.
      + rewrite (keqb_neq k k'); auto.
  Qed.

  Lemma aget_aset (m : list (K * A)) k k' x :
    aget keqb (aset kcmp m k x) k' = if keqb k k' then Some x else aget keqb m k'.
  Proof.
    destruct (keqb k k') eqn:E.
    - apply keqb_spec in E; subst. apply aget_aset_same.
    - apply aget_aset_other. intros ->. rewrite keqb_refl in E. discriminate.
  Qed.

  Lemma aget_adel (m : list (K * A)) k k' :
    aget keqb (adel keqb m k) k' = if keqb k k' then None else aget keqb m k'.
  Proof.
    unfold adel. induction m as [|[k0 y] m IH]; cbn.
    - destruct (keqb k k'); reflexivity.
    - destruct (keqb k0 k) eqn:E0; cbn.
      + apply keqb_spec in E0; subst k0. rewrite IH. destruct (keqb k k'); reflexivity.
      + rewrite IH. destruct (keqb k k') eqn:E1; auto.
        apply keqb_spec in E1; subst k'. rewrite E0. reflexivity.
  Qed.

  Lemma aget_amap (f : K -> A -> A) (m : list (K * A)) k :
    aget keqb (amap f m) k = option_map (f k) (aget keqb m k).
  Proof.
    unfold amap. induction m as [|[k0 y] m IH]; cbn; auto.
    destruct (keqb k0 k) eqn:E; auto. apply keqb_spec in E; subst. reflexivity.
  Qed.

  Lemma aget_map_val (f : A -> A) (m : list (K * A)) k :
    aget keqb (map (fun kv => (fst kv, f (snd kv))) m) k = option_map f (aget keqb m k).
  Proof.
    induction m as [|[k0 y] m IH]; cbn; auto. destruct (keqb k0 k); auto.
  Qed.

  Lemma aget_filter (P : K -> bool) (m : list (K * A)) k :
    aget keqb (filter (fun kv => P (fst kv)) m) k = if P k then aget keqb m k else None.
  Proof.
    induction m as [|[k0 y] m IH]; cbn.
    - destruct (P k); reflexivity.
    - destruct (P k0) eqn:E0; cbn.
      + destruct (keqb k0 k) eqn:E; auto. apply keqb_spec in E; subst. rewrite E0. reflexivity.
      + rewrite IH. destruct (keqb k0 k) eqn:E; auto. apply keqb_spec in E; subst. rewrite E0. reflexivity.
  Qed.

  Lemma aget_aset_all (m l : list (K * A)) k :
    aget keqb (aset_all kcmp m l) k = match aget keqb l k with Some x => Some x | None => aget keqb m k end.
  Proof.
    unfold aset_all. induction l as [|[k0 y] l IH]; cbn; auto.
    rewrite aget_aset. cbn. destruct (keqb k0 k); auto.
  Qed.

  Lemma aget_in (m : list (K * A)) k x : aget keqb m k = Some x -> In (k, x) m.
  Proof.
    induction m as [|[k0 y] m IH]; cbn; [discriminate|].
    destruct (keqb k0 k) eqn:E.
    - apply keqb_spec in E; subst. intros H; inversion H; auto.
    - auto.
  Qed.

  Lemma in_keys_aget (m : list (K * A)) k : In k (map fst m) <-> aget keqb m k <> None.
  Proof.
    induction m as [|[k0 y] m IH]; cbn.
    - split; [tauto | congruence].
    - destruct (keqb k0 k) eqn:E.
      + apply keqb_spec in E; subst. split; [congruence | auto].
      + rewrite <- IH. split; [intros [->|H]; auto; rewrite keqb_refl in E; discriminate | auto].
  Qed.

  Lemma ahas_true (m : list (K * A)) k : ahas keqb m k = true <-> In k (map fst m).
  Proof.
    unfold ahas. rewrite in_keys_aget. destruct (aget keqb m k); cbn; split; congruence.
  Qed.
End AssocLemmas.

Lemma nat_eqb_spec' a b : Nat.eqb a b = true <-> a = b.
Proof. apply Nat.eqb_eq. Qed.
Lemma nat_cmp_spec' a b : Nat.compare a b = Eq <-> a = b.
Proof. apply Nat.compare_eq_iff. Qed.

(* ---------- forallb_i ---------- *)

Lemma forallb_i_spec {A} (f : nat -> A -> bool) l : forall s,
  forallb_i f s l = true <-> (forall i x, nth_error l i = Some x -> f (s + i) x = true).
Proof.
  induction l as [|y l IH]; intros s; cbn.
  - split; auto. intros _ [|i] x; discriminate.
  - rewrite andb_true_iff, IH. split.
    + intros [H0 H] [|i] x; cbn.
      * intros E; inversion E; subst. rewrite Nat.add_0_r. auto.
      * intros E. replace (s + S i) with (S s + i) by lia. auto.
    + intros H. split.
      * specialize (H 0 y eq_refl). rewrite Nat.add_0_r in H. auto.
      * intros i x E. replace (S s + i) with (s + S i) by lia. apply H. auto.
Qed.

(* ---------- membership, unfolded ---------- *)

Definition arr_ok (vs : list value) (c : acoll) : bool :=
  forallb_i (fun i x => member x (coll_at Nat.eqb c i)) 0 vs
  && forallb (fun i => Nat.ltb i (length vs) || p_undefined (prims_of (coll_at Nat.eqb c i))) (map fst (known c)).

Definition obj_ok (kvs : list (bytes * value)) (c : ocoll) : bool :=
  forallb (fun kv => member (snd kv) (coll_at bytes_eqb c (fst kv))) kvs
  && forallb (fun f => is_some (obj_get kvs f) || p_undefined (prims_of (coll_at bytes_eqb c f))) (map fst (known c)).

Lemma member_arr vs k :
  member (VArr vs) k = match arr_of k with None => false | Some c => arr_ok vs c end.
Proof.
  cbn [member]. destruct (arr_of k) as [c|]; auto. unfold arr_ok. f_equal.
  generalize 0. induction vs as [|x r IH]; intros s; cbn; auto; rewrite IH; reflexivity.
Qed.

Lemma member_obj kvs k :
  member (VObj kvs) k = match obj_of k with None => false | Some c => obj_ok kvs c end.
Proof.
  cbn [member]. destruct (obj_of k) as [c|]; reflexivity.
Qed.

Lemma arr_ok_spec vs c :
  arr_ok vs c = true <->
  (forall i x, nth_error vs i = Some x -> member x (coll_at Nat.eqb c i) = true)
  /\ (forall i kk, aget Nat.eqb (known c) i = Some kk -> length vs <= i -> p_undefined (prims_of kk) = true).
Proof.
  unfold arr_ok. rewrite andb_true_iff, forallb_i_spec, forallb_forall. cbn [Nat.add]. split.
  - intros [H1 H2]. split; auto. intros i kk E Hl.
    assert (In i (map fst (known c))) as Hin.
    { apply (in_keys_aget Nat.eqb nat_eqb_spec'). congruence. }
    specialize (H2 _ Hin). unfold coll_at in H2. rewrite E in H2.
    destruct (Nat.ltb_spec i (length vs)); [lia | exact H2].
  - intros [H1 H2]. split; auto. intros i Hin.
    apply (in_keys_aget Nat.eqb nat_eqb_spec') in Hin.
    destruct (Nat.ltb_spec i (length vs)); auto. cbn [orb].
    unfold coll_at. destruct (aget Nat.eqb (known c) i) eqn:E; [|congruence]. eauto.
Qed.

Lemma obj_get_in m f w : obj_get m f = Some w -> In (f, w) m.
Proof.
  induction m as [|[k y] m IH]; cbn; [discriminate|].
  destruct (bytes_eqb k f) eqn:E.
  - apply bytes_eqb_eq in E; subst. intros H; inversion H; auto.
  - auto.
Qed.

Lemma obj_ok_spec kvs c :
  obj_ok kvs c = true <->
  (forall f w, In (f, w) kvs -> member w (coll_at bytes_eqb c f) = true)
  /\ (forall f kk, aget bytes_eqb (known c) f = Some kk -> obj_get kvs f = None -> p_undefined (prims_of kk) = true).
Proof.
  unfold obj_ok. rewrite andb_true_iff, !forallb_forall. split.
  - intros [H1 H2]. split.
    + intros f w Hin. apply (H1 (f, w)); auto.
    + intros f kk E Hn.
      assert (In f (map fst (known c))) as Hin.
      { apply (in_keys_aget bytes_eqb bytes_eqb_eq). congruence. }
      specialize (H2 _ Hin). unfold coll_at in H2. rewrite E, Hn in H2. auto.
  - intros [H1 H2]. split.
    + intros [f w] Hin. cbn. auto.
    + intros f Hin. apply (in_keys_aget bytes_eqb bytes_eqb_eq) in Hin.
      destruct (obj_get kvs f) eqn:Eg; auto. cbn.
      unfold coll_at. destruct (aget bytes_eqb (known c) f) eqn:E; [|congruence]. eauto.
Qed.

(* ---------- membership only looks at the defined flags and the collections ---------- *)

Definition same_defined (k k' : kind) : Prop :=
  p_set_undefined (prims_of k) false = p_set_undefined (prims_of k') false
  /\ arr_of k = arr_of k' /\ obj_of k = obj_of k'.

Lemma member_same_defined v k k' : same_defined k k' -> member v k = member v k'.
Proof.
  intros (Hp & Ha & Ho). destruct k as [p a o], k' as [p' a' o']. cbn in *. subst a' o'.
  destruct p, p'. cbn in Hp. inversion Hp; subst.
  destruct v; reflexivity.
Qed.

Lemma member_or_undefined v k : member v (or_undefined k) = member v k.
Proof. apply member_same_defined. destruct k as [[] a o]; repeat split. Qed.

Lemma member_remove_undefined v k : member v (remove_undefined k) = member v k.
Proof. apply member_same_defined. destruct k as [[] a o]; repeat split. Qed.

Lemma member_unknown_kind_exact v x : member v (unknown_kind_u (UExact x)) = member v x.
Proof. unfold unknown_kind_u, existing_kind. rewrite member_or_undefined, member_remove_undefined. reflexivity. Qed.

Lemma member_unknown_kind_inf v i : member v (unknown_kind_u (UInf i)) = member v (kind_of_inf i).
Proof. unfold unknown_kind_u, existing_kind. rewrite member_or_undefined, member_remove_undefined. reflexivity. Qed.

Lemma p_undefined_unknown_kind u : p_undefined (prims_of (unknown_kind_u u)) = true.
Proof. unfold unknown_kind_u. destruct (existing_kind u) as [[] a o]; reflexivity. Qed.

Lemma p_undefined_or_undefined k : p_undefined (prims_of (or_undefined k)) = true.
Proof. destruct k as [[] a o]; reflexivity. Qed.

Lemma member_or_null v k : member v k = true -> member v (or_null k) = true.
Proof.
  destruct k as [[] a o]. destruct v; cbn; auto.
Qed.

Lemma member_null_or_null k : member VNull (or_null k) = true.
Proof. destruct k as [[] a o]; reflexivity. Qed.

(* a value is never a member of a kind that has no defined state *)
Lemma member_is_undefined v k : is_undefined k = true -> member v k = false.
Proof.
  destruct k as [[] a o]. unfold is_undefined, p_is_none. cbn.
  rewrite !andb_true_iff, !negb_true_iff, !orb_false_iff.
  intros [[H Ha] Ho]. destruct a, o; try discriminate.
  decompose [and] H; subst. destruct v; reflexivity.
Qed.

Lemma member_never v : member v k_never = false.
Proof. destruct v; reflexivity. Qed.

Lemma member_is_never v k : is_never k = true -> member v k = false.
Proof.
  destruct k as [[] a o]. unfold is_never, p_is_none. cbn.
  rewrite !andb_true_iff, !negb_true_iff, !orb_false_iff.
  intros [[H Ha] Ho]. destruct a, o; try discriminate.
  decompose [and] H; subst. destruct v; reflexivity.
Qed.

(* ---------- infinite kinds ---------- *)

Lemma coll_at_inf {K} (keqb : K -> K -> bool) i key :
  coll_at keqb (mkC [] (UInf i)) key = unknown_kind_u (UInf i).
Proof. reflexivity. Qed.

Lemma inf_superset_spec j i : inf_superset j i = true ->
  (i_bytes i = true -> i_bytes j = true) /\ (i_integer i = true -> i_integer j = true)
  /\ (i_float i = true -> i_float j = true) /\ (i_boolean i = true -> i_boolean j = true)
  /\ (i_timestamp i = true -> i_timestamp j = true) /\ (i_regex i = true -> i_regex j = true)
  /\ (i_null i = true -> i_null j = true) /\ (i_array i = true -> i_array j = true)
  /\ (i_object i = true -> i_object j = true).
Proof.
  unfold inf_superset, implb'. rewrite !andb_true_iff. intros H.
  repeat match goal with H : _ /\ _ |- _ => destruct H end.
  repeat split; intros E; rewrite E in *; cbn in *; assumption.
Qed.

Lemma member_inf_mono v : forall i j, inf_superset j i = true ->
  member v (kind_of_inf i) = true -> member v (kind_of_inf j) = true.
Proof.
  induction v using value_ind'; intros i j Hs;
    destruct (inf_superset_spec j i Hs) as (Sb & Si & Sf & SB & St & Sr & Sn & Sa & So);
    try (cbn; auto; fail).
  - (* objects *)
    rewrite !member_obj. cbn [obj_of kind_of_inf].
    destruct (i_object i) eqn:Ei; [|discriminate]. rewrite (So eq_refl).
    rewrite !obj_ok_spec. intros [H1 H2]. split.
    + intros f w Hin. rewrite coll_at_inf, member_unknown_kind_inf.
      rewrite Forall_forall in H. apply (H (f, w) Hin i j Hs).
      specialize (H1 f w Hin). rewrite coll_at_inf, member_unknown_kind_inf in H1. exact H1.
    + cbn. discriminate.
  - (* arrays *)
    rewrite !member_arr. cbn [arr_of kind_of_inf].
    destruct (i_array i) eqn:Ei; [|discriminate]. rewrite (Sa eq_refl).
    rewrite !arr_ok_spec. intros [H1 H2]. split.
    + intros n x Hn. rewrite coll_at_inf, member_unknown_kind_inf.
      rewrite Forall_forall in H. apply (H x (nth_error_In _ _ Hn) i j Hs).
      specialize (H1 n x Hn). rewrite coll_at_inf, member_unknown_kind_inf in H1. exact H1.
    + cbn. discriminate.
Qed.

Lemma member_inf_any v : member v (kind_of_inf inf_any) = true.
Proof.
  induction v using value_ind'; try reflexivity.
  - rewrite member_obj. cbn [obj_of kind_of_inf inf_any i_object]. rewrite obj_ok_spec. split.
    + intros f w Hin. rewrite coll_at_inf, member_unknown_kind_inf.
      rewrite Forall_forall in H. apply (H (f, w) Hin).
    + cbn. discriminate.
  - rewrite member_arr. cbn [arr_of kind_of_inf inf_any i_array]. rewrite arr_ok_spec. split.
    + intros n x Hn. rewrite coll_at_inf, member_unknown_kind_inf.
      rewrite Forall_forall in H. apply (H x (nth_error_In _ _ Hn)).
    + cbn. discriminate.
Qed.

Lemma inf_is_any_eq i : inf_is_any i = true -> i = inf_any.
Proof.
  destruct i. unfold inf_is_any. cbn. rewrite !andb_true_iff. intros H. decompose [and] H. subst. reflexivity.
Qed.

Lemma member_k_any v : member v k_any = true.
Proof.
  replace k_any with (or_undefined (kind_of_inf inf_any)) by reflexivity.
  rewrite member_or_undefined. apply member_inf_any.
Qed.
