(* C23: the algorithm tables of encrypt / decrypt agree, and decrypt inverts encrypt for every accepted
   name, every plaintext, and every key / IV of the sizes the name requires — over any block cipher with
   D k (E k b) = b and any AEAD with open (seal p) = Some p. *)
From Coq Require Import String.
From Coq Require Import List NArith ZArith Bool Arith Lia.
From VRL Require Import Base.Bytes Base.Lit Model.ConvRes Model.Padding Model.Modes Model.Aes Model.CipherGlue
     Proofs.PaddingProofs Proofs.ModesProofs.
Import ListNotations.

(* ---------- the three tables ---------- *)

Lemma tables_equal : enc_table = dec_table.
Proof. reflexivity. Qed.

Lemma lookup_in {A} (t : list (string * A)) name a :
  lookup t name = Some a -> exists s, In (s, a) t /\ ascii_bytes s = name.
Proof.
  induction t as [|[s x] r IH]; cbn [lookup]; [discriminate|].
  destruct (bytes_eqb (ascii_bytes s) name) eqn:E.
  - intros H. inversion H; subst. exists s. split; [left; reflexivity | apply bytes_eqb_eq; exact E].
  - intros H. destruct (IH H) as (s' & Hin & Hs). exists s'. split; [right; exact Hin | exact Hs].
Qed.

Lemma lookup_none {A} (t : list (string * A)) name :
  lookup t name = None <-> forall s, In s (map fst t) -> ascii_bytes s <> name.
Proof.
  induction t as [|[s x] r IH]; cbn [lookup map fst].
  - split; [intros _ s [] | reflexivity].
  - destruct (bytes_eqb (ascii_bytes s) name) eqn:E.
    + split; [discriminate|]. intros H. exfalso. apply (H s); [left; reflexivity | apply bytes_eqb_eq; exact E].
    + rewrite IH. split.
      * intros H s' [<-|Hin]; [apply bytes_eqb_neq; exact E | apply H; exact Hin].
      * intros H s' Hin. apply H. right. exact Hin.
Qed.

Lemma valid_names_same s : In s valid_names <-> In s (map fst enc_table).
Proof.
  split; intros H.
  - cbn in H. cbn. repeat (destruct H as [H|H]; [subst s; tauto|]). contradiction.
  - cbn in H. cbn. repeat (destruct H as [H|H]; [subst s; tauto|]). contradiction.
Qed.

Lemma is_valid_iff name : is_valid_algorithm name = true <-> lookup enc_table name <> None.
Proof.
  unfold is_valid_algorithm. rewrite existsb_exists. split.
  - intros (s & Hin & Hs) Hn. apply bytes_eqb_eq in Hs.
    rewrite lookup_none in Hn. apply (Hn s); [apply valid_names_same; exact Hin | exact Hs].
  - intros Hn. destruct (lookup enc_table name) as [pr|] eqn:L; [|congruence].
    destruct (lookup_in _ _ _ L) as (s & Hin & Hs). exists s. split.
    + apply valid_names_same. apply (in_map fst) in Hin. exact Hin.
    + apply bytes_eqb_eq. exact Hs.
Qed.

(* every name is treated alike by the three tables: same primitive, same padding, same key and IV sizes *)
Theorem names_paired name :
  lookup enc_table name = lookup dec_table name
  /\ (is_valid_algorithm name = true <-> lookup enc_table name <> None).
Proof. split; [rewrite tables_equal; reflexivity | apply is_valid_iff]. Qed.

(* the run-time functions and the compile-time check accept the same spellings *)
Lemma encrypt_alg_iff (P : prims) filler name p k iv :
  encrypt P filler name p k iv = CErrAlg <-> lookup enc_table (upper_name name) = None.
Proof.
  unfold encrypt. destruct (lookup enc_table (upper_name name)) as [pr|]; [|tauto].
  split; [|discriminate]. destruct (negb _); [discriminate|]. destruct (negb _); discriminate.
Qed.

Lemma decrypt_alg_iff (P : prims) name c k iv :
  decrypt P name c k iv = CErrAlg <-> lookup enc_table (upper_name name) = None.
Proof.
  unfold decrypt. rewrite <- tables_equal.
  destruct (lookup enc_table (upper_name name)) as [pr|]; [|tauto].
  split; [|discriminate]. destruct (negb _); [discriminate|]. destruct (negb _); [discriminate|].
  destruct pr; cbn [prim_decrypt]; try discriminate.
  - destruct (negb _); [discriminate|]. destruct (unpad _ _); discriminate.
  - destruct (pOpen _ _ _ _ _); discriminate.
Qed.

Corollary accepted_alike (P : prims) filler name p c k iv :
  (encrypt P filler name p k iv = CErrAlg <-> decrypt P name c k iv = CErrAlg)
  /\ (encrypt P filler name p k iv = CErrAlg <-> compiles_with_constant name = false).
Proof.
  rewrite encrypt_alg_iff, decrypt_alg_iff. split; [tauto|].
  unfold compiles_with_constant. pose proof (is_valid_iff (upper_name name)) as V.
  destruct (is_valid_algorithm (upper_name name)).
  - split; [|discriminate]. intros H. exfalso. apply V; [reflexivity | exact H].
  - split; [reflexivity|]. intros _.
    destruct (lookup enc_table (upper_name name)); [|reflexivity].
    assert (false = true) by (apply V; discriminate). discriminate.
Qed.

(* ---------- round trip ---------- *)

Section RoundTrip.
  Variable P : prims.
  Hypothesis E_len : forall k b, length b = 16%nat -> length (pE P k b) = 16%nat.
  Hypothesis block_inv : forall k b, length b = 16%nat -> pD P k (pE P k b) = b.
  Hypothesis open_seal : forall a k n p, pOpen P a k n (pSeal P a k n p) = Some p.

  Lemma padded_len_mod n : (padded_len n mod 16 = 0)%nat.
  Proof. unfold padded_len, bsz. rewrite Nat.mul_comm. apply Nat.mod_mul. lia. Qed.

  Lemma prim_roundtrip pr filler p k iv :
    length iv = iv_len pr ->
    prim_decrypt P pr (prim_encrypt P pr filler p k iv) k iv = COk p.
  Proof.
    intros Hiv. destruct pr as [ks|ks|fl ks|ks s|a]; cbn [prim_encrypt prim_decrypt].
    - rewrite (cfb_roundtrip (pE P) E_len) by exact Hiv. reflexivity.
    - rewrite (ofb_roundtrip (pE P) E_len) by exact Hiv. reflexivity.
    - rewrite (ctr_roundtrip (pE P) E_len) by exact Hiv. reflexivity.
    - assert (Hm : (length (pad s filler p) mod 16 = 0)%nat) by (rewrite pad_length; apply padded_len_mod).
      rewrite (cbc_encrypt_length (pE P) E_len) by (exact Hiv || exact Hm).
      rewrite Hm. cbn [Nat.eqb negb].
      rewrite (cbc_roundtrip (pE P) (pD P) E_len block_inv) by (exact Hiv || exact Hm).
      rewrite unpad_pad. reflexivity.
    - rewrite open_seal. reflexivity.
  Qed.

  Theorem roundtrip name pr filler p k iv :
    lookup enc_table (upper_name name) = Some pr ->
    length k = key_len pr -> length iv = iv_len pr ->
    exists c, encrypt P filler name p k iv = COk c /\ decrypt P name c k iv = COk p.
  Proof.
    intros L Hk Hiv. unfold encrypt, decrypt. rewrite <- tables_equal, L.
    rewrite Hk, Hiv, !Nat.eqb_refl. cbn [negb].
    eexists. split; [reflexivity|]. apply prim_roundtrip. exact Hiv.
  Qed.

  (* ciphertext lengths, given that the AEADs append / prepend a 16-byte tag *)
  Hypothesis seal_len : forall a k n p, length (pSeal P a k n p) = (length p + 16)%nat.

  Theorem cipher_length name pr filler p k iv c :
    lookup enc_table (upper_name name) = Some pr ->
    encrypt P filler name p k iv = COk c -> length c = cipher_len pr (length p).
  Proof.
    intros L. unfold encrypt. rewrite L.
    destruct (negb (Nat.eqb (length k) (key_len pr))); [discriminate|].
    destruct (negb (Nat.eqb (length iv) (iv_len pr))) eqn:Eiv; [discriminate|].
    apply negb_false_iff, Nat.eqb_eq in Eiv.
    intros H; inversion H; subst c; clear H.
    destruct pr as [ks|ks|fl ks|ks s|a]; cbn [prim_encrypt cipher_len].
    - apply (cfb_encrypt_length (pE P) E_len). exact Eiv.
    - apply (ofb_apply_length (pE P) E_len). exact Eiv.
    - apply (ctr_apply_length (pE P) E_len). exact Eiv.
    - rewrite (cbc_encrypt_length (pE P) E_len); [apply pad_length | exact Eiv |].
      rewrite pad_length. apply padded_len_mod.
    - apply seal_len.
  Qed.
End RoundTrip.

(* the accepted names are exactly the upper-casings into the table: e.g. lower case and the two non-ASCII
   letters whose upper case is ASCII are accepted; so the theorem is not about the 32 literal spellings only *)
Example accepted_lowercase :
  lookup enc_table (upper_name (ascii_bytes "aes-128-cbc-pkcs7")) = Some (PCbc K128 Pkcs7).
Proof. reflexivity. Qed.
Example accepted_dotless_i :
  lookup enc_table (upper_name (hx "6165732d3132382d73c4b176")) = Some (PAead Siv128).   (* "aes-128-sıv" *)
Proof. reflexivity. Qed.

(* ---------- the hypotheses are satisfiable by a non-trivial cipher ---------- *)

(* a toy block cipher: xor every byte with the key's first byte, then rotate the block by one position *)
Definition toy_k (k : bytes) : N := match k with x :: _ => x | [] => 7%N end.
Definition toy_E (k b : bytes) : bytes :=
  match map (N.lxor (toy_k k)) b with x :: r => r ++ [x] | [] => [] end.
Definition toy_D (k b : bytes) : bytes :=
  map (N.lxor (toy_k k)) (match rev b with x :: r => x :: rev r | [] => [] end).
Definition toy_seal (a : aead) (k n p : bytes) : bytes := repeat 0%N 16 ++ p.
Definition toy_open (a : aead) (k n c : bytes) : option bytes :=
  if Nat.ltb (length c) 16 then None else Some (skipn 16 c).
Definition toy_prims : prims := mkPrims toy_E toy_D toy_seal toy_open.

Lemma toy_E_len k b : length b = 16%nat -> length (toy_E k b) = 16%nat.
Proof.
  intros H. unfold toy_E. destruct b as [|x b]; [discriminate|]. cbn [map].
  rewrite app_length, map_length. cbn in *. lia.
Qed.

Lemma toy_block_inv k b : length b = 16%nat -> toy_D k (toy_E k b) = b.
Proof.
  intros _. unfold toy_D, toy_E. destruct b as [|x b]; [reflexivity|]. cbn [map].
  rewrite rev_app_distr. cbn [rev app]. rewrite rev_involutive.
  change (map (N.lxor (toy_k k)) (map (N.lxor (toy_k k)) (x :: b)) = x :: b).
  rewrite map_map. rewrite <- (map_id (x :: b)) at 2. apply map_ext.
  intros y. rewrite <- N.lxor_assoc, N.lxor_nilpotent, N.lxor_0_l. reflexivity.
Qed.

Lemma toy_open_seal a k n p : toy_open a k n (toy_seal a k n p) = Some p.
Proof. reflexivity. Qed.

(* real AES on the FIPS-197 appendix C vectors (pins Model/Aes.v, which the correspondence run uses as E/D) *)
Example aes128_fips :
  aes_enc (hx "000102030405060708090a0b0c0d0e0f") (hx "00112233445566778899aabbccddeeff")
  = hx "69c4e0d86a7b0430d8cdb78070b4c55a"
  /\ aes_dec (hx "000102030405060708090a0b0c0d0e0f") (hx "69c4e0d86a7b0430d8cdb78070b4c55a")
     = hx "00112233445566778899aabbccddeeff".
Proof. split; vm_compute; reflexivity. Qed.
Example aes192_fips :
  aes_enc (hx "000102030405060708090a0b0c0d0e0f1011121314151617") (hx "00112233445566778899aabbccddeeff")
  = hx "dda97ca4864cdfe06eaf70a0ec0d7191"
  /\ aes_dec (hx "000102030405060708090a0b0c0d0e0f1011121314151617") (hx "dda97ca4864cdfe06eaf70a0ec0d7191")
     = hx "00112233445566778899aabbccddeeff".
Proof. split; vm_compute; reflexivity. Qed.
Example aes256_fips :
  aes_enc (hx "000102030405060708090a0b0c0d0e0f101112131415161718191a1b1c1d1e1f") (hx "00112233445566778899aabbccddeeff")
  = hx "8ea2b7ca516745bfeafc49904b496089"
  /\ aes_dec (hx "000102030405060708090a0b0c0d0e0f101112131415161718191a1b1c1d1e1f") (hx "8ea2b7ca516745bfeafc49904b496089")
     = hx "00112233445566778899aabbccddeeff".
Proof. split; vm_compute; reflexivity. Qed.
