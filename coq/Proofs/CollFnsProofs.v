(* Proofs about Model/CollFns.v (C28): unique, compact, keys/values/length, merge, flatten. *)
From Coq Require Import List NArith ZArith Bool Lia.
From Coq Require Import Floats.SpecFloat.
From VRL Require Import Base.Bytes Base.Value Model.CodecUtf8 Model.StrFns Model.CollFns Proofs.ValueCrudProofs.
Import ListNotations.

(* ---------- veq is reflexive and symmetric ---------- *)
Lemma float_eq_refl f : float_eq f f = true.
Proof. destruct f; cbn; auto; try apply Bool.eqb_reflx. rewrite Bool.eqb_reflx, Pos.eqb_refl, Z.eqb_refl. reflexivity. Qed.

Lemma float_eq_sym a b : float_eq a b = float_eq b a.
Proof.
  destruct a, b; cbn; auto.
  - destruct s, s0; reflexivity.
  - rewrite (Pos.eqb_sym m m0), (Z.eqb_sym e e0). destruct s, s0; reflexivity.
Qed.

Lemma veq_refl a : veq a a = true.
Proof.
  induction a using value_ind'; cbn [veq]; auto using bytes_eqb_refl, Z.eqb_refl, float_eq_refl.
  - destruct b; reflexivity.
  - induction H as [|[k v] r Hv _ IH]; [reflexivity|]. cbn [snd] in Hv. rewrite bytes_eqb_refl, Hv. exact IH.
  - induction H as [|v r Hv _ IH]; [reflexivity|]. rewrite Hv. exact IH.
Qed.

Lemma veq_sym a : forall b, veq a b = veq b a.
Proof.
  induction a using value_ind'; intros [ ]; cbn [veq]; auto using bytes_eqb_sym, Z.eqb_sym, float_eq_sym.
  - destruct b, b0; reflexivity.
  - rename kvs0 into l2. revert l2.
    induction H as [|[k1 v1] r1 Hv _ IH]; intros [|[k2 v2] r2]; try reflexivity.
    cbn [snd] in Hv. rewrite (bytes_eqb_sym k1 k2), (Hv v2), (IH r2). reflexivity.
  - rename vs0 into l2. revert l2.
    induction H as [|v1 r1 Hv _ IH]; intros [|v2 r2]; try reflexivity.
    rewrite (Hv v2), (IH r2). reflexivity.
Qed.

(* ---------- unique ---------- *)
Definition memv (x : value) (l : list value) : bool := existsb (veq x) l.

(* no element is veq to an earlier one *)
Fixpoint nodupv (l : list value) : Prop :=
  match l with
  | [] => True
  | x :: r => (forall y, In y r -> veq y x = false) /\ nodupv r
  end.

Lemma nodupv_snoc l x : nodupv l -> memv x l = false -> nodupv (l ++ [x]).
Proof.
  induction l as [|a l IH]; cbn [nodupv app memv existsb]; intros H Hm.
  - split; [intros y []|exact I].
  - apply orb_false_iff in Hm. destruct Hm as [Hxa Hm]. destruct H as [Ha Hl]. split.
    + intros y Hy. apply in_app_or in Hy. destruct Hy as [Hy|[<-|[]]]; [apply Ha; exact Hy | exact Hxa].
    + apply IH; assumption.
Qed.

Lemma fold_uniq_nodup l : forall acc, nodupv acc -> nodupv (fold_left uniq_step l acc).
Proof.
  induction l as [|x l IH]; intros acc H; [exact H|].
  cbn [fold_left]. apply IH. unfold uniq_step. destruct (existsb (veq x) acc) eqn:E; [exact H|].
  apply nodupv_snoc; assumption.
Qed.

Theorem unique_nodup l : nodupv (unique_list l).
Proof. apply fold_uniq_nodup. exact I. Qed.

Lemma memv_app x a b : memv x (a ++ b) = memv x a || memv x b.
Proof. apply existsb_app. Qed.

Lemma fold_uniq_keeps_acc l : forall acc y, memv y acc = true -> memv y (fold_left uniq_step l acc) = true.
Proof.
  induction l as [|x l IH]; intros acc y H; [exact H|].
  cbn [fold_left]. apply IH. unfold uniq_step. destruct (existsb (veq x) acc); [exact H|].
  rewrite memv_app, H. reflexivity.
Qed.

Lemma fold_uniq_mem l : forall acc x, In x l -> memv x (fold_left uniq_step l acc) = true.
Proof.
  induction l as [|a l IH]; intros acc x Hin; [destruct Hin|]. destruct Hin as [<-|Hx].
  - cbn [fold_left]. apply fold_uniq_keeps_acc. unfold uniq_step. destruct (existsb (veq a) acc) eqn:E; [exact E|].
    rewrite memv_app. cbn [memv existsb]. rewrite veq_refl, orb_true_r. reflexivity.
  - cbn [fold_left]. apply IH. exact Hx.
Qed.

(* every input element has an equal representative in the output *)
Theorem unique_complete l x : In x l -> memv x (unique_list l) = true.
Proof. apply fold_uniq_mem. Qed.

Lemma fold_uniq_in l : forall acc y, In y (fold_left uniq_step l acc) -> In y acc \/ In y l.
Proof.
  induction l as [|a l IH]; intros acc y H; [left; exact H|].
  cbn [fold_left] in H. apply IH in H. destruct H as [H|H]; [|right; right; exact H].
  unfold uniq_step in H. destruct (existsb (veq a) acc); [left; exact H|].
  apply in_app_or in H. destruct H as [H|[<-|[]]]; [left; exact H | right; left; reflexivity].
Qed.

(* nothing is invented *)
Theorem unique_sound l y : In y (unique_list l) -> In y l.
Proof. intros H. apply fold_uniq_in in H. destruct H as [[]|H]; exact H. Qed.

(* first occurrences, in order: the head is kept and everything equal to it is dropped from the rest *)
Lemma fold_uniq_cons l : forall acc x,
  fold_left uniq_step l (x :: acc) = x :: fold_left uniq_step (filter (fun y => negb (veq y x)) l) acc.
Proof.
  induction l as [|y l IH]; intros acc x; [reflexivity|].
  cbn [fold_left filter]. unfold uniq_step at 2. cbn [existsb].
  destruct (veq y x) eqn:E; cbn [negb orb].
  - apply IH.
  - cbn [fold_left]. unfold uniq_step at 3. destruct (existsb (veq y) acc); [apply IH|].
    rewrite <- IH. reflexivity.
Qed.

Theorem unique_first_occurrence x l :
  unique_list (x :: l) = x :: unique_list (filter (fun y => negb (veq y x)) l).
Proof. unfold unique_list. cbn [fold_left]. unfold uniq_step at 2. cbn [existsb app]. apply fold_uniq_cons. Qed.

Theorem unique_idem l : unique_list (unique_list l) = unique_list l.
Proof.
  pose proof (unique_nodup l) as H. revert H. generalize (unique_list l) as u. clear l.
  intros u. induction u as [|x u IH]; intros H; [reflexivity|].
  destruct H as [Hx Hu]. rewrite unique_first_occurrence. f_equal.
  assert (E : filter (fun y => negb (veq y x)) u = u).
  { clear IH Hu. induction u as [|y u IHu]; [reflexivity|]. cbn [filter].
    rewrite (Hx y) by (left; reflexivity). cbn [negb]. f_equal. apply IHu. intros z Hz. apply Hx. right; exact Hz. }
  rewrite E. apply IH. exact Hu.
Qed.

(* ---------- compact ---------- *)
Definition recur (o : compact_opts) (x : value) : value := if co_recursive o then compact_val o x else x.
Definition keep (o : compact_opts) (y : value) : bool := negb (is_empty_for o y).

(* compact removes exactly the items that are (after recursive compaction) configured-empty *)
Theorem compact_arr_spec o a :
  compact_val o (VArr a) = VArr (filter (keep o) (map (recur o) a)).
Proof.
  cbn [compact_val]. f_equal. induction a as [|x a IH]; [reflexivity|].
  cbn [map filter]. unfold keep at 1, recur at 1. destruct (is_empty_for o (if co_recursive o then compact_val o x else x));
    cbn [negb]; rewrite IH; reflexivity.
Qed.

Theorem compact_obj_spec o m :
  compact_val o (VObj m) =
  VObj (filter (fun kv => keep o (snd kv)) (map (fun kv => (fst kv, recur o (snd kv))) m)).
Proof.
  cbn [compact_val]. f_equal. induction m as [|[k x] m IH]; [reflexivity|].
  cbn [map filter fst snd]. unfold keep at 1, recur at 1.
  destruct (is_empty_for o (if co_recursive o then compact_val o x else x)); cbn [negb]; rewrite IH; reflexivity.
Qed.

Lemma compact_scalar o v : (forall a, v <> VArr a) -> (forall m, v <> VObj m) -> compact_val o v = v.
Proof. destruct v; intros Ha Hm; try reflexivity; [exfalso; eapply Hm | exfalso; eapply Ha]; reflexivity. Qed.

(* "clean": nothing configured-empty inside (at every depth when recursive) *)
Fixpoint clean (o : compact_opts) (v : value) {struct v} : Prop :=
  match v with
  | VArr a => (fix go (l : list value) : Prop :=
                 match l with
                 | [] => True
                 | x :: r => is_empty_for o x = false /\ (co_recursive o = true -> clean o x) /\ go r
                 end) a
  | VObj m => (fix go (l : list (bytes * value)) : Prop :=
                 match l with
                 | [] => True
                 | (_, x) :: r => is_empty_for o x = false /\ (co_recursive o = true -> clean o x) /\ go r
                 end) m
  | _ => True
  end.

Lemma clean_arr o a : clean o (VArr a) <->
  Forall (fun x => is_empty_for o x = false /\ (co_recursive o = true -> clean o x)) a.
Proof.
  cbn [clean]. induction a as [|x a IH]; [split; constructor|]. split.
  - intros [H1 [H2 H3]]. constructor; [split; assumption | apply IH; exact H3].
  - intros H. inversion H as [|? ? [H1 H2] H3]; subst. repeat split; [exact H1 | exact H2 | apply IH; exact H3].
Qed.

Lemma clean_obj o m : clean o (VObj m) <->
  Forall (fun kv => is_empty_for o (snd kv) = false /\ (co_recursive o = true -> clean o (snd kv))) m.
Proof.
  cbn [clean]. induction m as [|[k x] m IH]; [split; constructor|]. split.
  - intros [H1 [H2 H3]]. constructor; [split; assumption | apply IH; exact H3].
  - intros H. inversion H as [|? ? [H1 H2] H3]; subst. cbn [snd] in *.
    repeat split; [exact H1 | exact H2 | apply IH; exact H3].
Qed.

(* the result of compact is clean *)
Theorem compact_clean o v : clean o (compact_val o v).
Proof.
  induction v using value_ind'; try exact I.
  - (* object *)
    rewrite compact_obj_spec. apply clean_obj.
    induction H as [|[k x] m Hx _ IH]; [constructor|].
    cbn [map filter fst snd]. destruct (keep o (recur o x)) eqn:K; [|exact IH].
    constructor; [|exact IH]. cbn [snd]. unfold keep in K. apply negb_true_iff in K. split; [exact K|].
    intros Hr. unfold recur. rewrite Hr. exact Hx.
  - (* array *)
    rewrite compact_arr_spec. apply clean_arr.
    induction H as [|x a Hx _ IH]; [constructor|].
    cbn [map filter]. destruct (keep o (recur o x)) eqn:K; [|exact IH].
    constructor; [|exact IH]. unfold keep in K. apply negb_true_iff in K. split; [exact K|].
    intros Hr. unfold recur. rewrite Hr. exact Hx.
Qed.

(* compact changes nothing in a clean value *)
Theorem compact_clean_id o v : clean o v -> compact_val o v = v.
Proof.
  induction v using value_ind'; try reflexivity; intros Hc.
  - rewrite compact_obj_spec. f_equal. apply clean_obj in Hc.
    induction H as [|[k x] m Hx _ IH]; [reflexivity|].
    inversion Hc as [|? ? [H1 H2] H3]; subst. cbn [snd] in *.
    cbn [map filter fst snd].
    assert (Er : recur o x = x).
    { unfold recur. destruct (co_recursive o) eqn:R; [apply Hx, H2; reflexivity | reflexivity]. }
    rewrite Er. unfold keep. rewrite H1. cbn [negb]. f_equal. apply IH. exact H3.
  - rewrite compact_arr_spec. f_equal. apply clean_arr in Hc.
    induction H as [|x a Hx _ IH]; [reflexivity|].
    inversion Hc as [|? ? [H1 H2] H3]; subst.
    cbn [map filter].
    assert (Er : recur o x = x).
    { unfold recur. destruct (co_recursive o) eqn:R; [apply Hx, H2; reflexivity | reflexivity]. }
    rewrite Er. unfold keep. rewrite H1. cbn [negb]. f_equal. apply IH. exact H3.
Qed.

Theorem compact_idem o v : compact_val o (compact_val o v) = compact_val o v.
Proof. apply compact_clean_id, compact_clean. Qed.

(* ---------- keys / values / length ---------- *)
Theorem keys_values_length m :
  exists ks vs, fn_keys (VObj m) = ROk (VArr ks) /\ fn_values (VObj m) = ROk (VArr vs)
    /\ fn_length (VObj m) = ROk (VInt (Z.of_nat (length m)))
    /\ length ks = length m /\ length vs = length m
    /\ ks = map (fun kv => VBytes (fst kv)) m /\ vs = map snd m
    /\ (forall i k v, nth_error m i = Some (k, v) -> nth_error ks i = Some (VBytes k) /\ nth_error vs i = Some v).
Proof.
  eexists; eexists. repeat split; try reflexivity; try apply map_length.
  - rewrite nth_error_map, H. reflexivity.
  - rewrite nth_error_map, H. reflexivity.
Qed.

(* ---------- merge ---------- *)
Definition merge_go (deep : bool) :=
  fix go (m1 : obj) (l : list (bytes * value)) {struct l} : obj :=
    match l with
    | [] => m1
    | (k, x) :: r =>
        go (match deep, obj_get m1 k, x with
            | true, Some (VObj c1), VObj _ => obj_set m1 k (VObj (merge_into deep c1 x))
            | _, _, _ => obj_set m1 k x
            end) r
    end.

Lemma merge_into_obj deep m1 m2 : merge_into deep m1 (VObj m2) = merge_go deep m1 m2.
Proof. reflexivity. Qed.

(* what a single entry (k, x) of `from` does to the field k of `to` *)
Definition merged_field (deep : bool) (old : option value) (x : value) : value :=
  match deep, old, x with
  | true, Some (VObj c1), VObj _ => VObj (merge_into deep c1 x)
  | _, _, _ => x
  end.

Lemma merge_step_eq deep m1 k x :
  (match deep, obj_get m1 k, x with
   | true, Some (VObj c1), VObj _ => obj_set m1 k (VObj (merge_into deep c1 x))
   | _, _, _ => obj_set m1 k x
   end) = obj_set m1 k (merged_field deep (obj_get m1 k) x).
Proof.
  unfold merged_field. destruct deep; [|reflexivity].
  destruct (obj_get m1 k) as [[ ]|]; try reflexivity. destruct x; reflexivity.
Qed.

(* keys of `from` are unique (it is a BTreeMap) *)
Lemma merge_go_get deep m2 : forall m1 k, NoDup (map fst m2) ->
  obj_get (merge_go deep m1 m2) k =
  match obj_get m2 k with
  | Some x => Some (merged_field deep (obj_get m1 k) x)
  | None => obj_get m1 k
  end.
Proof.
  induction m2 as [|[k2 x] m2 IH]; intros m1 k Hnd; [reflexivity|].
  cbn [merge_go]. rewrite merge_step_eq. fold (merge_go deep).
  inversion Hnd as [|? ? Hnotin Hnd']; subst. rewrite IH by exact Hnd'.
  cbn [obj_get]. destruct (bytes_eqb k2 k) eqn:E.
  - apply bytes_eqb_eq in E. subst k2.
    assert (Hn : obj_get m2 k = None).
    { clear -Hnotin. induction m2 as [|[k' v'] m2 IHm]; [reflexivity|]. cbn [obj_get map fst In] in *.
      destruct (bytes_eqb k' k) eqn:E'; [apply bytes_eqb_eq in E'; subst; exfalso; apply Hnotin; left; reflexivity|].
      apply IHm. intros H. apply Hnotin. right; exact H. }
    rewrite Hn. apply obj_get_set_same.
  - assert (Hne : k <> k2) by (intros ->; rewrite bytes_eqb_refl in E; discriminate).
    rewrite (obj_get_set_other m1 k2 k _ Hne). reflexivity.
Qed.

(* merge(a, b): b's value on b's keys (merged recursively when deep and both sides are objects), a's elsewhere *)
Theorem merge_right_bias deep m1 m2 k : NoDup (map fst m2) ->
  obj_get (merge_into deep m1 (VObj m2)) k =
  match obj_get m2 k with
  | Some x => Some (merged_field deep (obj_get m1 k) x)
  | None => obj_get m1 k
  end.
Proof. rewrite merge_into_obj. apply merge_go_get. Qed.

Corollary merge_shallow_right_bias m1 m2 k : NoDup (map fst m2) ->
  obj_get (merge_into false m1 (VObj m2)) k =
  match obj_get m2 k with Some x => Some x | None => obj_get m1 k end.
Proof. intros H. rewrite merge_right_bias by exact H. reflexivity. Qed.

(* ---------- push / append ---------- *)
Theorem push_spec l x : exists r, fn_push (VArr l) x = ROk (VArr r) /\ length r = S (length l)
  /\ nth_error r (length l) = Some x /\ forall i, (i < length l)%nat -> nth_error r i = nth_error l i.
Proof.
  exists (l ++ [x]). repeat split.
  - rewrite app_length. cbn. lia.
  - rewrite nth_error_app2 by lia. rewrite Nat.sub_diag. reflexivity.
  - intros i Hi. apply nth_error_app1; exact Hi.
Qed.

Theorem append_spec l r : fn_append (VArr l) (VArr r) = ROk (VArr (l ++ r)).
Proof. reflexivity. Qed.

(* ---------- flatten (arrays) ---------- *)
Definition not_array (v : value) : Prop := match v with VArr _ => False | _ => True end.

Lemma flat_items_arr l : flat_items (VArr l) = flat_map flat_items l.
Proof. cbn [flat_items]. induction l as [|x l IH]; [reflexivity|]. cbn [flat_map]. rewrite IH. reflexivity. Qed.

Theorem flatten_no_arrays v : Forall not_array (flat_items v).
Proof.
  induction v using value_ind'; try (repeat constructor).
  rewrite flat_items_arr. induction H as [|x l Hx _ IH]; [constructor|].
  cbn [flat_map]. apply Forall_app; split; assumption.
Qed.

Lemma flat_items_flat l : Forall not_array l -> flat_map flat_items l = l.
Proof.
  induction 1 as [|x l Hx _ IH]; [reflexivity|]. cbn [flat_map]. rewrite IH.
  destruct x; try reflexivity. contradiction.
Qed.

Theorem flatten_idem l : flat_items (VArr (flat_items (VArr l))) = flat_items (VArr l).
Proof. rewrite (flat_items_arr (flat_items (VArr l))). apply flat_items_flat, flatten_no_arrays. Qed.
