(* Proofs for Model/CodecGlue.v: the VRL-level round trip of every library codec, for every option
   combination, derived from the library's own inverse law (a Section hypothesis: trusted, exercised by the
   search leg of the check). *)
From Coq Require Import List NArith ZArith Bool Lia.
From VRL Require Import Base.Bytes Model.Base16 Model.CodecUtf8 Model.Punycode Model.CodecGlue
     Proofs.CodecProofs Proofs.PercentProofs.
Import ListNotations.
Local Open Scope Z_scope.

(* ---------- gzip / zlib ---------- *)
Section Flate.
  Variable lib_enc : Z -> bytes -> lres.
  Variable lib_dec : bytes -> lres.
  (* flate2: every level the backend supports (0..9) compresses, and decompression inverts it *)
  Hypothesis lib_inverse : forall l b, 0 <= l <= 9 -> exists e, lib_enc l b = LOk e /\ lib_dec e = LOk b.

  Theorem flate_roundtrip lvl v :
    as_u32 lvl <= 9 ->
    exists e, encode_flate lib_enc lvl v = ROk e /\ decode_flate lib_dec e = ROk v.
  Proof.
    intros Hl. unfold encode_flate, decode_flate, max_flate_level.
    assert (H0 : 0 <= as_u32 lvl) by (unfold as_u32; apply Z.mod_pos_bound; lia).
    destruct (lib_inverse (as_u32 lvl) v (conj H0 Hl)) as [e [He Hd]].
    exists e. destruct (10 <? as_u32 lvl) eqn:E; [apply Z.ltb_lt in E; lia|].
    rewrite He, Hd. split; reflexivity.
  Qed.

  (* a level above 10 (after the `as u32` conversion) is an error, never a panic or a wrong answer *)
  Theorem flate_level_rejected lvl v : 10 < as_u32 lvl -> encode_flate lib_enc lvl v = RErr.
  Proof.
    intros H. unfold encode_flate, max_flate_level. apply Z.ltb_lt in H. rewrite H. reflexivity.
  Qed.
End Flate.

(* level 10 passes the VRL range check (MAX_COMPRESSION_LEVEL = 10) and reaches the library, whose
   zlib-rs backend asserts level <= 9: the panic goes through `.expect` *)
Theorem flate_level10_panics (lib_enc : Z -> bytes -> lres) :
  (forall b, lib_enc 10 b = LPanic) ->
  forall v, (max_flate_level <? as_u32 10) = false /\ encode_flate lib_enc 10 v = RPanic.
Proof.
  intros H v. split; [reflexivity|]. unfold encode_flate. cbn. rewrite H. reflexivity.
Qed.

(* ---------- zstd ---------- *)
Section Zstd.
  Variable lib_enc : Z -> bytes -> lres.
  Variable lib_dec : bytes -> lres.
  (* zstd::encode_all clamps the level into its supported range; decode_all inverts it *)
  Hypothesis lib_inverse : forall l b, exists e, lib_enc l b = LOk e /\ lib_dec e = LOk b.

  Theorem zstd_roundtrip lvl v :
    exists e, encode_zstd lib_enc lvl v = ROk e /\ decode_zstd lib_dec e = ROk v.
  Proof.
    destruct (lib_inverse (as_i32 lvl) v) as [e [He Hd]]. exists e.
    unfold encode_zstd, decode_zstd. rewrite He, Hd. split; reflexivity.
  Qed.
End Zstd.

(* ---------- snappy ---------- *)
Section Snappy.
  Variable lib_enc : bytes -> lres.
  Variable lib_dec : bytes -> lres.
  Hypothesis lib_inverse : forall b, exists e, lib_enc b = LOk e /\ lib_dec e = LOk b.

  Theorem snappy_roundtrip v :
    exists e, encode_snappy lib_enc v = ROk e /\ decode_snappy lib_dec e = ROk v.
  Proof.
    destruct (lib_inverse v) as [e [He Hd]]. exists e.
    unfold encode_snappy, decode_snappy. rewrite He, Hd. split; reflexivity.
  Qed.
End Snappy.

(* ---------- lz4 ---------- *)
Local Open Scope N_scope.

Lemma size_prefix n : n < 4294967296 ->
  match size_le n with
  | [b0; b1; b2; b3] => read_le b0 b1 b2 b3 = n
  | _ => False
  end.
Proof.
  intros H. unfold size_le, read_le.
  assert (E3 : (n / 16777216) mod 256 = n / 16777216).
  { apply N.mod_small. apply N.div_lt_upper_bound; lia. }
  rewrite E3.
  assert (D1 := N.div_mod n 256 ltac:(lia)).
  assert (D2 := N.div_mod (n / 256) 256 ltac:(lia)).
  assert (D3 := N.div_mod (n / 65536) 256 ltac:(lia)).
  assert (Q2 : n / 65536 = n / 256 / 256) by (rewrite N.div_div by lia; reflexivity).
  assert (Q3 : n / 16777216 = n / 65536 / 256) by (rewrite N.div_div by lia; reflexivity).
  rewrite <- Q2 in D2. rewrite <- Q3 in D3.
  lia.
Qed.

Lemma size_le_bytes n : wf_bytes (size_le n) = true.
Proof.
  unfold size_le, wf_bytes. cbn [forallb].
  repeat (rewrite (proj2 (N.ltb_lt _ 256)) by (apply N.mod_lt; lia)). reflexivity.
Qed.

Definition magic_len : N := 407708164.         (* 0x184D2204: the length whose LE bytes are the frame magic *)

Lemma size_le_not_magic n rest :
  n < 4294967296 -> n <> magic_len -> starts_with lz4_magic (size_le n ++ rest) = false.
Proof.
  intros Hn Hne. assert (P := size_prefix n Hn).
  destruct (starts_with lz4_magic (size_le n ++ rest)) eqn:E; [|reflexivity]. exfalso. apply Hne.
  unfold size_le, lz4_magic in *. cbn [app starts_with] in E.
  repeat (apply andb_true_iff in E; destruct E as [? E]).
  repeat match goal with H : (_ =? _) = true |- _ => apply N.eqb_eq in H end.
  unfold read_le, magic_len in *. lia.
Qed.

Section Lz4.
  Variable compress : bytes -> bytes.
  Variable decompress : bytes -> N -> lres.
  Variable frame_dec : bytes -> lres.
  (* lz4_flex block format: decompression into a buffer that is large enough inverts compression *)
  Hypothesis lib_inverse : forall b n, N.of_nat (length b) <= n -> decompress (compress b) n = LOk b.
  (* a block never starts with the frame magic (its first token would announce a match without literals) *)
  Hypothesis block_not_frame : forall b, starts_with lz4_magic (compress b) = false.

  Theorem lz4_roundtrip (prepend : bool) (buf : Z) v :
    N.of_nat (length v) < 4294967296 ->
    (0 <= buf < 2 ^ 32)%Z ->
    (prepend = true -> N.of_nat (length v) <> magic_len) ->
    (prepend = false -> (Z.of_nat (length v) <= buf)%Z) ->
    exists e, encode_lz4 compress prepend v = ROk e /\ decode_lz4 decompress frame_dec buf prepend e = ROk v.
  Proof.
    intros Hlen [Hb0 Hb1] Hmagic Hbuf. unfold encode_lz4. eexists. split; [reflexivity|].
    assert (Ebv : buf_valid buf = true).
    { unfold buf_valid. rewrite (proj2 (Z.leb_le _ _) Hb0), (proj2 (Z.ltb_lt _ _) Hb1). reflexivity. }
    destruct prepend.
    - unfold decode_lz4. rewrite Ebv. cbn [negb].
      rewrite (size_le_not_magic _ (compress v) Hlen (Hmagic eq_refl)).
      assert (P := size_prefix _ Hlen). unfold size_le in *. cbn [app].
      rewrite P. rewrite lib_inverse by lia. reflexivity.
    - assert (Hb2 := Hbuf eq_refl).
      unfold decode_lz4. rewrite Ebv. cbn [negb]. rewrite block_not_frame.
      rewrite lib_inverse by lia. reflexivity.
  Qed.

  (* with both functions' defaults (prepend_size: true, prepended_size: false) the decoder hands the
     size-prefixed data to the block decompressor: the default pair is not a matching pair *)
  Theorem lz4_default_options v :
    N.of_nat (length v) < 4294967296 -> N.of_nat (length v) <> magic_len ->
    exists e, encode_lz4 compress default_prepend_size v = ROk e /\
      decode_lz4 decompress frame_dec default_buf_size default_prepended_size e
      = map_err (decompress (size_le (N.of_nat (length v)) ++ compress v) 1000000).
  Proof.
    intros Hlen Hm. eexists. split; [reflexivity|].
    unfold decode_lz4, default_prepended_size, default_prepend_size.
    cbn [buf_valid default_buf_size negb]. rewrite (size_le_not_magic _ (compress v) Hlen Hm). reflexivity.
  Qed.
End Lz4.

(* buf_size outside 0..2^32-1 is rejected with an error, whatever the data and the other option *)
Theorem lz4_bufsize_rejected decompress frame_dec (buf : Z) (prepended : bool) v :
  (buf < 0 \/ 2 ^ 32 <= buf)%Z -> decode_lz4 decompress frame_dec buf prepended v = RErr.
Proof.
  intros Hb.
  assert (E : buf_valid buf = false).
  { unfold buf_valid. destruct Hb as [H|H].
    - rewrite (proj2 (Z.leb_gt _ _) H). reflexivity.
    - rewrite (proj2 (Z.ltb_ge _ _) H). apply andb_false_r. }
  unfold decode_lz4. rewrite E. reflexivity.
Qed.

(* ---------- charset ---------- *)
Section Charset.
  Variable E : Type.
  Variable for_label : bytes -> option E.
  Variable cs_encode cs_decode : E -> bytes -> bytes.
  Variable representable : E -> bytes -> Prop.
  (* encoding_rs: decoding what the encoder produced gives the text back, for text the encoding represents *)
  Hypothesis lib_inverse : forall e t, representable e t -> cs_decode e (cs_encode e t) = t.

  Theorem charset_roundtrip label e t :
    for_label label = Some e -> valid_utf8 t = true -> representable e t ->
    exists b, encode_charset for_label cs_encode label t = ROk b
              /\ decode_charset for_label cs_decode label b = ROk t.
  Proof.
    intros Hl Hv Hr. exists (cs_encode e t). unfold encode_charset, decode_charset.
    rewrite Hl, (lossy_valid t Hv). rewrite (lib_inverse e t Hr). split; reflexivity.
  Qed.

  Theorem charset_unknown_label label t :
    for_label label = None ->
    encode_charset for_label cs_encode label t = RErr /\ decode_charset for_label cs_decode label t = RErr.
  Proof.
    intros Hl. unfold encode_charset, decode_charset. rewrite Hl. split; reflexivity.
  Qed.

  (* bytes that are not UTF-8 are converted lossily first: never a panic *)
  Theorem charset_invalid_utf8_lossy label e v :
    for_label label = Some e ->
    encode_charset for_label cs_encode label v = ROk (cs_encode e (utf8_lossy v)).
  Proof. intros Hl. unfold encode_charset. rewrite Hl. reflexivity. Qed.
End Charset.

(* ---------- punycode with validate: true ---------- *)
Section PunycodeValidate.
  Variable to_ascii : bytes -> option bytes.
  Variable to_unicode : bytes -> bytes * bool.
  Variable valid_domain : bytes -> Prop.
  (* idna (UTS #46): a valid, already normalised domain is converted to an ASCII string from which
     domain_to_unicode recovers it without errors; when no label needed punycode the string is unchanged *)
  Hypothesis lib_inverse : forall s, valid_domain s ->
    exists a, to_ascii s = Some a /\ valid_utf8 a = true /\ to_unicode a = (s, false)
              /\ (contains xn_prefix a = false -> a = s).

  Theorem punycode_validate_roundtrip s :
    valid_utf8 s = true -> valid_domain s ->
    exists a, encode_punycode_validate to_ascii s = ROk a /\ decode_punycode_validate to_unicode a = ROk s.
  Proof.
    intros Hv Hd. destruct (lib_inverse s Hd) as [a [Ha [Hva [Hu Hp]]]]. exists a.
    unfold encode_punycode_validate, decode_punycode_validate.
    rewrite (lossy_valid s Hv), Ha, (lossy_valid a Hva). split; [reflexivity|].
    destruct (contains xn_prefix a) eqn:Ec; cbn [negb].
    - rewrite Hu. reflexivity.
    - rewrite (Hp eq_refl). reflexivity.
  Qed.
End PunycodeValidate.

Theorem lz4_default_options_refuted compress decompress frame_dec v :
  (N.of_nat (length v) < 4294967296)%N -> N.of_nat (length v) <> magic_len ->
  decompress (size_le (N.of_nat (length v)) ++ compress v) 1000000%N <> LOk v ->
  exists e, encode_lz4 compress default_prepend_size v = ROk e /\
            decode_lz4 decompress frame_dec default_buf_size default_prepended_size e <> ROk v.
Proof.
  intros Hlen Hm Hbad.
  destruct (lz4_default_options compress decompress frame_dec v Hlen Hm) as [e [He Hd]].
  exists e. split; [exact He|]. rewrite Hd.
  destruct (decompress (size_le (N.of_nat (length v)) ++ compress v) 1000000%N) as [b| |]; cbn; try discriminate.
  intros H. apply Hbad. congruence.
Qed.
