(* Agreement of the two readers on arbitrary texts free of template syntax: if the VRL source reading (Model/VrlPathLex.v)
   and the path-string parser (Model/PathText.v) both accept a text, they return the same target path. *)
From Coq Require Import List NArith ZArith Bool Lia.
From VRL Require Import Base.Bytes Base.Value Model.PathText Model.VrlPathLex Proofs.PathTextProofs Proofs.VrlPathProofs.
Import ListNotations.
Local Open Scope N_scope.

(* ---------- template-free texts ---------- *)
Definition tf (l : text) : Prop := template_syntax l = false.

Lemma hto_cons c l : has_template_open (c :: l) = false -> has_template_open l = false.
Proof. destruct l as [|d l]; [reflexivity|]. cbn [has_template_open]. intros H. apply orb_false_iff in H as [_ H]. exact H. Qed.

Lemma hbc_cons c l : has_bsl_close (c :: l) = false -> has_bsl_close l = false.
Proof. cbn [has_bsl_close]. intros H. apply orb_false_iff in H as [_ H]. exact H. Qed.

Lemma hto_app_r a : forall b, has_template_open (a ++ b) = false -> has_template_open b = false.
Proof. induction a as [|c a IH]; intros b H; [exact H|]. apply IH. eapply hto_cons. exact H. Qed.

Lemma hbc_app_r a : forall b, has_bsl_close (a ++ b) = false -> has_bsl_close b = false.
Proof. induction a as [|c a IH]; intros b H; [exact H|]. apply IH. eapply hbc_cons. exact H. Qed.

Lemma hto_app_l a : forall b, has_template_open (a ++ b) = false -> has_template_open a = false.
Proof.
  induction a as [|c a IH]; intros b H; [reflexivity|].
  destruct a as [|d a]; [reflexivity|].
  change ((c :: d :: a) ++ b) with (c :: d :: (a ++ b)) in H. cbn [has_template_open] in H |- *.
  apply orb_false_iff in H as [H1 H2]. rewrite H1. cbn [orb]. apply (IH b). exact H2.
Qed.

Lemma hbc_app_l a : forall b, has_bsl_close (a ++ b) = false -> has_bsl_close a = false.
Proof.
  induction a as [|c a IH]; intros b H; [reflexivity|].
  pose proof (hbc_cons _ _ H) as H2. specialize (IH b H2).
  cbn [has_bsl_close]. rewrite IH, orb_false_r.
  destruct a as [|d a]; [reflexivity|]. destruct a as [|e a].
  - cbn [starts_with]. rewrite andb_false_r. reflexivity.
  - change ((c :: d :: e :: a) ++ b) with (c :: d :: e :: (a ++ b)) in H. cbn [has_bsl_close starts_with] in H.
    apply orb_false_iff in H as [H _]. exact H.
Qed.

Lemma tf_cons c l : tf (c :: l) -> tf l.
Proof.
  unfold tf, template_syntax. intros H. apply orb_false_iff in H as [H1 H2].
  rewrite (hto_cons _ _ H1), (hbc_cons _ _ H2). reflexivity.
Qed.

Lemma tf_app_r a b : tf (a ++ b) -> tf b.
Proof.
  unfold tf, template_syntax. intros H. apply orb_false_iff in H as [H1 H2].
  rewrite (hto_app_r _ _ H1), (hbc_app_r _ _ H2). reflexivity.
Qed.

Lemma tf_app_l a b : tf (a ++ b) -> tf a.
Proof.
  unfold tf, template_syntax. intros H. apply orb_false_iff in H as [H1 H2].
  rewrite (hto_app_l _ _ H1), (hbc_app_l _ _ H2). reflexivity.
Qed.

(* template processing leaves a template-free literal alone *)
Lemma template_plain_tf raw : forall cur segs,
  tf raw -> template false cur raw segs = push_lit segs (cur ++ raw).
Proof.
  induction raw as [|c r IH]; intros cur segs H.
  - cbn. rewrite app_nil_r. reflexivity.
  - pose proof (tf_cons _ _ H) as Hr.
    cbn [template]. destruct r as [|c1 r1].
    + rewrite IH by auto. rewrite <- app_assoc. reflexivity.
    + unfold tf, template_syntax in H. apply orb_false_iff in H as [Ho Hc].
      cbn [has_template_open] in Ho. apply orb_false_iff in Ho as [Ho1 Ho2].
      cbn [has_bsl_close] in Hc. apply orb_false_iff in Hc as [Hc1 _].
      cbn [andb negb].
      assert (A2 : (c =? 92) && (c1 =? 123) && starts_with 123 r1 = false).
      { destruct ((c =? 92) && (c1 =? 123) && starts_with 123 r1) eqn:E; [|reflexivity].
        apply andb_true_iff in E as [E E3]. apply andb_true_iff in E as [_ E2].
        destruct r1 as [|c2 r2]; [discriminate|]. cbn [starts_with] in E3.
        cbn [has_template_open] in Ho2. rewrite E2, E3 in Ho2. discriminate. }
      rewrite A2, Hc1, Ho1. cbn iota.
      rewrite IH by auto. rewrite <- app_assoc. reflexivity.
Qed.

Lemma span_spec f l : forall a b,
  span f l = (a, b) ->
  l = a ++ b /\ forallb f a = true /\ (match b with c :: _ => f c = false | [] => True end).
Proof.
  induction l as [|c l IH]; intros a b H; cbn in H.
  - inversion H; subst. repeat split; auto.
  - destruct (f c) eqn:Ec.
    + destruct (span f l) as [a' b'] eqn:Es. inversion H; subst.
      destruct (IH a' b eq_refl) as (E & Ha & Hb). repeat split; cbn; auto; [f_equal; auto | rewrite Ec, Ha; auto].
    + inversion H; subst. repeat split; auto.
Qed.

Lemma ident_continue_jit c : is_ident_continue c = true -> jit_char c = true.
Proof. intros H. rewrite <- ser_ident in H. apply ser_jit; auto. Qed.

Lemma ident_continue_not_special c :
  is_ident_continue c = true -> (c =? 46) = false /\ (c =? 91) = false /\ (c =? 34) = false.
Proof.
  intros H. rewrite <- ser_ident in H. destruct (ser_not_special c H) as (A & B & C & _). auto.
Qed.

Lemma ws_rejected c :
  is_ws c = true -> (c =? 46) = false /\ jit_char c = false /\ (c =? 91) = false /\ (c =? 34) = false
                    /\ is_digit c = false /\ (c =? 45) = false.
Proof. intros H. repeat split; cls2. Qed.

Lemma skip_ws_cases l : skip_ws l = l \/ (exists w r, l = w :: r /\ is_ws w = true).
Proof. destruct l as [|c r]; [left; reflexivity|]. cbn. destruct (is_ws c) eqn:E; [right; eauto | left; reflexivity]. Qed.

(* states in which the value-path machine can be when the VRL reading is at a segment boundary *)
Definition boundary (st : jstate) : bool :=
  match st with JStart | JEventRoot | JContinue | JDot => true | _ => false end.

Lemma jit_boundary_quote st z out :
  boundary st = true -> jit st (34 :: z) out = jit (JQuote []) z out.
Proof. destruct st; try discriminate; reflexivity. Qed.

Lemma jit_boundary_ident st c x out :
  boundary st = true -> is_ident_continue c = true -> jit st (c :: x) out = jit (JField [c]) x out.
Proof.
  intros Hb Hc. pose proof (ident_continue_jit c Hc) as Hj.
  destruct (ident_continue_not_special c Hc) as (H46 & _ & _).
  destruct st; try discriminate; cbn [jit]; rewrite ?H46, Hj; reflexivity.
Qed.

Lemma jit_boundary_ws st c x out :
  (boundary st = true \/ exists k, st = JField k) -> is_ws c = true -> jit st (c :: x) out = PErr.
Proof.
  intros Hb Hc. destruct (ws_rejected c Hc) as (H46 & Hj & H91 & H34 & _).
  destruct Hb as [Hb|[k ->]]; [destruct st; try discriminate|]; cbn [jit]; rewrite ?H46, ?Hj, ?H91, ?H34; reflexivity.
Qed.

(* ---------- indices ---------- *)
Local Open Scope Z_scope.

Lemma jit_index_shape cs : forall v out p',
  jit (JIndex v) cs out = POk p' ->
  exists ds rest, cs = ds ++ 93%N :: rest /\ forallb is_digit ds = true
                  /\ jit JContinue rest (SIndex (acc_pos ds v) :: out) = POk p'.
Proof.
  induction cs as [|c r IH]; intros v out p' H; [discriminate|].
  cbn [jit] in H. destruct (is_digit c) eqn:Ed.
  - destruct (checked (v * 10)) as [m|] eqn:E1; [|discriminate].
    destruct (checked (m + digit_val c)) as [v'|] eqn:E2; [|discriminate].
    unfold checked in E1, E2. destruct (in_isize (v * 10)); [|discriminate]. inversion E1; subst m.
    destruct (in_isize (v * 10 + digit_val c)); [|discriminate]. inversion E2; subst v'.
    destruct (IH _ _ _ H) as (ds & rest & -> & Hd & Hj).
    exists (c :: ds), rest. repeat split; auto. cbn. rewrite Ed, Hd. reflexivity.
  - destruct (c =? 93)%N eqn:E93; [|discriminate]. apply N.eqb_eq in E93. subst c.
    exists [], r. repeat split; auto.
Qed.

Lemma jit_negindex_shape cs : forall v out p',
  jit (JNegIndex v) cs out = POk p' ->
  exists ds rest, cs = ds ++ 93%N :: rest /\ forallb is_digit ds = true
                  /\ jit JContinue rest (SIndex (acc_neg ds v) :: out) = POk p'.
Proof.
  induction cs as [|c r IH]; intros v out p' H; [discriminate|].
  cbn [jit] in H. destruct (is_digit c) eqn:Ed.
  - destruct (checked (v * 10)) as [m|] eqn:E1; [|discriminate].
    destruct (checked (m - digit_val c)) as [v'|] eqn:E2; [|discriminate].
    unfold checked in E1, E2. destruct (in_isize (v * 10)); [|discriminate]. inversion E1; subst m.
    destruct (in_isize (v * 10 - digit_val c)); [|discriminate]. inversion E2; subst v'.
    destruct (IH _ _ _ H) as (ds & rest & -> & Hd & Hj).
    exists (c :: ds), rest. repeat split; auto. cbn. rewrite Ed, Hd. reflexivity.
  - destruct (c =? 93)%N eqn:E93; [|discriminate]. apply N.eqb_eq in E93. subst c.
    exists [], r. repeat split; auto.
Qed.

Local Open Scope N_scope.

(* what vindex computes on a well-shaped index *)
Lemma vindex_shape_pos d ds rest :
  forallb is_digit (d :: ds) = true ->
  vindex ((d :: ds) ++ 93 :: rest) =
    if i64_ok (acc_pos (d :: ds) 0) then Some (acc_pos (d :: ds) 0, rest) else None.
Proof.
  intros Hd. pose proof Hd as Hd'. cbn [forallb] in Hd'. apply andb_true_iff in Hd' as [Hd1 Hd2].
  unfold vindex. cbn [app skip_ws]. rewrite (digit_not_ws d Hd1).
  assert ((d =? 45) = false) as -> by (apply is_digit_not_minus; auto). cbn [andb]. cbn iota. rewrite Hd1.
  change (d :: ds ++ 93 :: rest) with ((d :: ds) ++ 93 :: rest).
  rewrite (span_app is_digit_or_us (d :: ds) (93 :: rest)).
  - cbn [negb andb orb]. change (is_ident_continue 93) with false. change (93 =? 46) with false. cbn [andb orb].
    cbn iota. rewrite dec_value_digits by auto.
    destruct (i64_ok (acc_pos (d :: ds) 0)); [|reflexivity].
    cbn [skip_ws]. change (is_ws 93) with false. cbn iota. change (93 =? 93) with true. reflexivity.
  - rewrite forallb_forall. intros x Hx. apply digit_is_dus. rewrite forallb_forall in Hd. auto.
  - reflexivity.
Qed.

Lemma vindex_shape_neg d ds rest :
  forallb is_digit (d :: ds) = true ->
  vindex (45 :: (d :: ds) ++ 93 :: rest) =
    if i64_ok (- acc_pos (d :: ds) 0)%Z then Some ((- acc_pos (d :: ds) 0)%Z, rest) else None.
Proof.
  intros Hd. pose proof Hd as Hd'. cbn [forallb] in Hd'. apply andb_true_iff in Hd' as [Hd1 Hd2].
  unfold vindex. cbn [app skip_ws]. change (is_ws 45) with false. cbn iota.
  change (45 =? 45) with true. rewrite Hd1. cbn [andb]. cbn iota. rewrite Hd1.
  change (d :: ds ++ 93 :: rest) with ((d :: ds) ++ 93 :: rest).
  rewrite (span_app is_digit_or_us (d :: ds) (93 :: rest)).
  - cbn [negb andb orb]. change (is_ident_continue 93) with false. change (93 =? 46) with false. cbn [andb orb].
    cbn iota. rewrite dec_value_digits by auto.
    destruct (i64_ok (- acc_pos (d :: ds) 0)%Z); [|reflexivity].
    cbn [skip_ws]. change (is_ws 93) with false. cbn iota. change (93 =? 93) with true. reflexivity.
  - rewrite forallb_forall. intros x Hx. apply digit_is_dus. rewrite forallb_forall in Hd. auto.
  - reflexivity.
Qed.

(* both readers on an index: if the machine gets through, it ends where vindex ends, with the same index *)
Lemma index_agree x i rest out p' :
  vindex x = Some (i, rest) -> jit JIndexStart x out = POk p' ->
  jit JContinue rest (SIndex i :: out) = POk p' /\ exists pre, x = pre ++ rest.
Proof.
  intros Hv Hj. destruct x as [|c r]; [discriminate|].
  cbn [jit] in Hj. destruct (is_digit c) eqn:Ed.
  - destruct (jit_index_shape _ _ _ _ Hj) as (ds & rest' & -> & Hd & Hj').
    assert (Hall : forallb is_digit (c :: ds) = true) by (cbn; rewrite Ed, Hd; reflexivity).
    change (c :: ds ++ 93 :: rest') with ((c :: ds) ++ 93 :: rest') in Hv.
    rewrite vindex_shape_pos in Hv by auto.
    destruct (i64_ok (acc_pos (c :: ds) 0)); [|discriminate]. inversion Hv; subst.
    split.
    + change (acc_pos (c :: ds) 0%Z) with (acc_pos ds (0 * 10 + digit_val c)%Z).
      replace (0 * 10 + digit_val c)%Z with (digit_val c) by lia. exact Hj'.
    + exists (c :: ds ++ [93]). cbn. rewrite <- app_assoc. reflexivity.
  - destruct (c =? 45) eqn:E45; [|discriminate]. apply N.eqb_eq in E45. subst c.
    destruct (jit_negindex_shape _ _ _ _ Hj) as (ds & rest' & -> & Hd & Hj').
    destruct ds as [|d ds].
    + (* "[-]": the machine accepts it as index 0, VRL does not read it as an integer *)
      exfalso. cbn [app] in Hv. unfold vindex in Hv. cbn [skip_ws] in Hv. change (is_ws 45) with false in Hv.
      cbn iota in Hv. change (45 =? 45) with true in Hv. change (is_digit 93) with false in Hv.
      cbn [andb] in Hv. cbn iota in Hv. change (is_digit 45) with false in Hv. discriminate.
    + rewrite vindex_shape_neg in Hv by auto.
      destruct (i64_ok (- acc_pos (d :: ds) 0)%Z); [|discriminate]. inversion Hv; subst.
      split.
      * replace 0%Z with (- 0)%Z in Hj' by lia. rewrite acc_neg_pos in Hj'. exact Hj'.
      * exists (45 :: (d :: ds) ++ [93]). cbn. rewrite <- app_assoc. reflexivity.
Qed.

(* ---------- quoted fields ---------- *)
Lemma unescape_cons_plain c l u :
  (c =? 92) = false -> unescape l = Some u -> unescape (c :: l) = Some (c :: u).
Proof. intros Hc Hu. cbn [unescape]. rewrite Hc, Hu. reflexivity. Qed.

Lemma esc_char_special e : (e =? 92) || (e =? 34) = true -> esc_char e = Some e.
Proof. intros H. apply orb_true_iff in H as [H|H]; apply N.eqb_eq in H; subst; reflexivity. Qed.

Lemma esc_sim n : forall z buf raw0 raw rest out p',
  (length z <= n)%nat ->
  string_lit z raw0 = Some (raw, rest) -> jit (JEscQuote buf) z out = POk p' ->
  exists content u, raw = raw0 ++ content /\ unescape content = Some u /\ z = content ++ 34 :: rest
                    /\ jit JContinue rest (SField (buf ++ u) :: out) = POk p'.
Proof.
  induction n as [|n IH]; intros z buf raw0 raw rest out p' Hlen Hs Hj.
  - destruct z; [discriminate|cbn in Hlen; lia].
  - destruct z as [|c r]; [discriminate|]. cbn in Hlen.
    cbn [string_lit] in Hs. cbn [jit] in Hj.
    destruct (c =? 34) eqn:E34.
    + inversion Hs; subst. apply N.eqb_eq in E34. subst c.
      exists [], []. rewrite !app_nil_r. repeat split; auto.
    + destruct (c =? 92) eqn:E92.
      * apply N.eqb_eq in E92. subst c.
        destruct r as [|e r2]; [discriminate|].
        destruct ((e =? 92) || (e =? 34)) eqn:Es; [|discriminate].
        destruct (valid_escape e); [|discriminate].
        destruct (IH r2 (buf ++ [e]) _ _ _ _ _ ltac:(cbn in Hlen; lia) Hs Hj) as (content & u & -> & Hu & -> & Hj').
        exists (92 :: e :: content), (e :: u). repeat split.
        -- rewrite <- app_assoc. reflexivity.
        -- cbn [unescape]. change (92 =? 92) with true. cbn iota. rewrite (esc_char_special e Es), Hu. reflexivity.
        -- rewrite <- app_assoc in Hj'. exact Hj'.
      * destruct (IH r (buf ++ [c]) _ _ _ _ _ ltac:(lia) Hs Hj) as (content & u & -> & Hu & -> & Hj').
        exists (c :: content), (c :: u). repeat split.
        -- rewrite <- app_assoc. reflexivity.
        -- apply unescape_cons_plain; auto.
        -- rewrite <- app_assoc in Hj'. exact Hj'.
Qed.

Lemma quote_sim n : forall z acc raw0 raw rest out p',
  (length z <= n)%nat -> clean acc = true ->
  string_lit z raw0 = Some (raw, rest) -> jit (JQuote acc) z out = POk p' ->
  exists content u, raw = raw0 ++ content /\ unescape content = Some u /\ z = content ++ 34 :: rest
                    /\ jit JContinue rest (SField (acc ++ u) :: out) = POk p'.
Proof.
  induction n as [|n IH]; intros z acc raw0 raw rest out p' Hlen Hc Hs Hj.
  - destruct z; [discriminate|cbn in Hlen; lia].
  - destruct z as [|c r]; [discriminate|]. cbn in Hlen.
    cbn [string_lit] in Hs. cbn [jit] in Hj.
    destruct (c =? 34) eqn:E34.
    + inversion Hs; subst. apply N.eqb_eq in E34. subst c.
      exists [], []. rewrite !app_nil_r. repeat split; auto.
    + destruct (c =? 92) eqn:E92.
      * apply N.eqb_eq in E92. subst c.
        rewrite esc_replay_clean in Hj by auto. cbn [app] in Hj.
        destruct r as [|e r2]; [discriminate|].
        destruct ((e =? 92) || (e =? 34)) eqn:Es; [|discriminate].
        destruct (valid_escape e); [|discriminate].
        destruct (esc_sim n r2 (acc ++ [e]) _ _ _ _ _ ltac:(cbn in Hlen; lia) Hs Hj) as (content & u & -> & Hu & -> & Hj').
        exists (92 :: e :: content), (e :: u). repeat split.
        -- rewrite <- app_assoc. reflexivity.
        -- cbn [unescape]. change (92 =? 92) with true. cbn iota. rewrite (esc_char_special e Es), Hu. reflexivity.
        -- rewrite <- app_assoc in Hj'. exact Hj'.
      * assert (Hc' : clean (acc ++ [c]) = true).
        { rewrite clean_app, Hc. cbn. unfold special. rewrite E34, E92. reflexivity. }
        destruct (IH r (acc ++ [c]) _ _ _ _ _ ltac:(lia) Hc' Hs Hj) as (content & u & -> & Hu & -> & Hj').
        exists (c :: content), (c :: u). repeat split.
        -- rewrite <- app_assoc. reflexivity.
        -- apply unescape_cons_plain; auto.
        -- rewrite <- app_assoc in Hj'. exact Hj'.
Qed.

Lemma field_of_raw_plain raw : tf raw -> field_of_raw raw = unescape raw.
Proof.
  intros H. unfold field_of_raw. rewrite template_plain_tf by auto. cbn [app]. unfold push_lit.
  destruct raw as [|c l]; [reflexivity|].
  cbn [app]. destruct (unescape (c :: l)) as [u|]; cbn [tsegs_to_string]; [rewrite app_nil_r|]; reflexivity.
Qed.

(* ---------- the simulation ---------- *)
(* where the machine is when the VRL reading stands at a segment boundary before the text r *)
Inductive sim (r : text) : bool -> jstate -> list seg -> list seg -> Prop :=
| sim_first st acc : (st = JStart \/ st = JEventRoot) -> sim r true st acc acc
| sim_cont acc : sim r false JContinue acc acc
| sim_field k acc :
    (match r with c :: _ => is_ident_continue c = false | [] => True end) ->
    sim r false (JField k) (SField k :: acc) acc.

(* one field, both readers *)
Lemma field_agree st y k rest out p' :
  boundary st = true -> tf y ->
  vfield y = Some (k, rest) -> jit st y out = POk p' ->
  exists st' out', sim rest false st' (SField k :: out) out' /\ jit st' rest out' = POk p'
                   /\ tf rest /\ (length rest < length y)%nat.
Proof.
  intros Hb Hnb Hv Hj. destruct y as [|d z]; [discriminate|].
  cbn [vfield] in Hv. destruct (d =? 34) eqn:E34.
  - apply N.eqb_eq in E34. subst d.
    destruct (string_lit z []) as [[raw rest0]|] eqn:Hs; [|discriminate].
    destruct (field_of_raw raw) as [f|] eqn:Hf; [|discriminate]. inversion Hv; subst f rest0.
    rewrite jit_boundary_quote in Hj by auto.
    destruct (quote_sim (length z) z [] [] raw rest out p' (le_n _) eq_refl Hs Hj) as (content & u & Er & Hu & Ez & Hj').
    cbn [app] in Er, Hj'. subst raw.
    apply tf_cons in Hnb. rewrite Ez in Hnb.
    pose proof (tf_app_l _ _ Hnb) as Hn1. pose proof (tf_cons _ _ (tf_app_r _ _ Hnb)) as Hn2.
    rewrite field_of_raw_plain in Hf by auto. rewrite Hu in Hf. inversion Hf; subst u.
    exists JContinue, (SField k :: out). repeat split; auto; [constructor|].
    rewrite Ez. cbn [length]. rewrite app_length. cbn [length]. lia.
  - unfold vident in Hv.
    assert (Hcommon : forall tok rst, span is_ident_continue (d :: z) = (tok, rst) -> is_ident_continue d = true ->
              exists st' out', sim rst false st' (SField tok :: out) out' /\ jit st' rst out' = POk p'
                               /\ tf rst /\ (length rst < length (d :: z))%nat).
    { intros tok rst Hsp Hd.
      cbn [span] in Hsp. rewrite Hd in Hsp. destruct (span is_ident_continue z) as [a b] eqn:Hz.
      inversion Hsp; subst tok rst.
      destruct (span_spec _ _ _ _ Hz) as (Ez & Ha & Hbn).
      rewrite jit_boundary_ident in Hj by auto.
      rewrite Ez in Hj. rewrite jit_field_run in Hj.
      2:{ rewrite forallb_forall in *. intros x Hx. apply ident_continue_jit. auto. }
      exists (JField (d :: a)), out. repeat split; auto.
      - constructor. exact Hbn.
      - apply tf_cons in Hnb. rewrite Ez in Hnb. eapply tf_app_r; eauto.
      - rewrite Ez. cbn [length]. rewrite app_length. lia. }
    destruct (is_ident_start d) eqn:Eis.
    + assert (Hd : is_ident_continue d = true) by (unfold is_ident_continue; rewrite Eis; apply orb_true_r).
      destruct (span is_ident_continue (d :: z)) as [tok rst] eqn:Hsp.
      assert (Hk : tok = k /\ rst = rest).
      { destruct tok as [|u [|u2 tl]]; try (inversion Hv; auto).
        destruct (u =? 95); [discriminate|]. inversion Hv; auto. }
      destruct Hk; subst. apply Hcommon; auto.
    + destruct (is_digit d) eqn:Edg; [|discriminate].
      assert (Hd : is_ident_continue d = true) by (unfold is_ident_continue; rewrite Edg; reflexivity).
      destruct (span is_digit_or_us (d :: z)) as [pre rest1].
      destruct rest1 as [|e tl]; [discriminate|].
      destruct (is_ident_continue e); [|discriminate].
      destruct (span is_ident_continue (d :: z)) as [tok rst] eqn:Hsp. inversion Hv; subst.
      apply Hcommon; auto.
Qed.

Lemma jit_on_lbracket r st vacc jacc x :
  sim r false st vacc jacc \/ sim r true st vacc jacc ->
  jit st (91 :: x) jacc = jit JIndexStart x vacc.
Proof.
  intros [H|H]; inversion H; subst; try reflexivity.
  destruct H0 as [-> | ->]; reflexivity.
Qed.

Lemma sim_agree fuel : forall first r vacc st jacc p p',
  tf r -> sim r first st vacc jacc ->
  vsegs fuel first r vacc = Some p -> jit st r jacc = POk p' -> p = p'.
Proof.
  induction fuel as [|f IH]; intros first r vacc st jacc p p' Hnb Hsim Hv Hj; [discriminate|].
  cbn [vsegs] in Hv. destruct (all_ws r) eqn:Haw.
  - (* the VRL reading ends here *)
    inversion Hv; subst p. destruct r as [|w r'].
    + inversion Hsim; subst; cbn in Hj.
      * destruct H as [-> | ->]; [discriminate|]. inversion Hj; reflexivity.
      * inversion Hj; reflexivity.
      * inversion Hj; reflexivity.
    + cbn in Haw. apply andb_true_iff in Haw as [Hw _]. exfalso.
      assert (Hst : boundary st = true \/ exists k, st = JField k).
      { inversion Hsim; subst; [destruct H as [-> | ->]| |]; eauto. }
      rewrite (jit_boundary_ws st w r' jacc Hst Hw) in Hj. discriminate.
  - destruct r as [|c x]; [discriminate|].
    destruct (c =? 91) eqn:E91.
    + apply N.eqb_eq in E91. subst c.
      destruct (vindex x) as [[i rest]|] eqn:Hvi; [|discriminate].
      assert (Hj2 : jit JIndexStart x vacc = POk p').
      { rewrite <- Hj. symmetry. eapply jit_on_lbracket. destruct first; eauto. }
      destruct (index_agree x i rest vacc p' Hvi Hj2) as (Hj3 & pre & Ex).
      eapply IH; [| |exact Hv|exact Hj3].
      * apply tf_cons in Hnb. rewrite Ex in Hnb. eapply tf_app_r; eauto.
      * constructor.
    + destruct (c =? 46) eqn:E46.
      * apply N.eqb_eq in E46. subst c.
        destruct first; [discriminate|].
        destruct (vfield x) as [[k rest]|] eqn:Hvf; [|discriminate].
        assert (Hj2 : jit JDot x vacc = POk p').
        { inversion Hsim; subst; exact Hj. }
        apply tf_cons in Hnb.
        destruct (field_agree JDot x k rest vacc p' eq_refl Hnb Hvf Hj2) as (st' & out' & Hs' & Hj' & Hnb' & _).
        eapply IH; eauto.
      * destruct (vfield (c :: x)) as [[k rest]|] eqn:Hvf; [|discriminate].
        (* a field directly after the previous segment / the target *)
        assert (Hb : boundary st = true /\ vacc = jacc).
        { inversion Hsim; subst; [destruct H as [-> | ->]; auto | auto |].
          (* the machine is still inside an unquoted field: the VRL token ended, so c is not an identifier
             unit; then c must open a quoted field, which the machine rejects *)
          exfalso. cbn [vfield] in Hvf. destruct (c =? 34) eqn:E34.
          - cbn [jit] in Hj. apply N.eqb_eq in E34. subst c. cbn in Hj. discriminate.
          - unfold vident in Hvf. unfold is_ident_continue in H.
            apply orb_false_iff in H as [Hd Hs]. rewrite Hs, Hd in Hvf. discriminate. }
        destruct Hb as [Hb ->].
        destruct (field_agree st (c :: x) k rest jacc p' Hb Hnb Hvf Hj) as (st' & out' & Hs' & Hj' & Hnb' & _).
        eapply IH; eauto.
Qed.

Theorem agree_general s a b :
  template_syntax s = false -> vrl_path s = Some a -> parse_target_path s = POk b -> a = b.
Proof.
  intros Hnb Hv Hp. unfold vrl_path in Hv.
  destruct (skip_ws_cases s) as [E|(w & r & -> & Hw)].
  - rewrite E in Hv. destruct s as [|c r]; [discriminate|].
    unfold parse_target_path in Hp. cbn [get_target_prefix] in Hp.
    apply tf_cons in Hnb.
    destruct (c =? 46) eqn:E46.
    + apply N.eqb_eq in E46. subst c.
      destruct (vsegs (S (length r)) true r []) as [p|] eqn:Hvs; [|discriminate]. inversion Hv; subst a.
      unfold parse_value_path in Hp. cbn [jit] in Hp. change (46 =? 46) with true in Hp. cbn iota in Hp.
      destruct (jit JEventRoot r []) as [p'| | |] eqn:Hj; try discriminate. inversion Hp; subst b.
      f_equal. eapply sim_agree; eauto. constructor. auto.
    + destruct (c =? 37) eqn:E37; [|discriminate].
      destruct (vsegs (S (length r)) true r []) as [p|] eqn:Hvs; [|discriminate]. inversion Hv; subst a.
      unfold parse_value_path in Hp.
      destruct (jit JStart r []) as [p'| | |] eqn:Hj; try discriminate. inversion Hp; subst b.
      f_equal. eapply sim_agree; eauto. constructor. auto.
  - (* leading whitespace: VRL skips it, the path-string parser rejects it *)
    exfalso. destruct (ws_rejected w Hw) as (H46 & Hjc & H91 & H34 & _).
    unfold parse_target_path in Hp. cbn [get_target_prefix] in Hp. rewrite H46 in Hp.
    assert (H37 : (w =? 37) = false) by (clear - Hw; cls2).
    rewrite H37 in Hp. unfold parse_value_path in Hp. cbn [jit] in Hp. rewrite H46, Hjc, H91, H34 in Hp. discriminate.
Qed.
