(* Proofs about Model/StrFns.v (C28): case mapping idempotence, trim, split/join, substring search. *)
From Coq Require Import List NArith ZArith Bool Lia PArith FMapPositive.
From VRL Require Import Base.Bytes Base.Value Model.CodecUtf8 Model.CaseTables Model.StrFns
     Proofs.CodecProofs Proofs.PercentProofs Proofs.PunycodeProofs Proofs.StrUtf8.
Import ListNotations.
Local Open Scope N_scope.

(* ---------- chars / str ---------- *)
Lemma chars_all_scalar s : all_scalar (chars s).
Proof. apply chars_scalar, valid_lossy. Qed.

Lemma chars_str l : all_scalar l -> chars (str l) = l.
Proof.
  intros H. unfold chars, str. rewrite lossy_valid by (apply valid_of_cps; exact H).
  apply utf8_chars_of_cps; exact H.
Qed.

Lemma str_chars s : str (chars s) = utf8_lossy s.
Proof. unfold str, chars. apply utf8_reencode, valid_lossy. Qed.

Lemma all_scalar_app a b : all_scalar a -> all_scalar b -> all_scalar (a ++ b).
Proof. apply Forall_app_2 || (intros; apply Forall_app; split; assumption). Qed.

Lemma all_scalar_flat_map (f : N -> list N) l :
  (forall c, is_scalar_cp c = true -> all_scalar (f c)) -> all_scalar l -> all_scalar (flat_map f l).
Proof.
  intros Hf. induction 1 as [|c l Hc _ IH]; [constructor|].
  cbn [flat_map]. apply Forall_app; split; [apply Hf; exact Hc | exact IH].
Qed.

Lemma flat_map_fixed (f : N -> list N) l : (forall d, In d l -> f d = [d]) -> flat_map f l = l.
Proof.
  induction l as [|d l IH]; intros H; [reflexivity|].
  cbn [flat_map]. rewrite (H d) by (left; reflexivity). cbn [app]. f_equal. apply IH.
  intros e He. apply H. right; exact He.
Qed.

(* ---------- upcase is idempotent, for every per-code-point mapping that is pointwise stable ---------- *)
Section UpcaseIdem.
  Variable upper : N -> list N.
  Hypothesis upper_scalar : forall c, is_scalar_cp c = true -> all_scalar (upper c).
  Hypothesis upper_stable : forall c d, In d (upper c) -> upper d = [d].

  Theorem upcase_with_idem s : upcase_with upper (upcase_with upper s) = upcase_with upper s.
  Proof.
    unfold upcase_with.
    assert (Hs : all_scalar (flat_map upper (chars s)))
      by (apply all_scalar_flat_map; [exact upper_scalar | apply chars_all_scalar]).
    rewrite chars_str by exact Hs. f_equal.
    apply flat_map_fixed. intros d Hd. apply in_flat_map in Hd. destruct Hd as [c [_ Hc]].
    eapply upper_stable; exact Hc.
  Qed.
End UpcaseIdem.

(* ---------- downcase is idempotent (final-sigma rule included) ---------- *)
Section DowncaseIdem.
  Variable lower : N -> list N.
  Variable cased ign : N -> bool.
  Hypothesis lower_scalar : forall c, is_scalar_cp c = true -> all_scalar (lower c).
  Hypothesis lower_stable : forall c d, In d (lower c) -> lower d = [d] /\ d <> capital_sigma.
  Hypothesis lower_final_sigma : lower final_sigma = [final_sigma].
  Hypothesis lower_small_sigma : lower small_sigma = [small_sigma].

  Definition low_fixed (d : N) : Prop := lower d = [d] /\ d <> capital_sigma.

  Lemma lower_go_fixed l : forall before, Forall low_fixed (lower_go lower cased ign before l).
  Proof.
    induction l as [|c r IH]; intros before; [constructor|].
    cbn [lower_go]. apply Forall_app; split; [|apply IH].
    destruct (c =? capital_sigma) eqn:E.
    - constructor; [|constructor].
      destruct (ign_then_cased cased ign before && negb (ign_then_cased cased ign r));
        (split; [assumption | unfold final_sigma, small_sigma, capital_sigma; lia]).
    - apply Forall_forall. intros d Hd. apply (lower_stable c d Hd).
  Qed.

  Lemma lower_go_scalar l : all_scalar l -> forall before, all_scalar (lower_go lower cased ign before l).
  Proof.
    induction 1 as [|c r Hc _ IH]; intros before; [constructor|].
    cbn [lower_go]. apply Forall_app; split; [|apply IH].
    destruct (c =? capital_sigma).
    - constructor; [|constructor].
      destruct (ign_then_cased cased ign before && negb (ign_then_cased cased ign r)); reflexivity.
    - apply lower_scalar; exact Hc.
  Qed.

  Lemma lower_go_id l : Forall low_fixed l -> forall before, lower_go lower cased ign before l = l.
  Proof.
    induction 1 as [|c r [Hc Hn] _ IH]; intros before; [reflexivity|].
    cbn [lower_go]. rewrite (proj2 (N.eqb_neq c capital_sigma) Hn), Hc. cbn [app]. f_equal. apply IH.
  Qed.

  Theorem downcase_with_idem s :
    downcase_with lower cased ign (downcase_with lower cased ign s) = downcase_with lower cased ign s.
  Proof.
    unfold downcase_with, downcase_cps.
    rewrite chars_str by (apply lower_go_scalar, chars_all_scalar).
    f_equal. apply lower_go_id, lower_go_fixed.
  Qed.
End DowncaseIdem.

(* ---------- the concrete tables satisfy the hypotheses ---------- *)
Lemma upper_map_eq : upper_map = build_map upper_entries.
Proof. vm_cast_no_check (eq_refl upper_map). Qed.
Lemma lower_map_eq : lower_map = build_map lower_entries.
Proof. vm_cast_no_check (eq_refl lower_map). Qed.

Lemma build_map_find l p v : PositiveMap.find p (build_map l) = Some v -> In (Npos p, v) l.
Proof.
  induction l as [|[k w] l IH]; cbn [build_map fold_right]; intros H.
  - rewrite PositiveMap.gempty in H. discriminate.
  - fold (build_map l) in H. cbn [fst snd] in H. destruct k as [|q].
    + right. apply IH. exact H.
    + destruct (Pos.eq_dec p q) as [->|Hne].
      * rewrite PositiveMap.gss in H. left. congruence.
      * rewrite PositiveMap.gso in H by exact Hne. right. apply IH. exact H.
Qed.

Lemma map_cp_cases l c : map_cp (build_map l) c = [c] \/ In (c, map_cp (build_map l) c) l.
Proof.
  unfold map_cp. destruct c as [|p]; [left; reflexivity|].
  destruct (PositiveMap.find p (build_map l)) as [v|] eqn:E; [|left; reflexivity].
  right. apply build_map_find. exact E.
Qed.

Definition nlist_eqb (a b : list N) : bool := bytes_eqb a b.

Definition entries_stable (nosigma : bool) (f : N -> list N) (l : list (N * list N)) : bool :=
  forallb (fun e => forallb (fun d => nlist_eqb (f d) [d] && (negb nosigma || negb (d =? capital_sigma))
                                      && is_scalar_cp d) (snd e)) l.

Lemma upper_entries_stable : entries_stable false upper_cp upper_entries = true.
Proof. vm_compute. reflexivity. Qed.
Lemma lower_entries_stable : entries_stable true lower_cp lower_entries = true.
Proof. vm_compute. reflexivity. Qed.

Lemma entries_stable_in ns f l c m d : entries_stable ns f l = true -> In (c, m) l -> In d m ->
  f d = [d] /\ (ns = true -> d <> capital_sigma) /\ is_scalar_cp d = true.
Proof.
  intros H Hc Hd. unfold entries_stable in H. rewrite forallb_forall in H.
  specialize (H _ Hc). cbn [snd] in H. rewrite forallb_forall in H. specialize (H _ Hd).
  apply andb_true_iff in H. destruct H as [H H3]. apply andb_true_iff in H. destruct H as [H1 H2].
  apply bytes_eqb_eq in H1. repeat split; [exact H1 | | exact H3].
  intros ->. cbn [negb orb] in H2. apply negb_true_iff, N.eqb_neq in H2. exact H2.
Qed.

Lemma upper_cp_stable c d : In d (upper_cp c) -> upper_cp d = [d].
Proof.
  unfold upper_cp at 1. rewrite upper_map_eq. intros Hd.
  destruct (map_cp_cases upper_entries c) as [E|E].
  - rewrite E in Hd. destruct Hd as [<-|[]]. unfold upper_cp. rewrite upper_map_eq. exact E.
  - apply (entries_stable_in _ _ _ _ _ d upper_entries_stable E Hd).
Qed.

Lemma upper_cp_scalar c : is_scalar_cp c = true -> all_scalar (upper_cp c).
Proof.
  intros Hc. unfold upper_cp. rewrite upper_map_eq.
  destruct (map_cp_cases upper_entries c) as [E|E].
  - rewrite E. constructor; [exact Hc|constructor].
  - apply Forall_forall. intros d Hd. apply (entries_stable_in _ _ _ _ _ d upper_entries_stable E Hd).
Qed.

Lemma lower_cp_stable c d : In d (lower_cp c) -> lower_cp d = [d] /\ d <> capital_sigma.
Proof.
  unfold lower_cp at 1. rewrite lower_map_eq. intros Hd.
  destruct (map_cp_cases lower_entries c) as [E|E].
  - rewrite E in Hd. destruct Hd as [<-|[]]. split.
    + unfold lower_cp. rewrite lower_map_eq. exact E.
    + intros ->. revert E. rewrite <- lower_map_eq. vm_compute. discriminate.
  - destruct (entries_stable_in _ _ _ _ _ d lower_entries_stable E Hd) as [H1 [H2 _]]. split; [exact H1 | apply H2; reflexivity].
Qed.

Lemma lower_cp_scalar c : is_scalar_cp c = true -> all_scalar (lower_cp c).
Proof.
  intros Hc. unfold lower_cp. rewrite lower_map_eq.
  destruct (map_cp_cases lower_entries c) as [E|E].
  - rewrite E. constructor; [exact Hc|constructor].
  - apply Forall_forall. intros d Hd. apply (entries_stable_in _ _ _ _ _ d lower_entries_stable E Hd).
Qed.

Theorem upcase_idem s : upcase (upcase s) = upcase s.
Proof. apply upcase_with_idem; [exact upper_cp_scalar | exact upper_cp_stable]. Qed.

Theorem downcase_idem s : downcase (downcase s) = downcase s.
Proof.
  apply downcase_with_idem;
    [exact lower_cp_scalar | exact lower_cp_stable | vm_compute; reflexivity | vm_compute; reflexivity].
Qed.

(* ---------- strip_whitespace ---------- *)
Definition all_ws (l : list N) : Prop := Forall (fun c => is_ws c = true) l.
Definition no_ws_ends (l : list N) : Prop :=
  (forall c r, l = c :: r -> is_ws c = false) /\ (forall c r, l = r ++ [c] -> is_ws c = false).

Lemma drop_while_spec {A} (f : A -> bool) l :
  exists pre, l = pre ++ drop_while f l /\ Forall (fun c => f c = true) pre
              /\ (forall c r, drop_while f l = c :: r -> f c = false).
Proof.
  induction l as [|x l [pre [E [Hp Hh]]]].
  - exists []. repeat split; [constructor | intros c r H; discriminate].
  - cbn [drop_while]. destruct (f x) eqn:Fx.
    + exists (x :: pre). repeat split; [cbn [app]; f_equal; exact E | constructor; assumption | exact Hh].
    + exists []. repeat split; [constructor | intros c r H; inversion H; subst; exact Fx].
Qed.

Lemma trim_spec l : exists pre suf, l = pre ++ trim l ++ suf /\ all_ws pre /\ all_ws suf /\ no_ws_ends (trim l).
Proof.
  unfold trim, trim_start, trim_end.
  destruct (drop_while_spec is_ws l) as [pre [E1 [Hpre Hhead]]].
  set (m := drop_while is_ws l) in *.
  destruct (drop_while_spec is_ws (rev m)) as [sufr [E2 [Hsuf Hlast]]].
  set (t := drop_while is_ws (rev m)) in *.
  assert (Em : m = rev t ++ rev sufr).
  { rewrite <- (rev_involutive m), E2, rev_app_distr. reflexivity. }
  exists pre, (rev sufr). repeat split.
  - rewrite E1 at 1. rewrite Em at 1. reflexivity.
  - exact Hpre.
  - apply Forall_rev. exact Hsuf.
  - intros c r H. apply (Hhead c (r ++ rev sufr)). rewrite Em, H. reflexivity.
  - intros c r H. apply (Hlast c (rev r)).
    rewrite <- (rev_involutive t), H, rev_app_distr. reflexivity.
Qed.

Theorem strip_ws_spec s : exists pre t suf,
  chars s = pre ++ t ++ suf /\ strip_ws s = str t /\ all_ws pre /\ all_ws suf /\ no_ws_ends t
  /\ utf8_lossy s = str pre ++ strip_ws s ++ str suf.
Proof.
  destruct (trim_spec (chars s)) as [pre [suf [E [Hp [Hs Hn]]]]].
  exists pre, (trim (chars s)), suf. repeat split; try assumption; try apply Hn.
  rewrite <- str_chars. rewrite E at 1. unfold strip_ws, str. rewrite !utf8_of_cps_app. reflexivity.
Qed.

Lemma drop_while_none {A} (f : A -> bool) l : (forall c r, l = c :: r -> f c = false) -> drop_while f l = l.
Proof. destruct l as [|x l]; intros H; [reflexivity|]. cbn [drop_while]. rewrite (H x l eq_refl). reflexivity. Qed.

Lemma trim_fixed l : no_ws_ends l -> trim l = l.
Proof.
  intros [Hh Hl]. unfold trim, trim_start, trim_end. rewrite (drop_while_none _ l Hh).
  rewrite drop_while_none; [apply rev_involutive|].
  intros c r H. apply (Hl c (rev r)). rewrite <- (rev_involutive l), H. reflexivity.
Qed.

Lemma all_scalar_sub pre t suf : all_scalar (pre ++ t ++ suf) -> all_scalar t.
Proof. intros H. apply Forall_app in H. destruct H as [_ H]. apply Forall_app in H. apply H. Qed.

Theorem strip_ws_idem s : strip_ws (strip_ws s) = strip_ws s.
Proof.
  destruct (strip_ws_spec s) as [pre [t [suf [E [Es [_ [_ [Hn _]]]]]]]].
  rewrite Es. unfold strip_ws at 1.
  rewrite chars_str by (apply (all_scalar_sub pre t suf); rewrite <- E; apply chars_all_scalar).
  rewrite trim_fixed by exact Hn. reflexivity.
Qed.

(* ---------- substring search ---------- *)
Lemma is_prefix_iff p s : is_prefix p s = true <-> exists t, s = p ++ t.
Proof.
  revert s; induction p as [|x p IH]; intros s; cbn [is_prefix].
  - split; [intros _; exists s; reflexivity | reflexivity].
  - destruct s as [|y s].
    + split; [discriminate | intros [t H]; discriminate].
    + rewrite andb_true_iff, N.eqb_eq, IH. split.
      * intros [-> [t ->]]. exists t. reflexivity.
      * intros [t H]. inversion H; subst. split; [reflexivity | exists t; reflexivity].
Qed.

Lemma skipn_app_exact {A} (p t : list A) : skipn (length p) (p ++ t) = t.
Proof. induction p; [reflexivity | assumption]. Qed.

Lemma is_prefix_skipn p s : is_prefix p s = true -> s = p ++ skipn (length p) s.
Proof.
  intros H. apply is_prefix_iff in H. destruct H as [t ->]. rewrite skipn_app_exact. reflexivity.
Qed.

Lemma find_sub_some p s b a : find_sub p s = Some (b, a) -> s = b ++ p ++ a.
Proof.
  revert b a; induction s as [|c r IH]; intros b a; cbn [find_sub].
  - destruct (is_prefix p []) eqn:E; [|discriminate].
    intros H; inversion H; subst. cbn [app]. apply is_prefix_skipn; exact E.
  - destruct (is_prefix p (c :: r)) eqn:E.
    + intros H; inversion H; subst. cbn [app]. apply is_prefix_skipn; exact E.
    + destruct (find_sub p r) as [[b' a']|] eqn:F; [|discriminate].
      intros H; inversion H; subst. rewrite (IH b' a eq_refl). reflexivity.
Qed.

Lemma find_sub_complete p a b : find_sub p (a ++ p ++ b) <> None.
Proof.
  induction a as [|c a IH].
  - cbn [app]. destruct (p ++ b) as [|x l] eqn:E; cbn [find_sub].
    + assert (Hp : is_prefix p [] = true) by (apply is_prefix_iff; exists b; symmetry; exact E).
      rewrite Hp. discriminate.
    + assert (Hp : is_prefix p (x :: l) = true) by (apply is_prefix_iff; exists b; symmetry; exact E).
      rewrite Hp. discriminate.
  - cbn [app find_sub]. destruct (is_prefix p (c :: a ++ p ++ b)); [discriminate|].
    destruct (find_sub p (a ++ p ++ b)) as [[b' a']|]; [discriminate | contradiction].
Qed.

(* the match found is the first one: p does not occur (ending) inside b ++ p minus its last byte *)
Lemma find_sub_first p s b a : find_sub p s = Some (b, a) ->
  forall b1 b2, b = b1 ++ b2 -> b2 <> [] -> is_prefix p (b2 ++ p ++ a) = false.
Proof.
  revert b a; induction s as [|c r IH]; intros b a; cbn [find_sub].
  - destruct (is_prefix p []); [|discriminate]. intros H; inversion H; subst.
    intros b1 b2 Hb Hn. destruct b1, b2; try discriminate. contradiction.
  - destruct (is_prefix p (c :: r)) eqn:E.
    + intros H; inversion H; subst. intros b1 b2 Hb Hn. destruct b1, b2; try discriminate. contradiction.
    + destruct (find_sub p r) as [[b' a']|] eqn:F; [|discriminate].
      intros H; inversion H; subst. intros b1 b2 Hb Hn.
      destruct b1 as [|x b1].
      * cbn [app] in Hb. subst b2. rewrite <- E. f_equal. cbn [app]. f_equal.
        symmetry. apply (find_sub_some _ _ _ _ F).
      * cbn [app] in Hb. inversion Hb; subst. apply (IH _ _ eq_refl b1 b2 eq_refl Hn).
Qed.

Theorem starts_with_cs_spec s p : starts_with_cs s p = true <-> exists t, s = p ++ t.
Proof.
  unfold starts_with_cs. destruct (length s <? length p)%nat eqn:E.
  - split; [discriminate|]. intros [t ->]. apply Nat.ltb_lt in E. rewrite app_length in E. lia.
  - apply is_prefix_iff.
Qed.

Lemma is_suffix_iff p s : is_suffix p s = true <-> exists t, s = t ++ p.
Proof.
  unfold is_suffix. rewrite is_prefix_iff. split.
  - intros [t H]. exists (rev t). rewrite <- (rev_involutive s), H, rev_app_distr, rev_involutive. reflexivity.
  - intros [t ->]. exists (rev t). apply rev_app_distr.
Qed.

Lemma is_infix_iff p s : is_infix p s = true <-> exists a b, s = a ++ p ++ b.
Proof.
  unfold is_infix. split.
  - destruct (find_sub p s) as [[b a]|] eqn:F; [|discriminate]. intros _. exists b, a. apply find_sub_some; exact F.
  - intros [a [b ->]]. pose proof (find_sub_complete p a b) as H.
    destruct (find_sub p (a ++ p ++ b)); [reflexivity | contradiction].
Qed.

Theorem ends_with_cs_spec s p : ends_with_cs s p = true <-> exists t, utf8_lossy s = t ++ utf8_lossy p.
Proof. apply is_suffix_iff. Qed.

Theorem contains_cs_spec s p :
  contains_cs s p = true <-> exists a b, utf8_lossy s = a ++ utf8_lossy p ++ b.
Proof. apply is_infix_iff. Qed.

Theorem ends_with_ci_spec s p : ends_with_ci s p = true <-> exists t, downcase s = t ++ downcase p.
Proof. apply is_suffix_iff. Qed.

Theorem contains_ci_spec s p : contains_ci s p = true <-> exists a b, downcase s = a ++ downcase p ++ b.
Proof. apply is_infix_iff. Qed.

(* ---------- split / join ---------- *)
Lemma join_bytes_cons sep p ps : ps <> [] -> join_bytes sep (p :: ps) = p ++ sep ++ join_bytes sep ps.
Proof. destruct ps; [contradiction | reflexivity]. Qed.

Lemma splitn_ne_nonempty fuel n p s : 1 <= n -> splitn_ne fuel n p s <> [].
Proof.
  intros Hn. destruct fuel; cbn [splitn_ne]; [discriminate|].
  destruct (n =? 0) eqn:E0; [apply N.eqb_eq in E0; lia|].
  destruct (n =? 1); [discriminate|]. destruct (find_sub p s) as [[b a]|]; discriminate.
Qed.

Lemma join_splitn_ne fuel : forall n p s, 1 <= n -> join_bytes p (splitn_ne fuel n p s) = s.
Proof.
  induction fuel as [|f IH]; intros n p s Hn; cbn [splitn_ne]; [reflexivity|].
  destruct (n =? 0) eqn:E0; [apply N.eqb_eq in E0; lia|].
  destruct (n =? 1) eqn:E1; [reflexivity|]. apply N.eqb_neq in E0, E1.
  destruct (find_sub p s) as [[b a]|] eqn:F; [|reflexivity].
  rewrite join_bytes_cons by (apply splitn_ne_nonempty; lia).
  rewrite IH by lia. symmetry. apply find_sub_some; exact F.
Qed.

Lemma join_empty_concat l : join_bytes [] l = concat l.
Proof.
  induction l as [|x l IH]; [reflexivity|].
  destruct l as [|y l]; [cbn; rewrite app_nil_r; reflexivity|].
  change (join_bytes [] (x :: y :: l)) with (x ++ [] ++ join_bytes [] (y :: l)). rewrite IH. reflexivity.
Qed.

Lemma take_n_firstn {A} (n : N) (l : list A) : take_n n l = firstn (N.to_nat n) l.
Proof.
  revert n; induction l as [|x l IH]; intros n; cbn [take_n]; [destruct (N.to_nat n); reflexivity|].
  destruct (n =? 0) eqn:E.
  - apply N.eqb_eq in E. subst. reflexivity.
  - apply N.eqb_neq in E. replace (N.to_nat n) with (S (N.to_nat (n - 1))) by lia. cbn [firstn]. f_equal. apply IH.
Qed.

Lemma concat_char_pieces v : valid_utf8 v = true -> concat (char_pieces v) = v.
Proof.
  intros H. unfold char_pieces. rewrite <- flat_map_concat_map. apply (utf8_reencode v H).
Qed.

Lemma join_split_empty n v : 1 <= n -> valid_utf8 v = true -> join_bytes [] (split_empty n v) = v.
Proof.
  intros Hn Hv. unfold split_empty. rewrite join_empty_concat.
  destruct (n =? 0) eqn:E0; [apply N.eqb_eq in E0; lia|].
  set (all := [] :: char_pieces v ++ [[]]).
  assert (Hall : concat all = v).
  { unfold all. cbn [concat app]. rewrite concat_app. cbn [concat]. rewrite !app_nil_r. apply concat_char_pieces; exact Hv. }
  destruct (N.of_nat (length all) <=? n); [exact Hall|].
  rewrite take_n_firstn, concat_app. cbn [concat]. rewrite app_nil_r, <- concat_app, firstn_skipn. exact Hall.
Qed.

Theorem join_split s d limit : (1 <= limit)%Z ->
  join_bytes (utf8_lossy d) (split_str s d limit) = utf8_lossy s.
Proof.
  intros Hl. unfold split_str.
  assert (Hn : 1 <= limit_of limit).
  { unfold limit_of. destruct (limit <? 0)%Z eqn:E; [apply Z.ltb_lt in E; lia | lia]. }
  destruct (utf8_lossy d) as [|x p] eqn:Ed.
  - apply join_split_empty; [exact Hn | apply valid_lossy].
  - apply join_splitn_ne; exact Hn.
Qed.

(* every piece but the last is free of the (non-empty) delimiter when there is no effective limit *)
Lemma splitn_ne_pieces fuel : forall n p s, p <> [] ->
  Forall (fun x => length x <= length s)%nat (splitn_ne fuel n p s).
Proof.
  induction fuel as [|f IH]; intros n p s Hp; cbn [splitn_ne]; [repeat constructor|].
  destruct (n =? 0); [constructor|]. destruct (n =? 1); [repeat constructor|].
  destruct (find_sub p s) as [[b a]|] eqn:F; [|repeat constructor].
  pose proof (find_sub_some _ _ _ _ F) as E. constructor.
  - rewrite E, !app_length. lia.
  - eapply Forall_impl; [|apply IH; exact Hp]. cbn beta. intros x Hx. rewrite E, !app_length. lia.
Qed.

(* ---------- strlen ---------- *)
Theorem strlen_utf8 cps : all_scalar cps -> strlen (utf8_of_cps cps) = Z.of_nat (length cps).
Proof. intros H. unfold strlen. fold (str cps). rewrite chars_str by exact H. reflexivity. Qed.

(* ---------- truncate ---------- *)
Lemma utf8_of_cp_nonempty c : utf8_of_cp c <> [].
Proof.
  unfold utf8_of_cp. destruct (c <? 128); [discriminate|]. destruct (c <? 2048); [discriminate|].
  destruct (c <? 65536); discriminate.
Qed.

Lemma str_length_ge l : (length l <= length (str l))%nat.
Proof.
  induction l as [|c l IH]; [cbn; lia|].
  unfold str in *. rewrite utf8_of_cps_cons, app_length. cbn [length].
  pose proof (utf8_of_cp_nonempty c). destruct (utf8_of_cp c); [contradiction|]. cbn [length]. lia.
Qed.

Lemma firstn_all_or_shorter {A} n (l : list A) :
  firstn n l = l \/ exists r, r <> [] /\ l = firstn n l ++ r.
Proof.
  destruct (Nat.le_gt_cases (length l) n) as [H|H].
  - left. apply firstn_all2; exact H.
  - right. exists (skipn n l). split; [|symmetry; apply firstn_skipn].
    intros E. pose proof (skipn_length n l) as L. rewrite E in L. cbn in L. lia.
Qed.

Lemma forall_firstn {A} (P : A -> Prop) n l : Forall P l -> Forall P (firstn n l).
Proof.
  revert l; induction n as [|n IH]; intros l H; [constructor|].
  destruct H as [|x l Hx Hl]; [constructor|]. cbn [firstn]. constructor; [exact Hx | apply IH; exact Hl].
Qed.

Definition nchars (s : bytes) : N := N.of_nat (length (chars s)).

Theorem truncate_spec s limit x :
  let n := limit_of limit in
  (nchars s <= n -> truncate_str s limit x = utf8_lossy s)
  /\ (n < nchars s -> truncate_str s limit x = str (firstn (N.to_nat n) (chars s)) ++ utf8_lossy x).
Proof.
  cbn zeta. unfold truncate_str, nchars. fold (chars s). rewrite take_n_firstn.
  set (k := N.to_nat (limit_of limit)). set (cs := chars s).
  assert (Ev : utf8_lossy s = str cs) by (symmetry; apply str_chars).
  destruct (firstn_all_or_shorter k cs) as [Hall|[r [Hr Hsplit]]].
  - rewrite Hall, Ev, Nat.ltb_irrefl. split; [reflexivity|].
    intros Hlt. exfalso. assert (length (firstn k cs) <= k)%nat by apply firstn_le_length.
    rewrite Hall in H. lia.
  - assert (Hlt : (length (str (firstn k cs)) <? length (utf8_lossy s))%nat = true).
    { apply Nat.ltb_lt. rewrite Ev. rewrite Hsplit at 2. unfold str. rewrite utf8_of_cps_app, app_length.
      pose proof (str_length_ge r) as Hg. unfold str in Hg. destruct r; [contradiction|]. cbn [length] in Hg. lia. }
    rewrite Hlt. split; [|reflexivity].
    intros Hle. exfalso. assert (Hk : (length cs <= k)%nat) by lia.
    rewrite (firstn_all2 cs Hk) in Hsplit. apply (f_equal (@length N)) in Hsplit. rewrite app_length in Hsplit.
    destruct r; [contradiction|]. cbn [length] in Hsplit. lia.
Qed.

Theorem truncate_len s limit x : nchars (truncate_str s limit x) <= limit_of limit + nchars x.
Proof.
  destruct (truncate_spec s limit x) as [H1 H2]. cbn zeta in *.
  destruct (N.le_gt_cases (nchars s) (limit_of limit)) as [Hle|Hgt].
  - rewrite (H1 Hle). unfold nchars in *. unfold chars at 1. rewrite lossy_valid by apply valid_lossy.
    fold (chars s). lia.
  - rewrite (H2 Hgt). unfold nchars. unfold chars at 1.
    assert (Hs : all_scalar (firstn (N.to_nat (limit_of limit)) (chars s))).
    { apply forall_firstn, chars_all_scalar. }
    rewrite lossy_valid by (unfold str; rewrite valid_of_cps_app by exact Hs; apply valid_lossy).
    unfold str. rewrite utf8_chars_of_cps_app by exact Hs. rewrite app_length. fold (chars x).
    pose proof (firstn_le_length (N.to_nat (limit_of limit)) (chars s)). lia.
Qed.

(* ---------- slice ---------- *)
Lemma nth_error_firstn' {A} (l : list A) : forall n i, (i < n)%nat -> nth_error (firstn n l) i = nth_error l i.
Proof.
  induction l as [|x l IH]; intros n i H; [destruct n; reflexivity|].
  destruct n; [lia|]. destruct i; [reflexivity|]. cbn [firstn nth_error]. apply IH. lia.
Qed.

Lemma nth_error_skipn' {A} (l : list A) : forall n i, nth_error (skipn n l) i = nth_error l (n + i).
Proof.
  induction l as [|x l IH]; intros n i; [destruct n, i; reflexivity|].
  destruct n; [reflexivity|]. cbn [skipn Nat.add nth_error]. apply IH.
Qed.

Definition norm_idx (i len : Z) : Z := if (i <? 0)%Z then (i + len)%Z else i.

Theorem slice_spec {A} (l : list A) (start : Z) (end_ : option Z) :
  let len := Z.of_nat (length l) in
  let s := norm_idx start len in
  let e := match end_ with Some e => norm_idx e len | None => len end in
  if ((0 <=? s) && (s <=? len) && (s <=? e))%Z
  then exists r, slice_list l start end_ = Some r
                 /\ Z.of_nat (length r) = (Z.min e len - s)%Z
                 /\ forall i, (i < length r)%nat -> nth_error r i = nth_error l (Z.to_nat s + i)
  else slice_list l start end_ = None.
Proof.
  cbn zeta. unfold slice_list, slice_range, norm_idx.
  set (len := Z.of_nat (length l)).
  set (s := if (start <? 0)%Z then (start + len)%Z else start).
  set (e := match end_ with Some e => if (e <? 0)%Z then (e + len)%Z else e | None => len end).
  destruct ((0 <=? s) && (s <=? len) && (s <=? e))%Z eqn:G.
  - apply andb_true_iff in G. destruct G as [G G3]. apply andb_true_iff in G. destruct G as [G1 G2].
    apply Z.leb_le in G1, G2, G3.
    rewrite (proj2 (Z.ltb_ge s 0) G1), (proj2 (Z.ltb_ge len s) G2), (proj2 (Z.ltb_ge e s) G3). cbn [orb].
    assert (Hgen : forall e', (s <= e' <= len)%Z ->
      Z.of_nat (length (firstn (Z.to_nat (e' - s)) (skipn (Z.to_nat s) l))) = (e' - s)%Z
      /\ forall i, (i < length (firstn (Z.to_nat (e' - s)) (skipn (Z.to_nat s) l)))%nat ->
           nth_error (firstn (Z.to_nat (e' - s)) (skipn (Z.to_nat s) l)) i = nth_error l (Z.to_nat s + i)).
    { intros e' He. assert (Hlen : length (firstn (Z.to_nat (e' - s)) (skipn (Z.to_nat s) l)) = Z.to_nat (e' - s)).
      { rewrite firstn_length, skipn_length. unfold len in *. lia. }
      split; [rewrite Hlen; lia|].
      intros i Hi. rewrite Hlen in Hi. rewrite nth_error_firstn' by exact Hi. apply nth_error_skipn'. }
    destruct (len <? e)%Z eqn:G4.
    + apply Z.ltb_lt in G4. eexists; split; [reflexivity|].
      rewrite Z.min_r by lia. apply Hgen. lia.
    + apply Z.ltb_ge in G4. eexists; split; [reflexivity|].
      rewrite Z.min_l by lia. apply Hgen. lia.
  - destruct ((s <? 0) || (len <? s))%Z eqn:G1; [reflexivity|].
    destruct (e <? s)%Z eqn:G2; [reflexivity|].
    apply orb_false_iff in G1. destruct G1 as [G1 G1']. apply Z.ltb_ge in G1, G1', G2.
    exfalso. apply andb_false_iff in G. destruct G as [G|G]; [apply andb_false_iff in G; destruct G as [G|G]|];
      apply Z.leb_gt in G; lia.
Qed.

(* ---------- chunks ---------- *)
Lemma chunks_go_concat fuel : forall n s, (0 < n)%nat -> (length s <= fuel)%nat -> concat (chunks_go fuel n s) = s.
Proof.
  induction fuel as [|f IH]; intros n s Hn Hl.
  - destruct s; [reflexivity | cbn in Hl; lia].
  - cbn [chunks_go]. destruct s as [|c r]; [reflexivity|].
    cbn [concat]. rewrite IH; [apply firstn_skipn | exact Hn |].
    rewrite skipn_length. cbn [length] in *. lia.
Qed.

Lemma chunks_go_sizes fuel : forall n s, (0 < n)%nat -> (length s <= fuel)%nat ->
  Forall (fun c => 1 <= length c <= n)%nat (chunks_go fuel n s).
Proof.
  induction fuel as [|f IH]; intros n s Hn Hl; [constructor|].
  cbn [chunks_go]. destruct s as [|c r]; [constructor|]. constructor.
  - rewrite firstn_length. cbn [length]. lia.
  - apply IH; [exact Hn|]. rewrite skipn_length. cbn [length] in *. lia.
Qed.

Theorem chunks_spec b n : (1 <= n)%Z ->
  exists ps, fn_chunks (VBytes b) (VInt n) = ROk (VArr (map VBytes ps)) /\ concat ps = b
             /\ Forall (fun c => 1 <= Z.of_nat (length c) <= n)%Z ps.
Proof.
  intros Hn. unfold fn_chunks. rewrite (proj2 (Z.ltb_ge n 1) Hn).
  set (k := Z.to_nat (Z.min n (Z.of_nat (length b) + 1))).
  assert (Hk : (0 < k)%nat) by (unfold k; lia).
  exists (chunks_go (length b) k b). repeat split.
  - apply chunks_go_concat; [exact Hk | lia].
  - eapply Forall_impl; [|apply (chunks_go_sizes (length b) k b Hk); lia].
    cbn beta. intros c Hc. unfold k in Hc. lia.
Qed.

(* ---------- the whitespace table ---------- *)
Definition ws_cps : list N :=
  [9; 10; 11; 12; 13; 32; 133; 160; 5760; 8192; 8193; 8194; 8195; 8196; 8197; 8198; 8199; 8200; 8201; 8202;
   8232; 8233; 8239; 8287; 12288].

Lemma orb_true_elim' a b : a || b = true -> a = true \/ b = true.
Proof. apply orb_true_iff. Qed.

Theorem is_ws_spec c : is_ws c = true <-> In c ws_cps.
Proof.
  split.
  - unfold is_ws. intros H.
    repeat (apply orb_true_iff in H; destruct H as [H|H]);
      try (apply N.eqb_eq in H; subst; cbn; tauto).
    + apply andb_true_iff in H. destruct H as [H1 H2]. apply N.leb_le in H1, H2.
      assert (E : c = 9 \/ c = 10 \/ c = 11 \/ c = 12 \/ c = 13) by lia.
      cbn. intuition (subst; auto).
    + apply andb_true_iff in H. destruct H as [H1 H2]. apply N.leb_le in H1, H2.
      assert (E : c = 8192 \/ c = 8193 \/ c = 8194 \/ c = 8195 \/ c = 8196 \/ c = 8197 \/ c = 8198 \/ c = 8199
                  \/ c = 8200 \/ c = 8201 \/ c = 8202) by lia.
      cbn. intuition (subst; auto 30).
  - intros H. cbn in H. intuition (subst; reflexivity).
Qed.

(* ---------- case-insensitive search: where the implementation departs from "lowercase both, then search" ---------- *)
Definition s_of (l : list N) : bytes := utf8_of_cps l.

(* contains("ΑΣΑ", "ΑΣ"): found case-sensitively, not found case-insensitively (final sigma) *)
Lemma ci_final_sigma_witness :
  let s := s_of [913; 931; 913] in let p := s_of [913; 931] in
  contains_cs s p = true /\ contains_ci s p = false
  /\ ends_with_cs p (s_of [931]) = true /\ ends_with_ci p (s_of [931]) = false.
Proof. vm_compute. repeat split. Qed.

(* starts_with("K" (U+212A), "kk", case_sensitive: false) *)
Lemma starts_with_ci_zip_witness :
  let s := s_of [8490] in let p := s_of [107; 107] in
  valid_utf8 s = true /\ valid_utf8 p = true /\ starts_with_ci s p = true
  /\ is_prefix (downcase p) (downcase s) = false /\ (length (chars p) > length (chars s))%nat.
Proof. vm_compute. repeat split; lia. Qed.

Theorem join_split_valid s d limit : (1 <= limit)%Z -> valid_utf8 s = true -> valid_utf8 d = true ->
  join_bytes d (split_str s d limit) = s.
Proof.
  intros Hl Hs Hd. pose proof (join_split s d limit Hl) as H.
  rewrite (lossy_valid d Hd), (lossy_valid s Hs) in H. exact H.
Qed.
