(* Induction principle for the nested inductive `expr`. *)
From Coq Require Import List NArith ZArith Bool.
From VRL Require Import Base.Bytes Base.Value Model.Expr.
Import ListNotations.

Definition opt_holds {A} (Q : A -> Prop) (o : option A) : Prop :=
  match o with Some a => Q a | None => True end.

Section expr_ind_nested.
  Variable P : expr -> Prop.
  Hypothesis HLit : forall v, P (ELit v).
  Hypothesis HVar : forall x, P (EVar x).
  Hypothesis HQExt : forall pfx p, P (EQExt pfx p).
  Hypothesis HQVar : forall x p, P (EQVar x p).
  Hypothesis HQExpr : forall e p, P e -> P (EQExpr e p).
  Hypothesis HArr : forall es, Forall P es -> P (EArr es).
  Hypothesis HObj : forall kvs, Forall (fun kv => P (snd kv)) kvs -> P (EObj kvs).
  Hypothesis HBlock : forall es, Forall P es -> P (EBlock es).
  Hypothesis HGroup : forall e, P e -> P (EGroup e).
  Hypothesis HIf : forall c t f, Forall P c -> Forall P t -> opt_holds (Forall P) f -> P (EIf c t f).
  Hypothesis HOp : forall o a b, P a -> P b -> P (EOp o a b).
  Hypothesis HNot : forall e, P e -> P (ENot e).
  Hypothesis HAssign : forall t e, P e -> P (EAssign t e).
  Hypothesis HAssignInf : forall ok er e d, P e -> P (EAssignInf ok er e d).
  Hypothesis HAbort : forall m, opt_holds P m -> P (EAbort m).
  Hypothesis HReturn : forall e, P e -> P (EReturn e).
  Hypothesis HCall : forall f args, Forall P args -> P (ECall f args).
  Hypothesis HDelExt : forall pfx p c, P (EDelExt pfx p c).
  Hypothesis HDelVar : forall x p c, P (EDelVar x p c).
  Hypothesis HExistsExt : forall pfx p, P (EExistsExt pfx p).
  Hypothesis HExistsVar : forall x p, P (EExistsVar x p).
  Hypothesis HClosure : forall cf arg ps body, P arg -> Forall P body -> P (EClosure cf arg ps body).

  Fixpoint expr_ind' (e : expr) : P e :=
    let fl := fix fl (l : list expr) : Forall P l :=
                match l with
                | [] => Forall_nil _
                | x :: r => Forall_cons x (expr_ind' x) (fl r)
                end in
    match e with
    | ELit v => HLit v
    | EVar x => HVar x
    | EQExt pfx p => HQExt pfx p
    | EQVar x p => HQVar x p
    | EQExpr e1 p => HQExpr e1 p (expr_ind' e1)
    | EArr es => HArr es (fl es)
    | EObj kvs =>
        HObj kvs ((fix go (l : list (bytes * expr)) : Forall (fun kv => P (snd kv)) l :=
                     match l with
                     | [] => Forall_nil _
                     | kv :: r => Forall_cons kv (expr_ind' (snd kv)) (go r)
                     end) kvs)
    | EBlock es => HBlock es (fl es)
    | EGroup e1 => HGroup e1 (expr_ind' e1)
    | EIf c t f =>
        HIf c t f (fl c) (fl t)
            (match f as f0 return opt_holds (Forall P) f0 with
             | Some fb => fl fb
             | None => I
             end)
    | EOp o a b => HOp o a b (expr_ind' a) (expr_ind' b)
    | ENot e1 => HNot e1 (expr_ind' e1)
    | EAssign t e1 => HAssign t e1 (expr_ind' e1)
    | EAssignInf ok er e1 d => HAssignInf ok er e1 d (expr_ind' e1)
    | EAbort m =>
        HAbort m (match m as m0 return opt_holds P m0 with
                  | Some e1 => expr_ind' e1
                  | None => I
                  end)
    | EReturn e1 => HReturn e1 (expr_ind' e1)
    | ECall f args => HCall f args (fl args)
    | EDelExt pfx p c => HDelExt pfx p c
    | EDelVar x p c => HDelVar x p c
    | EExistsExt pfx p => HExistsExt pfx p
    | EExistsVar x p => HExistsVar x p
    | EClosure cf arg ps body => HClosure cf arg ps body (expr_ind' arg) (fl body)
    end.
End expr_ind_nested.
