From Coq Require Import List NArith ZArith Bool String Lia.
From VRL Require Import Base.Bytes Base.Value Model.Expr Model.EvalInst Model.StdSig.
Import ListNotations.
Local Open Scope string_scope.

(* every modelled function honours its declared signature:
   - a returned value's kind is in the declared return kinds;
   - an argument whose kind the parameter lists, for a function typed infallible, never fails;
   - an argument whose kind the parameter does not list is an error (never a value). *)
Theorem modelled_functions_honour_signatures :
  forall sg v, In sg sigs ->
    (forall r, F_inst (nm (s_name sg)) [v] = Some r -> in_mask r (s_return sg) = true) /\
    (s_infallible_when_typed sg = true -> in_mask v (s_param sg) = true -> F_inst (nm (s_name sg)) [v] <> None) /\
    (in_mask v (s_param sg) = false -> F_inst (nm (s_name sg)) [v] = None).
Proof.
  intros sg v Hin. cbn in Hin.
  repeat (destruct Hin as [<-|Hin]; [destruct v; vm_compute; repeat split; intros; try discriminate; try congruence;
    match goal with H : Some _ = Some _ |- _ => inversion H; subst; reflexivity | _ => idtac end|]).
  destruct Hin.
Qed.

(* the type assertions fail exactly on the wrong kind: "a wrong runtime type returns an error" *)
Theorem type_assertions_exact :
  forall v,
    (F_inst (nm "string") [v] = None <-> kind_bit v <> K_BYTES) /\
    (F_inst (nm "int") [v] = None <-> kind_bit v <> K_INTEGER) /\
    (F_inst (nm "bool") [v] = None <-> kind_bit v <> K_BOOLEAN) /\
    (F_inst (nm "array") [v] = None <-> kind_bit v <> K_ARRAY) /\
    (F_inst (nm "object") [v] = None <-> kind_bit v <> K_OBJECT).
Proof.
  intros v. destruct v; vm_compute; repeat split; intros; try discriminate; try congruence;
    try (exfalso; match goal with H : _ -> False |- _ => apply H; reflexivity end).
Qed.
