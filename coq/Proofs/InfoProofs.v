(* C16: every Target operation performed at run time is accounted for by the reported
   queries / assignments.  For all F, binop, programs, states and fault schedules. *)
From Coq Require Import List NArith ZArith Bool Lia.
From VRL Require Import Base.Bytes Base.Value Model.ValueCrud Model.Expr Model.Eval Model.Info
     Proofs.ExprInd Proofs.EvalProofs.
Import ListNotations.

Section Generic.
  (* a relation between the state before and after some evaluation, indexed by the report (Q, A) *)
  Variable R : list qent -> list (prefix * path) -> state -> state -> Prop.
  Hypothesis R_vars : forall Q A s s', ev s' = ev s -> md s' = md s -> tlog s' = tlog s -> R Q A s s'.
  Hypothesis R_trans : forall Q A s1 s2 s3, R Q A s1 s2 -> R Q A s2 s3 -> R Q A s1 s3.
  Hypothesis R_weaken : forall Q A Q' A' s s', incl Q Q' -> incl A A' -> R Q A s s' -> R Q' A' s s'.
  Hypothesis R_get : forall s pfx p, R [(None, (pfx, p))] [] s (snd (t_get s pfx p)).
  Hypothesis R_insert : forall s pfx p v, R [] [(pfx, p)] s (t_insert s pfx p v).
  Hypothesis R_remove : forall s pfx p c, R [(Some c, (pfx, p))] [] s (snd (t_remove s pfx p c)).

  Variable F : fname -> list value -> option value.
  Variable binop : opcode -> value -> value -> option value.
  Notation evl := (eval F binop).

  Lemma target_insert_R s t v : R [] (tgt_paths t) s (target_insert s t v).
  Proof.
    destruct t as [|x p|pfx p]; cbn [target_insert tgt_paths].
    - apply R_vars; reflexivity.
    - destruct p; [apply R_vars; reflexivity|].
      destruct (var_get (vars s) x); apply R_vars; reflexivity.
    - apply R_insert.
  Qed.

  Definition ok_expr (e : expr) : Prop := forall s, R (queries e) (assigns e) s (snd (evl e s)).

  Lemma ql_eq es :
    (fix ql (l : list expr) : list qent :=
       match l with [] => [] | x :: r => queries x ++ ql r end) es = queries_l es.
  Proof. induction es as [|x r IH]; cbn; auto; try (rewrite IH; reflexivity). Qed.
  Lemma al_eq es :
    (fix al (l : list expr) : list (prefix * path) :=
       match l with [] => [] | x :: r => assigns x ++ al r end) es = assigns_l es.
  Proof. induction es as [|x r IH]; cbn; auto; try (rewrite IH; reflexivity). Qed.

  Ltac wk := eapply R_weaken; [| |eassumption]; cbn; auto using incl_refl, incl_appl, incl_appr, incl_nil_l.

  Lemma blk_within es : Forall ok_expr es ->
    forall s, R (queries_l es) (assigns_l es) s (snd (blk F binop es s)).
  Proof.
    induction 1 as [|e es He Hes IH]; intros s.
    - apply R_vars; reflexivity.
    - unfold queries_l, assigns_l. cbn [flat_map]. fold (queries_l es) (assigns_l es).
      specialize (He s). destruct es as [|e2 es'].
      + cbn [blk]. eapply R_weaken; [| |exact He]; auto using incl_appl, incl_refl.
      + change (blk F binop (e :: e2 :: es') s) with
          (match evl e s with (inl _, s') => blk F binop (e2 :: es') s' | (inr er, s') => (inr er, s') end).
        destruct (evl e s) as [[v|er] s'] eqn:E; cbn [snd] in *.
        * eapply R_trans.
          -- eapply R_weaken; [| |exact He]; auto using incl_appl, incl_refl.
          -- eapply R_weaken; [| |apply IH]; auto using incl_appr, incl_refl.
        * eapply R_weaken; [| |exact He]; auto using incl_appl, incl_refl.
  Qed.

  Lemma arr_go_within es : Forall ok_expr es ->
    forall acc s, R (queries_l es) (assigns_l es) s (snd (arr_go F binop es acc s)).
  Proof.
    induction 1 as [|e es He Hes IH]; intros acc s; cbn [arr_go].
    - apply R_vars; reflexivity.
    - unfold queries_l, assigns_l. cbn [flat_map]. fold (queries_l es) (assigns_l es).
      specialize (He s). destruct (evl e s) as [[v|er] s'] eqn:E; cbn [snd] in *.
      + eapply R_trans.
        * eapply R_weaken; [| |exact He]; auto using incl_appl, incl_refl.
        * eapply R_weaken; [| |apply IH]; auto using incl_appr, incl_refl.
      + eapply R_weaken; [| |exact He]; auto using incl_appl, incl_refl.
  Qed.

  Lemma call_go_within f es : Forall ok_expr es ->
    forall acc s, R (queries_l es) (assigns_l es) s (snd (call_go F binop f es acc s)).
  Proof.
    induction 1 as [|e es He Hes IH]; intros acc s; cbn [call_go].
    - apply R_vars; reflexivity.
    - unfold queries_l, assigns_l. cbn [flat_map]. fold (queries_l es) (assigns_l es).
      specialize (He s). destruct (evl e s) as [[v|er] s'] eqn:E; cbn [snd] in *.
      + eapply R_trans.
        * eapply R_weaken; [| |exact He]; auto using incl_appl, incl_refl.
        * eapply R_weaken; [| |apply IH]; auto using incl_appr, incl_refl.
      + eapply R_weaken; [| |exact He]; auto using incl_appl, incl_refl.
  Qed.

  Definition queries_kv (kvs : list (bytes * expr)) := flat_map (fun kv => queries (snd kv)) kvs.
  Definition assigns_kv (kvs : list (bytes * expr)) := flat_map (fun kv => assigns (snd kv)) kvs.

  Lemma qkv_eq kvs :
    (fix go (l : list (bytes * expr)) : list qent :=
       match l with [] => [] | kv :: r => queries (snd kv) ++ go r end) kvs = queries_kv kvs.
  Proof. induction kvs as [|x r IH]; cbn; auto; try (rewrite IH; reflexivity). Qed.
  Lemma akv_eq kvs :
    (fix go (l : list (bytes * expr)) : list (prefix * path) :=
       match l with [] => [] | kv :: r => assigns (snd kv) ++ go r end) kvs = assigns_kv kvs.
  Proof. induction kvs as [|x r IH]; cbn; auto; try (rewrite IH; reflexivity). Qed.

  Lemma obj_go_within kvs : Forall (fun kv => ok_expr (snd kv)) kvs ->
    forall acc s, R (queries_kv kvs) (assigns_kv kvs) s (snd (obj_go F binop kvs acc s)).
  Proof.
    induction 1 as [|[k e] kvs He Hes IH]; intros acc s; cbn [obj_go].
    - apply R_vars; reflexivity.
    - unfold queries_kv, assigns_kv. cbn [flat_map snd]. fold (queries_kv kvs) (assigns_kv kvs).
      cbn [snd] in He. specialize (He s). destruct (evl e s) as [[v|er] s'] eqn:E; cbn [snd] in *.
      + eapply R_trans.
        * eapply R_weaken; [| |exact He]; auto using incl_appl, incl_refl.
        * eapply R_weaken; [| |apply IH]; auto using incl_appr, incl_refl.
      + eapply R_weaken; [| |exact He]; auto using incl_appl, incl_refl.
  Qed.

  (* closures: the runners do not touch the target themselves *)
  Lemma bind_param_R Q A s p a : R Q A s (snd (bind_param s p a)).
  Proof. destruct p; apply R_vars; reflexivity. Qed.
  Lemma cleanup_param_R Q A s p o : R Q A s (cleanup_param s p o).
  Proof. destruct p, o; apply R_vars; reflexivity. Qed.

  Lemma run1_within Q A body p a : (forall s, R Q A s (snd (body s))) ->
    forall s, R Q A s (snd (run1 body p a s)).
  Proof.
    intros Hb s. unfold run1. pose proof (bind_param_R Q A s p a) as Eb.
    destruct (bind_param s p a) as [old s1]. cbn [snd] in Eb. specialize (Hb s1).
    destruct (body s1) as [r s2]. cbn [snd] in *.
    eapply R_trans; [exact Eb|]. eapply R_trans; [exact Hb|]. apply cleanup_param_R.
  Qed.

  Lemma run2_within Q A body p0 p1 a b : (forall s, R Q A s (snd (body s))) ->
    forall s, R Q A s (snd (run2 body p0 p1 a b s)).
  Proof.
    intros Hb s. unfold run2. pose proof (bind_param_R Q A s p0 a) as Eb.
    destruct (bind_param s p0 a) as [old0 s1]. cbn [snd] in Eb.
    pose proof (bind_param_R Q A s1 p1 b) as Eb1.
    destruct (bind_param s1 p1 b) as [old1 s2]. cbn [snd] in Eb1. specialize (Hb s2).
    destruct (body s2) as [r s3]. cbn [snd] in *.
    eapply R_trans; [exact Eb|]. eapply R_trans; [exact Eb1|]. eapply R_trans; [exact Hb|].
    eapply R_trans; apply cleanup_param_R.
  Qed.

  Lemma loop_within {X Y} Q A (step : X -> state -> (Y + err) * state) :
    (forall a s, R Q A s (snd (step a s))) ->
    forall items s, R Q A s (snd (loop step items s)).
  Proof.
    intros Hs. induction items as [|a r IH]; intros s; cbn [loop].
    - apply R_vars; reflexivity.
    - specialize (Hs a s). destruct (step a s) as [[b|e] s'] eqn:E; cbn [snd] in *; auto.
      specialize (IH s'). destruct (loop step r s') as [[bs|e] s''] eqn:El; cbn [snd] in *;
        eapply R_trans; eauto.
  Qed.

  Lemma run_closure_R Q A body ps cf v :
    (forall s, R Q A s (snd (body s))) ->
    forall s, R Q A s (snd (run_closure body ps cf v s)).
  Proof.
    intros Hb s.
    assert (H1 := fun p a => run1_within Q A body p a Hb).
    assert (H2 := fun p0 p1 a b => run2_within Q A body p0 p1 a b Hb).
    assert (Lift : forall X (f : X -> value) (x : (X + err) * state) s0,
               R Q A s0 (snd x) -> R Q A s0 (snd (lift f x))).
    { intros X f [[x|e] s1] s0 H; exact H. }
    unfold run_closure.
    destruct cf, v; try (apply R_vars; reflexivity); try (apply H1);
      apply Lift; apply loop_within; intros a s1.
    - unfold step_each_kv. specialize (H2 (param ps 0) (param ps 1) (VBytes (fst a)) (snd a) s1).
      destruct (run2 _ _ _ _ _ _) as [[?|?] ?]; exact H2.
    - unfold step_each_iv. specialize (H2 (param ps 0) (param ps 1) (VInt (fst a)) (snd a) s1).
      destruct (run2 _ _ _ _ _ _) as [[?|?] ?]; exact H2.
    - unfold step_filter_kv. specialize (H2 (param ps 0) (param ps 1) (VBytes (fst a)) (snd a) s1).
      destruct (run2 _ _ _ _ _ _) as [[[]|?] ?]; exact H2.
    - unfold step_filter_iv. specialize (H2 (param ps 0) (param ps 1) (VInt (fst a)) (snd a) s1).
      destruct (run2 _ _ _ _ _ _) as [[[]|?] ?]; exact H2.
    - unfold step_mapk. specialize (H1 (param ps 0) (VBytes (fst a)) s1).
      destruct (run1 _ _ _ _) as [[[]|?] ?]; exact H1.
    - unfold step_mapv_kv. specialize (H1 (param ps 0) (snd a) s1).
      destruct (run1 _ _ _ _) as [[?|?] ?]; exact H1.
    - unfold step_mapv. specialize (H1 (param ps 0) a s1).
      destruct (run1 _ _ _ _) as [[?|?] ?]; exact H1.
  Qed.

  Theorem eval_R e : ok_expr e.
  Proof.
    induction e using expr_ind'; unfold ok_expr in *; intros s.
    - apply R_vars; reflexivity.
    - apply R_vars; reflexivity.
    - cbn [eval queries assigns]. pose proof (R_get s pfx p) as H.
      destruct (t_get s pfx p) as [r s']. exact H.
    - apply R_vars; reflexivity.
    - cbn [eval queries assigns]. specialize (IHe s). destruct (evl e s) as [[v|er] s']; exact IHe.
    - change (evl (EArr es) s) with (arr_go F binop es [] s). cbn [queries assigns]. rewrite ql_eq, al_eq. apply arr_go_within; auto.
    - change (evl (EObj kvs) s) with (obj_go F binop kvs [] s). cbn [queries assigns]. rewrite qkv_eq, akv_eq. apply obj_go_within; auto.
    - change (evl (EBlock es) s) with (blk F binop es s). cbn [queries assigns]. rewrite ql_eq, al_eq. apply blk_within; auto.
    - cbn [eval queries assigns]. apply IHe.
    - (* if *)
      rewrite eval_if. cbn [queries assigns]. rewrite !ql_eq, !al_eq.
      pose proof (blk_within c H s) as Hc.
      destruct (blk F binop c s) as [[v|er] s'] eqn:Ec; cbn [snd] in Hc.
      + destruct (try_boolean v) as [[|]|].
        * eapply R_trans; [wk|]. pose proof (blk_within t H0 s') as Ht. wk.
        * destruct f as [fb|].
          -- eapply R_trans; [wk|]. cbn in H1. pose proof (blk_within fb H1 s') as Hf.
             try rewrite ql_eq; try rewrite al_eq. eapply R_weaken; [| |exact Hf];
               eauto using incl_appr, incl_refl.
          -- cbn [snd]. wk.
        * cbn [snd]. wk.
      + wk.
    - (* op *)
      cbn [queries assigns].
      assert (Ha : forall s0, R (queries e1 ++ queries e2) (assigns e1 ++ assigns e2) s0 (snd (evl e1 s0))).
      { intros s0. specialize (IHe1 s0). wk. }
      assert (Hb : forall s0, R (queries e1 ++ queries e2) (assigns e1 ++ assigns e2) s0 (snd (evl e2 s0))).
      { intros s0. specialize (IHe2 s0). wk. }
      destruct o;
        try (rewrite eval_plain by reflexivity; specialize (Ha s);
             destruct (evl e1 s) as [[v|er] s'] eqn:E1; cbn [snd] in *; auto;
             specialize (Hb s'); destruct (evl e2 s') as [[w|er] s''] eqn:E2; cbn [snd] in *;
             eapply R_trans; eauto).
      + rewrite eval_or. specialize (Ha s). destruct (evl e1 s) as [[v|er] s'] eqn:E1; cbn [snd] in *; auto.
        destruct (falsy v); auto. eapply R_trans; eauto.
      + rewrite eval_and. specialize (Ha s). destruct (evl e1 s) as [[v|er] s'] eqn:E1; cbn [snd] in *; auto.
        destruct (falsy v); auto. specialize (Hb s').
        destruct (evl e2 s') as [[w|er] s''] eqn:E2; cbn [snd] in *; eapply R_trans; eauto.
      + rewrite eval_err. specialize (Ha s). destruct (evl e1 s) as [[v|[ | | | ]] s'] eqn:E1; cbn [snd] in *; auto.
        eapply R_trans; eauto.
    - cbn [eval queries assigns]. specialize (IHe s). destruct (evl e s) as [[v|er] s']; exact IHe.
    - (* assign *)
      cbn [eval queries assigns]. specialize (IHe s). destruct (evl e s) as [[v|er] s']; cbn [snd] in *.
      + eapply R_trans; [wk|]. pose proof (target_insert_R s' t v) as Ht. wk.
      + wk.
    - (* assign inf *)
      rewrite eval_assign_inf. cbn [queries assigns]. specialize (IHe s).
      destruct (evl e s) as [[v|[ | | | ]] s']; cbn [snd] in *; try wk.
      + eapply R_trans; [wk|]. eapply R_trans.
        * pose proof (target_insert_R s' ok v) as Ht. wk.
        * pose proof (target_insert_R (target_insert s' ok v) er VNull) as Ht. wk.
      + eapply R_trans; [wk|]. eapply R_trans.
        * pose proof (target_insert_R s' ok d) as Ht. wk.
        * pose proof (target_insert_R (target_insert s' ok d) er ERRMSG) as Ht. wk.
    - (* abort *)
      destruct m as [m|]; cbn [eval queries assigns].
      + cbn in H. specialize (H s). destruct (evl m s) as [[[]|er] s']; exact H.
      + apply R_vars; reflexivity.
    - cbn [eval queries assigns]. specialize (IHe s). destruct (evl e s) as [[v|er] s']; exact IHe.
    - change (evl (ECall f args) s) with (call_go F binop f args [] s). cbn [queries assigns]. rewrite ql_eq, al_eq. apply call_go_within; auto.
    - cbn [eval queries assigns]. pose proof (R_remove s pfx p c) as H.
      destruct (t_remove s pfx p c) as [r s']. exact H.
    - cbn [eval]. destruct (var_get (vars s) x); [|apply R_vars; reflexivity].
      destruct (remove v p c). apply R_vars; reflexivity.
    - cbn [eval queries assigns]. pose proof (R_get s pfx p) as H.
      destruct (t_get s pfx p) as [r s']. exact H.
    - apply R_vars; reflexivity.
    - (* closure *)
      rewrite eval_closure. cbn [queries assigns]. rewrite ql_eq, al_eq.
      specialize (IHe s). destruct (evl e s) as [[v|er] s'] eqn:E; cbn [snd] in *.
      + eapply R_trans; [wk|].
        apply run_closure_R. intros s0. pose proof (blk_within body H s0) as Hb. wk.
      + wk.
  Qed.

  (* program level: everything Runtime::resolve's run of the program does to the target *)
  Theorem run_R es s :
    R (queries_l es) (assigns_l es) s (snd (run F binop es s)).
  Proof.
    unfold run. destruct (pop_fault s) as [bad fs]. destruct bad.
    - apply R_vars; reflexivity.
    - pose proof (eval_R (EBlock es) (mkState (vars s) (ev s) (md s) (tlog s) fs)) as H.
      cbn [queries assigns] in H. rewrite ql_eq, al_eq in H.
      apply R_trans with (s2 := mkState (vars s) (ev s) (md s) (tlog s) fs); [apply R_vars; reflexivity|].
      destruct (evl (EBlock es) _) as [[v|[ | | | ]] s']; cbn [snd] in *; exact H.
  Qed.
End Generic.

(* ---------- instance 1: the log of Target operations (C16) ---------- *)
Definition within (Q : list qent) (A : list (prefix * path)) (s s' : state) : Prop :=
  exists new, tlog s' = new ++ tlog s /\ Forall (logged_ok Q A) new.

Lemma within_refl Q A s s' : ev s' = ev s -> md s' = md s -> tlog s' = tlog s -> within Q A s s'.
Proof. intros _ _ H. exists []. split; auto. Qed.

Lemma within_trans Q A s1 s2 s3 : within Q A s1 s2 -> within Q A s2 s3 -> within Q A s1 s3.
Proof.
  intros [n1 [E1 F1]] [n2 [E2 F2]]. exists (n2 ++ n1). split.
  - rewrite E2, E1, app_assoc. reflexivity.
  - apply Forall_app; auto.
Qed.

Lemma logged_ok_weaken Q A Q' A' t : incl Q Q' -> incl A A' -> logged_ok Q A t -> logged_ok Q' A' t.
Proof.
  intros HQ HA. destruct t; cbn; auto.
  intros H. apply in_map_iff in H. destruct H as [x [E Hx]]. apply in_map_iff. exists x. auto.
Qed.

Lemma within_weaken Q A Q' A' s s' : incl Q Q' -> incl A A' -> within Q A s s' -> within Q' A' s s'.
Proof.
  intros HQ HA [n [E Fn]]. exists n. split; auto.
  eapply Forall_impl; [|exact Fn]. intros t. apply logged_ok_weaken; auto.
Qed.

Lemma t_get_within s pfx p : within [(None, (pfx, p))] [] s (snd (t_get s pfx p)).
Proof.
  unfold t_get. destruct (pop_fault s) as [bad fs]. cbn [snd tlog].
  exists [TGet pfx p]. split; auto. constructor; [cbn; auto|constructor].
Qed.

Lemma t_insert_within s pfx p v : within [] [(pfx, p)] s (t_insert s pfx p v).
Proof.
  unfold t_insert. destruct (pop_fault s) as [bad fs].
  exists [TIns pfx p]. split; [destruct pfx; reflexivity|]. constructor; [cbn; auto|constructor].
Qed.

Lemma t_remove_within s pfx p c : within [(Some c, (pfx, p))] [] s (snd (t_remove s pfx p c)).
Proof.
  unfold t_remove. destruct (pop_fault s) as [bad fs]. destruct bad.
  - cbn [snd]. exists [TRem pfx p c]. split; [destruct pfx; reflexivity|]. constructor; [cbn; auto|constructor].
  - destruct (remove (tval s pfx) p c) as [r v']. cbn [snd].
    exists [TRem pfx p c]. split; [destruct pfx; reflexivity|]. constructor; [cbn; auto|constructor].
Qed.


Theorem eval_within F binop e : forall s, within (queries e) (assigns e) s (snd (eval F binop e s)).
Proof.
  exact (eval_R within within_refl within_trans within_weaken t_get_within t_insert_within t_remove_within F binop e).
Qed.

Theorem run_within F binop es s : within (queries_l es) (assigns_l es) s (snd (run F binop es s)).
Proof.
  exact (run_R within within_refl within_trans within_weaken t_get_within t_insert_within t_remove_within F binop es s).
Qed.
