(* Top-level copies of the inner loops of Model/TypeInfo.v `type_info` and the unfolding equations. *)
From Coq Require Import List NArith ZArith Bool Lia.
From VRL Require Import Base.Bytes Base.Value Model.ValueCrud Model.Kind Model.KindCrud Model.Expr Model.TypeInfo.
Import ListNotations.

Section TypeInfoEqs.
  Variable binop : opcode -> value -> value -> option value.
  Variable T : fname -> list tdef -> list tdef -> tdef.
  Notation ti := (type_info binop T).

  Fixpoint ti_blk (es : list expr) (s : tstate) (result : tdef) (fallible after_never : bool) (returns : kind)
    {struct es} : tstate * tdef :=
    match es with
    | [] => (s, td_with_ret (td_maybe_fallible result fallible) returns)
    | e1 :: es' =>
        let '(s', r) := ti e1 s in
        ti_blk es' s' r (fallible || (negb after_never && td_fal r))
               (after_never || is_never (td_kind r)) (union returns (td_ret r))
    end.

  Definition ti_block (scoped : bool) (es : list expr) (s : tstate) : tstate * tdef :=
    let '(s', r) := ti_blk es s (td_of k_null) false false k_never in
    (if scoped then mkTs (apply_child_scope (locals s) (locals s')) (tgt s') (mdk s') else s', r).

  Fixpoint ti_arr (es : list expr) (s : tstate) (acc : list tdef) (fallible : bool) {struct es} : tstate * tdef :=
    match es with
    | [] =>
        let tds := rev acc in
        (s, mkTd fallible (arr_kind (map td_kind tds)) (fold_left (fun r t => union r (td_ret t)) tds k_never))
    | e1 :: es' =>
        let '(s', r0) := ti e1 s in
        let r := td_upgrade r0 in
        let fallible' := fallible || td_fal r in
        if is_never (td_kind r) then (s', mkTd fallible' k_never k_never)
        else ti_arr es' s' (r :: acc) fallible'
    end.

  Fixpoint ti_obj (kvs : list (bytes * expr)) (s : tstate) (acc : list (bytes * kind)) (fallible : bool)
    (returns : kind) {struct kvs} : tstate * tdef :=
    match kvs with
    | [] => (s, mkTd fallible (obj_kind (rev acc)) returns)
    | (k, e1) :: kvs' =>
        let '(s', r0) := ti e1 s in
        let r := td_upgrade r0 in
        let returns' := union returns (td_ret r) in
        let fallible' := fallible || td_fal r in
        if is_never (td_kind r) then (s', mkTd fallible' k_never returns')
        else ti_obj kvs' s' ((k, td_kind r) :: acc) fallible' returns'
    end.

  Lemma ti_block_eq es s : ti (EBlock es) s = ti_block true es s.
  Proof. reflexivity. Qed.
  Lemma ti_arr_eq es s : ti (EArr es) s = ti_arr es s [] false.
  Proof. reflexivity. Qed.
  Lemma ti_obj_eq kvs s : ti (EObj kvs) s = ti_obj kvs s [] false k_never.
  Proof. reflexivity. Qed.
  Lemma ti_program_eq es s : program_type_info binop T es s = ti_block false es s.
  Proof.
    unfold program_type_info, ti_block.
    match goal with |- (let '(a, b) := ?X in _) = _ => change X with (ti_blk es s (td_of k_null) false false k_never) end.
    destruct (ti_blk es s (td_of k_null) false false k_never); reflexivity.
  Qed.

  Lemma ti_if_eq c t f s :
    ti (EIf c t f) s =
    let '(s1, pr) := ti_block false c s in
    let '(si, ri) := ti_block true t s1 in
    match f with
    | Some fb =>
        let '(se, re) := ti_block true fb s1 in
        let r := td_union ri re in
        (ts_merge si se, td_with_ret r (union (td_ret r) (td_ret pr)))
    | None =>
        let r := td_with_kind ri (or_null (td_kind ri)) in
        (ts_merge si s1, td_with_ret r (union (td_ret r) (td_ret pr)))
    end.
  Proof. reflexivity. Qed.
End TypeInfoEqs.
