(* C23, IP part: decrypt_ip inverts encrypt_ip for every address outside two classes, over any pair of
   ipcrypt permutations; the two classes are real defects (witnesses at the end).
   The address text <-> address layer reuses the C25 proofs (IpProofs / Ip6Proofs). *)
From Coq Require Import String.
From Coq Require Import List NArith ZArith Bool Arith Lia.
From VRL Require Import Base.Bytes Base.Value Model.ConvRes Model.IntText Model.Ip Model.CipherGlue
     Proofs.IntTextProofs Proofs.IpProofs Proofs.Ip6Proofs.
Import ListNotations.
Local Open Scope Z_scope.

Definition wf_addr (a : ipaddr) : Prop :=
  match a with
  | V4 o => length o = 4%nat /\ Forall octet o
  | V6 g => length g = 8%nat /\ Forall u16 g
  end.

(* 16 bytes *)
Definition ip_wf (b : bytes) : Prop := length b = 16%nat /\ wf_bytes b = true.

(* ---------- text ---------- *)

Lemma parse_ip_text a : wf_addr a -> parse_ip (ip_text a) = Some a.
Proof.
  destruct a as [o|g]; cbn [wf_addr ip_text]; intros [Hl Hf].
  - destruct o as [|a [|b [|c [|d [|? ?]]]]]; try discriminate.
    inversion Hf as [|? ? Ha H1]; subst. inversion H1 as [|? ? Hb H2]; subst.
    inversion H2 as [|? ? Hc H3]; subst. inversion H3 as [|? ? Hd H4]; subst.
    apply parse_ip_v4_text; assumption.
  - apply ipv6_text_roundtrip; assumption.
Qed.

(* ---------- 16 bytes <-> address ---------- *)

Ltac split16 b :=
  do 16 (destruct b as [|?x b]; [discriminate|]); destruct b; [|discriminate].

Ltac bytes_lt H :=
  cbn [wf_bytes forallb] in H; repeat (apply andb_true_iff in H; destruct H as [?Hb H]);
  repeat match goal with H : (_ <? 256)%N = true |- _ => apply N.ltb_lt in H end.

Lemma of_to_N (x : N) : Z.to_N (Z.of_N x) = x.
Proof. apply N2Z.id. Qed.

Lemma mapped_shape b :
  length b = 16%nat -> is_mapped b = true -> b = repeat 0%N 10 ++ [255%N; 255%N] ++ skipn 12 b.
Proof.
  intros Hl Hm. split16 b. unfold is_mapped in Hm.
  cbn [firstn skipn forallb bytes_eqb] in Hm.
  repeat match goal with H : _ && _ = true |- _ => apply andb_true_iff in H; destruct H end.
  repeat match goal with H : N.eqb _ _ = true |- _ => apply N.eqb_eq in H end.
  subst. reflexivity.
Qed.

Lemma ip_to_bytes_to_ip b : ip_wf b -> ip_to_bytes (bytes_to_ip b) = b.
Proof.
  intros [Hl Hw]. unfold bytes_to_ip. destruct (is_mapped b) eqn:M.
  - cbn [ip_to_bytes]. rewrite (mapped_shape b Hl M) at 2. do 2 f_equal.
    unfold bytes_of_octets, octets_of_bytes. rewrite map_map.
    rewrite <- (map_id (skipn 12 b)) at 2. apply map_ext. intros x. apply of_to_N.
  - cbn [ip_to_bytes]. apply (segments_octets_roundtrip b Hl Hw).
Qed.

Lemma bytes_to_ip_wf b : ip_wf b -> wf_addr (bytes_to_ip b).
Proof.
  intros [Hl Hw]. unfold bytes_to_ip. destruct (is_mapped b).
  - cbn [wf_addr]. split16 b. bytes_lt Hw. cbn [skipn octets_of_bytes map length]. split; [reflexivity|].
    unfold octet. repeat constructor; lia.
  - cbn [wf_addr]. destruct (segments_octets_roundtrip b Hl Hw) as (L8 & HG & _). split; assumption.
Qed.

Lemma hi_lt g : 0 <= g <= 65535 -> (Z.to_N (g / 256) <? 256)%N = true.
Proof.
  intros H. apply N.ltb_lt. assert (0 <= g / 256 < 256) by (split; [apply Z.div_pos; lia | apply Z.div_lt_upper_bound; lia]). lia.
Qed.
Lemma lo_lt g : 0 <= g <= 65535 -> (Z.to_N (g mod 256) <? 256)%N = true.
Proof. intros H. apply N.ltb_lt. pose proof (Z.mod_pos_bound g 256 ltac:(lia)). lia. Qed.

Lemma hi_lo g : g / 256 * 256 + g mod 256 = g.
Proof. rewrite Z.mul_comm. symmetry. apply Z.div_mod. lia. Qed.

Lemma ip_to_bytes_wf a : wf_addr a -> ip_wf (ip_to_bytes a).
Proof.
  destruct a as [o|g]; cbn [wf_addr ip_to_bytes]; intros [Hl Hf].
  - destruct o as [|a [|b [|c [|d [|? ?]]]]]; try discriminate.
    inversion Hf as [|? ? Ha H1]; subst. inversion H1 as [|? ? Hb H2]; subst.
    inversion H2 as [|? ? Hc H3]; subst. inversion H3 as [|? ? Hd H4]; subst.
    unfold octet in *. split; [reflexivity|].
    cbn [repeat app bytes_of_octets map wf_bytes forallb].
    repeat (apply andb_true_iff; split); try reflexivity; apply N.ltb_lt; lia.
  - do 8 (destruct g as [|?g g]; [discriminate|]). destruct g; [|discriminate].
    repeat match goal with H : Forall _ (_ :: _) |- _ => inversion H; clear H; subst end.
    unfold u16 in *. split; [reflexivity|].
    cbn [octets_of_segments bytes_of_octets map wf_bytes forallb].
    repeat (apply andb_true_iff; split); try reflexivity; (apply hi_lt || apply lo_lt); assumption.
Qed.

Lemma v4_bytes_mapped o : length o = 4%nat -> is_mapped (ip_to_bytes (V4 o)) = true.
Proof.
  intros Hl. destruct o as [|a [|b [|c [|d [|? ?]]]]]; try discriminate. reflexivity.
Qed.

Lemma bytes_to_ip_to_bytes a :
  wf_addr a -> (is_v4 a = false -> is_mapped (ip_to_bytes a) = false) -> bytes_to_ip (ip_to_bytes a) = a.
Proof.
  destruct a as [o|g]; cbn [wf_addr is_v4]; intros [Hl Hf] Hn.
  - unfold bytes_to_ip. rewrite (v4_bytes_mapped o Hl).
    destruct o as [|a [|b [|c [|d [|? ?]]]]]; try discriminate.
    inversion Hf as [|? ? Ha H1]; subst. inversion H1 as [|? ? Hb H2]; subst.
    inversion H2 as [|? ? Hc H3]; subst. inversion H3 as [|? ? Hd H4]; subst.
    unfold octet in *.
    cbn [ip_to_bytes repeat app skipn bytes_of_octets octets_of_bytes map].
    rewrite !Z2N.id by lia. reflexivity.
  - unfold bytes_to_ip. rewrite (Hn eq_refl). f_equal.
    do 8 (destruct g as [|?g g]; [discriminate|]). destruct g; [|discriminate].
    repeat match goal with H : Forall _ (_ :: _) |- _ => inversion H; clear H; subst end.
    unfold u16 in *.
    cbn [ip_to_bytes octets_of_segments bytes_of_octets octets_of_bytes map segments_of_octets].
    rewrite !Z2N.id by (apply Z.div_pos || apply Z.mod_pos_bound; lia).
    rewrite !hi_lo. reflexivity.
Qed.

Lemma v4_of_mapped b : is_mapped b = true -> is_v4 (bytes_to_ip b) = true.
Proof. intros M. unfold bytes_to_ip. rewrite M. reflexivity. Qed.
Lemma v6_of_unmapped b : is_mapped b = false -> is_v4 (bytes_to_ip b) = false.
Proof. intros M. unfold bytes_to_ip. rewrite M. reflexivity. Qed.

(* ---------- the round trip ---------- *)

(* the two classes of addresses on which the functions do NOT round-trip (see the witnesses below):
   IPv4-mapped IPv6 addresses, and (pfx mode) IPv6 addresses whose encryption happens to be IPv4-mapped *)
Definition known_ip_class (Q : ipprims) (a : ipaddr) (key mode : bytes) : bool :=
  negb (is_v4 a)
  && (is_mapped (ip_to_bytes a)
      || (bytes_eqb mode mode_pfx && is_mapped (pfxE Q key false (ip_to_bytes a)))).

(* a key the mode accepts: the right length; for pfx also two different halves (IpcryptPfx::new asserts it) *)
Definition key_ok (key mode : bytes) : Prop :=
  (mode = mode_aes128 /\ length key = 16%nat)
  \/ (mode = mode_pfx /\ length key = 32%nat /\ firstn 16 key <> skipn 16 key).

Section IpRoundTrip.
  Variable Q : ipprims.
  Hypothesis det_wf : forall k b, ip_wf b -> ip_wf (detE Q k b).
  Hypothesis det_inv : forall k b, ip_wf b -> detD Q k (detE Q k b) = b.
  Hypothesis pfx_wf : forall k v b, ip_wf b -> ip_wf (pfxE Q k v b).
  Hypothesis pfx_inv6 : forall k b, ip_wf b -> pfxD Q k false (pfxE Q k false b) = b.
  (* in IPv4 mode only the low 32 bits are touched, the mapped prefix is kept *)
  Hypothesis pfx_keep4 : forall k b, ip_wf b -> is_mapped b = true -> is_mapped (pfxE Q k true b) = true.
  Hypothesis pfx_inv4 : forall k b, ip_wf b -> is_mapped b = true -> pfxD Q k true (pfxE Q k true b) = b.

  Theorem ip_roundtrip a s key mode :
    wf_addr a -> parse_ip s = Some a -> key_ok key mode -> known_ip_class Q a key mode = false ->
    exists c, encrypt_ip Q s key mode = IpOk c /\ decrypt_ip Q c key mode = IpOk (ip_text a).
  Proof.
    intros Ha Hs Hk Hn.
    pose proof (ip_to_bytes_wf a Ha) as Hb.
    unfold encrypt_ip, decrypt_ip, ip_crypt. rewrite Hs.
    destruct Hk as [[-> Hl] | (-> & Hl & Hh)].
    - (* aes128 *)
      change (bytes_eqb mode_aes128 mode_aes128) with true. cbv iota.
      rewrite Hl. cbn [Nat.eqb negb]. eexists. split; [reflexivity|].
      pose proof (det_wf key _ Hb) as Hc.
      rewrite (parse_ip_text _ (bytes_to_ip_wf _ Hc)).
      rewrite (ip_to_bytes_to_ip _ Hc), (det_inv key _ Hb).
      rewrite bytes_to_ip_to_bytes; [reflexivity | exact Ha |].
      intros Hv. unfold known_ip_class in Hn. rewrite Hv in Hn. cbn [negb andb] in Hn.
      apply orb_false_iff in Hn. apply Hn.
    - (* pfx *)
      change (bytes_eqb mode_pfx mode_aes128) with false.
      change (bytes_eqb mode_pfx mode_pfx) with true. cbv iota.
      rewrite Hl. cbn [Nat.eqb negb].
      assert (Hne : bytes_eqb (firstn 16 key) (skipn 16 key) = false) by (apply bytes_eqb_neq; exact Hh).
      rewrite Hne. eexists. split; [reflexivity|].
      pose proof (pfx_wf key (is_v4 a) _ Hb) as Hc.
      rewrite (parse_ip_text _ (bytes_to_ip_wf _ Hc)).
      rewrite (ip_to_bytes_to_ip _ Hc).
      destruct (is_v4 a) eqn:Hv.
      + assert (Hm : is_mapped (ip_to_bytes a) = true).
        { destruct a as [o|g]; [|discriminate]. apply v4_bytes_mapped. apply Ha. }
        rewrite (v4_of_mapped _ (pfx_keep4 key _ Hb Hm)).
        rewrite (pfx_inv4 key _ Hb Hm).
        rewrite bytes_to_ip_to_bytes; [reflexivity | exact Ha | rewrite Hv; discriminate].
      + unfold known_ip_class in Hn. rewrite Hv in Hn. cbn [negb andb] in Hn.
        apply orb_false_iff in Hn. destruct Hn as [Hn1 Hn2].
        change (bytes_eqb mode_pfx mode_pfx) with true in Hn2. cbn [andb] in Hn2.
        rewrite (v6_of_unmapped _ Hn2).
        rewrite (pfx_inv6 key _ Hb).
        rewrite bytes_to_ip_to_bytes; [reflexivity | exact Ha | intros _; exact Hn1].
  Qed.
End IpRoundTrip.

(* ---------- the hypotheses are satisfiable, and the two excluded classes are real ---------- *)

(* the identity permutations *)
Definition id_ipprims : ipprims :=
  mkIpPrims (fun _ b => b) (fun _ b => b) (fun _ _ b => b) (fun _ _ b => b).

(* pfx (IPv6 mode) swaps two particular blocks: c2e8:...:dba4 and ::ffff:1.2.3.4; everything else is fixed *)
Definition blk_a : bytes := [194; 232; 192; 19; 141; 0; 196; 106; 172; 75; 106; 5; 88; 197; 219; 164]%N.
Definition blk_m : bytes := [0; 0; 0; 0; 0; 0; 0; 0; 0; 0; 255; 255; 1; 2; 3; 4]%N.
Definition swap_pfx (k : bytes) (v4 : bool) (b : bytes) : bytes :=
  if v4 then b else if bytes_eqb b blk_a then blk_m else if bytes_eqb b blk_m then blk_a else b.
Definition swap_ipprims : ipprims := mkIpPrims (fun _ b => b) (fun _ b => b) swap_pfx swap_pfx.

Lemma swap_pfx_wf k v b : ip_wf b -> ip_wf (swap_pfx k v b).
Proof.
  intros H. unfold swap_pfx. destruct v; [exact H|].
  destruct (bytes_eqb b blk_a); [split; reflexivity|]. destruct (bytes_eqb b blk_m); [split; reflexivity | exact H].
Qed.

Lemma swap_pfx_inv k b : swap_pfx k false (swap_pfx k false b) = b.
Proof.
  unfold swap_pfx. destruct (bytes_eqb b blk_a) eqn:Ea.
  - apply bytes_eqb_eq in Ea. subst. reflexivity.
  - destruct (bytes_eqb b blk_m) eqn:Em.
    + apply bytes_eqb_eq in Em. subst. reflexivity.
    + rewrite Ea, Em. reflexivity.
Qed.

Definition key16 : bytes := ascii_bytes "sixteen byte key".
Definition key32 : bytes := ascii_bytes "thirty-two bytes key for pfx use".

(* ::ffff:1.2.3.4 comes back as 1.2.3.4 (any permutation: bytes_to_ip folds the decrypted bytes to IPv4) *)
Theorem ip_mapped_refuted :
  exists a c d, wf_addr a
    /\ encrypt_ip id_ipprims (ip_text a) key16 mode_aes128 = IpOk c
    /\ decrypt_ip id_ipprims c key16 mode_aes128 = IpOk d /\ d <> ip_text a.
Proof.
  exists (V6 [0; 0; 0; 0; 0; 65535; 258; 772]), (ascii_bytes "1.2.3.4"), (ascii_bytes "1.2.3.4").
  split; [split; [reflexivity | unfold u16; repeat constructor; lia]|].
  split; [vm_compute; reflexivity|]. split; [vm_compute; reflexivity|]. vm_compute. discriminate.
Qed.

(* an ordinary IPv6 address whose pfx encryption is IPv4-mapped is returned as IPv4 and then decrypted in
   32-bit mode: with a permutation that sends c2e8:..:dba4 to ::ffff:1.2.3.4 the result is 1.2.3.4.
   (On the implementation: key "thirty-two bytes key for pfx use" does exactly this, see notes/C23.md.) *)
Theorem ip_pfx_collision_refuted :
  exists a c d, wf_addr a /\ is_mapped (ip_to_bytes a) = false
    /\ encrypt_ip swap_ipprims (ip_text a) key32 mode_pfx = IpOk c
    /\ decrypt_ip swap_ipprims c key32 mode_pfx = IpOk d /\ d <> ip_text a.
Proof.
  exists (V6 [49896; 49171; 36096; 50282; 44107; 27141; 22725; 56228]), (ascii_bytes "1.2.3.4"), (ascii_bytes "1.2.3.4").
  split; [split; [reflexivity | unfold u16; repeat constructor; lia]|].
  split; [vm_compute; reflexivity|].
  split; [vm_compute; reflexivity|]. split; [vm_compute; reflexivity|]. vm_compute. discriminate.
Qed.

(* a 32-byte key with two equal halves is refused with a key error by both functions, whatever the address
   (before fb618e6 the library's assert_ne! made them panic) *)
Theorem ip_pfx_equal_halves_rejected (Q : ipprims) (enc : bool) (ip key : bytes) :
  parse_ip ip <> None -> length key = 32%nat -> firstn 16 key = skipn 16 key ->
  ip_crypt enc Q ip key mode_pfx = IpErrKey.
Proof.
  intros Hp Hl Hh. unfold ip_crypt. destruct (parse_ip ip) as [a|]; [|congruence].
  change (bytes_eqb mode_pfx mode_aes128) with false. change (bytes_eqb mode_pfx mode_pfx) with true. cbv iota.
  rewrite Hl. cbn [Nat.eqb negb]. rewrite Hh, bytes_eqb_refl. reflexivity.
Qed.

(* an instance where the theorem applies: 192.168.1.1 and 2001:db8::1 under the identity permutations *)
Example ip_roundtrip_applies :
  known_ip_class id_ipprims (V4 [192; 168; 1; 1]) key16 mode_aes128 = false
  /\ known_ip_class id_ipprims (V6 [8193; 3512; 0; 0; 0; 0; 0; 1]) key32 mode_pfx = false
  /\ key_ok key16 mode_aes128 /\ key_ok key32 mode_pfx.
Proof.
  split; [reflexivity|]. split; [reflexivity|]. split.
  - left. split; reflexivity.
  - right. split; [reflexivity|]. split; [reflexivity|]. vm_compute. discriminate.
Qed.
