(* C01 / C02 fragment soundness: under construction (see Proofs/TypeSoundBasics.v). *)
From VRL Require Import Proofs.TypeSoundBasics.
