(* C01 / C02 on the effect-free fragment of Core VRL, and the assignment steps:
   - `pure_sound`: an expression built from literals, variables, queries, arrays, objects, groups,
     == / !=, ! and exists, typed in a state the run-time state conforms to, evaluates without error and
     without changing variables / event / metadata to a well-formed member of its (upgraded) kind, and its
     type_info leaves the type state alone;
   - `assign_var_sound`, `assign_ext_sound`: assigning such a value to a variable or to an event /
     metadata path (inside C19's ins_ok) re-establishes conformance with the type state after the
     assignment. *)
From Coq Require Import List NArith ZArith Bool Lia.
From VRL Require Import Base.Bytes Base.Value Model.ValueCrud Model.Kind Model.KindCrud Model.KindDomains
  Model.Expr Model.Eval Model.TypeInfo Model.TypeFragment
  Proofs.ValueCrudProofs Proofs.KindBasics Proofs.KindMergeProofs Proofs.KindGetProofs Proofs.KindInsertProofs
  Proofs.KindRemoveProofs Proofs.ExprInd Proofs.EvalProofs Proofs.TypeInfoEqs Proofs.TypeConstProofs
  Proofs.TypeSoundBasics.
Import ListNotations.

Lemma same_data_refl s : same_data s s.
Proof. repeat split. Qed.
Lemma same_data_trans a b c : same_data a b -> same_data b c -> same_data a c.
Proof. unfold same_data. intros (A1 & A2 & A3 & A4) (B1 & B2 & B3 & B4). repeat split; congruence. Qed.
Lemma conf_same_data G s s' : same_data s s' -> conf G s -> conf G s'.
Proof.
  unfold same_data, conf. intros (A1 & A2 & A3 & A4) (H1 & H2 & H3 & H4 & H5 & H6).
  rewrite A1, A2, A3, A4. repeat split; auto.
Qed.

(* a read of the target when no fault is scheduled *)
Lemma t_get_no_fault s pfx p : faults s = [] ->
  fst (t_get s pfx p) = get (tval s pfx) p /\ same_data s (snd (t_get s pfx p)).
Proof.
  intros Hf. unfold t_get, pop_fault. rewrite Hf. cbn. repeat split; auto.
Qed.

Lemma member_upgrade_opt o k : is_never k = false -> member_opt o k = true ->
  member (or_null o) (upgrade_undefined k) = true.
Proof.
  intros Hn H. pose proof (upgrade_sound o k H) as Hu. destruct o as [w|]; cbn [or_null]; auto.
  rewrite Hn, orb_false_r in Hu. destruct (upgrade_undefined k) as [pr a o]. cbn in *. exact Hu.
Qed.

Lemma member_up v k : member v k = true -> member v (upgrade_undefined k) = true.
Proof. apply member_upgrade. Qed.

Lemma upgrade_never_no_member v k : is_never k = true -> member v (upgrade_undefined k) = false.
Proof. intros H. unfold upgrade_undefined. rewrite H. apply member_is_never; auto. Qed.

Lemma is_never_upgrade k : is_never (upgrade_undefined k) = is_never k.
Proof.
  unfold upgrade_undefined. destruct (is_never k) eqn:E; auto.
  destruct (contains_undefined k); auto.
  destruct k as [[] a o]. unfold is_never, p_is_none. cbn. rewrite !orb_true_r. reflexivity.
Qed.

(* a boolean-typed value is a boolean *)
Lemma member_boolean_is_bool v k : k_is_boolean k = true -> member v (upgrade_undefined k) = true -> exists b, v = VBool b.
Proof.
  unfold k_is_boolean, only. intros Hk Hm. apply Nat.eqb_eq in Hk.
  destruct k as [[pb pi pf pB pt pr pn pu] a o]. unfold nstates in Hk. cbn in Hk.
  assert (pb = false /\ pi = false /\ pf = false /\ pt = false /\ pr = false /\ pn = false /\ pu = false
          /\ a = None /\ o = None) as (-> & -> & -> & -> & -> & -> & -> & -> & ->).
  { destruct pb, pi, pf, pB, pt, pr, pn, pu, a, o; cbn in Hk; try lia; repeat split; auto. }
  unfold upgrade_undefined in Hm. destruct pB; cbn in Hm.
  - destruct v; try discriminate. eauto.
  - destruct v; discriminate.
Qed.

Ltac fin := repeat split; auto; try (unfold same_data in *; intuition congruence).

Section Pure.
  Variable F : fname -> list value -> option value.
  Variable binop : opcode -> value -> value -> option value.
  Variable T : fname -> list tdef -> list tdef -> tdef.
  Hypothesis binop_eq : forall x y, exists b, binop OEq x y = Some (VBool b).
  Hypothesis binop_ne : forall x y, exists b, binop ONe x y = Some (VBool b).
  Notation ev' := (eval F binop).
  Notation ti := (type_info binop T).
  Notation pure_ok := (pure_ok binop T).

  Definition pure_sound_at (e : expr) : Prop :=
    forall G s, pure_ok e G = true -> conf G s ->
    fst (ti e G) = G
    /\ exists v s', ev' e s = (inl v, s') /\ same_data s s'
                   /\ member v (upk (snd (ti e G))) = true /\ wf_value v = true.

  (* ---------- arrays ---------- *)

  Lemma arr_pure es : Forall pure_sound_at es -> forall G s acc accv fal,
    forallb (fun e1 => pure_ok e1 G) es = true -> conf G s ->
    Forall2 (fun v t => member v (td_kind t) = true) (rev accv) (rev acc) ->
    (forall v, In v accv -> wf_value v = true) ->
    fst (ti_arr binop T es G acc fal) = G
    /\ exists vs s' tds,
         arr_go F binop es accv s = (inl (VArr vs), s') /\ same_data s s'
         /\ td_kind (snd (ti_arr binop T es G acc fal)) = arr_kind (map td_kind tds)
         /\ Forall2 (fun v t => member v (td_kind t) = true) vs tds
         /\ (forall v, In v vs -> wf_value v = true).
  Proof.
    induction 1 as [|e1 es H1 _ IH]; intros G s acc accv fal Hok Hc Hacc Hwf.
    - cbn. split; auto. exists (rev accv), s, (rev acc). fin.
      intros v Hv. apply Hwf. apply in_rev. exact Hv.
    - cbn [forallb] in Hok. apply andb_true_iff in Hok. destruct Hok as [Hok1 Hok].
      destruct (H1 G s Hok1 Hc) as (Hst & v & s1 & Hev & Hsd & Hm & Hwv).
      cbn [ti_arr arr_go]. destruct (ti e1 G) as [G1 r0] eqn:Et. cbn [fst snd] in *. subst G1. rewrite Hev.
      assert (is_never (td_kind (td_upgrade r0)) = false) as Hnn.
      { destruct (is_never (td_kind (td_upgrade r0))) eqn:E; auto.
        unfold upk in Hm. cbn in E. rewrite (member_is_never _ _ E) in Hm. discriminate. }
      rewrite Hnn.
      destruct (IH G s1 (td_upgrade r0 :: acc) (v :: accv) (fal || td_fal (td_upgrade r0)) Hok
                   (conf_same_data _ _ _ Hsd Hc)) as (Hst' & vs & s' & tds & Hgo & Hsd' & Hk & Hf2 & Hw).
      + cbn [rev]. apply Forall2_app; auto.
      + intros w [<-|Hw]; auto.
      + split; auto. exists vs, s', tds. fin.
  Qed.

  (* ---------- objects ---------- *)

  (* value and kind maps built in step agree key by key *)
  Definition obj_rel (m : obj) (ks : list (bytes * kind)) : Prop :=
    forall key, match obj_get m key, aget bytes_eqb ks key with
                | Some w, Some k => member w k = true /\ wf_value w = true
                | None, None => True
                | _, _ => False
                end.

  Lemma obj_rel_set m ks key w k : obj_rel m ks -> member w k = true -> wf_value w = true ->
    obj_rel (obj_set m key w) (aset bytes_cmp ks key k).
  Proof.
    intros Hr Hm Hw key'. rewrite (aget_aset bytes_eqb bytes_cmp bytes_eqb_eq bytes_cmp_eq).
    destruct (bytes_eqb key key') eqn:E.
    - apply bytes_eqb_eq in E; subst. rewrite obj_get_set_same. auto.
    - rewrite obj_get_set_other by (apply bytes_eqb_neq in E; congruence). apply Hr.
  Qed.

  Lemma obj_rel_member m ks : obj_sorted m = true -> obj_rel m ks ->
    member (VObj m) (k_object (mkC ks (UExact k_undefined))) = true /\ wf_value (VObj m) = true.
  Proof.
    intros Hs Hr. split.
    - rewrite member_obj. cbn [obj_of k_object]. apply obj_ok_intro.
      + intros f w Hin. pose proof (Hr f) as H. rewrite (sorted_in_get _ Hs _ _ Hin) in H.
        unfold coll_at. cbn [known]. destruct (aget bytes_eqb ks f); tauto.
      + intros f Hf. pose proof (Hr f) as H. rewrite Hf in H. unfold coll_at. cbn [known].
        destruct (aget bytes_eqb ks f); [contradiction | reflexivity].
    - apply wf_obj_intro; auto. intros g w Hin. pose proof (Hr g) as H.
      rewrite (sorted_in_get _ Hs _ _ Hin) in H. destruct (aget bytes_eqb ks g); tauto.
  Qed.

  Definition fold_kinds (ks : list (bytes * kind)) (init : list (bytes * kind)) : list (bytes * kind) :=
    fold_left (fun m kv => aset bytes_cmp m (fst kv) (snd kv)) ks init.

  Lemma obj_pure kvs : Forall (fun kv => pure_sound_at (snd kv)) kvs -> forall G s acc accm fal ret,
    forallb (fun kv => pure_ok (snd kv) G) kvs = true -> conf G s ->
    obj_sorted accm = true -> obj_rel accm (fold_kinds (rev acc) []) ->
    fst (ti_obj binop T kvs G acc fal ret) = G
    /\ exists m s', obj_go F binop kvs accm s = (inl (VObj m), s') /\ same_data s s'
         /\ member (VObj m) (td_kind (snd (ti_obj binop T kvs G acc fal ret))) = true /\ wf_value (VObj m) = true.
  Proof.
    induction 1 as [|[k e1] kvs H1 _ IH]; intros G s acc accm fal ret Hok Hc Hs Hr.
    - cbn. split; auto. exists accm, s. fin; apply (obj_rel_member accm _ Hs Hr).
    - cbn [forallb snd] in Hok. apply andb_true_iff in Hok. destruct Hok as [Hok1 Hok].
      cbn [snd] in H1. destruct (H1 G s Hok1 Hc) as (Hst & v & s1 & Hev & Hsd & Hm & Hwv).
      cbn [ti_obj obj_go]. destruct (ti e1 G) as [G1 r0] eqn:Et. cbn [fst snd] in *. subst G1. rewrite Hev.
      assert (is_never (td_kind (td_upgrade r0)) = false) as Hnn.
      { destruct (is_never (td_kind (td_upgrade r0))) eqn:E; auto.
        unfold upk in Hm. cbn in E. rewrite (member_is_never _ _ E) in Hm. discriminate. }
      rewrite Hnn.
      destruct (IH G s1 ((k, td_kind (td_upgrade r0)) :: acc) (obj_set accm k v) (fal || td_fal (td_upgrade r0))
                   (union ret (td_ret (td_upgrade r0))) Hok (conf_same_data _ _ _ Hsd Hc))
        as (Hst' & m & s' & Hgo & Hsd' & Hmm & Hwm).
      + apply sorted_obj_set; auto.
      + cbn [rev]. unfold fold_kinds. rewrite fold_left_app. cbn [fold_left fst snd].
        apply obj_rel_set; auto.
      + split; auto. exists m, s'. fin.
  Qed.

  (* ---------- the fragment ---------- *)

  Lemma conf_var G s x d : conf G s -> lvar (locals G) x = Some d ->
    exists v, var_get (vars s) x = Some v /\ member v (td_kind (fst d)) = true /\ wf_value v = true.
  Proof. intros (H & _) E. eauto. Qed.

  Lemma conf_ext G s pfx : conf G s -> member (tval s pfx) (ext_kind G pfx) = true /\ wf_value (tval s pfx) = true.
  Proof. intros (_ & H1 & H2 & H3 & H4 & _). destruct pfx; cbn; auto. Qed.

  Lemma query_sound v k p : wf_value v = true -> q_ok k p = true -> member v k = true ->
    member (or_null (get v p)) (upgrade_undefined (at_path k p)) = true /\ wf_value (or_null (get v p)) = true.
  Proof.
    intros Hw Hok Hm. unfold q_ok in Hok. apply andb_true_iff in Hok. destruct Hok as [Hok Hnn].
    apply negb_true_iff in Hnn. split.
    - apply member_upgrade_opt; auto. apply get_sound; auto.
    - apply wf_or_null. intros w Hg. eapply wf_get; eauto.
  Qed.

  Theorem pure_sound : forall e, pure_sound_at e.
  Proof.
    induction e using expr_ind'; intros G s Hok Hc; try (cbn in Hok; discriminate).
    - (* literal *)
      cbn in *. split; auto. exists v, s. fin.
      unfold upk. cbn. apply member_up. apply member_kind_of_value; auto.
    - (* variable *)
      cbn in Hok. destruct (lvar (locals G) x) as [d|] eqn:E; [|discriminate].
      destruct (conf_var _ _ _ _ Hc E) as (v & Hv & Hm & Hw).
      cbn. rewrite E, Hv. split; auto. exists v, s. fin. apply member_up; auto.
    - (* external query *)
      destruct Hc as (Hv & Hc'). pose proof (conf_ext G s pfx (conj Hv Hc')) as [Hm Hw].
      destruct Hc' as (_ & _ & _ & _ & Hf).
      destruct (t_get_no_fault s pfx p Hf) as [Hg Hsd].
      cbn [eval type_info]. destruct (t_get s pfx p) as [r s'] eqn:Et. cbn [fst snd] in *. subst r.
      split; auto. cbn in Hok.
      destruct (query_sound _ _ _ Hw Hok Hm) as [Hq Hqw].
      exists (or_null (get (tval s pfx) p)), s'. fin.
    - (* variable query *)
      cbn in Hok. apply andb_true_iff in Hok. destruct Hok as [Hx Hok].
      unfold var_td in Hok. destruct (lvar (locals G) x) as [d|] eqn:E; [|discriminate].
      destruct (conf_var _ _ _ _ Hc E) as (v & Hv & Hm & Hw).
      cbn. rewrite E, Hv. cbn [or_null]. split; auto.
      destruct (query_sound _ _ _ Hw Hok Hm) as [Hq Hqw].
      exists (or_null (get v p)), s. fin.
    - (* query on an expression *)
      cbn in Hok. apply andb_true_iff in Hok. destruct Hok as [Hok Hg].
      apply andb_true_iff in Hok. destruct Hok as [Hok1 Hnu]. apply negb_true_iff in Hnu.
      destruct (IHe G s Hok1 Hc) as (Hst & v & s1 & Hev & Hsd & Hm & Hw).
      cbn [eval type_info]. rewrite Hev. destruct (ti e G) as [G1 r] eqn:Et. cbn [fst snd] in *. subst G1.
      assert (member v (td_kind r) = true) as Hm'.
      { unfold upk, upgrade_undefined in Hm. rewrite Hnu in Hm. destruct (is_never (td_kind r)); exact Hm. }
      destruct (query_sound _ _ _ Hw Hg Hm') as [Hq Hqw].
      split; auto. exists (or_null (get v p)), s1. fin.
    - (* array *)
      rewrite eval_arr, ti_arr_eq. cbn in Hok.
      destruct (arr_pure es H G s [] [] false Hok Hc) as (Hst & vs & s' & tds & Hgo & Hsd & Hk & Hf2 & Hw);
        try (cbn; auto; fail).
      split; auto. exists (VArr vs), s'. fin.
      + unfold upk. rewrite Hk. apply member_up. apply member_arr_kind.
        clear - Hf2. induction Hf2; cbn; constructor; auto.
      + apply wf_arr_intro; auto.
    - (* object *)
      rewrite eval_obj, ti_obj_eq. cbn in Hok.
      destruct (obj_pure kvs H G s [] [] false k_never Hok Hc) as (Hst & m & s' & Hgo & Hsd & Hm & Hw); auto.
      { intros key. cbn. auto. }
      split; auto. exists (VObj m), s'. fin. apply member_up; auto.
    - (* group *) cbn in *. apply IHe; auto.
    - (* == / != *)
      assert (pure_ok e1 G = true /\ pure_ok e2 G = true /\ (o = OEq \/ o = ONe)) as (Hok1 & Hok2 & Ho).
      { destruct o; cbn in Hok; try discriminate; apply andb_true_iff in Hok; tauto. }
      destruct (IHe1 G s Hok1 Hc) as (Hst1 & v1 & s1 & Hev1 & Hsd1 & Hm1 & Hw1).
      destruct (IHe2 G s1 Hok2 (conf_same_data _ _ _ Hsd1 Hc)) as (Hst2 & v2 & s2 & Hev2 & Hsd2 & Hm2 & Hw2).
      assert (exists b, binop o v1 v2 = Some (VBool b)) as [b Hb] by (destruct Ho; subst; auto).
      assert (plain o = true) as Hp by (destruct Ho; subst; reflexivity).
      rewrite (eval_plain F binop o e1 e2 s Hp), Hev1, Hev2, Hb.
      assert (ti (EOp o e1 e2) G = (G, td_with_kind (td_union (snd (ti e1 G)) (snd (ti e2 G))) k_boolean)) as ->.
      { destruct Ho; subst; cbn [type_info]; destruct (ti e1 G) as [Ga l]; cbn [fst snd] in *; subst Ga;
          destruct (ti e2 G) as [Gb r]; cbn [fst snd] in *; subst Gb; reflexivity. }
      split; auto. exists (VBool b), s2. fin.
    - (* ! *)
      cbn in Hok. apply andb_true_iff in Hok. destruct Hok as [Hok1 Hb].
      destruct (IHe G s Hok1 Hc) as (Hst & v & s1 & Hev & Hsd & Hm & Hw).
      destruct (member_boolean_is_bool _ _ Hb Hm) as [b ->].
      cbn [eval type_info]. rewrite Hev. destruct (ti e G) as [G1 r]. cbn [fst snd] in *. subst G1.
      split; auto. exists (VBool (negb b)), s1. fin.
    - (* exists(.path) *)
      destruct Hc as (Hv & _ & _ & _ & _ & Hf).
      destruct (t_get_no_fault s pfx p Hf) as [Hg Hsd].
      cbn [eval type_info]. destruct (t_get s pfx p) as [r s'] eqn:Et. cbn [fst snd] in *.
      split; auto. eexists _, s'. fin.
    - (* exists(var.path) *)
      cbn. split; auto. eexists _, s. fin.
  Qed.
End Pure.

(* ---------- assignment ---------- *)

Lemma insert_up_sound v k p xv kx :
  wf_value v = true -> ins_ok false k p = true -> member v k = true -> member xv (upgrade_undefined kx) = true ->
  member (insert v p xv) (kinsert k p kx) = true.
Proof.
  intros Hwf Hok Hm Hx. unfold insert, kinsert.
  apply (ins_sound xv (upgrade_undefined kx) Hx p false (Some v) k Hok). exists v. auto.
Qed.

Lemma insert_conf t G s v r c :
  assign_ok t G = true -> conf G s -> member v (upk r) = true -> wf_value v = true ->
  conf (insert_type_def t G r c) (target_insert s t v).
Proof.
  intros Hok Hc Hm Hw. destruct t as [|x p|pfx p].
  - exact Hc.
  - (* variable *)
    destruct Hc as (Hv & He & Hwe & Hmd & Hwm & Hf).
    assert (forall w kx, member w kx = true -> wf_value w = true ->
              conf (mkTs (lset (locals G) x (mkTd (td_fal (match lvar (locals G) x with Some d => fst d | None => td_of k_never end) || td_fal r) kx
                                                (td_ret (match lvar (locals G) x with Some d => fst d | None => td_of k_never end)), c)) (tgt G) (mdk G))
                   (set_vars s (var_set (vars s) x w))) as Hset.
    { intros w kx Hmw Hww. unfold conf. cbn [locals tgt mdk set_vars vars ev md faults]. repeat split; auto.
      intros y d Hy. rewrite lvar_lset in Hy. destruct (bytes_eqb x y) eqn:E.
      - apply bytes_eqb_eq in E; subst y. inversion Hy; subst d. cbn [fst td_kind].
        exists w. rewrite var_get_set_same. auto.
      - rewrite var_get_set_other by exact E. apply Hv; auto. }
    destruct p as [|sg p].
    + (* the whole variable *)
      cbn [insert_type_def target_insert]. unfold td_with_type_inserted, kinsert. cbn [insert_rec].
      unfold upk in Hm. rewrite (member_not_never _ _ Hm). apply Hset; auto.
    + (* a path below a known variable *)
      cbn [assign_ok] in Hok. destruct (lvar (locals G) x) as [d|] eqn:El; [|discriminate].
      destruct (Hv x d El) as (w & Hg & Hmw & Hww).
      cbn [insert_type_def]. rewrite El.
      assert (target_insert s (TVar x (sg :: p)) v = set_vars s (var_set (vars s) x (insert w (sg :: p) v))) as ->.
      { cbn [target_insert]. rewrite Hg. reflexivity. }
      unfold td_with_type_inserted. specialize (Hset (insert w (sg :: p) v) (kinsert (td_kind (fst d)) (sg :: p) (td_kind r))).
      apply Hset.
      * apply insert_up_sound; auto.
      * apply wf_insert; auto.
  - (* event / metadata *)
    cbn [assign_ok] in Hok. destruct Hc as (Hv & He & Hwe & Hmd & Hwm & Hf).
    cbn [insert_type_def target_insert]. unfold t_insert, pop_fault. rewrite Hf.
    destruct pfx; cbn [ext_kind set_ext_kind with_target tval] in *; unfold conf;
      cbn [locals tgt mdk vars ev md faults]; repeat split; auto;
      try (apply insert_up_sound; auto); try (apply wf_insert; auto).
Qed.

Section Straight.
  Variable F : fname -> list value -> option value.
  Variable binop : opcode -> value -> value -> option value.
  Variable T : fname -> list tdef -> list tdef -> tdef.
  Hypothesis binop_eq : forall x y, exists b, binop OEq x y = Some (VBool b).
  Hypothesis binop_ne : forall x y, exists b, binop ONe x y = Some (VBool b).
  Notation ev' := (eval F binop).
  Notation ti := (type_info binop T).
  Notation stmt_ok := (stmt_ok binop T).
  Notation stmts_ok := (stmts_ok binop T).

  Lemma stmt_sound e G s : stmt_ok e G = true -> conf G s ->
    exists v s', ev' e s = (inl v, s') /\ conf (fst (ti e G)) s'
                 /\ member v (upk (snd (ti e G))) = true /\ wf_value v = true.
  Proof.
    intros Hok Hc.
    assert (pure_ok binop T e G = true -> exists v s', ev' e s = (inl v, s') /\ conf (fst (ti e G)) s'
                 /\ member v (upk (snd (ti e G))) = true /\ wf_value v = true) as Hpure.
    { intros Hp. destruct (pure_sound F binop T binop_eq binop_ne e G s Hp Hc) as (Hst & v & s' & Hev & Hsd & Hm & Hw).
      exists v, s'. rewrite Hst. split; [exact Hev|split; [eapply conf_same_data; eauto|split; auto]]. }
    destruct e; try (apply Hpure; exact Hok).
    cbn [stmt_ok] in Hok. apply andb_true_iff in Hok. destruct Hok as [Hp Ha].
    destruct (pure_sound F binop T binop_eq binop_ne e G s Hp Hc) as (Hst & v & s1 & Hev & Hsd & Hm & Hw).
    cbn [eval type_info]. rewrite Hev. destruct (ti e G) as [G1 r] eqn:Et. cbn [fst snd] in *. subst G1.
    exists v, (target_insert s1 t v). split; [reflexivity|split; [|split; auto]].
    apply insert_conf; auto. eapply conf_same_data; eauto.
  Qed.

  Lemma blk_sound : forall es G s res fal an ret, es <> [] -> stmts_ok es G = true -> conf G s ->
    exists v s', blk F binop es s = (inl v, s')
                 /\ conf (fst (ti_blk binop T es G res fal an ret)) s'
                 /\ member v (upk (snd (ti_blk binop T es G res fal an ret))) = true /\ wf_value v = true.
  Proof.
    induction es as [|e es IH]; intros G s res fal an ret Hne Hok Hc; [congruence|].
    cbn [stmts_ok] in Hok. apply andb_true_iff in Hok. destruct Hok as [Hs Hr].
    destruct (stmt_sound e G s Hs Hc) as (v & s1 & Hev & Hc1 & Hm & Hw).
    cbn [ti_blk]. destruct (ti e G) as [G1 r] eqn:Et. cbn [fst snd] in *.
    destruct es as [|e2 es].
    - cbn [blk ti_blk]. exists v, s1. split; [exact Hev|split; [exact Hc1|split; auto]].
    - assert (blk F binop (e :: e2 :: es) s = blk F binop (e2 :: es) s1) as ->.
      { cbn [blk]. rewrite Hev. reflexivity. }
      apply IH; auto. discriminate.
  Qed.

  (* C01 + C02 for straight-line programs of the fragment: the program ends with a value (in particular
     not with an error), the value is in the kind the compiler computed for the program, and the event
     and metadata it leaves are in the final kinds of Program::final_type_info *)
  Theorem straightline_sound es G s : es <> [] -> stmts_ok es G = true -> conf G s ->
    exists v s', blk F binop es s = (inl v, s')
                 /\ member v (upgrade_undefined (td_kind (snd (program_type_info binop T es G)))) = true
                 /\ member (ev s') (tgt (fst (program_type_info binop T es G))) = true
                 /\ member (md s') (mdk (fst (program_type_info binop T es G))) = true
                 /\ conf (fst (program_type_info binop T es G)) s'.
  Proof.
    intros Hne Hok Hc. rewrite ti_program_eq. unfold ti_block.
    destruct (blk_sound es G s (td_of k_null) false false k_never Hne Hok Hc) as (v & s' & Hb & Hc' & Hm & Hw).
    destruct (ti_blk binop T es G (td_of k_null) false false k_never) as [G' r]. cbn [fst snd] in *.
    exists v, s'. split; [exact Hb|split; [exact Hm|split; [apply Hc'|split; [apply Hc'|exact Hc']]]].
  Qed.

  (* the same at the level of Runtime::resolve, from the initial state of a run *)
  Theorem run_sound es ek mk event meta :
    es <> [] -> stmts_ok es (ts0 ek mk) = true ->
    member event ek = true -> wf_value event = true -> member meta mk = true -> wf_value meta = true ->
    exists v s', run F binop es (st0 [] event meta) = (Success v, s')
                 /\ member v (upgrade_undefined (td_kind (snd (program_type_info binop T es (ts0 ek mk))))) = true
                 /\ member (ev s') (tgt (fst (program_type_info binop T es (ts0 ek mk)))) = true
                 /\ member (md s') (mdk (fst (program_type_info binop T es (ts0 ek mk)))) = true.
  Proof.
    intros Hne Hok He Hwe Hm Hwm.
    assert (conf (ts0 ek mk) (st0 [] event meta)) as Hc.
    { unfold conf, ts0, st0. cbn. repeat split; auto. intros x d Hx. discriminate. }
    destruct (straightline_sound es (ts0 ek mk) (st0 [] event meta) Hne Hok Hc) as (v & s' & Hb & Hv & Hev & Hmd & _).
    exists v, s'. unfold run, pop_fault. cbn [faults st0].
    change (mkState (vars (st0 [] event meta)) (ev (st0 [] event meta)) (md (st0 [] event meta))
                    (tlog (st0 [] event meta)) []) with (st0 [] event meta).
    rewrite eval_block, Hb. auto.
  Qed.
End Straight.

(* ---------- C12: the constants of the type state stay right along the fragment ---------- *)

Section ConstInvariant.
  Variable F : fname -> list value -> option value.
  Variable binop : opcode -> value -> value -> option value.
  Variable T : fname -> list tdef -> list tdef -> tdef.
  Hypothesis binop_eq : forall x y, exists b, binop OEq x y = Some (VBool b).
  Hypothesis binop_ne : forall x y, exists b, binop ONe x y = Some (VBool b).
  Notation ev' := (eval F binop).
  Notation ti := (type_info binop T).

  Lemma consts_same_data G s s' : same_data s s' -> consts_ok G s -> consts_ok G s'.
  Proof. intros (Hv & _) H x t c Hx. rewrite Hv. eapply H; eauto. Qed.

  Lemma stmt_consts e G s : stmt_ok binop T e G = true -> const_stmt_ok binop e G = true ->
    conf G s -> consts_ok G s ->
    consts_ok (fst (ti e G)) (snd (ev' e s)).
  Proof.
    intros Hok Hcs Hc Hk.
    assert (pure_ok binop T e G = true -> consts_ok (fst (ti e G)) (snd (ev' e s))) as Hpure.
    { intros Hp. destruct (pure_sound F binop T binop_eq binop_ne e G s Hp Hc) as (Hst & v & s' & Hev & Hsd & _).
      rewrite Hst, Hev. cbn [snd]. eapply consts_same_data; eauto. }
    destruct e; try (apply Hpure; exact Hok).
    cbn [stmt_ok] in Hok. apply andb_true_iff in Hok. destruct Hok as [Hp Ha].
    destruct (pure_sound F binop T binop_eq binop_ne e G s Hp Hc) as (Hst & v & s1 & Hev & Hsd & _).
    cbn [eval type_info]. rewrite Hev. destruct (ti e G) as [G1 r] eqn:Et. cbn [fst snd] in *. subst G1.
    pose proof (consts_same_data G s s1 Hsd Hk) as Hk1.
    assert (forall x w d, (forall cy, snd d = Some cy -> w = cy) ->
              consts_ok (mkTs (lset (locals G) x d) (tgt G) (mdk G)) (set_vars s1 (var_set (vars s1) x w))) as Hset.
    { intros x w d Hd y ty cy Hy. cbn [locals] in Hy. rewrite lvar_lset in Hy. cbn [set_vars vars].
      destruct (bytes_eqb x y) eqn:E.
      - apply bytes_eqb_eq in E; subst y. inversion Hy; subst d. rewrite var_get_set_same. f_equal. apply Hd. reflexivity.
      - rewrite var_get_set_other by exact E. eapply Hk1; eauto. }
    destruct t as [|x p|pfx p].
    - exact Hk1.
    - destruct p as [|sg p].
      + cbn [insert_type_def target_insert]. apply Hset. cbn [snd]. intros cy Hcy.
        pose proof (const_sound F binop e G s cy Hk Hcy) as Hev'. rewrite Hev in Hev'. inversion Hev'. reflexivity.
      + cbn [const_stmt_ok] in Hcs. apply negb_true_iff in Hcs.
        destruct (resolve_constant binop e G) as [cc|] eqn:Erc; [discriminate|].
        cbn [insert_type_def].
        assert (exists w, target_insert s1 (TVar x (sg :: p)) v = set_vars s1 (var_set (vars s1) x w)) as [w ->].
        { cbn [target_insert]. destruct (var_get (vars s1) x); eexists; reflexivity. }
        apply Hset. cbn [snd]. intros cy Hcy. discriminate.
    - cbn [insert_type_def target_insert]. unfold t_insert. destruct (pop_fault s1) as [bad fs].
      intros y ty cy Hy. assert (lvar (locals G) y = Some (ty, Some cy)) as Hy' by (destruct pfx; exact Hy).
      destruct pfx; cbn [with_target vars]; eapply Hk1; eauto.
  Qed.

  Lemma blk_consts : forall es G s res fal an ret, es <> [] ->
    stmts_ok binop T es G = true -> const_stmts_ok binop T es G = true -> conf G s -> consts_ok G s ->
    consts_ok (fst (ti_blk binop T es G res fal an ret)) (snd (blk F binop es s)).
  Proof.
    induction es as [|e es IH]; intros G s res fal an ret Hne Hok Hcs Hc Hk; [congruence|].
    cbn [stmts_ok] in Hok. apply andb_true_iff in Hok. destruct Hok as [Hs Hr].
    cbn [const_stmts_ok] in Hcs. apply andb_true_iff in Hcs. destruct Hcs as [Hcs Hcr].
    pose proof (stmt_consts e G s Hs Hcs Hc Hk) as Hk1.
    destruct (stmt_sound F binop T binop_eq binop_ne e G s Hs Hc) as (v & s1 & Hev & Hc1 & _).
    rewrite Hev in Hk1. cbn [snd] in Hk1.
    cbn [ti_blk]. destruct (ti e G) as [G1 r] eqn:Et. cbn [fst snd] in *.
    destruct es as [|e2 es].
    - cbn [blk ti_blk]. rewrite Hev. exact Hk1.
    - assert (blk F binop (e :: e2 :: es) s = blk F binop (e2 :: es) s1) as ->.
      { cbn [blk]. rewrite Hev. reflexivity. }
      apply IH; auto. discriminate.
  Qed.

  (* at the end of a straight-line program of the fragment, every constant the compiler holds for a
     variable is the value of that variable *)
  Theorem straightline_consts es ek mk event meta :
    es <> [] -> stmts_ok binop T es (ts0 ek mk) = true -> const_stmts_ok binop T es (ts0 ek mk) = true ->
    member event ek = true -> wf_value event = true -> member meta mk = true -> wf_value meta = true ->
    consts_ok (fst (program_type_info binop T es (ts0 ek mk))) (snd (run F binop es (st0 [] event meta))).
  Proof.
    intros Hne Hok Hcs He Hwe Hm Hwm.
    assert (conf (ts0 ek mk) (st0 [] event meta)) as Hc.
    { unfold conf, ts0, st0. cbn. repeat split; auto. intros x d Hx. discriminate. }
    assert (consts_ok (ts0 ek mk) (st0 [] event meta)) as Hk by (intros x t c Hx; discriminate).
    pose proof (blk_consts es (ts0 ek mk) (st0 [] event meta) (td_of k_null) false false k_never Hne Hok Hcs Hc Hk) as H.
    destruct (straightline_sound F binop T binop_eq binop_ne es _ _ Hne Hok Hc) as (v & s' & Hb & _).
    rewrite ti_program_eq. unfold ti_block.
    destruct (ti_blk binop T es (ts0 ek mk) (td_of k_null) false false k_never) as [G' r]. cbn [fst] in *.
    unfold run, pop_fault. cbn [faults st0].
    change (mkState (vars (st0 [] event meta)) (ev (st0 [] event meta)) (md (st0 [] event meta))
                    (tlog (st0 [] event meta)) []) with (st0 [] event meta).
    rewrite eval_block. rewrite Hb in *. exact H.
  Qed.
End ConstInvariant.
