(* C24 — proofs about Model/KeyValue.v: the encode_key_value / parse_key_value round trip. *)
From Coq Require Import List NArith Bool Lia Arith.
From VRL Require Import Base.Bytes Model.KeyValue.
Import ListNotations.
Local Open Scope N_scope.

(* ------------------------------------------------------------------ small facts *)
Lemma has_false_iff c s : has c s = false <-> forall x, In x s -> x <> c.
Proof.
  unfold has. induction s as [|y s IH]; cbn.
  - split; [intros _ x [] | auto].
  - rewrite orb_false_iff, IH, N.eqb_neq. split.
    + intros [H1 H2] x [<-|Hx]; auto.
    + intros H; split; [apply H; auto | intros x Hx; apply H; auto].
Qed.

Lemma has_cons c y s : has c (y :: s) = (y =? c) || has c s.
Proof. reflexivity. Qed.

Lemma has_app c a b : has c (a ++ b) = has c a || has c b.
Proof. unfold has. apply existsb_app. Qed.

Lemma strip_prefix_app p s : strip_prefix p (p ++ s) = Some s.
Proof. induction p as [|x p IH]; cbn; auto. rewrite N.eqb_refl. exact IH. Qed.

Lemma strip_prefix_head_ne c p x s : x <> c -> strip_prefix (c :: p) (x :: s) = None.
Proof. intros H. cbn. destruct (c =? x) eqn:E; auto. apply N.eqb_eq in E. congruence. Qed.

Lemma take_until_found pat s r : strip_prefix pat s = Some r -> take_until pat s = Some ([], s).
Proof. intros H. destruct s; cbn [take_until]; rewrite H; reflexivity. Qed.

Lemma take_until_step pat x s :
  strip_prefix pat (x :: s) = None ->
  take_until pat (x :: s) = match take_until pat s with Some (a, b) => Some (x :: a, b) | None => None end.
Proof. intros H. cbn [take_until]. rewrite H. reflexivity. Qed.

Lemma take_until_nohead c p k rest :
  has c k = false -> take_until (c :: p) (k ++ (c :: p) ++ rest) = Some (k, (c :: p) ++ rest).
Proof.
  induction k as [|x k IH]; intros H.
  - apply (take_until_found _ _ rest). exact (strip_prefix_app (c :: p) rest).
  - rewrite has_cons in H. apply orb_false_iff in H as [Hx Hk]. apply N.eqb_neq in Hx.
    change ((x :: k) ++ (c :: p) ++ rest) with (x :: (k ++ (c :: p) ++ rest)).
    rewrite take_until_step by (apply strip_prefix_head_ne; auto).
    rewrite (IH Hk). reflexivity.
Qed.

Lemma take_until_none c p k : has c k = false -> take_until (c :: p) k = None.
Proof.
  induction k as [|x k IH]; intros H.
  - reflexivity.
  - rewrite has_cons in H. apply orb_false_iff in H as [Hx Hk]. apply N.eqb_neq in Hx.
    rewrite take_until_step by (apply strip_prefix_head_ne; auto). rewrite (IH Hk). reflexivity.
Qed.

Lemma contains_nohead c p k : has c k = false -> contains (c :: p) k = false.
Proof. intros H. unfold contains. rewrite take_until_none; auto. Qed.

(* ------------------------------------------------------------------ whitespace *)
Lemma is_sptab_ws c : is_sptab c = true -> is_ws c = true.
Proof.
  unfold is_sptab, is_ws, c_sp, c_tab. rewrite orb_true_iff, !N.eqb_eq. intros [->| ->]; reflexivity.
Qed.

Definition no_ws (s : str) : Prop := forall x, In x s -> is_ws x = false.

Lemma trim_start_head x s : is_ws x = false -> trim_start (x :: s) = x :: s.
Proof. intros H. cbn. rewrite H. reflexivity. Qed.

Lemma trim_no_ws s : no_ws s -> trim s = s.
Proof.
  intros H. unfold trim, trim_end.
  assert (E1 : trim_start s = s).
  { destruct s as [|x s]; auto. apply trim_start_head, H; left; auto. }
  rewrite E1.
  assert (E2 : trim_start (rev s) = rev s).
  { destruct (rev s) as [|x r] eqn:E; auto. apply trim_start_head, H.
    apply in_rev. rewrite E. left; auto. }
  rewrite E2. apply rev_involutive.
Qed.

Lemma space0_head x s : is_sptab x = false -> space0 (x :: s) = x :: s.
Proof. intros H. cbn. rewrite H. reflexivity. Qed.

Lemma many_sp_head x s : x <> c_sp -> many_sp (x :: s) = x :: s.
Proof. intros H. cbn. apply N.eqb_neq in H. rewrite H. reflexivity. Qed.

(* ------------------------------------------------------------------ unquoted strings *)
Lemma unq_spec s :
  unq s = true <-> forall x, In x s -> is_ws x = false /\ x <> c_dq /\ x <> c_eq.
Proof.
  unfold unq, needs_quoting. rewrite negb_true_iff. induction s as [|y s IH]; cbn.
  - split; [intros _ x [] | auto].
  - rewrite !orb_false_iff, IH, !N.eqb_neq. split.
    + intros [[[H1 H2] H3] H4] x [<-|Hx]; auto.
    + intros H. destruct (H y (or_introl eq_refl)) as (A & B & C).
      split; [split; [split; auto | auto] | ].
      intros x Hx. apply H. right; auto.
Qed.

Lemma unq_no_ws s : unq s = true -> no_ws s.
Proof. intros H x Hx. apply (proj1 (unq_spec s) H x Hx). Qed.

Lemma escape_body_id s :
  (forall x, In x s -> x <> c_bs /\ x <> c_dq /\ x <> c_nl) -> escape_body s = s.
Proof.
  induction s as [|y s IH]; intros H; auto.
  unfold escape_body in *. cbn [flat_map]. rewrite IH by (intros x Hx; apply H; right; auto).
  destruct (H y (or_introl eq_refl)) as (A & B & C).
  unfold esc_char. apply N.eqb_neq in A, B, C. rewrite A, B, C. reflexivity.
Qed.

Lemma c_nl_ws : is_ws c_nl = true. Proof. reflexivity. Qed.

Lemma encode_string_unq s : unq s = true -> has c_bs s = false -> encode_string s = s.
Proof.
  intros U B. unfold encode_string. unfold unq in U. apply negb_true_iff in U. rewrite U.
  apply escape_body_id. intros x Hx.
  assert (U' : unq s = true) by (unfold unq; rewrite U; reflexivity).
  destruct (proj1 (unq_spec s) U' x Hx) as (W & D & _).
  repeat split; auto.
  - apply (proj1 (has_false_iff c_bs s) B x Hx).
  - intros ->. rewrite c_nl_ws in W. discriminate.
Qed.

(* ------------------------------------------------------------------ quoted strings *)
Lemma esc_go_normal delim c t :
  (c =? c_bs) = false -> (c =? delim) = false ->
  esc_go delim (c :: t) = match esc_go delim t with Some (a, b) => Some (c :: a, b) | None => None end.
Proof. intros A B. cbn [esc_go]. rewrite A, B. reflexivity. Qed.

Lemma esc_go_ctrl delim d t :
  esc_go delim (c_bs :: d :: t)
  = match esc_go delim t with Some (a, b) => Some (c_bs :: d :: a, b) | None => None end.
Proof. reflexivity. Qed.

Lemma esc_go_body s rest :
  esc_go c_dq (escape_body s ++ c_dq :: rest) = Some (escape_body s, c_dq :: rest).
Proof.
  induction s as [|y s IH].
  - cbn. reflexivity.
  - unfold escape_body in *. cbn [flat_map]. rewrite <- app_assoc.
    remember (flat_map esc_char s) as F eqn:EF. unfold esc_char.
    destruct (y =? c_bs) eqn:E1.
    + change ([c_bs; c_bs] ++ F ++ c_dq :: rest)
        with (c_bs :: c_bs :: (F ++ c_dq :: rest)).
      rewrite esc_go_ctrl, IH. reflexivity.
    + destruct (y =? c_dq) eqn:E2.
      * change ([c_bs; c_dq] ++ F ++ c_dq :: rest)
          with (c_bs :: c_dq :: (F ++ c_dq :: rest)).
        rewrite esc_go_ctrl, IH. reflexivity.
      * destruct (y =? c_nl) eqn:E3.
        -- change ([c_bs; c_bs; c_n] ++ F ++ c_dq :: rest)
             with (c_bs :: c_bs :: c_n :: (F ++ c_dq :: rest)).
           rewrite esc_go_ctrl, esc_go_normal by reflexivity. rewrite IH. reflexivity.
        -- change ([y] ++ F ++ c_dq :: rest)
             with (y :: (F ++ c_dq :: rest)).
           rewrite esc_go_normal by assumption. rewrite IH. reflexivity.
Qed.

Lemma escape_body_nonempty s : s <> [] -> escape_body s <> [].
Proof.
  destruct s as [|y s]; [congruence|]. intros _. unfold escape_body. cbn [flat_map]. unfold esc_char.
  destruct (y =? c_bs); [discriminate|]. destruct (y =? c_dq); [discriminate|].
  destruct (y =? c_nl); discriminate.
Qed.

Lemma escaped_body s rest :
  s <> [] -> escaped c_dq (escape_body s ++ c_dq :: rest) = Some (escape_body s, c_dq :: rest).
Proof.
  intros H. unfold escaped. rewrite esc_go_body.
  destruct (escape_body s) eqn:E; [apply escape_body_nonempty in H; congruence | reflexivity].
Qed.

Lemma unescape_no_bs t : has c_bs t = false -> unescape t = t.
Proof.
  induction t as [|y t IH]; intros H; auto.
  rewrite has_cons in H. apply orb_false_iff in H as [A B].
  cbn [unescape]. rewrite A. rewrite IH; auto.
Qed.

Lemma unescape_body s : has c_nl s = false -> unescape (escape_body s) = s.
Proof.
  induction s as [|y s IH]; intros H; auto.
  rewrite has_cons in H. apply orb_false_iff in H as [A B].
  unfold escape_body in *. cbn [flat_map]. specialize (IH B).
  remember (flat_map esc_char s) as F eqn:EF. unfold esc_char.
  destruct (y =? c_bs) eqn:E1.
  - apply N.eqb_eq in E1. subst y.
    change (unescape ([c_bs; c_bs] ++ F)) with (c_bs :: unescape F). rewrite IH; auto.
  - destruct (y =? c_dq) eqn:E2.
    + apply N.eqb_eq in E2. subst y.
      change (unescape ([c_bs; c_dq] ++ F)) with (c_dq :: unescape F). rewrite IH; auto.
    + rewrite A. cbn [app]. cbn [unescape]. rewrite E1. rewrite IH; auto.
Qed.

Lemma escape_str_body s : has c_nl s = false -> escape_str (escape_body s) = s.
Proof.
  intros H. unfold escape_str.
  destruct (existsb (fun c => c =? c_bs) (escape_body s)) eqn:E.
  - apply unescape_body; auto.
  - rewrite <- (unescape_no_bs (escape_body s)) by exact E. apply unescape_body; auto.
Qed.

(* what may follow a quoted string: the terminator, or only spaces/tabs up to the end *)
Definition term_ok (term rest : str) : Prop :=
  parse_field_delimiter term rest <> None \/ space0 rest = [].

Lemma parse_delimited_quoted term s rest :
  s <> [] -> has c_nl s = false -> term_ok term rest ->
  parse_delimited c_dq term (c_dq :: escape_body s ++ c_dq :: rest) = Some (s, rest).
Proof.
  intros Hs Hn Ht. unfold parse_delimited. rewrite N.eqb_refl.
  rewrite escaped_body by auto. rewrite escape_str_body by auto. rewrite N.eqb_refl.
  destruct (parse_field_delimiter term rest) eqn:E; auto.
  destruct Ht as [Ht|Ht]; [congruence|]. rewrite Ht. reflexivity.
Qed.

Lemma parse_delimited_head_ne delim term x s : x <> delim -> parse_delimited delim term (x :: s) = None.
Proof. intros H. unfold parse_delimited. apply N.eqb_neq in H. rewrite H. reflexivity. Qed.

(* ------------------------------------------------------------------ delimiters *)
Lemma good_delims_spec kvd fd :
  good_delims kvd fd = true ->
  exists k kvd' f fd', kvd = k :: kvd' /\ fd = f :: fd' /\ is_sptab k = false
                       /\ (fd = [c_sp] \/ (str_eqb fd [c_sp] = false /\ f <> c_sp)).
Proof.
  unfold good_delims. destruct kvd as [|k kvd']; [discriminate|]. destruct fd as [|f fd']; [discriminate|].
  rewrite andb_true_iff, negb_true_iff, orb_true_iff. intros [A B].
  exists k, kvd', f, fd'. repeat split; auto.
  destruct (str_eqb (f :: fd') [c_sp]) eqn:E.
  - left. apply bytes_eqb_eq; auto.
  - right. split; auto. destruct B as [B|B]; [discriminate|]. apply negb_true_iff, N.eqb_neq in B. auto.
Qed.

Lemma pfd_self fd more x :
  (fd = [c_sp] \/ (str_eqb fd [c_sp] = false /\ exists f fd', fd = f :: fd' /\ f <> c_sp)) ->
  x <> c_sp ->
  parse_field_delimiter fd (fd ++ x :: more) = Some (x :: more).
Proof.
  intros [->|(E & f & fd' & -> & Hf)] Hx; unfold parse_field_delimiter.
  - cbn. apply N.eqb_neq in Hx. rewrite Hx. reflexivity.
  - rewrite E. cbn [app]. rewrite many_sp_head by auto.
    change (f :: fd' ++ x :: more) with ((f :: fd') ++ x :: more). apply strip_prefix_app.
Qed.

Lemma pfd_some fd more :
  (fd = [c_sp] \/ (str_eqb fd [c_sp] = false /\ exists f fd', fd = f :: fd' /\ f <> c_sp)) ->
  parse_field_delimiter fd (fd ++ more) <> None.
Proof.
  intros [->|(E & f & fd' & -> & Hf)]; unfold parse_field_delimiter.
  - cbn. discriminate.
  - rewrite E. cbn [app]. rewrite many_sp_head by auto.
    change (f :: fd' ++ more) with ((f :: fd') ++ more). rewrite strip_prefix_app. discriminate.
Qed.

Lemma pfd_nil fd : fd <> [] -> parse_field_delimiter fd [] = None.
Proof.
  intros H. unfold parse_field_delimiter. destruct (str_eqb fd [c_sp]); auto.
  destruct fd; [congruence | reflexivity].
Qed.

(* ------------------------------------------------------------------ one string, one entry *)
(* what kv_safe + nonempty_strings say about one string; `heads` = the first characters of the delimiters
   that must not occur in it when it is left unquoted *)
Definition str_ok (heads : list N) (s : str) : Prop :=
  s <> [] /\ has c_nl s = false /\
  (unq s = true -> has c_bs s = false /\ head_is c_sq s = false /\ forall h, In h heads -> has h s = false).

Lemma needs_quoting_unq s : needs_quoting s = false -> unq s = true.
Proof. intros H. unfold unq. rewrite H. reflexivity. Qed.

Lemma c_sp_ws : is_ws c_sp = true. Proof. reflexivity. Qed.

Lemma no_ws_not_sptab x : is_ws x = false -> is_sptab x = false /\ x <> c_sp.
Proof.
  intros H. split.
  - destruct (is_sptab x) eqn:E; auto. apply is_sptab_ws in E. congruence.
  - intros ->. rewrite c_sp_ws in H. discriminate.
Qed.

Lemma enc_head heads s :
  str_ok heads s -> exists x t, encode_string s = x :: t /\ is_sptab x = false /\ x <> c_sp.
Proof.
  intros (Hne & _ & Hu). unfold encode_string. destruct (needs_quoting s) eqn:Q.
  - exists c_dq, (escape_body s ++ [c_dq]). repeat split; auto. discriminate.
  - apply needs_quoting_unq in Q. destruct (Hu Q) as (B & _ & _).
    pose proof (encode_string_unq s Q B) as E. unfold encode_string in E.
    unfold unq in Q. apply negb_true_iff in Q. rewrite Q in E. rewrite E.
    destruct s as [|x t]; [congruence|]. exists x, t.
    assert (W : is_ws x = false).
    { assert (U : unq (x :: t) = true) by (unfold unq; rewrite Q; reflexivity).
      apply (unq_no_ws _ U). left; auto. }
    destruct (no_ws_not_sptab x W). repeat split; auto.
Qed.

Section RoundTrip.
  Variables (kc : N) (kvd' : str) (fc : N) (fd' : str).
  Let kvd : str := kc :: kvd'.
  Let fd : str := fc :: fd'.
  Hypothesis Hkc : is_sptab kc = false.
  Hypothesis Hfd : fd = [c_sp] \/ (str_eqb fd [c_sp] = false /\ fc <> c_sp).

  Lemma kc_not_sp : kc <> c_sp.
  Proof. intros ->. discriminate Hkc. Qed.

  Lemma kvd_term_ok rest : term_ok kvd (kvd ++ rest).
  Proof.
    left. apply pfd_some. right. split.
    - unfold kvd. cbn. pose proof kc_not_sp as H. apply N.eqb_neq in H. rewrite H. reflexivity.
    - exists kc, kvd'. split; auto. apply kc_not_sp.
  Qed.

  Lemma fd_shape : fd = [c_sp] \/ (str_eqb fd [c_sp] = false /\ exists f fd0, fd = f :: fd0 /\ f <> c_sp).
  Proof. destruct Hfd as [H|[H1 H2]]; [left; auto | right; split; auto; exists fc, fd'; auto]. Qed.

  Lemma fd_term_ok tail : tail = [] \/ (exists more, tail = fd ++ more) -> term_ok fd tail.
  Proof.
    intros [->|[more ->]].
    - right. reflexivity.
    - left. apply pfd_some. apply fd_shape.
  Qed.

  Lemma quoted_form s rest :
    (c_dq :: escape_body s ++ [c_dq]) ++ rest = c_dq :: escape_body s ++ c_dq :: rest.
  Proof. cbn [app]. rewrite <- app_assoc. reflexivity. Qed.

  (* ---- key *)
  Lemma parse_key_enc sk k rest :
    str_ok [kc; fc] k ->
    parse_key kvd fd sk (encode_string k ++ kvd ++ rest) = Some (k, kvd ++ rest).
  Proof.
    intros (Hne & Hnl & Hu). unfold encode_string. destruct (needs_quoting k) eqn:Q.
    - rewrite quoted_form. unfold parse_key.
      rewrite !(parse_delimited_head_ne c_sq) by discriminate.
      rewrite (parse_delimited_quoted kvd k (kvd ++ rest) Hne Hnl (kvd_term_ok rest)).
      destruct sk; cbn [first_some]; destruct k; [congruence | reflexivity | congruence | reflexivity].
    - apply needs_quoting_unq in Q. destruct (Hu Q) as (B & S & Hh).
      pose proof (encode_string_unq k Q B) as E. unfold encode_string in E.
      pose proof Q as Q'. unfold unq in Q'. apply negb_true_iff in Q'. rewrite Q' in E. rewrite E.
      destruct k as [|x t]; [congruence|].
      assert (Hx : is_ws x = false /\ x <> c_dq /\ x <> c_eq) by (apply (proj1 (unq_spec _) Q); left; auto).
      destruct Hx as (_ & Hdq & _).
      assert (Hsq : x <> c_sq) by (cbn in S; apply N.eqb_neq; exact S).
      assert (PU : parse_undelimited kvd ((x :: t) ++ kvd ++ rest) = (x :: t, kvd ++ rest)).
      { unfold parse_undelimited, kvd. rewrite take_until_nohead by (apply Hh; left; auto).
        rewrite trim_no_ws by (apply unq_no_ws; auto). reflexivity. }
      unfold parse_key. cbn [app].
      rewrite !(parse_delimited_head_ne c_sq) by auto.
      rewrite !(parse_delimited_head_ne c_dq) by auto.
      change (x :: t ++ kvd ++ rest) with ((x :: t) ++ kvd ++ rest). rewrite PU.
      destruct sk; cbn [first_some is_nil negb andb]; auto.
      unfold fd. rewrite contains_nohead by (apply Hh; right; left; auto). reflexivity.
  Qed.

  (* ---- value *)
  Lemma parse_value_enc v tail :
    str_ok [fc] v -> (tail = [] \/ exists more, tail = fd ++ more) ->
    parse_value fd (encode_string v ++ tail) = (v, tail).
  Proof.
    intros (Hne & Hnl & Hu) Ht. unfold encode_string. destruct (needs_quoting v) eqn:Q.
    - rewrite quoted_form. unfold parse_value.
      rewrite (parse_delimited_head_ne c_sq) by discriminate.
      rewrite (parse_delimited_quoted fd v tail Hne Hnl (fd_term_ok tail Ht)). reflexivity.
    - apply needs_quoting_unq in Q. destruct (Hu Q) as (B & S & Hh).
      pose proof (encode_string_unq v Q B) as E. unfold encode_string in E.
      pose proof Q as Q'. unfold unq in Q'. apply negb_true_iff in Q'. rewrite Q' in E. rewrite E.
      destruct v as [|x t]; [congruence|].
      assert (Hx : is_ws x = false /\ x <> c_dq /\ x <> c_eq) by (apply (proj1 (unq_spec _) Q); left; auto).
      destruct Hx as (_ & Hdq & _).
      assert (Hsq : x <> c_sq) by (cbn in S; apply N.eqb_neq; exact S).
      unfold parse_value. cbn [app].
      rewrite (parse_delimited_head_ne c_sq) by auto.
      rewrite (parse_delimited_head_ne c_dq) by auto.
      change (x :: t ++ tail) with ((x :: t) ++ tail).
      unfold parse_undelimited. destruct Ht as [->|[more ->]].
      + rewrite app_nil_r. unfold fd. rewrite take_until_none by (apply Hh; left; auto).
        rewrite trim_no_ws by (apply unq_no_ws; auto). reflexivity.
      + unfold fd. rewrite take_until_nohead by (apply Hh; left; auto).
        rewrite trim_no_ws by (apply unq_no_ws; auto). reflexivity.
  Qed.

  (* ---- separator *)
  Lemma parse_sep_enc ws x t :
    is_sptab x = false -> parse_sep kvd ws (kvd ++ x :: t) = Some (x :: t).
  Proof.
    intros Hx. unfold parse_sep. destruct ws.
    - apply strip_prefix_app.
    - assert (E : space0 (kvd ++ x :: t) = kvd ++ x :: t)
        by exact (space0_head kc (kvd' ++ x :: t) Hkc).
      rewrite E, strip_prefix_app. rewrite space0_head by exact Hx. reflexivity.
  Qed.

  (* ---- one entry *)
  Lemma parse_kv_enc ws sk k v tail :
    str_ok [kc; fc] k -> str_ok [fc] v -> (tail = [] \/ exists more, tail = fd ++ more) ->
    parse_kv kvd fd ws sk (encode_field kvd k v ++ tail) = Some ((k, PStr v), tail).
  Proof.
    intros Hk Hv Ht. unfold encode_field. rewrite <- !app_assoc.
    destruct (enc_head _ _ Hk) as (x & t & Ek & Hx & _).
    destruct (enc_head _ _ Hv) as (y & u & Ev & Hy & _).
    unfold parse_kv.
    rewrite Ek. cbn [app]. rewrite space0_head by exact Hx.
    change (x :: t ++ kvd ++ encode_string v ++ tail) with ((x :: t) ++ kvd ++ encode_string v ++ tail).
    rewrite <- Ek. rewrite parse_key_enc by exact Hk.
    rewrite Ev. cbn [app]. change (kvd ++ y :: u ++ tail) with (kvd ++ y :: (u ++ tail)).
    rewrite parse_sep_enc by exact Hy.
    assert (L : Nat.eqb (length (y :: u ++ tail)) (length (kvd ++ y :: u ++ tail)) = false).
    { apply Nat.eqb_neq. unfold kvd. rewrite app_length. cbn [length]. lia. }
    rewrite L.
    change (y :: u ++ tail) with ((y :: u) ++ tail). rewrite <- Ev.
    rewrite parse_value_enc by assumption. reflexivity.
  Qed.
End RoundTrip.
