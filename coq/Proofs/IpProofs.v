(* Proofs about Model/Ip.v, part 1: number tokens, dotted-quad text, ip_aton/ip_ntoa, ip_ntop/ip_pton on
   4 bytes, and the IPv4-mapped pair ip_to_ipv6 / ipv6_to_ipv4. *)
From Coq Require Import String.
From Coq Require Import List NArith ZArith Bool Lia.
From VRL Require Import Base.Bytes Base.Value Model.ConvRes Model.IntText Model.Ip Proofs.IntTextProofs.
Import ListNotations.
Local Open Scope Z_scope.

Definition not_digit_start (radix : Z) (rest : bytes) : Prop :=
  match rest with [] => True | c :: _ => to_digit radix c = None end.

Lemma leading_zero_eqb (c : N) (l : bytes) :
  match c :: l with 48%N :: _ => true | _ => false end = (c =? 48)%N.
Proof. destruct c as [|p]; [reflexivity|]. do 6 (destruct p as [p|p|]; try reflexivity). Qed.

Lemma read_digits_app radix maxd : forall s rest acc count v,
  uval radix s acc = Some v -> (count + length s <= maxd)%nat -> not_digit_start radix rest ->
  read_digits radix maxd (s ++ rest) acc count = Some (v, (count + length s)%nat, rest).
Proof.
  induction s as [|c s IH]; intros rest acc count v Hu Hl Hr.
  - cbn [app length] in *. rewrite Nat.add_0_r. inversion Hu; subst.
    destruct rest as [|c r]; cbn [read_digits]; [reflexivity|]. cbn in Hr. rewrite Hr. reflexivity.
  - cbn [app length uval read_digits] in *. destruct (to_digit radix c) as [d|]; [|discriminate].
    replace (Nat.ltb maxd (S count)) with false by (symmetry; apply Nat.ltb_ge; lia).
    rewrite (IH rest _ (S count) v Hu); [f_equal; f_equal; f_equal; lia | lia | exact Hr].
Qed.

Lemma read_number_digits radix maxd allow tmax x rest :
  2 <= radix <= 36 -> (0 < maxd)%nat -> 0 <= x < radix ^ Z.of_nat maxd -> x <= tmax -> not_digit_start radix rest ->
  exists s, digits_loop maxd radix x [] = Some s /\ (length s <= maxd)%nat /\
            read_number radix maxd allow tmax (s ++ rest) = Some (x, rest).
Proof.
  intros Hr Hm Hx Ht Hrest.
  destruct (digits_spec radix Hr maxd x [] Hm Hx) as (s & P & Hs & Hne & Hv).
  rewrite app_nil_r in Hs. exists s. split; [exact Hs|].
  pose proof (digits_loop_length radix maxd x [] s Hs) as Hlen. cbn [length] in Hlen. rewrite Nat.add_0_r in Hlen.
  split; [exact Hlen|].
  unfold read_number.
  rewrite (read_digits_app radix maxd s rest 0 O x); [| rewrite Hv; f_equal; lia | cbn; lia | exact Hrest].
  cbn [Nat.add].
  destruct s as [|c tl]; [congruence|]. cbn [length Nat.eqb].
  replace (x <=? tmax) with true by (symmetry; apply Z.leb_le; lia).
  cbn [app]. rewrite (leading_zero_eqb c (tl ++ rest)).
  destruct (Z.eq_dec x 0) as [->|Hnz].
  - destruct maxd as [|f]; [lia|]. rewrite digits_zero in Hs by lia. inversion Hs; subst.
    cbn [length Nat.ltb Nat.leb]. rewrite !andb_false_r. reflexivity.
  - destruct (digits_first_nonzero radix Hr maxd x [] (c :: tl) ltac:(lia) Hs) as (c' & tl' & E & Hc).
    inversion E; subst. apply N.eqb_neq in Hc. rewrite Hc. rewrite andb_false_r. reflexivity.
Qed.

Lemma read_dec_u8 n rest :
  0 <= n <= 255 -> not_digit_start 10 rest -> read_number 10 3 false 255 (dec_u8 n ++ rest) = Some (n, rest).
Proof.
  intros Hn Hr. destruct (read_number_digits 10 3 false 255 n rest) as (s & Hs & _ & H); try lia; auto.
  unfold dec_u8. rewrite Hs. exact H.
Qed.

Lemma dec_u8_length n : 0 <= n <= 255 -> (length (dec_u8 n) <= 3)%nat.
Proof.
  intros Hn. destruct (read_number_digits 10 3 false 255 n []) as (s & Hs & Hl & _); try lia; cbn; auto.
  unfold dec_u8. rewrite Hs. exact Hl.
Qed.

Lemma read_hex_u16 g rest :
  0 <= g <= 65535 -> not_digit_start 16 rest -> read_number 16 4 true 65535 (hex_u16 g ++ rest) = Some (g, rest).
Proof.
  intros Hn Hr. destruct (read_number_digits 16 4 true 65535 g rest) as (s & Hs & _ & H); try lia; auto.
  unfold hex_u16. rewrite Hs. exact H.
Qed.

(* every character of a printed hex group is a hex digit *)
Lemma hex_u16_digits g : 0 <= g <= 65535 -> Forall (fun c => to_digit 16 c <> None) (hex_u16 g) /\ hex_u16 g <> [].
Proof.
  intros Hg. destruct (digits_spec 16 ltac:(lia) 4%nat g []) as (s & P & Hs & Hne & Hv); [lia| change (16 ^ Z.of_nat 4) with 65536; lia|].
  rewrite app_nil_r in Hs. unfold hex_u16. rewrite Hs. split; [|exact Hne]. eapply uval_all_digits. apply (Hv 0).
Qed.

(* ---------- dotted quad ---------- *)

Definition octet (x : Z) : Prop := 0 <= x <= 255.

Lemma ipv4_text_app a b c d rest :
  ipv4_to_string [a; b; c; d] ++ rest =
  dec_u8 a ++ 46%N :: dec_u8 b ++ 46%N :: dec_u8 c ++ 46%N :: dec_u8 d ++ rest.
Proof.
  unfold ipv4_to_string, ch_dot.
  repeat (rewrite <- app_assoc || rewrite <- app_comm_cons). reflexivity.
Qed.

Lemma read_ipv4_text a b c d rest :
  octet a -> octet b -> octet c -> octet d -> not_digit_start 10 rest ->
  read_ipv4_addr (ipv4_to_string [a; b; c; d] ++ rest) = Some ([a; b; c; d], rest).
Proof.
  intros Ha Hb Hc Hd Hr. rewrite ipv4_text_app.
  unfold read_ipv4_addr, read_octet, read_separator.
  rewrite (read_dec_u8 a) by (auto; reflexivity).
  change ((46 =? ch_dot)%N) with true. cbv iota.
  rewrite (read_dec_u8 b) by (auto; reflexivity).
  change ((46 =? ch_dot)%N) with true. cbv iota.
  rewrite (read_dec_u8 c) by (auto; reflexivity).
  change ((46 =? ch_dot)%N) with true. cbv iota.
  rewrite (read_dec_u8 d) by auto. reflexivity.
Qed.

Lemma ipv4_text_length a b c d :
  octet a -> octet b -> octet c -> octet d -> (length (ipv4_to_string [a; b; c; d]) <= 15)%nat.
Proof.
  intros Ha Hb Hc Hd. unfold ipv4_to_string.
  repeat (rewrite app_length || cbn [length]).
  pose proof (dec_u8_length a Ha). pose proof (dec_u8_length b Hb).
  pose proof (dec_u8_length c Hc). pose proof (dec_u8_length d Hd). lia.
Qed.

Lemma parse_ipv4_text a b c d :
  octet a -> octet b -> octet c -> octet d -> parse_ipv4 (ipv4_to_string [a; b; c; d]) = Some [a; b; c; d].
Proof.
  intros Ha Hb Hc Hd. unfold parse_ipv4.
  replace (Nat.ltb 15 (length (ipv4_to_string [a; b; c; d]))) with false
    by (symmetry; apply Nat.ltb_ge; apply ipv4_text_length; auto).
  rewrite <- (app_nil_r (ipv4_to_string [a; b; c; d])). rewrite read_ipv4_text; auto. exact I.
Qed.

Lemma parse_ip_v4_text a b c d :
  octet a -> octet b -> octet c -> octet d -> parse_ip (ipv4_to_string [a; b; c; d]) = Some (V4 [a; b; c; d]).
Proof.
  intros Ha Hb Hc Hd. unfold parse_ip.
  rewrite <- (app_nil_r (ipv4_to_string [a; b; c; d])). rewrite read_ipv4_text; auto. exact I.
Qed.

(* ---------- u32 <-> octets ---------- *)

Ltac Zify.zify_post_hook ::= Z.div_mod_to_equations.

Lemma octets_of_u32_octets n : 0 <= n < 4294967296 ->
  Forall octet (octets_of_u32 n) /\ u32_of_octets (octets_of_u32 n) = n.
Proof.
  intros Hn. unfold octets_of_u32, u32_of_octets, octet. split; [repeat constructor; lia | lia].
Qed.

Lemma u32_of_octets_inj_range a b c d : octet a -> octet b -> octet c -> octet d ->
  0 <= u32_of_octets [a; b; c; d] < 4294967296 /\ octets_of_u32 (u32_of_octets [a; b; c; d]) = [a; b; c; d].
Proof.
  unfold octet, u32_of_octets, octets_of_u32. intros. split; [lia|].
  repeat f_equal; lia.
Qed.

(* ---------- ip_ntoa / ip_aton ---------- *)

Theorem ntoa_aton_roundtrip n :
  0 <= n < 4294967296 ->
  exists s, ip_ntoa (VInt n) = ROk (VBytes s) /\ ip_aton (VBytes s) = ROk (VInt n).
Proof.
  intros Hn. unfold ip_ntoa.
  replace ((0 <=? n) && (n <? 4294967296)) with true
    by (symmetry; apply andb_true_iff; split; [apply Z.leb_le | apply Z.ltb_lt]; lia).
  eexists. split; [reflexivity|].
  destruct (octets_of_u32_octets n Hn) as [Ho Hu].
  unfold octets_of_u32 in *. inversion Ho as [|? ? Ha Ho1]; subst. inversion Ho1 as [|? ? Hb Ho2]; subst.
  inversion Ho2 as [|? ? Hc Ho3]; subst. inversion Ho3 as [|? ? Hd _]; subst.
  unfold ip_aton. rewrite parse_ipv4_text by assumption. rewrite Hu. reflexivity.
Qed.

(* the text of an address converts to its number and back to the same text *)
Theorem aton_ntoa_roundtrip a b c d :
  octet a -> octet b -> octet c -> octet d ->
  exists n, ip_aton (VBytes (ipv4_to_string [a; b; c; d])) = ROk (VInt n)
            /\ ip_ntoa (VInt n) = ROk (VBytes (ipv4_to_string [a; b; c; d])).
Proof.
  intros Ha Hb Hc Hd. unfold ip_aton. rewrite parse_ipv4_text by assumption.
  eexists. split; [reflexivity|].
  destruct (u32_of_octets_inj_range a b c d Ha Hb Hc Hd) as [Hr Ho].
  unfold ip_ntoa.
  replace ((0 <=? u32_of_octets [a; b; c; d]) && (u32_of_octets [a; b; c; d] <? 4294967296)) with true
    by (symmetry; apply andb_true_iff; split; [apply Z.leb_le | apply Z.ltb_lt]; lia).
  rewrite Ho. reflexivity.
Qed.

(* ---------- ip_ntop / ip_pton on 4 bytes ---------- *)

Lemma wf_byte_octet x : (x <? 256)%N = true -> octet (Z.of_N x).
Proof. intros H. apply N.ltb_lt in H. unfold octet. lia. Qed.

Theorem ntop_pton_roundtrip_v4 b :
  length b = 4%nat -> wf_bytes b = true ->
  exists s, ip_ntop (VBytes b) = ROk (VBytes s) /\ ip_pton (VBytes s) = ROk (VBytes b).
Proof.
  intros Hl Hw. destruct b as [|b0 [|b1 [|b2 [|b3 [|? ?]]]]]; try discriminate.
  cbn [wf_bytes forallb] in Hw. repeat (apply andb_true_iff in Hw; destruct Hw as [? Hw]).
  unfold ip_ntop. cbn [length Nat.eqb octets_of_bytes map].
  eexists. split; [reflexivity|].
  unfold ip_pton. rewrite parse_ip_v4_text by (apply wf_byte_octet; assumption).
  unfold bytes_of_octets. cbn [map]. rewrite !N2Z.id. reflexivity.
Qed.

(* ---------- IPv4-mapped addresses: ip_to_ipv6 / ipv6_to_ipv4 ---------- *)

Definition mapped_text (s4 : bytes) : bytes := [58; 58; 102; 102; 102; 102; 58]%N ++ s4.   (* "::ffff:" ++ s4 *)

Lemma read_ipv4_colon s : read_ipv4_addr (58%N :: s) = None.
Proof. reflexivity. Qed.

Lemma read_ipv4_f s : read_ipv4_addr (102%N :: s) = None.
Proof. reflexivity. Qed.

Lemma read_groups_S n' i s :
  read_groups (S n') i s =
  let v4 := if Nat.leb 1 n' then read_separator ch_colon i read_ipv4_addr s else None in
  match v4 with
  | Some ([a; b; c; d], s') => ([a * 256 + b; c * 256 + d], true, s')
  | _ =>
      match read_separator ch_colon i (read_number 16 4 true 65535) s with
      | Some (g, s') => let '(gs, v4', s'') := read_groups n' (S i) s' in (g :: gs, v4', s'')
      | None => ([], false, s)
      end
  end.
Proof. reflexivity. Qed.

Lemma mapped_segments_text a b c d :
  octet a -> octet b -> octet c -> octet d ->
  ipv6_to_string [0; 0; 0; 0; 0; 65535; a * 256 + b; c * 256 + d] = mapped_text (ipv4_to_string [a; b; c; d]).
Proof.
  unfold octet. intros Ha Hb Hc Hd. unfold ipv6_to_string, to_ipv4_mapped. cbn [Z.eqb andb].
  replace ((a * 256 + b) / 256) with a by lia. replace ((a * 256 + b) mod 256) with b by lia.
  replace ((c * 256 + d) / 256) with c by lia. replace ((c * 256 + d) mod 256) with d by lia.
  reflexivity.
Qed.

Lemma parse_ip_mapped_text a b c d :
  octet a -> octet b -> octet c -> octet d ->
  parse_ip (mapped_text (ipv4_to_string [a; b; c; d])) = Some (V6 [0; 0; 0; 0; 0; 65535; a * 256 + b; c * 256 + d]).
Proof.
  intros Ha Hb Hc Hd.
  pose proof (read_ipv4_text a b c d [] Ha Hb Hc Hd I) as H4. rewrite app_nil_r in H4.
  remember (ipv4_to_string [a; b; c; d]) as s4 eqn:E4.
  unfold mapped_text, parse_ip. cbn [app]. rewrite read_ipv4_colon.
  unfold read_ipv6_addr.
  (* head: nothing before the "::" *)
  rewrite read_groups_S. cbn [Nat.leb read_separator]. rewrite read_ipv4_colon. cbv zeta.
  change (read_number 16 4 true 65535 (58%N :: 58%N :: 102%N :: 102%N :: 102%N :: 102%N :: 58%N :: s4)) with (@None (Z * bytes)).
  cbv iota beta. cbn [length Nat.eqb Nat.add Nat.sub].
  (* tail: ffff, then the embedded dotted quad *)
  rewrite read_groups_S. cbn [Nat.leb read_separator]. rewrite read_ipv4_f. cbv zeta.
  change (read_number 16 4 true 65535 (102%N :: 102%N :: 102%N :: 102%N :: 58%N :: s4)) with (Some (65535, 58%N :: s4)).
  cbv iota beta.
  rewrite read_groups_S. cbn [Nat.leb read_separator]. change ((58 =? ch_colon)%N) with true. cbv iota.
  rewrite H4. cbv zeta iota beta. cbn [length Nat.sub repeat app]. reflexivity.
Qed.

Lemma to_ipv4_mapped_segments a b c d :
  octet a -> octet b -> octet c -> octet d ->
  to_ipv4 [0; 0; 0; 0; 0; 65535; a * 256 + b; c * 256 + d] = Some [a; b; c; d].
Proof.
  unfold octet. intros Ha Hb Hc Hd. unfold to_ipv4. cbn [Z.eqb orb andb].
  replace ((a * 256 + b) / 256) with a by lia. replace ((a * 256 + b) mod 256) with b by lia.
  replace ((c * 256 + d) / 256) with c by lia. replace ((c * 256 + d) mod 256) with d by lia.
  reflexivity.
Qed.

(* both compositions at once: a.b.c.d -> ::ffff:a.b.c.d -> a.b.c.d -> ::ffff:a.b.c.d *)
Theorem mapped_roundtrip a b c d :
  octet a -> octet b -> octet c -> octet d ->
  let s4 := ipv4_to_string [a; b; c; d] in
  ip_to_ipv6 (VBytes s4) = ROk (VBytes (mapped_text s4)) /\ ipv6_to_ipv4 (VBytes (mapped_text s4)) = ROk (VBytes s4).
Proof.
  intros Ha Hb Hc Hd s4. subst s4. split.
  - unfold ip_to_ipv6. rewrite parse_ip_v4_text by assumption. cbn [to_ipv6_mapped].
    rewrite mapped_segments_text by assumption. reflexivity.
  - unfold ipv6_to_ipv4. rewrite parse_ip_mapped_text by assumption.
    rewrite to_ipv4_mapped_segments by assumption. reflexivity.
Qed.
