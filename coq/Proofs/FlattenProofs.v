(* Proofs about Model/Flatten.v: unflatten (flatten o) = o for every object whose keys are separator-safe and
   whose nested objects are non-empty.  Part 1: separator search; part 2: sorted maps and permutations;
   part 3: the flattened list; part 4: unflatten on (any permutation of) it; part 5: fuel; the theorem. *)
From Coq Require Import List NArith ZArith Bool Lia Permutation.
From VRL Require Import Base.Bytes Base.Value Model.ConvRes Model.Flatten.
Import ListNotations.

(* ================= part 1: separator search ================= *)

Definition starts_with (p s : bytes) : bool :=
  match strip_prefix p s with Some _ => true | None => false end.

(* the separator does not start inside the key: neither within the key nor straddling its end *)
Fixpoint no_early (sep k : bytes) : bool :=
  match k with
  | [] => true
  | _ :: k' => negb (starts_with sep (k ++ sep)) && no_early sep k'
  end.

Lemma strip_prefix_app p r : strip_prefix p (p ++ r) = Some r.
Proof. induction p as [|c p IH]; cbn; [reflexivity|]. rewrite N.eqb_refl. exact IH. Qed.

Lemma strip_prefix_some_app p : forall a x b, strip_prefix p a = Some x -> strip_prefix p (a ++ b) = Some (x ++ b).
Proof.
  induction p as [|c p IH]; intros a x b H; cbn in *.
  - inversion H; reflexivity.
  - destruct a as [|d a]; [discriminate|]. cbn. destruct (c =? d)%N; [apply IH; exact H | discriminate].
Qed.

Lemma strip_prefix_none_app p : forall a r,
  strip_prefix p a = None -> length p <= length a -> strip_prefix p (a ++ r) = None.
Proof.
  induction p as [|c p IH]; intros a r H L; cbn in *; [discriminate|].
  destruct a as [|d a]; cbn in *; [lia|].
  destruct (c =? d)%N; [apply IH; [exact H | lia] | reflexivity].
Qed.

Lemma strip_prefix_eq p : forall s r, strip_prefix p s = Some r -> s = p ++ r.
Proof.
  induction p as [|c p IH]; intros s r H; cbn in *.
  - inversion H; reflexivity.
  - destruct s as [|d s]; [discriminate|]. destruct (c =? d)%N eqn:E; [|discriminate].
    apply N.eqb_eq in E. subst. f_equal. apply IH; exact H.
Qed.

Lemma split_once_eq sep : forall s h r, split_once sep s = Some (h, r) -> s = h ++ sep ++ r.
Proof.
  induction s as [|c s IH]; intros h r H; cbn [split_once] in H.
  - destruct (strip_prefix sep []) eqn:E; [|discriminate]. inversion H; subst. apply strip_prefix_eq in E. exact E.
  - destruct (strip_prefix sep (c :: s)) eqn:E.
    + inversion H; subst. apply strip_prefix_eq in E. exact E.
    + destruct (split_once sep s) as [[a b]|]; [|discriminate]. inversion H; subst.
      cbn [app]. f_equal. apply IH. reflexivity.
Qed.

(* K1: a separator-safe key followed by the separator splits exactly there *)
Lemma split_once_key sep k : sep <> [] -> no_early sep k = true ->
  forall r, split_once sep (k ++ sep ++ r) = Some (k, r).
Proof.
  intros Hs. induction k as [|c k IH]; intros Hk r.
  - cbn [app]. destruct sep as [|s0 sep']; [congruence|].
    change (split_once (s0 :: sep') ((s0 :: sep') ++ r)) with
      (match strip_prefix (s0 :: sep') ((s0 :: sep') ++ r) with
       | Some rest => Some ([], rest)
       | None => match (s0 :: sep') ++ r with
                 | [] => None
                 | c :: s' => match split_once (s0 :: sep') s' with Some (a, b) => Some (c :: a, b) | None => None end
                 end
       end).
    rewrite strip_prefix_app. reflexivity.
  - cbn [no_early] in Hk. apply andb_true_iff in Hk. destruct Hk as [Hn Hk]. apply negb_true_iff in Hn.
    unfold starts_with in Hn. destruct (strip_prefix sep ((c :: k) ++ sep)) eqn:E; [discriminate|].
    assert (E' : strip_prefix sep ((c :: k) ++ sep ++ r) = None).
    { rewrite app_assoc. apply strip_prefix_none_app; [exact E|]. rewrite app_length. lia. }
    cbn [app] in *. cbn [split_once]. rewrite E'. rewrite (IH Hk r). reflexivity.
Qed.

(* K2: a separator-safe key does not contain the separator *)
Lemma split_once_none sep k : sep <> [] -> no_early sep k = true -> split_once sep k = None.
Proof.
  intros Hs. induction k as [|c k IH]; intros Hk.
  - destruct sep; [congruence|]. reflexivity.
  - cbn [no_early] in Hk. apply andb_true_iff in Hk. destruct Hk as [Hn Hk]. apply negb_true_iff in Hn.
    unfold starts_with in Hn.
    cbn [split_once]. destruct (strip_prefix sep (c :: k)) eqn:E.
    + rewrite (strip_prefix_some_app sep (c :: k) b sep E) in Hn. discriminate.
    + rewrite (IH Hk). reflexivity.
Qed.

Lemma split_all_key sep k r fuel : sep <> [] -> no_early sep k = true ->
  split_all (S fuel) sep (k ++ sep ++ r) = k :: split_all fuel sep r.
Proof. intros Hs Hk. cbn [split_all]. rewrite split_once_key by assumption. reflexivity. Qed.

Lemma split_all_leaf sep k fuel : sep <> [] -> no_early sep k = true -> split_all fuel sep k = [k].
Proof. intros Hs Hk. destruct fuel; cbn [split_all]; [reflexivity|]. rewrite split_once_none by assumption. reflexivity. Qed.

(* ================= part 2: sorted maps, collect, permutations ================= *)

From VRL Require Import Proofs.EntriesProofs.

Lemma bytes_ltb_irrefl a : bytes_ltb a a = false.
Proof. unfold bytes_ltb. rewrite bytes_cmp_refl. reflexivity. Qed.

Lemma sorted_tail k v m : obj_sorted ((k, v) :: m) = true -> obj_sorted m = true.
Proof. cbn [obj_sorted]. destruct m as [|[k' v'] m']; [reflexivity|]. intros H. apply andb_true_iff in H. tauto. Qed.

Lemma sorted_head_lt k v m : obj_sorted ((k, v) :: m) = true -> forall kv, In kv m -> bytes_ltb k (fst kv) = true.
Proof.
  revert k v. induction m as [|[k' v'] m IH]; intros k v H kv Hin; [destruct Hin|].
  cbn [obj_sorted] in H. apply andb_true_iff in H. destruct H as [H1 H2].
  destruct Hin as [<-|Hin]; [exact H1|].
  eapply bytes_ltb_trans; [exact H1|]. exact (IH k' v' H2 kv Hin).
Qed.

Lemma sorted_cons k v m :
  obj_sorted m = true -> (forall kv, In kv m -> bytes_ltb k (fst kv) = true) -> obj_sorted ((k, v) :: m) = true.
Proof.
  intros Hs Hlt. cbn [obj_sorted]. destruct m as [|[k' v'] m']; [reflexivity|].
  apply andb_true_iff. split; [apply (Hlt (k', v')); left; reflexivity | exact Hs].
Qed.

Lemma sorted_nodup m : obj_sorted m = true -> NoDup (map fst m).
Proof.
  induction m as [|[k v] m IH]; intros H; cbn [map fst]; constructor.
  - intros Hin. apply in_map_iff in Hin. destruct Hin as ([k' v'] & E & Hin). cbn in E. subst k'.
    pose proof (sorted_head_lt k v m H (k, v') Hin) as L. cbn in L. rewrite bytes_ltb_irrefl in L. discriminate.
  - apply IH. eapply sorted_tail; eauto.
Qed.

Lemma obj_set_perm m k x : ~ In k (map fst m) -> Permutation (obj_set m k x) ((k, x) :: m).
Proof.
  induction m as [|[k' v] m IH]; intros Hn; cbn [obj_set]; [reflexivity|].
  destruct (bytes_cmp k' k) eqn:C.
  - apply bytes_cmp_eq in C. subst. exfalso. apply Hn. left; reflexivity.
  - rewrite perm_swap. apply perm_skip. apply IH. intros Hin. apply Hn. right; exact Hin.
  - reflexivity.
Qed.

Lemma obj_set_in m k x kv : In kv (obj_set m k x) -> kv = (k, x) \/ In kv m.
Proof.
  induction m as [|[k' v] m IH]; cbn [obj_set]; intros H.
  - destruct H as [<-|[]]; left; reflexivity.
  - destruct (bytes_cmp k' k).
    + destruct H as [<-|H]; [left; reflexivity | right; right; exact H].
    + destruct H as [<-|H]; [right; left; reflexivity|]. destruct (IH H); [left; assumption | right; right; assumption].
    + destruct H as [<-|H]; [left; reflexivity | right; exact H].
Qed.

Lemma obj_set_sorted m k x : obj_sorted m = true -> obj_sorted (obj_set m k x) = true.
Proof.
  induction m as [|[k' v] m IH]; intros Hs; cbn [obj_set]; [reflexivity|].
  destruct (bytes_cmp k' k) eqn:C.
  - apply bytes_cmp_eq in C. subst k'. apply sorted_cons; [eapply sorted_tail; eauto | eapply sorted_head_lt; eauto].
  - apply sorted_cons; [apply IH; eapply sorted_tail; eauto|].
    intros kv Hin. apply obj_set_in in Hin. destruct Hin as [->|Hin].
    + cbn. apply bytes_ltb_lt. exact C.
    + eapply sorted_head_lt; eauto.
  - assert (L : bytes_ltb k k' = true).
    { apply bytes_ltb_lt. rewrite bytes_cmp_antisym, C. reflexivity. }
    apply sorted_cons; [exact Hs|]. intros kv [<-|Hin]; [exact L|].
    eapply bytes_ltb_trans; [exact L|]. eapply sorted_head_lt; eauto.
Qed.

Definition ins_entry (m : obj) (kv : entry) : obj := obj_set m (fst kv) (snd kv).

Lemma collect_unfold l : collect l = fold_left ins_entry l [].
Proof. reflexivity. Qed.

Lemma fold_ins_sorted l : forall acc, obj_sorted acc = true -> obj_sorted (fold_left ins_entry l acc) = true.
Proof. induction l as [|kv l IH]; intros acc H; cbn [fold_left]; [exact H|]. apply IH. apply obj_set_sorted. exact H. Qed.

Lemma fold_ins_perm l : forall acc, NoDup (map fst (acc ++ l)) -> Permutation (fold_left ins_entry l acc) (acc ++ l).
Proof.
  induction l as [|[k x] l IH]; intros acc H; cbn [fold_left].
  - rewrite app_nil_r. reflexivity.
  - assert (Hk : ~ In k (map fst acc)).
    { rewrite map_app in H. cbn [map fst] in H. apply NoDup_remove_2 in H. intros Hin. apply H. apply in_or_app. left; exact Hin. }
    assert (P : Permutation (ins_entry acc (k, x)) ((k, x) :: acc)) by (apply obj_set_perm; exact Hk).
    rewrite IH.
    + rewrite P. cbn [app]. apply Permutation_middle.
    + rewrite map_app. rewrite (Permutation_map fst P). cbn [map fst].
      rewrite map_app in H. cbn [map fst] in H.
      eapply Permutation_NoDup; [|exact H]. rewrite <- Permutation_middle. reflexivity.
Qed.

Lemma collect_sorted l : obj_sorted (collect l) = true.
Proof. rewrite collect_unfold. apply fold_ins_sorted. reflexivity. Qed.

Lemma collect_perm l : NoDup (map fst l) -> Permutation (collect l) l.
Proof. intros H. rewrite collect_unfold. apply (fold_ins_perm l []). exact H. Qed.

Lemma sorted_perm_eq : forall l1 l2, obj_sorted l1 = true -> obj_sorted l2 = true -> Permutation l1 l2 -> l1 = l2.
Proof.
  induction l1 as [|[k1 v1] t1 IH]; intros l2 S1 S2 P.
  - apply Permutation_nil in P. congruence.
  - destruct l2 as [|[k2 v2] t2]; [apply Permutation_sym, Permutation_nil in P; discriminate|].
    assert (I1 : In (k1, v1) ((k2, v2) :: t2)) by (eapply Permutation_in; [exact P | left; reflexivity]).
    assert (I2 : In (k2, v2) ((k1, v1) :: t1)) by (eapply Permutation_in; [apply Permutation_sym; exact P | left; reflexivity]).
    destruct I1 as [E|I1].
    + inversion E; subst. f_equal. apply IH; [eapply sorted_tail; eauto | eapply sorted_tail; eauto|].
      eapply Permutation_cons_inv; eauto.
    + exfalso. pose proof (sorted_head_lt k2 v2 t2 S2 _ I1) as L21. cbn in L21.
      destruct I2 as [E|I2].
      * inversion E; subst. rewrite bytes_ltb_irrefl in L21. discriminate.
      * pose proof (sorted_head_lt k1 v1 t1 S1 _ I2) as L12. cbn in L12.
        pose proof (bytes_ltb_trans _ _ _ L12 L21) as L. rewrite bytes_ltb_irrefl in L. discriminate.
Qed.

Lemma collect_of_perm l m : obj_sorted m = true -> Permutation l m -> collect l = m.
Proof.
  intros Hs P. apply sorted_perm_eq; [apply collect_sorted | exact Hs|].
  rewrite collect_perm; [exact P|].
  eapply Permutation_NoDup; [apply Permutation_map; apply Permutation_sym; exact P | apply sorted_nodup; exact Hs].
Qed.

(* ================= part 3: the flattened list ================= *)

(* the objects the theorem is about: keys separator-safe, every nested object (reached through objects)
   non-empty and key-sorted; arrays and scalars are leaves and unconstrained *)
Fixpoint wf_val (sep : bytes) (v : value) {struct v} : bool :=
  match v with
  | VObj m =>
      negb (match m with [] => true | _ => false end) && obj_sorted m
      && (fix go (l : list entry) : bool :=
            match l with
            | [] => true
            | (k, x) :: l' => no_early sep k && wf_val sep x && go l'
            end) m
  | _ => true
  end.

Fixpoint wf_entries (sep : bytes) (m : list entry) : bool :=
  match m with
  | [] => true
  | (k, x) :: l' => no_early sep k && wf_val sep x && wf_entries sep l'
  end.

Definition flat_ok (sep : bytes) (m : obj) : bool := obj_sorted m && wf_entries sep m.

Lemma wf_val_obj sep m :
  wf_val sep (VObj m) = negb (match m with [] => true | _ => false end) && obj_sorted m && wf_entries sep m.
Proof.
  cbn [wf_val]. f_equal. induction m as [|[k x] m IH]; [reflexivity|]. cbn [wf_entries]. rewrite <- IH. reflexivity.
Qed.

Lemma wf_entries_in sep m k x : wf_entries sep m = true -> In (k, x) m -> no_early sep k = true /\ wf_val sep x = true.
Proof.
  induction m as [|[k' x'] m IH]; intros H Hin; [destruct Hin|].
  cbn [wf_entries] in H. apply andb_true_iff in H. destruct H as [H H3]. apply andb_true_iff in H. destruct H as [H1 H2].
  destruct Hin as [E|Hin]; [inversion E; subst; auto | auto].
Qed.

Definition is_obj (v : value) : bool := match v with VObj _ => true | _ => false end.

Definition pre (p : bytes) (e : entry) : entry := (p ++ fst e, snd e).
Definition block (sep : bytes) (kv : entry) : list entry := flat_val sep [] (fst kv) (fst kv) (snd kv).

Lemma flat_val_obj sep nk k m :
  flat_val sep [] nk k (VObj m) = flat_map (fun kx => flat_val sep [] (nk ++ sep ++ fst kx) (fst kx) (snd kx)) m.
Proof.
  cbn [flat_val mem_bytes]. induction m as [|[k' x] m IH]; [reflexivity|]. cbn [flat_map fst snd]. rewrite <- IH. reflexivity.
Qed.

Lemma flat_val_leaf sep nk k v : is_obj v = false -> flat_val sep [] nk k v = [(nk, v)].
Proof. destruct v; cbn; congruence. Qed.

Lemma flat_list_flat_map sep m : flat_list sep [] m = flat_map (block sep) m.
Proof. induction m as [|[k v] m IH]; [reflexivity|]. cbn [flat_list flat_map]. rewrite IH. reflexivity. Qed.

(* a prefix put in front of the parent key comes out in front of every produced key *)
Lemma flat_val_prefix sep v : forall p nk k, flat_val sep [] (p ++ nk) k v = map (pre p) (flat_val sep [] nk k v).
Proof.
  induction v using value_ind'; intros p nk k; try reflexivity.
  rewrite !flat_val_obj. induction H as [|[k' x] m Hx Hm IH]; [reflexivity|].
  cbn [flat_map fst snd]. rewrite map_app. rewrite <- IH. f_equal.
  cbn [snd] in Hx. rewrite <- Hx. rewrite <- app_assoc. reflexivity.
Qed.

Lemma block_obj sep k m : block sep (k, VObj m) = map (pre (k ++ sep)) (flat_list sep [] m).
Proof.
  unfold block. cbn [fst snd]. rewrite flat_val_obj, flat_list_flat_map.
  induction m as [|[k' x] m IH]; [reflexivity|]. cbn [flat_map fst snd]. rewrite map_app, <- IH. f_equal.
  unfold block. cbn [fst snd]. rewrite <- flat_val_prefix. rewrite <- app_assoc. reflexivity.
Qed.

Lemma block_leaf sep k v : is_obj v = false -> block sep (k, v) = [(k, v)].
Proof. intros H. unfold block. cbn [fst snd]. apply flat_val_leaf. exact H. Qed.

(* the values that come out are never objects *)
Lemma flat_val_leaves sep v : forall nk k e, In e (flat_val sep [] nk k v) -> is_obj (snd e) = false.
Proof.
  induction v using value_ind'; intros nk k e Hin; try (destruct Hin as [<-|[]]; reflexivity).
  rewrite flat_val_obj in Hin. apply in_flat_map in Hin. destruct Hin as ([k' x] & Hm & Hin).
  rewrite Forall_forall in H. exact (H _ Hm _ _ _ Hin).
Qed.

Lemma flat_list_leaves sep m e : In e (flat_list sep [] m) -> is_obj (snd e) = false.
Proof.
  rewrite flat_list_flat_map. intros Hin. apply in_flat_map in Hin. destruct Hin as ([k x] & _ & Hin).
  eapply flat_val_leaves; exact Hin.
Qed.

(* size measure for the inductions *)
Fixpoint vsize (v : value) : nat :=
  match v with
  | VObj m => S ((fix go (l : list entry) : nat := match l with [] => O | (_, x) :: l' => vsize x + go l' end) m)
  | _ => 1
  end.
Fixpoint esize (m : list entry) : nat :=
  match m with [] => O | (_, x) :: l' => vsize x + esize l' end.

Lemma vsize_obj m : vsize (VObj m) = S (esize m).
Proof. reflexivity. Qed.

Lemma vsize_pos v : 1 <= vsize v.
Proof. destruct v; cbn; lia. Qed.

Lemma esize_in m k x : In (k, x) m -> vsize x <= esize m.
Proof.
  induction m as [|[k' x'] m IH]; intros Hin; [destruct Hin|]. cbn [esize].
  destruct Hin as [E|Hin]; [inversion E; subst; lia | apply IH in Hin; lia].
Qed.

(* every block of a well-formed entry is non-empty *)
Lemma flat_list_nonempty sep : forall n m, esize m <= n -> wf_entries sep m = true -> m <> [] -> flat_list sep [] m <> [].
Proof.
  induction n as [|n IH]; intros m Hn Hw Hne.
  - destruct m as [|[k x] m]; [congruence|]. cbn [esize] in Hn. pose proof (vsize_pos x). lia.
  - destruct m as [|[k x] m]; [congruence|]. cbn [flat_list].
    destruct (is_obj x) eqn:O.
    + destruct x; try discriminate. change (flat_val sep [] k k (VObj kvs)) with (block sep (k, VObj kvs)). rewrite block_obj.
      cbn [wf_entries] in Hw. apply andb_true_iff in Hw. destruct Hw as [Hw _]. apply andb_true_iff in Hw. destruct Hw as [_ Hw].
      rewrite wf_val_obj in Hw. apply andb_true_iff in Hw. destruct Hw as [Hw Hw3]. apply andb_true_iff in Hw. destruct Hw as [Hw1 _].
      assert (kvs <> []) by (destruct kvs; [discriminate | congruence]).
      cbn [esize] in Hn. rewrite vsize_obj in Hn.
      assert (F : flat_list sep [] kvs <> []) by (apply (IH kvs); [lia | exact Hw3 | assumption]).
      destruct (flat_list sep [] kvs); [congruence|]. cbn. discriminate.
    + rewrite flat_val_leaf by exact O. cbn. discriminate.
Qed.

Lemma block_nonempty sep k x : no_early sep k = true -> wf_val sep x = true -> block sep (k, x) <> [].
Proof.
  intros Hk Hx. destruct (is_obj x) eqn:O.
  - destruct x; try discriminate. rewrite block_obj.
    rewrite wf_val_obj in Hx. apply andb_true_iff in Hx. destruct Hx as [Hx Hx3]. apply andb_true_iff in Hx. destruct Hx as [Hx1 _].
    assert (kvs <> []) by (destruct kvs; [discriminate | congruence]).
    assert (F : flat_list sep [] kvs <> []) by (apply (flat_list_nonempty sep (esize kvs) kvs); auto).
    destruct (flat_list sep [] kvs); [congruence|]. cbn. discriminate.
  - rewrite block_leaf by exact O. discriminate.
Qed.

(* how the entries of one block split at the first separator *)
Definition block_triples (sep : bytes) (kv : entry) : list triple :=
  match snd kv with
  | VObj m => map (fun e => (fst kv, Some (fst e), snd e)) (flat_list sep [] m)
  | _ => [(fst kv, None, snd kv)]
  end.

Lemma split_block sep k x : sep <> [] -> no_early sep k = true ->
  map (split_entry sep) (block sep (k, x)) = block_triples sep (k, x).
Proof.
  intros Hs Hk. destruct (is_obj x) eqn:O.
  - destruct x; try discriminate. rewrite block_obj. unfold block_triples. cbn [fst snd]. rewrite map_map.
    apply map_ext. intros [key y]. unfold split_entry, pre. cbn [fst snd].
    rewrite <- app_assoc. rewrite (split_once_key sep k Hs Hk key). reflexivity.
  - rewrite block_leaf by exact O. unfold block_triples, split_entry. cbn [fst snd map].
    rewrite (split_once_none sep k Hs Hk). destruct x; try reflexivity; discriminate.
Qed.

Lemma block_triples_head sep kv t : In t (block_triples sep kv) -> t_head t = fst kv.
Proof.
  unfold block_triples. destruct (snd kv); intros Hin;
    try (destruct Hin as [<-|[]]; reflexivity).
  apply in_map_iff in Hin. destruct Hin as (e & <- & _). reflexivity.
Qed.

Lemma block_triples_nonempty sep k x : no_early sep k = true -> wf_val sep x = true -> sep <> [] -> block_triples sep (k, x) <> [].
Proof.
  intros Hk Hx Hs. rewrite <- split_block by assumption.
  pose proof (block_nonempty sep k x Hk Hx). destruct (block sep (k, x)); [congruence | discriminate].
Qed.

Definition all_triples (sep : bytes) (m : list entry) : list triple := flat_map (block_triples sep) m.

Lemma split_flat_list sep m : sep <> [] -> wf_entries sep m = true ->
  map (split_entry sep) (flat_list sep [] m) = all_triples sep m.
Proof.
  intros Hs. induction m as [|[k x] m IH]; intros Hw; [reflexivity|].
  cbn [wf_entries] in Hw. apply andb_true_iff in Hw. destruct Hw as [Hw H3]. apply andb_true_iff in Hw. destruct Hw as [H1 H2].
  cbn [flat_list]. change (flat_val sep [] k k x) with (block sep (k, x)). rewrite map_app, split_block, IH by assumption. reflexivity.
Qed.

(* the group of a key is its block; other keys contribute nothing *)
Lemma filter_none {A} (P : A -> bool) l : (forall x, In x l -> P x = false) -> filter P l = [].
Proof.
  induction l as [|x l IH]; intros H; [reflexivity|]. cbn [filter]. rewrite (H x) by (left; reflexivity).
  apply IH. intros y Hy. apply H. right; exact Hy.
Qed.

Lemma filter_all {A} (P : A -> bool) l : (forall x, In x l -> P x = true) -> filter P l = l.
Proof.
  induction l as [|x l IH]; intros H; [reflexivity|]. cbn [filter]. rewrite (H x) by (left; reflexivity).
  f_equal. apply IH. intros y Hy. apply H. right; exact Hy.
Qed.

Lemma group_other sep h kv : fst kv <> h -> group_of h (block_triples sep kv) = [].
Proof.
  intros Hne. unfold group_of. apply filter_none. intros t Hin.
  rewrite (block_triples_head sep kv t Hin). apply bytes_eqb_neq. exact Hne.
Qed.

Lemma group_same sep h kv : fst kv = h -> group_of h (block_triples sep kv) = block_triples sep kv.
Proof.
  intros He. unfold group_of. apply filter_all. intros t Hin.
  rewrite (block_triples_head sep kv t Hin), He. apply bytes_eqb_refl.
Qed.

Lemma group_all sep m : NoDup (map fst m) -> forall h v, In (h, v) m ->
  group_of h (all_triples sep m) = block_triples sep (h, v).
Proof.
  induction m as [|[k x] m IH]; intros Hnd h v Hin; [destruct Hin|].
  cbn [map fst] in Hnd. inversion Hnd as [|? ? Hk Hnd']; subst.
  unfold all_triples. cbn [flat_map]. unfold group_of. rewrite filter_app. fold (group_of h (block_triples sep (k, x))).
  fold (group_of h (flat_map (block_triples sep) m)). fold (all_triples sep m).
  destruct Hin as [E|Hin].
  - inversion E; subst. rewrite group_same by reflexivity.
    assert (R : group_of h (all_triples sep m) = []).
    { clear IH Hnd Hnd' E. induction m as [|[k' x'] m IHm]; [reflexivity|].
      unfold all_triples. cbn [flat_map]. unfold group_of. rewrite filter_app.
      fold (group_of h (block_triples sep (k', x'))). rewrite group_other.
      - apply IHm. intros Hin. apply Hk. right; exact Hin.
      - cbn [fst]. intros ->. apply Hk. left; reflexivity. }
    rewrite R, app_nil_r. reflexivity.
  - rewrite group_other.
    + cbn [app]. apply IH; assumption.
    + cbn [fst]. intros ->. apply Hk. apply in_map_iff. exists (h, v). split; [reflexivity | exact Hin].
Qed.

Lemma all_triples_heads sep m : sep <> [] -> wf_entries sep m = true ->
  forall h, In h (map t_head (all_triples sep m)) <-> In h (map fst m).
Proof.
  intros Hs Hw h. split; intros Hin.
  - apply in_map_iff in Hin. destruct Hin as (t & <- & Hin). unfold all_triples in Hin.
    apply in_flat_map in Hin. destruct Hin as (kv & Hm & Hin). rewrite (block_triples_head sep kv t Hin).
    apply in_map. exact Hm.
  - apply in_map_iff in Hin. destruct Hin as ([k x] & <- & Hm). cbn [fst].
    destruct (wf_entries_in sep m k x Hw Hm) as [Hk Hx].
    pose proof (block_triples_nonempty sep k x Hk Hx Hs) as Hne.
    destruct (block_triples sep (k, x)) as [|t l] eqn:E; [congruence|].
    apply in_map_iff. exists t. split.
    + apply (block_triples_head sep (k, x)). rewrite E. left; reflexivity.
    + unfold all_triples. apply in_flat_map. exists (k, x). split; [exact Hm | rewrite E; left; reflexivity].
Qed.

(* ================= part 4: unflatten on any permutation of the flattened list ================= *)

Lemma perm_filter {A} (P : A -> bool) l l' : Permutation l l' -> Permutation (filter P l) (filter P l').
Proof.
  induction 1 as [| x l l' _ IH | x y l | l l' l'' _ IH1 _ IH2]; cbn [filter].
  - constructor.
  - destruct (P x); [apply perm_skip|]; exact IH.
  - destruct (P x), (P y); try reflexivity. apply perm_swap.
  - etransitivity; eauto.
Qed.

Lemma perm_rest_entries g g' : Permutation g g' -> Permutation (rest_entries g) (rest_entries g').
Proof.
  induction 1 as [| [[h o] v] l l' _ IH | [[h1 o1] v1] [[h2 o2] v2] l | l l' l'' _ IH1 _ IH2]; cbn [rest_entries].
  - constructor.
  - destruct o; [apply perm_skip|]; exact IH.
  - destruct o1, o2; try reflexivity. apply perm_swap.
  - etransitivity; eauto.
Qed.

Lemma rest_entries_some h l : rest_entries (map (fun e : entry => (h, Some (fst e), snd e)) l) = l.
Proof. induction l as [|[k x] l IH]; [reflexivity|]. cbn [map rest_entries fst snd]. rewrite IH. reflexivity. Qed.

Lemma mem_bytes_in k l : mem_bytes k l = true <-> In k l.
Proof.
  induction l as [|x l IH]; cbn [mem_bytes In]; [split; [discriminate | tauto]|].
  rewrite orb_true_iff, IH, bytes_eqb_eq. tauto.
Qed.

Lemma nodup_bytes_in l x : In x (nodup_bytes l) <-> In x l.
Proof.
  induction l as [|y l IH]; [tauto|]. cbn [nodup_bytes]. destruct (mem_bytes y l) eqn:M.
  - rewrite IH. apply mem_bytes_in in M. split; [intros H; right; exact H | intros [<-|H]; assumption].
  - cbn [In]. rewrite IH. tauto.
Qed.

Lemma nodup_bytes_nodup l : NoDup (nodup_bytes l).
Proof.
  induction l as [|y l IH]; [constructor|]. cbn [nodup_bytes]. destruct (mem_bytes y l) eqn:M; [exact IH|].
  constructor; [|exact IH]. rewrite nodup_bytes_in. intros Hin. apply mem_bytes_in in Hin. congruence.
Qed.

Lemma sequence_map (F : bytes -> option value) (G : bytes -> value) hs :
  (forall h, In h hs -> F h = Some (G h)) ->
  sequence_entries (map (fun h => (h, F h)) hs) = Some (map (fun h => (h, G h)) hs).
Proof.
  induction hs as [|h hs IH]; intros H; [reflexivity|]. cbn [map sequence_entries].
  rewrite (H h) by (left; reflexivity). rewrite IH; [reflexivity|]. intros h' Hin. apply H. right; exact Hin.
Qed.

Lemma obj_get_in m : NoDup (map fst m) -> forall k v, In (k, v) m -> obj_get m k = Some v.
Proof.
  induction m as [|[k' v'] m IH]; intros Hnd k v Hin; [destruct Hin|]. cbn [map fst] in Hnd. inversion Hnd; subst.
  cbn [obj_get]. destruct Hin as [E|Hin].
  - inversion E; subst. rewrite bytes_eqb_refl. reflexivity.
  - replace (bytes_eqb k' k) with false; [apply IH; assumption|].
    symmetry. apply bytes_eqb_neq. intros ->. apply H1. apply in_map_iff. exists (k, v). split; [reflexivity | exact Hin].
Qed.

Definition get_or_null (m : obj) (h : bytes) : value := match obj_get m h with Some v => v | None => VNull end.

Lemma map_get_keys m : NoDup (map fst m) -> map (fun h => (h, get_or_null m h)) (map fst m) = m.
Proof.
  intros Hnd. rewrite map_map.
  assert (G : forall l, (forall kv, In kv l -> In kv m) -> map (fun x : bytes * value => (fst x, get_or_null m (fst x))) l = l).
  { induction l as [|[k v] l IH]; intros Hsub; [reflexivity|]. cbn [map fst]. f_equal.
    - unfold get_or_null. rewrite (obj_get_in m Hnd k v) by (apply Hsub; left; reflexivity). reflexivity.
    - apply IH. intros kv Hin. apply Hsub. right; exact Hin. }
  apply G. auto.
Qed.

Lemma do_unflatten_leaf f sep r v : is_obj v = false -> do_unflatten (S f) sep r v = Some v.
Proof. destruct v; cbn; congruence. Qed.

Lemma group_shape {B} (g : list triple) (a : value -> B) (b : bytes -> value -> B) (c : list triple -> B) :
  2 <= length g ->
  match g with
  | [(_, None, v)] => a v
  | [(_, Some rest, v)] => b rest v
  | g' => c g'
  end = c g.
Proof.
  intros H. destruct g as [|[[h o] v] [|t g]]; cbn [length] in H; try lia.
  destruct o; reflexivity.
Qed.

Lemma app_eq_singleton {A} (l1 l2 : list A) x : l1 ++ l2 = [x] -> l1 <> [] -> l1 = [x] /\ l2 = [].
Proof.
  intros H Hne. destruct l1 as [|y l1]; [congruence|]. cbn in H. inversion H as [[E1 E2]].
  apply app_eq_nil in E2. destruct E2; subst. auto.
Qed.

Lemma map_eq_singleton {A B} (f : A -> B) l y : map f l = [y] -> exists x, l = [x] /\ f x = y.
Proof. destruct l as [|x [|x' l]]; cbn; intros H; inversion H. eauto. Qed.

(* a chain of single-key objects comes back from its one flattened entry *)
Lemma single_entry sep : sep <> [] -> forall n m, esize m <= n -> wf_entries sep m = true ->
  forall key x, flat_list sep [] m = [(key, x)] ->
  forall fuel, length key <= fuel -> nest (split_all fuel sep key) x = VObj m.
Proof.
  intros Hs. induction n as [|n IH]; intros m Hn Hw key x Hf fuel Hfuel.
  - destruct m as [|[k v] m]; [discriminate|]. cbn [esize] in Hn. pose proof (vsize_pos v). lia.
  - destruct m as [|[k1 v1] rest]; [discriminate|].
    cbn [wf_entries] in Hw. apply andb_true_iff in Hw. destruct Hw as [Hw Hw3]. apply andb_true_iff in Hw. destruct Hw as [Hk Hv].
    cbn [flat_list] in Hf. change (flat_val sep [] k1 k1 v1) with (block sep (k1, v1)) in Hf.
    destruct (app_eq_singleton _ _ _ Hf (block_nonempty sep k1 v1 Hk Hv)) as [Hb Hr].
    assert (rest = []).
    { destruct rest as [|e rest']; [reflexivity|]. exfalso.
      apply (flat_list_nonempty sep (esize (e :: rest')) (e :: rest') (le_n _) Hw3); [discriminate | exact Hr]. }
    subst rest. destruct (is_obj v1) eqn:O.
    + destruct v1; try discriminate. rewrite block_obj in Hb.
      destruct (map_eq_singleton _ _ _ Hb) as ([key' x'] & Hfl & Hpre). unfold pre in Hpre. cbn [fst snd] in Hpre.
      inversion Hpre; subst. rewrite wf_val_obj in Hv. apply andb_true_iff in Hv. destruct Hv as [_ Hv3].
      rewrite <- app_assoc in *. rewrite !app_length in Hfuel.
      assert (length sep <> 0) by (destruct sep; [congruence | discriminate]).
      destruct fuel as [|fuel']; [lia|].
      rewrite split_all_key by assumption. cbn [nest fold_right]. do 3 f_equal.
      cbn [esize] in Hn. rewrite vsize_obj in Hn.
      apply (IH kvs); [lia | exact Hv3 | exact Hfl | lia].
    + rewrite block_leaf in Hb by exact O. inversion Hb; subst.
      rewrite split_all_leaf by assumption. reflexivity.
Qed.

Lemma unflatten_entry_single sep r : sep <> [] -> forall m f key x,
  wf_entries sep m = true -> flat_list sep [] m = [(key, x)] ->
  do_unflatten_entry (S (S f)) sep r key x = Some (VObj m).
Proof.
  intros Hs m f key x Hw Hf. cbn [do_unflatten_entry].
  assert (L : is_obj x = false).
  { apply (flat_list_leaves sep m (key, x)). rewrite Hf. left; reflexivity. }
  replace (if r then do_unflatten (S f) sep r x else Some x) with (Some x)
    by (destruct r; [rewrite do_unflatten_leaf by exact L|]; reflexivity).
  cbn [option_map]. f_equal. apply (single_entry sep Hs (esize m) m (le_n _) Hw key x Hf). lia.
Qed.

Lemma do_unflatten_entries_S f sep r entries :
  do_unflatten_entries (S f) sep r entries =
  let ts := map (split_entry sep) entries in
  let heads := nodup_bytes (map t_head ts) in
  option_map collect (sequence_entries (map (fun h =>
    (h, match group_of h ts with
        | [(_, None, v)] => if r then do_unflatten f sep r v else Some v
        | [(_, Some rest, v)] => do_unflatten_entry f sep r rest v
        | g => option_map VObj (do_unflatten_entries f sep r (rest_entries g))
        end)) heads)).
Proof. reflexivity. Qed.

Theorem unflatten_entries_perm sep r : sep <> [] ->
  forall n m, esize m <= n -> flat_ok sep m = true ->
  forall f l, esize m + 2 <= f -> Permutation l (flat_list sep [] m) ->
  do_unflatten_entries f sep r l = Some m.
Proof.
  intros Hs. induction n as [|n IH]; intros m Hn Hok f l Hf Hp.
  - (* m is empty *)
    destruct m as [|[k v] m]; [|cbn [esize] in Hn; pose proof (vsize_pos v); lia].
    cbn [flat_list] in Hp. apply Permutation_sym, Permutation_nil in Hp. subst l.
    destruct f as [|f]; [cbn in Hf; lia|]. reflexivity.
  - unfold flat_ok in Hok. apply andb_true_iff in Hok. destruct Hok as [Hsorted Hw].
    pose proof (sorted_nodup m Hsorted) as Hnd.
    destruct f as [|f]; [lia|]. rewrite do_unflatten_entries_S. cbv zeta.
    set (ts := map (split_entry sep) l).
    assert (Pts : Permutation ts (all_triples sep m)).
    { unfold ts. rewrite <- split_flat_list by assumption. apply Permutation_map. exact Hp. }
    set (heads := nodup_bytes (map t_head ts)).
    assert (Hheads : forall h, In h heads <-> In h (map fst m)).
    { intros h. unfold heads. rewrite nodup_bytes_in. rewrite <- (all_triples_heads sep m Hs Hw h).
      split; apply Permutation_in; [apply Permutation_map; exact Pts | apply Permutation_map, Permutation_sym; exact Pts]. }
    rewrite (sequence_map _ (get_or_null m)).
    + cbn [option_map]. f_equal. apply collect_of_perm; [exact Hsorted|].
      apply Permutation_trans with (map (fun h => (h, get_or_null m h)) (map fst m));
        [|rewrite (map_get_keys m Hnd); reflexivity].
      apply Permutation_map.
      apply NoDup_Permutation; [apply nodup_bytes_nodup | exact Hnd | exact Hheads].
    + intros h Hin. apply Hheads in Hin. apply in_map_iff in Hin. destruct Hin as ([h' v] & E & Hm). cbn in E. subst h'.
      unfold get_or_null. rewrite (obj_get_in m Hnd h v Hm).
      destruct (wf_entries_in sep m h v Hw Hm) as [Hk Hv].
      assert (Pg : Permutation (group_of h ts) (block_triples sep (h, v))).
      { rewrite <- (group_all sep m Hnd h v Hm). unfold group_of. apply perm_filter. exact Pts. }
      pose proof (esize_in m h v Hm) as Hsz.
      destruct (is_obj v) eqn:O.
      * destruct v as [| | | | | |m'| |]; try discriminate.
        unfold block_triples in Pg. cbn [fst snd] in Pg.
        rewrite wf_val_obj in Hv. apply andb_true_iff in Hv. destruct Hv as [Hv Hv3]. apply andb_true_iff in Hv. destruct Hv as [Hv1 Hv2].
        rewrite vsize_obj in Hsz.
        assert (Hm'ne : m' <> []) by (destruct m'; [discriminate | congruence]).
        pose proof (flat_list_nonempty sep (esize m') m' (le_n _) Hv3 Hm'ne) as Hfne.
        destruct (flat_list sep [] m') as [|e1 [|e2 fl]] eqn:Efl; [congruence| |].
        -- (* one flattened entry below h *)
           cbn [map] in Pg. apply Permutation_sym, Permutation_length_1_inv in Pg. rewrite Pg.
           destruct f as [|[|f]]; [lia | lia |].
           destruct e1 as [key x]. cbn [fst snd].
           apply (unflatten_entry_single sep r Hs m' f key x Hv3 Efl).
        -- (* two or more *)
           pose proof (Permutation_length Pg) as Hlen. cbn [map length] in Hlen.
           remember (group_of h ts) as g eqn:Eg.
           assert (X : option_map VObj (do_unflatten_entries f sep r (rest_entries g)) = Some (VObj m')).
           { rewrite (IH m'); [reflexivity | lia | unfold flat_ok; rewrite Hv2, Hv3; reflexivity | lia |].
             rewrite Efl. rewrite <- (rest_entries_some h (e1 :: e2 :: fl)). apply perm_rest_entries. exact Pg. }
           destruct g as [|[[h1 o1] v1] [|t2 g']]; cbn [length] in Hlen; try lia.
           destruct o1; exact X.
      * unfold block_triples in Pg. cbn [fst snd] in Pg.
        assert (Pg' : Permutation (group_of h ts) [(h, None, v)]) by (destruct v; try discriminate; exact Pg).
        apply Permutation_sym, Permutation_length_1_inv in Pg'. rewrite Pg'.
        destruct f as [|f]; [lia|].
        destruct r; [apply do_unflatten_leaf; exact O | reflexivity].
Qed.

(* ================= part 5: distinct flattened keys, fuel, the theorem ================= *)

Definition key_head (sep key : bytes) : bytes :=
  match split_once sep key with Some (h, _) => h | None => key end.

Lemma t_head_split sep e : t_head (split_entry sep e) = key_head sep (fst e).
Proof. unfold split_entry, key_head, t_head. destruct (split_once sep (fst e)) as [[h r]|]; reflexivity. Qed.

Lemma block_key_head sep k v e : sep <> [] -> no_early sep k = true -> In e (block sep (k, v)) -> key_head sep (fst e) = k.
Proof.
  intros Hs Hk Hin. rewrite <- t_head_split.
  apply (block_triples_head sep (k, v)). rewrite <- split_block by assumption. apply in_map. exact Hin.
Qed.

Lemma nodup_app {A} (l1 l2 : list A) :
  NoDup l1 -> NoDup l2 -> (forall x, In x l1 -> ~ In x l2) -> NoDup (l1 ++ l2).
Proof.
  induction l1 as [|x l1 IH]; intros H1 H2 Hd; [exact H2|]. cbn [app]. inversion H1; subst. constructor.
  - intros Hin. apply in_app_or in Hin. destruct Hin as [Hin|Hin]; [contradiction|]. apply (Hd x); [left; reflexivity | exact Hin].
  - apply IH; auto. intros y Hy. apply Hd. right; exact Hy.
Qed.

Lemma nodup_map_app_prefix (p : bytes) l : NoDup l -> NoDup (map (fun s => p ++ s) l).
Proof.
  induction 1 as [|x l Hx Hnd IH]; cbn [map]; constructor; [|exact IH].
  intros Hin. apply in_map_iff in Hin. destruct Hin as (y & E & Hy). apply app_inv_head in E. subst. contradiction.
Qed.

Lemma map_fst_pre p l : map fst (map (pre p) l) = map (fun s => p ++ s) (map fst l).
Proof. rewrite !map_map. reflexivity. Qed.

Lemma flat_ok_tail sep k v m : flat_ok sep ((k, v) :: m) = true -> flat_ok sep m = true.
Proof.
  unfold flat_ok. intros H. apply andb_true_iff in H. destruct H as [H1 H2].
  cbn [wf_entries] in H2. apply andb_true_iff in H2. destruct H2 as [_ H2].
  rewrite (sorted_tail k v m H1), H2. reflexivity.
Qed.

Lemma flat_keys_nodup sep : sep <> [] -> forall n m, esize m <= n -> flat_ok sep m = true ->
  NoDup (map fst (flat_list sep [] m)).
Proof.
  intros Hs. induction n as [|n IHn]; intros m.
  - destruct m as [|[k v] m]; intros Hn Hok; [constructor|]. cbn [esize] in Hn. pose proof (vsize_pos v). lia.
  - induction m as [|[k v] m IHm]; intros Hn Hok; [constructor|].
    pose proof (flat_ok_tail sep k v m Hok) as Hok'.
    unfold flat_ok in Hok. apply andb_true_iff in Hok. destruct Hok as [Hsorted Hw].
    cbn [wf_entries] in Hw. apply andb_true_iff in Hw. destruct Hw as [Hw Hw3]. apply andb_true_iff in Hw. destruct Hw as [Hk Hv].
    cbn [esize] in Hn. pose proof (vsize_pos v) as Hvp.
    cbn [flat_list]. change (flat_val sep [] k k v) with (block sep (k, v)). rewrite map_app. apply nodup_app.
    + destruct (is_obj v) eqn:O.
      * destruct v as [| | | | | |m'| |]; try discriminate. rewrite block_obj. rewrite map_fst_pre.
        apply nodup_map_app_prefix.
        rewrite wf_val_obj in Hv. apply andb_true_iff in Hv. destruct Hv as [Hv Hv3]. apply andb_true_iff in Hv. destruct Hv as [_ Hv2].
        rewrite vsize_obj in Hn. apply IHn; [lia | unfold flat_ok; rewrite Hv2, Hv3; reflexivity].
      * rewrite block_leaf by exact O. cbn. constructor; [intros [] | constructor].
    + apply IHm; [lia | exact Hok'].
    + intros key Hin1 Hin2.
      apply in_map_iff in Hin1. destruct Hin1 as (e1 & E1 & Hin1).
      apply in_map_iff in Hin2. destruct Hin2 as (e2 & E2 & Hin2).
      pose proof (block_key_head sep k v e1 Hs Hk Hin1) as H1. rewrite E1 in H1.
      rewrite flat_list_flat_map in Hin2. apply in_flat_map in Hin2. destruct Hin2 as ([k' v'] & Hm & Hin2).
      destruct (wf_entries_in sep m k' v' Hw3 Hm) as [Hk' _].
      pose proof (block_key_head sep k' v' e2 Hs Hk' Hin2) as H2. rewrite E2 in H2.
      assert (Ek : k' = k) by congruence. rewrite Ek in Hm.
      pose proof (sorted_head_lt k v m Hsorted (k, v') Hm) as L. cbn in L. rewrite bytes_ltb_irrefl in L. discriminate.
Qed.

(* fuel *)
Fixpoint wsum (l : list entry) : nat :=
  match l with [] => O | (k, x) :: l' => 4 + 4 * length k + weight x + wsum l' end.

Lemma weight_obj m : weight (VObj m) = S (wsum m).
Proof. reflexivity. Qed.

Lemma wsum_app l1 l2 : wsum (l1 ++ l2) = wsum l1 + wsum l2.
Proof. induction l1 as [|[k x] l1 IH]; [reflexivity|]. cbn [app wsum]. rewrite IH. lia. Qed.

Lemma wsum_perm l l' : Permutation l l' -> wsum l = wsum l'.
Proof.
  induction 1 as [| [k x] l l' _ IH | [k1 x1] [k2 x2] l | l l' l'' _ IH1 _ IH2]; cbn [wsum]; lia.
Qed.

Lemma wsum_pre p l : wsum (map (pre p) l) = wsum l + 4 * length p * length l.
Proof.
  induction l as [|[k x] l IH]; [cbn; lia|]. cbn [map pre fst snd wsum length]. rewrite IH, app_length. lia.
Qed.

Lemma esize_le_wsum sep : sep <> [] -> forall n m, esize m <= n -> wf_entries sep m = true ->
  esize m <= wsum (flat_list sep [] m).
Proof.
  intros Hs. assert (Hl : 1 <= length sep) by (destruct sep; [congruence | cbn; lia]).
  induction n as [|n IHn]; intros m.
  - destruct m as [|[k v] m]; intros Hn Hw; [cbn; lia|]. cbn [esize] in Hn. pose proof (vsize_pos v). lia.
  - induction m as [|[k v] m IHm]; intros Hn Hw; [cbn; lia|].
    cbn [wf_entries] in Hw. apply andb_true_iff in Hw. destruct Hw as [Hw Hw3]. apply andb_true_iff in Hw. destruct Hw as [Hk Hv].
    cbn [esize] in *. pose proof (vsize_pos v) as Hvp.
    cbn [flat_list]. change (flat_val sep [] k k v) with (block sep (k, v)). rewrite wsum_app.
    assert (IH2 : esize m <= wsum (flat_list sep [] m)) by (apply IHm; [lia | exact Hw3]).
    enough (vsize v <= wsum (block sep (k, v))) by lia.
    destruct (is_obj v) eqn:O.
    + destruct v as [| | | | | |m'| |]; try discriminate. rewrite block_obj, wsum_pre, app_length.
      rewrite wf_val_obj in Hv. apply andb_true_iff in Hv. destruct Hv as [Hv Hv3]. apply andb_true_iff in Hv. destruct Hv as [Hv1 _].
      assert (Hm'ne : m' <> []) by (destruct m'; [discriminate | congruence]).
      pose proof (flat_list_nonempty sep (esize m') m' (le_n _) Hv3 Hm'ne) as Hfne.
      rewrite vsize_obj in *.
      assert (esize m' <= wsum (flat_list sep [] m')) by (apply IHn; [lia | exact Hv3]).
      destruct (flat_list sep [] m') as [|e fl]; [congruence|]. cbn [length]. nia.
    + rewrite block_leaf by exact O. cbn [wsum]. destruct v; cbn in *; try lia; discriminate.
Qed.

Theorem flatten_unflatten sep m r :
  sep <> [] -> flat_ok sep m = true ->
  exists y, flatten (VObj m) (VBytes sep) [] = ROk y /\ unflatten y (VBytes sep) (VBool r) = ROk (VObj m).
Proof.
  intros Hs Hok. eexists. split; [reflexivity|].
  pose proof Hok as Hok2. unfold flat_ok in Hok2. apply andb_true_iff in Hok2. destruct Hok2 as [Hsorted Hw].
  pose proof (flat_keys_nodup sep Hs (esize m) m (le_n _) Hok) as Hnd.
  pose proof (collect_perm _ Hnd) as Hp.
  unfold unflatten. rewrite weight_obj. rewrite (wsum_perm _ _ Hp).
  pose proof (esize_le_wsum sep Hs (esize m) m (le_n _) Hw) as Hfuel.
  change (4 + S (wsum (flat_list sep [] m))) with (S (4 + wsum (flat_list sep [] m))).
  cbn [do_unflatten].
  rewrite (unflatten_entries_perm sep r Hs (esize m) m (le_n _) Hok); [reflexivity | lia | exact Hp].
Qed.

(* ---------- the hypothesis in the property's own words ---------- *)

Fixpoint contains (sep s : bytes) : bool :=
  match strip_prefix sep s with
  | Some _ => true
  | None => match s with [] => false | _ :: s' => contains sep s' end
  end.

(* a separator-safe key does not contain the separator ... *)
Lemma no_early_not_contains sep k : no_early sep k = true -> sep <> [] -> contains sep k = false.
Proof.
  intros Hk Hs. induction k as [|c k IH].
  - destruct sep; [congruence | reflexivity].
  - cbn [no_early] in Hk. apply andb_true_iff in Hk. destruct Hk as [Hn Hk]. apply negb_true_iff in Hn. unfold starts_with in Hn.
    cbn [contains]. destruct (strip_prefix sep (c :: k)) eqn:E.
    + rewrite (strip_prefix_some_app sep (c :: k) b sep E) in Hn. discriminate.
    + apply IH. exact Hk.
Qed.

(* ... and for a one-character separator that is all there is to it *)
Lemma no_early_single c k : contains [c] k = false -> no_early [c] k = true.
Proof.
  induction k as [|d k IH]; intros H; [reflexivity|].
  cbn [contains strip_prefix] in H. cbn [no_early]. unfold starts_with. cbn [app strip_prefix].
  destruct (c =? d)%N; [discriminate|]. cbn [negb andb]. apply IH. exact H.
Qed.

(* the precondition as the property words it: no key contains the separator, no nested object is empty *)
Fixpoint plain_val (sep : bytes) (v : value) {struct v} : bool :=
  match v with
  | VObj m =>
      negb (match m with [] => true | _ => false end) && obj_sorted m
      && (fix go (l : list entry) : bool :=
            match l with
            | [] => true
            | (k, x) :: l' => negb (contains sep k) && plain_val sep x && go l'
            end) m
  | _ => true
  end.

Fixpoint plain_entries (sep : bytes) (m : list entry) : bool :=
  match m with
  | [] => true
  | (k, x) :: l' => negb (contains sep k) && plain_val sep x && plain_entries sep l'
  end.

Definition flat_plain (sep : bytes) (m : obj) : bool := obj_sorted m && plain_entries sep m.

Lemma plain_val_obj sep m :
  plain_val sep (VObj m) = negb (match m with [] => true | _ => false end) && obj_sorted m && plain_entries sep m.
Proof.
  cbn [plain_val]. f_equal. induction m as [|[k x] m IH]; [reflexivity|]. cbn [plain_entries]. rewrite <- IH. reflexivity.
Qed.

Lemma plain_single_val c v : plain_val [c] v = true -> wf_val [c] v = true.
Proof.
  induction v using value_ind'; try reflexivity.
  rewrite plain_val_obj, wf_val_obj. intros Hp.
  apply andb_true_iff in Hp. destruct Hp as [Hp Hp3]. rewrite Hp. cbn [andb].
  clear Hp. induction H as [|[k x] m Hx Hm IH]; [reflexivity|].
  cbn [plain_entries wf_entries] in *. apply andb_true_iff in Hp3. destruct Hp3 as [Hp3 Hp4].
  apply andb_true_iff in Hp3. destruct Hp3 as [Hp1 Hp2]. apply negb_true_iff in Hp1. cbn [snd] in Hx.
  rewrite (no_early_single c k Hp1), (Hx Hp2), (IH Hp4). reflexivity.
Qed.

Lemma plain_single c m : flat_plain [c] m = true -> flat_ok [c] m = true.
Proof.
  unfold flat_plain, flat_ok. intros H. apply andb_true_iff in H. destruct H as [H1 H2]. rewrite H1. cbn [andb].
  induction m as [|[k x] m IH]; [reflexivity|].
  cbn [plain_entries wf_entries] in *. apply andb_true_iff in H2. destruct H2 as [H2 H4].
  apply andb_true_iff in H2. destruct H2 as [H2 H3]. apply negb_true_iff in H2.
  rewrite (no_early_single c k H2), (plain_single_val c x H3). cbn [andb].
  apply IH; [eapply sorted_tail; eauto | exact H4].
Qed.

Corollary flatten_unflatten_single c m r :
  flat_plain [c] m = true ->
  exists y, flatten (VObj m) (VBytes [c]) [] = ROk y /\ unflatten y (VBytes [c]) (VBool r) = ROk (VObj m).
Proof. intros H. apply flatten_unflatten; [discriminate | apply plain_single; exact H]. Qed.
