(* Soundness of Kind::insert with respect to `member`, on the domain `ins_ok`. *)
From Coq Require Import List NArith ZArith Bool Lia.
From VRL Require Import Base.Bytes Base.Value Model.ValueCrud Model.Kind Model.KindCrud Model.KindDomains
  Proofs.ValueCrudProofs Proofs.KindBasics Proofs.KindMergeProofs Proofs.KindGetProofs.
Import ListNotations.

(* ---------- sorted objects ---------- *)

Lemma sorted_tail k v m : obj_sorted ((k, v) :: m) = true -> obj_sorted m = true.
Proof. cbn. destruct m as [|[k' v'] m']; auto. rewrite andb_true_iff. tauto. Qed.

Lemma sorted_head_lt m : forall k v, obj_sorted ((k, v) :: m) = true ->
  forall g w, In (g, w) m -> bytes_cmp k g = Lt.
Proof.
  induction m as [|[k' v'] m IH]; intros k v Hs g w Hin; [contradiction|].
  cbn in Hs. apply andb_true_iff in Hs. destruct Hs as [Hlt Hs].
  unfold bytes_ltb in Hlt. destruct (bytes_cmp k k') eqn:E; try discriminate.
  destruct Hin as [Heq|Hin].
  - inversion Heq; subst. exact E.
  - eapply bytes_cmp_lt_trans; [exact E|]. eapply (IH k' v'); eauto.
Qed.

Lemma cmp_lt_neq a b : bytes_cmp a b = Lt -> a <> b.
Proof. intros H ->. rewrite bytes_cmp_refl in H. discriminate. Qed.

Lemma in_obj_set_sorted m f w' : obj_sorted m = true -> forall g w,
  In (g, w) (obj_set m f w') -> (g = f /\ w = w') \/ (g <> f /\ In (g, w) m).
Proof.
  induction m as [|[k v] m IH]; intros Hs g w Hin; cbn in Hin.
  - destruct Hin as [H|[]]. inversion H; auto.
  - destruct (bytes_cmp k f) eqn:E.
    + apply bytes_cmp_eq in E; subst k. destruct Hin as [H|Hin].
      * inversion H; auto.
      * right. split; [|right; auto]. apply not_eq_sym. apply cmp_lt_neq. eapply sorted_head_lt; eauto.
    + destruct Hin as [H|Hin].
      * inversion H; subst. right. split; [apply cmp_lt_neq; auto | left; auto].
      * destruct (IH (sorted_tail _ _ _ Hs) g w Hin) as [?|[? ?]]; auto. right; split; auto. right; auto.
    + destruct Hin as [H|Hin]; [inversion H; auto|]. right.
      assert (bytes_cmp f k = Lt) as Hfk by (rewrite bytes_cmp_antisym, E; reflexivity).
      destruct Hin as [H|Hin].
      * inversion H; subst. split; [apply not_eq_sym, cmp_lt_neq; auto | left; auto].
      * split; [|right; auto]. apply not_eq_sym. apply cmp_lt_neq.
        eapply bytes_cmp_lt_trans; [exact Hfk|]. eapply sorted_head_lt; eauto.
Qed.

Lemma wf_obj m : wf_value (VObj m) = true ->
  obj_sorted m = true /\ (forall g w, In (g, w) m -> wf_value w = true).
Proof.
  cbn [wf_value]. rewrite andb_true_iff. intros [Hs Hall]. split; auto.
  induction m as [|[k v] m IH]; intros g w Hin; [contradiction|].
  apply andb_true_iff in Hall. destruct Hall as [Hv Hall]. destruct Hin as [H|Hin].
  - inversion H; subst. exact Hv.
  - eapply IH; eauto. eapply sorted_tail; eauto.
Qed.

Lemma wf_arr vs : wf_value (VArr vs) = true -> forall n x, nth_error vs n = Some x -> wf_value x = true.
Proof.
  cbn [wf_value]. induction vs as [|y vs IH]; intros Hall n x Hn; [destruct n; discriminate|].
  apply andb_true_iff in Hall. destruct Hall as [Hy Hall]. destruct n; cbn in Hn.
  - inversion Hn; subst; auto.
  - eapply IH; eauto.
Qed.

(* ---------- fill_absent ---------- *)

Lemma aget_fill_fold (x : kind) l : forall (m : list (nat * kind)) n,
  aget Nat.eqb (fold_left (fun acc j => if ahas Nat.eqb acc j then acc else aset Nat.compare acc j x) l m) n =
  match aget Nat.eqb m n with Some y => Some y | None => if existsb (Nat.eqb n) l then Some x else None end.
Proof.
  induction l as [|j l IH]; intros m n; cbn [fold_left existsb].
  - destruct (aget Nat.eqb m n); reflexivity.
  - rewrite IH. unfold ahas. destruct (aget Nat.eqb m j) eqn:Ej; cbn [is_some].
    + destruct (aget Nat.eqb m n) eqn:En; auto.
      destruct (Nat.eqb_spec n j); [subst; congruence | reflexivity].
    + rewrite (aget_aset Nat.eqb Nat.compare nat_eqb_spec' nat_cmp_spec').
      destruct (Nat.eqb_spec j n).
      * subst. rewrite Ej. rewrite Nat.eqb_refl. reflexivity.
      * destruct (aget Nat.eqb m n); auto. destruct (Nat.eqb_spec n j); [congruence|reflexivity].
Qed.

Lemma existsb_seq n lo len : existsb (Nat.eqb n) (seq lo len) = Nat.leb lo n && Nat.ltb n (lo + len).
Proof.
  revert lo. induction len as [|len IH]; intros lo; cbn [seq existsb].
  - destruct (Nat.leb_spec lo n), (Nat.ltb_spec n (lo + 0)); auto; lia.
  - rewrite IH. destruct (Nat.eqb_spec n lo), (Nat.leb_spec lo n), (Nat.leb_spec (S lo) n),
      (Nat.ltb_spec n (S lo + len)), (Nat.ltb_spec n (lo + S len)); auto; lia.
Qed.

Lemma aget_fill_absent (m : list (nat * kind)) hi (x : kind) n :
  aget Nat.eqb (fill_absent m 0 hi x) n =
  match aget Nat.eqb m n with Some y => Some y | None => if Nat.ltb n hi then Some x else None end.
Proof.
  unfold fill_absent. rewrite aget_fill_fold, existsb_seq. cbn. rewrite Nat.sub_0_r. reflexivity.
Qed.

(* ---------- one array step ---------- *)

Definition hole_kind (c : acoll) : kind := or_null (remove_undefined (unknown_kind c)).

Definition filled (c : acoll) (idx : nat) : acoll :=
  if ahas Nat.eqb (known c) idx then c else set_known c (fill_absent (known c) 0 idx (hole_kind c)).

Lemma coll_at_filled c idx n :
  coll_at Nat.eqb (filled c idx) n =
  match aget Nat.eqb (known c) n with
  | Some y => y
  | None => if negb (ahas Nat.eqb (known c) idx) && Nat.ltb n idx then hole_kind c else unknown_kind c
  end.
Proof.
  unfold filled, coll_at. destruct (ahas Nat.eqb (known c) idx); cbn [negb andb].
  - destruct (aget Nat.eqb (known c) n); reflexivity.
  - cbn [set_known known]. rewrite aget_fill_absent.
    destruct (aget Nat.eqb (known c) n); auto. destruct (Nat.ltb n idx); reflexivity.
Qed.

Lemma coll_at_filled_idx c idx : coll_at Nat.eqb (filled c idx) idx = coll_at Nat.eqb c idx.
Proof.
  rewrite coll_at_filled. unfold coll_at. destruct (aget Nat.eqb (known c) idx); auto.
  rewrite Nat.ltb_irrefl, andb_false_r. reflexivity.
Qed.

Lemma member_hole c x : member x (unknown_kind c) = true -> member x (hole_kind c) = true.
Proof. intros H. unfold hole_kind. apply member_or_null. rewrite member_remove_undefined. exact H. Qed.

Lemma p_null_hole c : p_null (prims_of (hole_kind c)) = true.
Proof. unfold hole_kind. destruct (remove_undefined (unknown_kind c)) as [[] a o]; reflexivity. Qed.

Lemma member_null k : p_null (prims_of k) = true -> member VNull k = true.
Proof. auto. Qed.

Lemma arr_set_pos_sound vs (c : acoll) idx w' kk' :
  (forall n y, nth_error vs n = Some y -> member y (coll_at Nat.eqb c n) = true) ->
  (forall n, length vs <= n -> idx < n -> p_undefined (prims_of (coll_at Nat.eqb c n)) = true) ->
  (forall n kk, length vs <= n -> n < idx -> aget Nat.eqb (known c) n = Some kk -> p_null (prims_of kk) = true) ->
  (ahas Nat.eqb (known c) idx = true -> forall n, length vs <= n -> n < idx ->
     aget Nat.eqb (known c) n = None -> p_null (prims_of (unknown_kind c)) = true) ->
  member w' kk' = true ->
  arr_ok (arr_set vs (Z.of_nat idx) w')
         (set_known (filled c idx) (aset Nat.compare (known (filled c idx)) idx kk')) = true.
Proof.
  intros HE HU HN1 HN2 Hw.
  assert (forall n, coll_at Nat.eqb (set_known (filled c idx) (aset Nat.compare (known (filled c idx)) idx kk')) n
                    = if Nat.eqb idx n then kk' else coll_at Nat.eqb (filled c idx) n) as Hat.
  { intros n. unfold coll_at at 1. cbn [set_known known].
    rewrite (aget_aset Nat.eqb Nat.compare nat_eqb_spec' nat_cmp_spec').
    destruct (Nat.eqb idx n); reflexivity. }
  apply arr_ok_intro.
  - intros n y Hn. rewrite Hat. rewrite arr_set_nth_nonneg in Hn by lia. rewrite Nat2Z.id in Hn.
    destruct (Nat.eqb_spec n idx) as [->|Hne].
    + rewrite Nat.eqb_refl. inversion Hn; subst. exact Hw.
    + destruct (Nat.eqb_spec idx n); [congruence|]. rewrite coll_at_filled.
      destruct (Nat.ltb_spec n (length vs)) as [Hl|Hl].
      * specialize (HE _ _ Hn). unfold coll_at in HE.
        destruct (aget Nat.eqb (known c) n); auto.
        destruct (negb (ahas Nat.eqb (known c) idx) && Nat.ltb n idx); auto. apply member_hole; auto.
      * destruct (Nat.ltb_spec n idx) as [Hi|Hi]; [|discriminate]. inversion Hn; subst y.
        apply member_null. destruct (aget Nat.eqb (known c) n) as [kk|] eqn:En.
        -- eapply HN1; eauto.
        -- destruct (ahas Nat.eqb (known c) idx) eqn:Hh; cbn [negb andb].
           ++ eapply HN2; eauto.
           ++ apply p_null_hole.
  - intros n Hl. rewrite length_arr_set' in Hl. unfold new_len in Hl.
    destruct (Z.leb_spec 0 (Z.of_nat idx)); [|lia]. rewrite Nat2Z.id in Hl.
    rewrite Hat. destruct (Nat.eqb_spec idx n); [lia|].
    rewrite coll_at_filled. specialize (HU n ltac:(lia) ltac:(lia)). unfold coll_at in HU.
    destruct (aget Nat.eqb (known c) n); auto.
    destruct (Nat.ltb_spec n idx); [lia|]. rewrite andb_false_r. exact HU.
Qed.

(* ---------- insert_rec, unfolded ---------- *)

Lemma insert_rec_field k f p x : is_never x = false ->
  insert_rec k (SField f :: p) x =
  let c := match obj_of k with Some c => c | None => coll_empty end in
  k_object (set_known c (aset bytes_cmp (known c) f (insert_rec (coll_at bytes_eqb c f) p x))).
Proof. intros H. cbn [insert_rec]. rewrite H. reflexivity. Qed.

Lemma insert_rec_index_pos k i p x : is_never x = false -> (0 <= i)%Z ->
  insert_rec k (SIndex i :: p) x =
  let c := match arr_of k with Some c => c | None => coll_empty end in
  let idx := Z.to_nat i in
  k_array (set_known (filled c idx)
             (aset Nat.compare (known (filled c idx)) idx (insert_rec (coll_at Nat.eqb (filled c idx) idx) p x))).
Proof.
  intros H Hi. cbn [insert_rec]. rewrite H. destruct (Z.ltb_spec i 0); [lia|].
  cbv zeta. unfold filled, hole_kind. reflexivity.
Qed.

Lemma filter_all {A} (P : A -> bool) l : forallb P l = true -> filter P l = l.
Proof.
  induction l as [|x l IH]; cbn; auto. rewrite andb_true_iff. intros [Hx Hl]. rewrite Hx, IH; auto.
Qed.

Lemma insert_rec_index_neg k c i p x : is_never x = false -> (i < 0)%Z ->
  arr_of k = Some c -> all_defined c = true -> contains_any_defined (unknown_kind c) = false ->
  Z.to_nat (- i) <= known_len c ->
  insert_rec k (SIndex i :: p) x =
  let idx := known_len c - Z.to_nat (- i) in
  k_array (set_known (filled c idx)
             (aset Nat.compare (known (filled c idx)) idx (insert_rec (coll_at Nat.eqb (filled c idx) idx) p x))).
Proof.
  intros H Hi Ha Hdef Hd Hr. cbn [insert_rec]. rewrite H, Ha. destruct (Z.ltb_spec i 0); [|lia].
  cbv zeta. rewrite Hd.
  assert (largest_known_index c = max_opt (map fst (known c))) as ->.
  { unfold largest_known_index. rewrite filter_all; auto. }
  fold (known_len c). destruct (Nat.ltb_spec (known_len c) (Z.to_nat (- i))); [lia|].
  replace (Z.to_nat (i + Z.of_nat (Nat.max (Z.to_nat (- i)) (known_len c))))
    with (known_len c - Z.to_nat (- i)) by lia.
  unfold filled, hole_kind. reflexivity.
Qed.

(* ---------- the induction ---------- *)

Definition slot_ok (fresh : bool) (slot : option value) (k : kind) : Prop :=
  if fresh then slot = None
  else exists v, slot = Some v /\ member v k = true /\ wf_value v = true.

Lemma member_not_never v k : member v k = true -> is_never k = false.
Proof. intros H. destruct (is_never k) eqn:E; auto. rewrite (member_is_never _ _ E) in H. discriminate. Qed.

Lemma coll_empty_known {K} : known (@coll_empty K) = [].
Proof. reflexivity. Qed.

Lemma others_optional_spec {K} (keqb : K -> K -> bool) (keqb_spec : forall a b, keqb a b = true <-> a = b)
      (c : coll_ K kind) f g :
  others_optional keqb c f = true -> g <> f -> p_undefined (prims_of (coll_at keqb c g)) = true.
Proof.
  unfold others_optional. rewrite forallb_forall. intros H Hne. unfold coll_at.
  destruct (aget keqb (known c) g) as [kk|] eqn:E; [|apply p_undefined_unknown_kind].
  specialize (H (g, kk) (aget_in keqb keqb_spec _ _ _ E)). cbn [fst snd] in H.
  destruct (keqb g f) eqn:Eg; [apply keqb_spec in Eg; contradiction | exact H].
Qed.

Lemma idx_fresh_ok_spec c idx : idx_fresh_ok c idx = true ->
  (forall n, idx < n -> p_undefined (prims_of (coll_at Nat.eqb c n)) = true)
  /\ (forall n kk, n < idx -> aget Nat.eqb (known c) n = Some kk -> p_null (prims_of kk) = true)
  /\ (ahas Nat.eqb (known c) idx = true -> forall n, n < idx -> aget Nat.eqb (known c) n = None ->
        p_null (prims_of (unknown_kind c)) = true).
Proof.
  unfold idx_fresh_ok. rewrite andb_true_iff, forallb_forall. intros [H1 H2]. repeat split.
  - intros n Hn. unfold coll_at. destruct (aget Nat.eqb (known c) n) as [kk|] eqn:E;
      [|apply p_undefined_unknown_kind].
    specialize (H1 (n, kk) (aget_in Nat.eqb nat_eqb_spec' _ _ _ E)). cbn [fst snd] in H1.
    destruct (Nat.ltb_spec n idx); [lia|]. destruct (Nat.ltb_spec idx n); [auto|lia].
  - intros n kk Hn E. specialize (H1 (n, kk) (aget_in Nat.eqb nat_eqb_spec' _ _ _ E)). cbn [fst snd] in H1.
    destruct (Nat.ltb_spec n idx); [auto|lia].
  - intros Hh n Hn E. rewrite Hh in H2. unfold pads_ok in H2. rewrite forallb_forall in H2.
    specialize (H2 n). rewrite in_seq in H2. specialize (H2 ltac:(lia)).
    unfold ahas in H2. rewrite E in H2. exact H2.
Qed.

Lemma idx_pad_ok_spec c idx : idx_pad_ok c idx = true ->
  (forall n kk, n < idx -> aget Nat.eqb (known c) n = Some kk ->
     p_undefined (prims_of kk) = true -> p_null (prims_of kk) = true)
  /\ (forall ki, aget Nat.eqb (known c) idx = Some ki -> p_undefined (prims_of ki) = true ->
        forall n, n < idx -> aget Nat.eqb (known c) n = None -> p_null (prims_of (unknown_kind c)) = true).
Proof.
  unfold idx_pad_ok. rewrite andb_true_iff, forallb_forall. intros [H1 H2]. split.
  - intros n kk Hn E Hu. specialize (H1 (n, kk) (aget_in Nat.eqb nat_eqb_spec' _ _ _ E)). cbn [fst snd] in H1.
    destruct (Nat.ltb_spec n idx); [|lia]. rewrite Hu in H1. exact H1.
  - intros ki Ei Hu n Hn E. rewrite Ei, Hu in H2. unfold pads_ok in H2. rewrite forallb_forall in H2.
    specialize (H2 n). rewrite in_seq in H2. specialize (H2 ltac:(lia)).
    unfold ahas in H2. rewrite E in H2. exact H2.
Qed.

Lemma coll_at_empty {K} (keqb : K -> K -> bool) key : coll_at keqb coll_empty key = k_undefined.
Proof. reflexivity. Qed.

Section InsertSound.
  Variable xv : value.
  Variable x : kind.
  Hypothesis Hx : member xv x = true.

  Let Hnx : is_never x = false := member_not_never _ _ Hx.

  (* a fresh array [null; ..; null; w'] *)
  Lemma fresh_index_sound c idx w' kk' : idx_fresh_ok c idx = true -> member w' kk' = true ->
    arr_ok (arr_set [] (Z.of_nat idx) w')
           (set_known (filled c idx) (aset Nat.compare (known (filled c idx)) idx kk')) = true.
  Proof.
    intros Hf Hw. destruct (idx_fresh_ok_spec _ _ Hf) as (HU & HN1 & HN2).
    apply arr_set_pos_sound; auto.
    - intros [|n] y; discriminate.
    - intros n kk _ Hn E. eapply HN1; eauto.
    - intros Hh n _ Hn E. eapply HN2; eauto.
  Qed.

  Lemma ins_sound : forall p fresh slot k, ins_ok fresh k p = true -> slot_ok fresh slot k ->
    member (ins slot p xv) (insert_rec k p x) = true.
  Proof.
    induction p as [|s p IH]; intros fresh slot k Hok Hs.
    - cbn. rewrite Hnx. exact Hx.
    - destruct s as [f|i].
      + (* ---- field ---- *)
        rewrite insert_rec_field by exact Hnx. cbv zeta. cbn [ins].
        cbn [ins_ok] in Hok.
        set (c := match obj_of k with Some c => c | None => coll_empty end) in *.
        set (cur := coll_at bytes_eqb c f) in *.
        unfold k_object. rewrite member_obj. cbn [obj_of].
        (* is the slot an object that is a member? *)
        assert ((exists m, fresh = false /\ slot = Some (VObj m) /\ obj_of k = Some c /\ obj_ok m c = true
                           /\ wf_value (VObj m) = true)
                \/ (match slot with Some (VObj m) => m | _ => [] end = []
                    /\ others_optional bytes_eqb c f = true /\ ins_ok true cur p = true)) as Hcase.
        { destruct fresh; cbn [slot_ok orb] in *.
          - subst slot. right. apply andb_true_iff in Hok. tauto.
          - destruct Hs as (v & -> & Hm & Hwf). destruct (obj_of k) as [c0|] eqn:Ho; cbn [is_some negb] in Hok.
            + destruct v; try (right; split; [reflexivity|];
                assert (is_exact k = false) as Hex
                  by (apply (not_exact_obj k c0 Ho); right; eexists; split; [exact Hm | intros; congruence]);
                rewrite Hex in Hok; cbn [andb orb] in Hok;
                rewrite !andb_true_iff in Hok; tauto).
              left. exists kvs. rewrite member_obj, Ho in Hm. auto.
            + right. destruct v; try (split; [reflexivity | apply andb_true_iff in Hok; tauto]).
              rewrite member_obj, Ho in Hm. discriminate. }
        destruct Hcase as [(m & -> & -> & Ho & Hm & Hwf)|(Hnil & Hopt & Hokf)].
        * (* existing object *)
          rewrite Ho in Hok. cbn [orb is_some negb] in Hok. rewrite !andb_true_iff in Hok.
          destruct Hok as [[Hok1 Hok2] Hok3]. destruct (wf_obj _ Hwf) as [Hsorted Hwfc].
          apply obj_ok_intro.
          -- intros g w Hin. destruct (in_obj_set_sorted _ _ _ Hsorted _ _ Hin) as [[-> ->]|[Hne Hin']].
             ++ unfold coll_at. cbn [set_known known].
                rewrite (aget_aset_same bytes_eqb bytes_cmp bytes_eqb_eq bytes_cmp_eq).
                destruct (obj_get m f) as [w0|] eqn:Eg.
                ** apply (IH false); auto. exists w0. repeat split; auto.
                   --- eapply obj_ok_elem; eauto. apply obj_get_in; auto.
                   --- eapply Hwfc. apply obj_get_in; eauto.
                ** apply (IH true); [|reflexivity].
                   pose proof (obj_ok_absent _ _ _ Hm Eg) as Hu. fold cur in Hu. rewrite Hu in Hok2.
                   rewrite andb_false_r in Hok2. exact Hok2.
             ++ unfold coll_at. cbn [set_known known unknown_kind unknown].
                rewrite (aget_aset_other bytes_eqb bytes_cmp bytes_eqb_eq bytes_cmp_eq) by auto.
                apply (obj_ok_elem _ _ _ _ Hm Hin').
          -- intros g Hg. destruct (bytes_eqb g f) eqn:Egf.
             ++ apply bytes_eqb_eq in Egf; subst. rewrite obj_get_set_same in Hg. discriminate.
             ++ apply bytes_eqb_neq in Egf. rewrite obj_get_set_other in Hg by auto.
                unfold coll_at. cbn [set_known known unknown_kind unknown].
                rewrite (aget_aset_other bytes_eqb bytes_cmp bytes_eqb_eq bytes_cmp_eq) by auto.
                apply (obj_ok_absent _ _ _ Hm Hg).
        * (* a fresh object {f: ..} *)
          rewrite Hnil. cbn [obj_set obj_get].
          apply obj_ok_intro.
          -- intros g w [H|[]]. inversion H; subst.
             unfold coll_at. cbn [set_known known].
             rewrite (aget_aset_same bytes_eqb bytes_cmp bytes_eqb_eq bytes_cmp_eq).
             apply (IH true); [exact Hokf | reflexivity].
          -- intros g Hg. cbn [obj_get] in Hg. destruct (bytes_eqb f g) eqn:Efg; [discriminate|].
             assert (g <> f) as Hne by (apply bytes_eqb_neq in Efg; congruence).
             unfold coll_at. cbn [set_known known unknown_kind unknown].
             rewrite (aget_aset_other bytes_eqb bytes_cmp bytes_eqb_eq bytes_cmp_eq) by auto.
             apply (others_optional_spec bytes_eqb bytes_eqb_eq c f g Hopt Hne).
      + (* ---- index ---- *)
        cbn [ins]. cbn [ins_ok] in Hok.
        set (c := match arr_of k with Some c => c | None => coll_empty end) in *.
        destruct (Z.ltb_spec i 0) as [Hi|Hi].
        * (* negative, inside an exact array of known length *)
          rewrite !andb_true_iff in Hok.
          destruct Hok as [[[[[[[Hfr Hex] Hsome] Hreq] Hdef] Hd] Hr] Hokc].
          apply negb_true_iff in Hfr. subst fresh. apply negb_true_iff in Hd. apply Nat.leb_le in Hr.
          destruct Hs as (v & -> & Hm & Hwf).
          destruct (arr_of k) as [c0|] eqn:Ha; [|discriminate]. subst c.
          destruct (exact_arr_only _ _ _ Hex Ha Hm) as [vs ->].
          rewrite member_arr, Ha in Hm.
          pose proof (arr_len_ge _ _ Hm Hreq) as Hge. pose proof (arr_len_le _ _ Hm Hd) as Hle.
          assert (length vs = known_len c0) as HL by lia.
          rewrite (insert_rec_index_neg k c0 i p x Hnx Hi Ha Hdef Hd Hr). cbv zeta.
          set (idx := known_len c0 - Z.to_nat (- i)) in *.
          assert (idx < length vs) as Hidx by (unfold idx; lia).
          assert (arr_get vs i = nth_error vs idx) as Hget.
          { unfold arr_get, arr_index. destruct (Z.leb_spec 0 i); [lia|].
            destruct (Z.leb_spec 0 (Z.of_nat (length vs) + i)); [|lia]. f_equal. unfold idx. lia. }
          assert (forall w, arr_set vs i w = arr_set vs (Z.of_nat idx) w) as Hset.
          { intros w. unfold arr_set. destruct (Z.leb_spec 0 i); [lia|].
            destruct (Z.leb_spec 0 (Z.of_nat idx)); [|lia]. rewrite Nat2Z.id.
            destruct (Nat.ltb_spec (length vs) (Z.to_nat (- i))); [lia|].
            destruct (Nat.leb_spec (length vs) idx); [lia|]. f_equal. unfold idx. lia. }
          rewrite Hget, Hset. unfold k_array. rewrite member_arr. cbn [arr_of].
          destruct (nth_error vs idx) as [y|] eqn:En; [|apply nth_error_None in En; lia].
          apply arr_set_pos_sound.
          -- intros n z Hn. eapply arr_ok_elem; eauto.
          -- intros n Hn _. eapply arr_ok_absent; eauto.
          -- intros; lia.
          -- intros; lia.
          -- rewrite coll_at_filled_idx. apply (IH false); auto.
             exists y. repeat split; [eapply arr_ok_elem; eauto | eapply wf_arr; eauto].
        * (* non-negative *)
          rewrite (insert_rec_index_pos k i p x Hnx Hi). cbv zeta. fold c.
          set (idx := Z.to_nat i) in *. set (cur := coll_at Nat.eqb c idx) in *.
          replace i with (Z.of_nat idx) by (unfold idx; lia).
          unfold k_array. rewrite member_arr. cbn [arr_of]. rewrite coll_at_filled_idx. fold cur.
          assert ((exists vs, fresh = false /\ slot = Some (VArr vs) /\ arr_of k = Some c /\ arr_ok vs c = true
                              /\ wf_value (VArr vs) = true)
                  \/ (match slot with Some (VArr a) => a | _ => [] end = []
                      /\ idx_fresh_ok c idx = true /\ ins_ok true cur p = true)) as Hcase.
          { destruct fresh; cbn [slot_ok orb] in *.
            - subst slot. right. apply andb_true_iff in Hok. tauto.
            - destruct Hs as (v & -> & Hm & Hwf). destruct (arr_of k) as [c0|] eqn:Ha; cbn [is_some negb] in Hok.
              + destruct v; try (right; split; [reflexivity|];
                  assert (is_exact k = false) as Hex
                    by (apply (not_exact_arr k c0 Ha); right; eexists; split; [exact Hm | intros; congruence]);
                  rewrite Hex in Hok; cbn [andb orb] in Hok;
                  rewrite !andb_true_iff in Hok; tauto).
                left. exists vs. rewrite member_arr, Ha in Hm. auto.
              + right. destruct v; try (split; [reflexivity | apply andb_true_iff in Hok; tauto]).
                rewrite member_arr, Ha in Hm. discriminate. }
          destruct Hcase as [(vs & -> & -> & Ha & Hm & Hwf)|(Hnil & Hfok & Hokf)].
          -- (* existing array *)
             rewrite Ha in Hok. cbn [orb is_some negb] in Hok. rewrite !andb_true_iff in Hok.
             destruct Hok as [[[Hpad Hok1] Hok2] Hok3].
             destruct (idx_pad_ok_spec _ _ Hpad) as [HP1 HP2].
             assert (arr_get vs (Z.of_nat idx) = nth_error vs idx) as Hget.
             { unfold arr_get, arr_index. destruct (Z.leb_spec 0 (Z.of_nat idx)); [|lia].
               rewrite Nat2Z.id. reflexivity. }
             rewrite Hget.
             apply arr_set_pos_sound.
             ++ intros n z Hn. eapply arr_ok_elem; eauto.
             ++ intros n Hn _. eapply arr_ok_absent; eauto.
             ++ intros n kk Hl Hn E. apply (HP1 n kk Hn E).
                apply arr_ok_spec in Hm. destruct Hm as [_ Hm2]. apply (Hm2 n kk E Hl).
             ++ intros Hh n Hl Hn E. unfold ahas in Hh.
                destruct (aget Nat.eqb (known c) idx) as [ki|] eqn:Ei; [|discriminate].
                assert (p_undefined (prims_of ki) = true) as Hu.
                { apply arr_ok_spec in Hm. destruct Hm as [_ Hm2]. apply (Hm2 idx ki Ei). lia. }
                exact (HP2 ki eq_refl Hu n Hn E).
             ++ destruct (nth_error vs idx) as [y|] eqn:En.
                ** apply (IH false); auto. exists y.
                   repeat split; [eapply arr_ok_elem; eauto | eapply wf_arr; eauto].
                ** apply (IH true); [|reflexivity].
                   assert (p_undefined (prims_of cur) = true) as Hu.
                   { eapply arr_ok_absent; eauto. apply nth_error_None. exact En. }
                   rewrite Hu, andb_false_r in Hok2. exact Hok2.
          -- (* a fresh array *)
             rewrite Hnil. replace (arr_get [] (Z.of_nat idx)) with (@None value) by (symmetry; apply arr_get_nil).
             apply fresh_index_sound; auto. apply (IH true); [exact Hokf | reflexivity].
  Qed.
End InsertSound.

Lemma member_upgrade v k : member v k = true -> member v (upgrade_undefined k) = true.
Proof. intros H. apply (upgrade_sound (Some v) k H). Qed.

Theorem insert_sound v k p xv kx :
  wf_value v = true -> ins_ok false k p = true -> member v k = true -> member xv kx = true ->
  member (insert v p xv) (kinsert k p kx) = true.
Proof.
  intros Hwf Hok Hm Hx. unfold insert, kinsert.
  apply (ins_sound xv (upgrade_undefined kx) (member_upgrade _ _ Hx) p false (Some v) k Hok).
  exists v. auto.
Qed.
