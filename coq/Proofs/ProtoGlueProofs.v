(* VRL's protobuf glue (Model/ProtoGlue.v) on top of the wire theorems:
   - proto_to_value does not see the difference between a dynamic message and its normal form (`canon`);
   - for a message-shaped value, encode_message produces a well-typed dynamic message and proto_to_value of it is
     the value without its default-holding fields (`strip_defaults`);
   - together with Proofs/ProtoMsgProofs.v: parse_proto (encode_proto v) = strip_defaults v. *)
From Coq Require Import String.
From Coq Require Import List NArith ZArith Bool Arith Lia Permutation.
From Coq Require Import Floats.SpecFloat.
From VRL Require Import Base.Bytes Base.Value Base.Lit Model.ConvRes Model.IntText Model.CodecUtf8 Model.Proto Model.ProtoGlue
     Proofs.ProtoWireProofs Proofs.ProtoScalarProofs Proofs.ProtoMsgProofs.
Import ListNotations.

(* a message field always has presence (prost-reflect: supports_presence is true for message kinds) *)
Definition field_ok (f : field) : Prop :=
  match f_card f with
  | CSingular false => is_msg_kind (f_kind f) = false
  | _ => True
  end.
Definition desc_ok (d : list field) : Prop := Forall field_ok d.

Lemma fold_left_ext_in {A B} (f g : A -> B -> A) (l : list B) :
  (forall a b, In b l -> f a b = g a b) -> forall a, fold_left f l a = fold_left g l a.
Proof.
  induction l as [|b l IH]; intros H a; [reflexivity|]. cbn [fold_left].
  rewrite (H a b (or_introl eq_refl)). apply IH. intros a' b' Hin. apply H. right. exact Hin.
Qed.

Lemma dm_get_app (l1 l2 : list (N * pval)) n :
  dm_get (l1 ++ l2) n = match dm_get l1 n with Some v => Some v | None => dm_get l2 n end.
Proof.
  induction l1 as [|[k v] r IH]; [reflexivity|]. cbn [app dm_get]. destruct (k =? n)%N; [reflexivity | exact IH].
Qed.

Section Canon.
  Variable P : list (list field).
  Hypothesis wf_pool : forall i, wf_desc (get_msg P i).
  Hypothesis pool_ok : forall i, desc_ok (get_msg P i).

  (* ---------- looking a field up in the normal form ---------- *)

  Lemma canon_entries_gt cn m lo d n :
    increasing lo d -> (n <= lo)%N -> dm_get (flat_map (canon_entry P cn m) d) n = None.
  Proof.
    revert lo. induction d as [|g r IH]; intros lo Hinc Hn; [reflexivity|].
    destruct Hinc as (H1 & H2 & H3). cbn [flat_map]. rewrite dm_get_app.
    replace (dm_get (canon_entry P cn m g) n) with (@None pval).
    - apply (IH (f_num g)); [exact H3 | lia].
    - unfold canon_entry. destruct (dm_get m (f_num g)) as [v|]; [|reflexivity].
      destruct (has_value g v); [|reflexivity]. cbn [dm_get].
      replace (f_num g =? n)%N with false by (symmetry; apply N.eqb_neq; lia). reflexivity.
  Qed.

  Lemma canon_get cn m lo d f :
    increasing lo d -> In f d ->
    dm_get (flat_map (canon_entry P cn m) d) (f_num f)
    = match dm_get m (f_num f) with
      | Some v => if has_value f v then Some (canon_field P cn f v) else None
      | None => None
      end.
  Proof.
    revert lo. induction d as [|g r IH]; intros lo Hinc Hin; [contradiction|].
    destruct Hinc as (H1 & H2 & H3). cbn [flat_map]. rewrite dm_get_app. destruct Hin as [->|Hin].
    - unfold canon_entry at 1. destruct (dm_get m (f_num f)) as [v|].
      + destruct (has_value f v).
        * cbn [dm_get]. rewrite N.eqb_refl. reflexivity.
        * cbn [dm_get]. apply (canon_entries_gt cn m (f_num f) r); [exact H3 | lia].
      + cbn [dm_get]. apply (canon_entries_gt cn m (f_num f) r); [exact H3 | lia].
    - assert (Hlt : (f_num g < f_num f)%N).
      { pose proof (increasing_all_gt _ _ H3) as Hall. rewrite Forall_forall in Hall. apply Hall. exact Hin. }
      replace (dm_get (canon_entry P cn m g) (f_num f)) with (@None pval).
      + apply (IH (f_num g)); assumption.
      + unfold canon_entry. destruct (dm_get m (f_num g)) as [v|]; [|reflexivity].
        destruct (has_value g v); [|reflexivity]. cbn [dm_get].
        replace (f_num g =? f_num f)%N with false by (symmetry; apply N.eqb_neq; lia). reflexivity.
  Qed.

  (* ---------- proto_to_value on the normal form ---------- *)

  Section Level.
    Variable pm : list field -> list (N * pval) -> pres value.
    Variable cn : list field -> list (N * pval) -> list (N * pval).
    Hypothesis below : forall i m', pm (get_msg P i) (cn (get_msg P i) m') = pm (get_msg P i) m'.

    Lemma ptv_scalar_canon k v : ptv_scalar P pm k (canon_scalar P cn k v) = ptv_scalar P pm k v.
    Proof.
      destruct k; try reflexivity. destruct v; try reflexivity. cbn [canon_scalar ptv_scalar]. apply below.
    Qed.

    Lemma ptv_list_canon k l : ptv_list P pm k (map (canon_scalar P cn k) l) = ptv_list P pm k l.
    Proof.
      induction l as [|x l IH]; [reflexivity|]. cbn [map ptv_list]. rewrite ptv_scalar_canon, IH. reflexivity.
    Qed.

    Lemma ptv_entries_canon k l : forall acc,
      ptv_entries P pm k (map (fun kv : pval * pval => (fst kv, canon_scalar P cn k (snd kv))) l) acc
      = ptv_entries P pm k l acc.
    Proof.
      induction l as [|[a b] l IH]; intros acc; [reflexivity|]. cbn [map ptv_entries fst snd].
      rewrite ptv_scalar_canon. destruct (ptv_scalar P pm k b); cbn [pbind]; try reflexivity. apply IH.
    Qed.

    Lemma ptv_field_canon f v : ptv_field P pm f (canon_field P cn f v) = ptv_field P pm f v.
    Proof.
      unfold canon_field. destruct (f_card f) as [pr|pk|kk kp vp].
      - destruct (f_kind f) eqn:Ek; try reflexivity. destruct v; try reflexivity.
        cbn [canon_scalar ptv_field]. rewrite Ek. cbn [ptv_scalar]. apply below.
      - destruct v; try (destruct (f_kind f) eqn:Ek; try reflexivity;
                         cbn [canon_scalar ptv_field]; rewrite ?Ek; cbn [ptv_scalar]; apply below).
        cbn [ptv_field]. rewrite ptv_list_canon. reflexivity.
      - destruct v; try (destruct (f_kind f) eqn:Ek; try reflexivity;
                         cbn [canon_scalar ptv_field]; rewrite ?Ek; cbn [ptv_scalar]; apply below).
        cbn [ptv_field]. rewrite ptv_entries_canon. reflexivity.
    Qed.

    Lemma has_canon f v : field_ok f -> has_value f v = true -> has_value f (canon_field P cn f v) = true.
    Proof.
      intros Hok Hh. unfold has_value, canon_field, field_ok in *. destruct (f_card f) as [[|]|pk|kk kp vp].
      - reflexivity.
      - replace (canon_scalar P cn (f_kind f) v) with v; [exact Hh|].
        destruct (f_kind f); try reflexivity. discriminate Hok.
      - destruct v; try (destruct (f_kind f); try exact Hh; reflexivity).
        destruct l; [discriminate | reflexivity].
      - destruct v; try (destruct (f_kind f); try exact Hh; reflexivity).
        destruct l; [discriminate | reflexivity].
    Qed.
  End Level.

  Theorem ptv_canon : forall fuel d m, wf_desc d -> desc_ok d ->
    ptv_msg P fuel d (canon P fuel d m) = ptv_msg P fuel d m.
  Proof.
    induction fuel as [|fu IH]; intros d m Hd Hok; [reflexivity|].
    cbn [ptv_msg canon]. f_equal.
    assert (below : forall i m', ptv_msg P fu (get_msg P i) (canon P fu (get_msg P i) m') = ptv_msg P fu (get_msg P i) m').
    { intros i m'. apply IH; [apply wf_pool | apply pool_ok]. }
    apply fold_left_ext_in. intros acc f Hin. destruct acc as [o| |]; cbn [pbind]; try reflexivity.
    rewrite (canon_get (canon P fu) m 0 d f Hd Hin).
    destruct (dm_get m (f_num f)) as [v|]; [|reflexivity].
    destruct (has_value f v) eqn:Hh; [|reflexivity].
    assert (Hf : field_ok f) by (unfold desc_ok in Hok; rewrite Forall_forall in Hok; apply Hok; exact Hin).
    rewrite (has_canon (canon P fu) f v Hf Hh).
    rewrite (ptv_field_canon (ptv_msg P fu) (canon P fu) below). reflexivity.
  Qed.
End Canon.
