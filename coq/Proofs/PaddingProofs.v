(* unpad (pad m) = m for the four block paddings, every message length (Model/Padding.v). *)
From Coq Require Import List NArith Bool Arith Lia.
From VRL Require Import Base.Bytes Model.Padding.
Import ListNotations.

Lemma rev_repeat {A} (x : A) n : rev (repeat x n) = repeat x n.
Proof.
  induction n as [|n IH]; [reflexivity|].
  cbn [repeat rev]. rewrite IH. clear IH.
  induction n as [|n IH]; [reflexivity|]. cbn [repeat app]. rewrite IH. reflexivity.
Qed.

Lemma firstn_repeat_app {A} (x : A) n l : firstn n (repeat x n ++ l) = repeat x n.
Proof. induction n; cbn; [reflexivity|]. f_equal. assumption. Qed.

Lemma forallb_repeat {A} (f : A -> bool) x n : f x = true -> forallb f (repeat x n) = true.
Proof. intros H. induction n; cbn; [reflexivity|]. rewrite H. assumption. Qed.

Lemma firstn_app_exact {A} (l1 l2 : list A) : firstn (length l1) (l1 ++ l2) = l1.
Proof. induction l1; cbn; [reflexivity|]. f_equal. assumption. Qed.

Lemma skipn_app_exact {A} (l1 l2 : list A) : skipn (length l1) (l1 ++ l2) = l2.
Proof. induction l1; cbn; [reflexivity|]. assumption. Qed.

(* ---------- the tail block ---------- *)

Lemma filler_len filler n : length (firstn n (filler ++ repeat 0%N n)) = n.
Proof. rewrite firstn_length, app_length, repeat_length. lia. Qed.

Lemma pad_tail_length s filler tail :
  (length tail < bsz)%nat -> length (pad_tail s filler tail) = bsz.
Proof.
  unfold bsz. intros H. destruct s; unfold pad_tail, bsz;
    repeat (rewrite ?app_length, ?repeat_length, ?filler_len; cbn [length]); lia.
Qed.

Lemma pad_tail_firstn s filler tail : firstn (length tail) (pad_tail s filler tail) = tail.
Proof. destruct s; unfold pad_tail; apply firstn_app_exact. Qed.

(* the count byte and the n-1 bytes before it, seen from the end of the block *)
Lemma count_byte_facts n :
  (1 <= n <= 16)%nat ->
  N.eqb (N.of_nat n) 0 = false /\ N.ltb (N.of_nat 16) (N.of_nat n) = false /\ N.to_nat (N.of_nat n) = n.
Proof.
  intros H. repeat split.
  - apply N.eqb_neq. lia.
  - apply N.ltb_ge. lia.
  - apply Nat2N.id.
Qed.

Lemma raw_unpad_pad_tail s filler tail :
  (length tail < bsz)%nat -> raw_unpad s (pad_tail s filler tail) = Some (length tail).
Proof.
  unfold bsz. intros H.
  pose proof (pad_tail_length s filler tail H) as HL. unfold bsz in HL.
  set (n := (16 - length tail)%nat).
  assert (Hn : (1 <= n <= 16)%nat) by (unfold n; lia).
  destruct (count_byte_facts n Hn) as (Z0 & Z16 & Zid).
  assert (Hn1 : n = S (n - 1)) by lia.
  destruct s.
  - (* PKCS#7 *)
    unfold raw_unpad. rewrite HL. unfold pad_tail, bsz. fold n.
    rewrite rev_app_distr, rev_repeat. rewrite Hn1 at 2. cbn [repeat app].
    rewrite Z0, Z16. cbn [orb]. rewrite Zid, firstn_repeat_app.
    rewrite forallb_repeat by apply N.eqb_refl. f_equal. unfold n. lia.
  - (* ANSI X9.23 *)
    unfold raw_unpad. rewrite HL. unfold pad_tail, bsz. fold n.
    rewrite !rev_app_distr, rev_repeat. cbn [rev app].
    rewrite Z0, Z16. cbn [orb]. rewrite Zid, firstn_repeat_app.
    rewrite forallb_repeat by reflexivity. f_equal. unfold n. lia.
  - (* ISO 7816-4 *)
    unfold raw_unpad, pad_tail, bsz. fold n.
    rewrite rev_app_distr. cbn [rev]. rewrite rev_repeat, <- app_assoc. cbn [app].
    generalize (n - 1)%nat as z. induction z as [|z IH].
    + cbn. rewrite rev_length. reflexivity.
    + cbn [repeat app scan7816]. cbn [N.eqb]. exact IH.
  - (* ISO 10126 *)
    unfold raw_unpad. rewrite HL. unfold pad_tail, bsz. fold n.
    rewrite !rev_app_distr. cbn [rev app].
    rewrite Z0, Z16. cbn [orb]. rewrite Zid. f_equal. unfold n. lia.
Qed.

(* ---------- whole messages ---------- *)

Lemma full_blocks_facts (m : bytes) :
  let full := (length m - length m mod bsz)%nat in
  length (firstn full m) = full /\ (length (skipn full m) = length m mod bsz)%nat
  /\ (length m mod bsz < bsz)%nat /\ (full mod bsz = 0)%nat.
Proof.
  unfold bsz. cbv zeta.
  pose proof (Nat.mod_upper_bound (length m) 16 ltac:(lia)) as Hlt.
  pose proof (Nat.mod_le (length m) 16 ltac:(lia)) as Hle.
  repeat split.
  - rewrite firstn_length. lia.
  - rewrite skipn_length. lia.
  - exact Hlt.
  - pose proof (Nat.div_mod (length m) 16 ltac:(lia)) as Hdm.
    replace (length m - length m mod 16)%nat with ((length m / 16) * 16)%nat by lia.
    apply Nat.mod_mul. lia.
Qed.

Lemma pad_length s filler m : length (pad s filler m) = padded_len (length m).
Proof.
  unfold pad, padded_len. destruct (full_blocks_facts m) as (Hf & Hs & Hlt & Hz).
  rewrite app_length, Hf, pad_tail_length by (rewrite Hs; exact Hlt).
  unfold bsz in *.
  pose proof (Nat.div_mod (length m) 16 ltac:(lia)). lia.
Qed.

Theorem unpad_pad s filler m : unpad s (pad s filler m) = Some m.
Proof.
  destruct (full_blocks_facts m) as (Hf & Hs & Hlt & Hz).
  unfold unpad, pad.
  set (full := (length m - length m mod bsz)%nat) in *.
  set (head := firstn full m) in *. set (tail := skipn full m) in *.
  assert (HT : length (pad_tail s filler tail) = bsz) by (apply pad_tail_length; rewrite Hs; exact Hlt).
  rewrite app_length, HT, Hf.
  replace ((full + bsz) mod bsz)%nat with 0%nat.
  2:{ unfold bsz in *. rewrite <- Nat.add_mod_idemp_l by lia. rewrite Hz. reflexivity. }
  replace (Nat.eqb (full + bsz) 0) with false by (symmetry; apply Nat.eqb_neq; unfold bsz; lia).
  cbn [Nat.eqb negb orb].
  replace (full + bsz - bsz)%nat with (length head) by lia.
  rewrite skipn_app_exact, raw_unpad_pad_tail by (rewrite Hs; exact Hlt).
  rewrite firstn_app. replace (length head + length tail - length head)%nat with (length tail) by lia.
  rewrite pad_tail_firstn.
  rewrite firstn_all2 by lia.
  unfold head, tail. f_equal. apply firstn_skipn.
Qed.

(* unpad never invents data: whatever it accepts is a prefix of what it was given *)
Lemma unpad_prefix s data m : unpad s data = Some m -> exists k, m = firstn k data.
Proof.
  unfold unpad. destruct (_ || _); [discriminate|].
  destruct (raw_unpad s _); [|discriminate]. intros H. inversion H. eexists. reflexivity.
Qed.
