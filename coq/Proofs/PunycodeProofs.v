(* Proofs for Model/Punycode.v (validate: false paths and the RFC 3492 integer coding). *)
From Coq Require Import List NArith Bool Lia.
From VRL Require Import Base.Bytes Model.Base16 Model.Base64 Model.CodecUtf8 Model.Punycode
     Proofs.CodecProofs Proofs.PercentProofs.
Import ListNotations.
Local Open Scope N_scope.

(* ---------- digits ---------- *)
Lemma digit_of_to_digit v : v < 36 -> digit_of (to_digit v) = Some v.
Proof.
  intros H.
  assert (E : (match digit_of (to_digit v) with Some m => N.eqb m v | None => false end) = true).
  { apply (forallb_Nrange (fun v => match digit_of (to_digit v) with Some m => N.eqb m v | None => false end) 36);
      [vm_compute; reflexivity | exact H]. }
  destruct (digit_of (to_digit v)) as [m|]; [|discriminate]. apply N.eqb_eq in E. congruence.
Qed.

Lemma thr_bounds k bias : 1 <= thr k bias <= 26.
Proof.
  unfold thr. destruct (k <=? bias) eqn:E1; [lia|]. apply N.leb_gt in E1.
  destruct (bias + 26 <=? k) eqn:E2; [lia|]. apply N.leb_gt in E2. lia.
Qed.

(* ---------- the generalized variable-length integer (RFC 3492 section 3.3): decoding inverts encoding.
   The side condition i + 36*q*w <= u32::MAX is what the decoder's checked u32 arithmetic needs: idna's
   decoder multiplies the weight *before* it knows whether another digit follows, so a value can fit in
   u32 and still be rejected when it is within a factor 36 of the limit. ---------- *)
Lemma vli_roundtrip fuel : forall q k bias i w rest,
  q < 10 ^ N.of_nat fuel -> i + 36 * q * w <= u32_max ->
  dec_vli (enc_vli (S fuel) q k bias ++ rest) i w k bias = Some (i + q * w, rest).
Proof.
  induction fuel as [|f IH]; intros q k bias i w rest Hq Hov.
  - cbn in Hq. assert (q = 0) by lia. subst q. cbn [enc_vli].
    assert (Ht := thr_bounds k bias). destruct (0 <? thr k bias) eqn:E; [|apply N.ltb_ge in E; lia].
    cbn [app dec_vli]. rewrite digit_of_to_digit by lia. rewrite N.mul_0_l, N.add_0_r.
    destruct (u32_max <? 0) eqn:E1; [discriminate|].
    destruct (u32_max <? i) eqn:E2; [apply N.ltb_lt in E2; lia|]. rewrite E. reflexivity.
  - remember (S f) as f1 eqn:Ef1. cbn [enc_vli]. subst f1. assert (Ht := thr_bounds k bias). set (t := thr k bias) in *.
    destruct (q <? t) eqn:Eqt.
    + apply N.ltb_lt in Eqt. cbn [app dec_vli]. rewrite digit_of_to_digit by lia.
      assert (Hqw : q * w <= 36 * q * w) by nia.
      destruct (u32_max <? q * w) eqn:E1; [apply N.ltb_lt in E1; lia|].
      destruct (u32_max <? i + q * w) eqn:E2; [apply N.ltb_lt in E2; lia|].
      fold t. rewrite (proj2 (N.ltb_lt _ _) Eqt). reflexivity.
    + apply N.ltb_ge in Eqt.
      set (T := 36 - t) in *. assert (HT : 10 <= T <= 35) by (unfold T; lia).
      assert (HT0 : T <> 0) by lia.
      assert (Hdm := N.div_mod (q - t) T HT0). assert (Hr := N.mod_lt (q - t) T HT0).
      set (q' := (q - t) / T) in *. set (r := (q - t) mod T) in *.
      assert (Eq : q = t + T * q' + r) by lia.
      cbn [app dec_vli]. rewrite digit_of_to_digit by (unfold T in *; lia).
      assert (Hdw : (t + r) * w <= 36 * q * w) by (rewrite Eq; nia).
      destruct (u32_max <? (t + r) * w) eqn:E1; [apply N.ltb_lt in E1; lia|].
      destruct (u32_max <? i + (t + r) * w) eqn:E2; [apply N.ltb_lt in E2; lia|].
      fold t. destruct (t + r <? t) eqn:E3; [apply N.ltb_lt in E3; lia|].
      assert (HwT : w * T <= 36 * q * w) by (rewrite Eq; nia).
      fold T. destruct (u32_max <? w * T) eqn:E4; [apply N.ltb_lt in E4; lia|].
      rewrite IH.
      * f_equal. f_equal. rewrite Eq. ring.
      * assert (q' * 10 <= q) by (rewrite Eq; nia).
        replace (N.of_nat (S f)) with (N.succ (N.of_nat f)) in Hq by lia.
        rewrite N.pow_succ_r' in Hq. lia.
      * rewrite Eq in Hov. nia.
Qed.

(* with the actual fuel of the model (12 steps cover every u32) *)
Theorem vli_roundtrip_u32 delta bias i rest :
  i + 36 * delta <= u32_max ->
  dec_vli (enc_vli 12 delta 36 bias ++ rest) i 1 36 bias = Some (i + delta, rest).
Proof.
  intros H. rewrite (vli_roundtrip 11).
  - rewrite N.mul_1_r. reflexivity.
  - unfold u32_max in H. cbn. lia.
  - lia.
Qed.

(* ---------- ASCII pass-through ---------- *)
Lemma ascii_valid_utf8 s : is_ascii_bytes s = true -> valid_utf8 s = true.
Proof.
  induction s as [|c r IH]; intros H; [reflexivity|].
  unfold is_ascii_bytes in H. cbn [forallb] in H. apply andb_true_iff in H. destruct H as [Hc Hr].
  cbn [valid_utf8]. rewrite Hc. apply IH. exact Hr.
Qed.

Lemma plain_is_ascii s : forallb plain_char s = true -> is_ascii_bytes s = true.
Proof.
  induction s as [|c r IH]; intros H; [reflexivity|].
  cbn [forallb] in H. apply andb_true_iff in H. destruct H as [Hc Hr].
  unfold is_ascii_bytes. cbn [forallb]. fold (is_ascii_bytes r). rewrite (IH Hr), andb_true_r.
  unfold plain_char in Hc. apply N.ltb_lt.
  repeat (apply orb_true_iff in Hc; destruct Hc as [Hc|Hc]);
    repeat (apply andb_true_iff in Hc; destruct Hc as [? Hc]);
    repeat match goal with H : (_ <=? _) = true |- _ => apply N.leb_le in H
                         | H : (_ =? _) = true |- _ => apply N.eqb_eq in H end; lia.
Qed.

Lemma plain_no_prefix s : forallb plain_char s = true -> contains xn_prefix s = false.
Proof.
  induction s as [|c r IH]; intros H; [reflexivity|].
  cbn [forallb] in H. apply andb_true_iff in H. destruct H as [Hc Hr].
  cbn [contains]. rewrite (IH Hr), orb_false_r.
  destruct r as [|c1 [|c2 r2]]; try (cbn; rewrite ?andb_false_r; reflexivity).
  (* "xn--" needs a '-' in third position, which is not a plain character *)
  cbn [forallb] in Hr. apply andb_true_iff in Hr. destruct Hr as [_ Hr].
  apply andb_true_iff in Hr. destruct Hr as [H2 _].
  unfold xn_prefix. cbn [starts_with].
  destruct (45 =? c2) eqn:E; [|rewrite !andb_false_r; cbn; rewrite ?andb_false_r; reflexivity].
  apply N.eqb_eq in E. subst c2. discriminate.
Qed.

(* a string of lower-case ASCII letters, digits and dots goes through both functions unchanged *)
Theorem punycode_ascii_passthrough s :
  forallb plain_char s = true ->
  encode_punycode_novalidate s = ROk s /\ decode_punycode_novalidate s = ROk s.
Proof.
  intros H. assert (Hv := ascii_valid_utf8 s (plain_is_ascii s H)).
  unfold encode_punycode_novalidate, decode_punycode_novalidate.
  rewrite (lossy_valid s Hv), H, (plain_no_prefix s H). split; reflexivity.
Qed.

(* an input label that already is an A-label is decoded although it was never encoded *)
Theorem punycode_alabel_refuted :
  exists s d, forallb (fun c => c <? 128) s = true /\ to_lowercase s = s
              /\ encode_punycode_novalidate s = ROk s /\ decode_punycode_novalidate s = ROk d /\ d <> s.
Proof.
  exists [120; 110; 45; 45; 109; 97; 97; 110; 97; 45; 112; 116; 97], [109; 97; 195; 177; 97; 110; 97].
  vm_compute. repeat split; congruence.
Qed.

(* ---------- UTF-8: re-encoding the decoded code points of valid UTF-8 gives the bytes back ---------- *)
Lemma in_range_iff lo hi x : in_range lo hi x = true <-> lo <= x <= hi.
Proof. unfold in_range. rewrite andb_true_iff, !N.leb_le. tauto. Qed.

Ltac ranges :=
  repeat match goal with
  | H : in_range _ _ _ = true |- _ => apply in_range_iff in H
  | H : is_cont _ = true |- _ => unfold is_cont in H
  | H : width2 _ = true |- _ => unfold width2 in H
  | H : width3 _ = true |- _ => unfold width3 in H
  | H : width4 _ = true |- _ => unfold width4 in H
  | H : (_ <? _) = false |- _ => apply N.ltb_ge in H
  | H : (_ <? _) = true |- _ => apply N.ltb_lt in H
  | H : (_ =? _) = true |- _ => apply N.eqb_eq in H
  | H : (_ =? _) = false |- _ => apply N.eqb_neq in H
  end.

Lemma ok3_bounds b0 b1 : width3 b0 = true -> ok3 b0 b1 = true ->
  128 <= b1 <= 191 /\ 2048 <= (b0 - 224) * 4096 + (b1 - 128) * 64.
Proof.
  intros Hw H. unfold ok3 in H. ranges.
  destruct (b0 =? 224) eqn:E0; ranges; [lia|].
  destruct (in_range 225 236 b0) eqn:E1; ranges; [lia|].
  destruct (b0 =? 237) eqn:E2; ranges; [lia|].
  destruct (in_range 238 239 b0) eqn:E3; ranges; [lia|discriminate].
Qed.

Lemma ok4_bounds b0 b1 : width4 b0 = true -> ok4 b0 b1 = true ->
  128 <= b1 <= 191 /\ 65536 <= (b0 - 240) * 262144 + (b1 - 128) * 4096.
Proof.
  intros Hw H. unfold ok4 in H. ranges.
  destruct (b0 =? 240) eqn:E0; ranges; [lia|].
  destruct (in_range 241 243 b0) eqn:E1; ranges; [lia|].
  destruct (b0 =? 244) eqn:E2; ranges; [lia|discriminate].
Qed.

Lemma cp2 b0 b1 : 194 <= b0 <= 223 -> 128 <= b1 <= 191 ->
  utf8_of_cp ((b0 - 192) * 64 + (b1 - 128)) = [b0; b1].
Proof.
  intros H0 H1. unfold utf8_of_cp. set (c := (b0 - 192) * 64 + (b1 - 128)).
  assert (Hc : 128 <= c < 2048) by (unfold c; lia).
  destruct (c <? 128) eqn:E; ranges; [lia|]. destruct (c <? 2048) eqn:E'; ranges; [|lia].
  assert (Hd : c / 64 = b0 - 192).
  { unfold c. rewrite N.div_add_l by lia. rewrite N.div_small by lia. lia. }
  assert (Hm : c mod 64 = b1 - 128).
  { unfold c. rewrite N.add_comm, N.mod_add by lia. apply N.mod_small; lia. }
  rewrite Hd, Hm. f_equal; [lia|f_equal; lia].
Qed.

Lemma cp3 b0 b1 b2 : 224 <= b0 <= 239 -> 128 <= b1 <= 191 -> 128 <= b2 <= 191 ->
  2048 <= (b0 - 224) * 4096 + (b1 - 128) * 64 ->
  utf8_of_cp ((b0 - 224) * 4096 + (b1 - 128) * 64 + (b2 - 128)) = [b0; b1; b2].
Proof.
  intros H0 H1 H2 Hlo. unfold utf8_of_cp. set (c := (b0 - 224) * 4096 + (b1 - 128) * 64 + (b2 - 128)).
  assert (Hc : 2048 <= c < 65536) by (unfold c; lia).
  destruct (c <? 128) eqn:E; ranges; [lia|]. destruct (c <? 2048) eqn:E'; ranges; [lia|].
  destruct (c <? 65536) eqn:E''; ranges; [|lia].
  assert (Hm : c mod 64 = b2 - 128).
  { unfold c. replace ((b0 - 224) * 4096 + (b1 - 128) * 64 + (b2 - 128))
      with ((b2 - 128) + ((b0 - 224) * 64 + (b1 - 128)) * 64) by lia.
    rewrite N.mod_add by lia. apply N.mod_small; lia. }
  assert (Hd : c / 64 = (b0 - 224) * 64 + (b1 - 128)).
  { unfold c. replace ((b0 - 224) * 4096 + (b1 - 128) * 64 + (b2 - 128))
      with (((b0 - 224) * 64 + (b1 - 128)) * 64 + (b2 - 128)) by lia.
    rewrite N.div_add_l by lia. rewrite (N.div_small (b2 - 128)) by lia. lia. }
  assert (Hm2 : (c / 64) mod 64 = b1 - 128).
  { rewrite Hd. rewrite N.add_comm, N.mod_add by lia. apply N.mod_small; lia. }
  assert (Hd2 : c / 4096 = b0 - 224).
  { replace 4096 with (64 * 64) by reflexivity. rewrite <- N.div_div by lia. rewrite Hd.
    rewrite N.div_add_l by lia. rewrite N.div_small by lia. lia. }
  rewrite Hd2, Hm2, Hm. repeat (f_equal; try lia).
Qed.

Lemma cp4 b0 b1 b2 b3 : 240 <= b0 <= 244 -> 128 <= b1 <= 191 -> 128 <= b2 <= 191 -> 128 <= b3 <= 191 ->
  65536 <= (b0 - 240) * 262144 + (b1 - 128) * 4096 ->
  utf8_of_cp ((b0 - 240) * 262144 + (b1 - 128) * 4096 + (b2 - 128) * 64 + (b3 - 128)) = [b0; b1; b2; b3].
Proof.
  intros H0 H1 H2 H3 Hlo. unfold utf8_of_cp.
  set (c := (b0 - 240) * 262144 + (b1 - 128) * 4096 + (b2 - 128) * 64 + (b3 - 128)).
  assert (Hc : 65536 <= c) by (unfold c; lia).
  destruct (c <? 128) eqn:E; ranges; [lia|]. destruct (c <? 2048) eqn:E'; ranges; [lia|].
  destruct (c <? 65536) eqn:E''; ranges; [lia|].
  set (u := (b0 - 240) * 4096 + (b1 - 128) * 64 + (b2 - 128)).
  assert (Ec : c = u * 64 + (b3 - 128)) by (unfold c, u; lia).
  assert (Hm : c mod 64 = b3 - 128).
  { rewrite Ec, N.add_comm, N.mod_add by lia. apply N.mod_small; lia. }
  assert (Hd : c / 64 = u).
  { rewrite Ec. rewrite N.div_add_l by lia. rewrite (N.div_small (b3 - 128)) by lia. lia. }
  set (v := (b0 - 240) * 64 + (b1 - 128)).
  assert (Eu : u = v * 64 + (b2 - 128)) by (unfold u, v; lia).
  assert (Hm2 : (c / 64) mod 64 = b2 - 128).
  { rewrite Hd, Eu, N.add_comm, N.mod_add by lia. apply N.mod_small; lia. }
  assert (Hd2 : c / 4096 = v).
  { replace 4096 with (64 * 64) by reflexivity. rewrite <- N.div_div by lia. rewrite Hd, Eu.
    rewrite N.div_add_l by lia. rewrite (N.div_small (b2 - 128)) by lia. lia. }
  assert (Hm3 : (c / 4096) mod 64 = b1 - 128).
  { rewrite Hd2. unfold v. rewrite N.add_comm, N.mod_add by lia. apply N.mod_small; lia. }
  assert (Hd3 : c / 262144 = b0 - 240).
  { replace 262144 with (4096 * 64) by reflexivity. rewrite <- N.div_div by lia. rewrite Hd2. unfold v.
    rewrite N.div_add_l by lia. rewrite N.div_small by lia. lia. }
  rewrite Hd3, Hm3, Hm2, Hm. repeat (f_equal; try lia).
Qed.

Lemma utf8_reencode_aux (n : nat) : forall s, (length s <= n)%nat -> valid_utf8 s = true ->
  utf8_of_cps (utf8_chars s) = s.
Proof.
  induction n as [|n IH]; intros s Hl Hv.
  - destruct s; [reflexivity | cbn in Hl; lia].
  - destruct s as [|b0 r]; [reflexivity|].
    cbn [valid_utf8 utf8_chars] in *. cbn [length] in Hl.
    destruct (b0 <? 128) eqn:E0.
    { unfold utf8_of_cps. cbn [flat_map]. fold (utf8_of_cps (utf8_chars r)).
      unfold utf8_of_cp. rewrite E0. cbn [app]. f_equal. apply IH; [lia|exact Hv]. }
    destruct (width2 b0) eqn:W2.
    { destruct r as [|b1 r1]; [discriminate|]. apply andb_true_iff in Hv. destruct Hv as [Hc Hv].
      assert (Hlt : (b0 <? 224) = true) by (ranges; apply N.ltb_lt; lia). rewrite Hlt.
      unfold utf8_of_cps. cbn [flat_map]. fold (utf8_of_cps (utf8_chars r1)).
      rewrite cp2 by (ranges; lia). cbn [app]. do 2 f_equal. apply IH; [cbn [length] in Hl; lia|exact Hv]. }
    destruct (width3 b0) eqn:W3.
    { destruct r as [|b1 [|b2 r2]]; try discriminate.
      apply andb_true_iff in Hv. destruct Hv as [Hv Hr]. apply andb_true_iff in Hv. destruct Hv as [H1 H2].
      destruct (ok3_bounds b0 b1 W3 H1) as [Hb1 Hlo].
      assert (Hlt : (b0 <? 224) = false) by (ranges; apply N.ltb_ge; lia). rewrite Hlt.
      assert (Hlt' : (b0 <? 240) = true) by (ranges; apply N.ltb_lt; lia). rewrite Hlt'.
      unfold utf8_of_cps. cbn [flat_map]. fold (utf8_of_cps (utf8_chars r2)).
      rewrite cp3 by (ranges; lia). cbn [app]. do 3 f_equal. apply IH; [cbn [length] in Hl; lia|exact Hr]. }
    destruct (width4 b0) eqn:W4.
    { destruct r as [|b1 [|b2 [|b3 r3]]]; try discriminate.
      apply andb_true_iff in Hv. destruct Hv as [Hv Hr]. apply andb_true_iff in Hv. destruct Hv as [Hv H3].
      apply andb_true_iff in Hv. destruct Hv as [H1 H2].
      destruct (ok4_bounds b0 b1 W4 H1) as [Hb1 Hlo].
      assert (Hlt : (b0 <? 224) = false) by (ranges; apply N.ltb_ge; lia). rewrite Hlt.
      assert (Hlt' : (b0 <? 240) = false) by (ranges; apply N.ltb_ge; lia). rewrite Hlt'.
      unfold utf8_of_cps. cbn [flat_map]. fold (utf8_of_cps (utf8_chars r3)).
      rewrite cp4 by (ranges; lia). cbn [app]. do 4 f_equal. apply IH; [cbn [length] in Hl; lia|exact Hr]. }
    discriminate.
Qed.

Theorem utf8_reencode s : valid_utf8 s = true -> utf8_of_cps (utf8_chars s) = s.
Proof. apply (utf8_reencode_aux (length s)); lia. Qed.

(* ---------- valid_utf8 is closed under concatenation ---------- *)
Lemma valid_utf8_app_aux (n : nat) : forall a b, (length a <= n)%nat ->
  valid_utf8 a = true -> valid_utf8 b = true -> valid_utf8 (a ++ b) = true.
Proof.
  induction n as [|n IH]; intros a b Hl Ha Hb.
  - destruct a; [exact Hb | cbn in Hl; lia].
  - destruct a as [|b0 r]; [exact Hb|].
    cbn [app valid_utf8] in *. cbn [length] in Hl.
    destruct (b0 <? 128). { apply IH; [lia|exact Ha|exact Hb]. }
    destruct (width2 b0).
    { destruct r as [|b1 r1]; [discriminate|]. cbn [app]. apply andb_true_iff in Ha. destruct Ha as [Hc Ha].
      rewrite Hc. apply IH; [cbn [length] in Hl; lia|exact Ha|exact Hb]. }
    destruct (width3 b0).
    { destruct r as [|b1 [|b2 r2]]; try discriminate. cbn [app].
      apply andb_true_iff in Ha. destruct Ha as [Ha Hr]. rewrite Ha. apply IH; [cbn [length] in Hl; lia|exact Hr|exact Hb]. }
    destruct (width4 b0).
    { destruct r as [|b1 [|b2 [|b3 r3]]]; try discriminate. cbn [app].
      apply andb_true_iff in Ha. destruct Ha as [Ha Hr]. rewrite Ha. apply IH; [cbn [length] in Hl; lia|exact Hr|exact Hb]. }
    discriminate.
Qed.

Lemma valid_utf8_app a b : valid_utf8 a = true -> valid_utf8 b = true -> valid_utf8 (a ++ b) = true.
Proof. apply (valid_utf8_app_aux (length a)); lia. Qed.

(* ---------- split / join ---------- *)
Definition no_dot (p : bytes) : bool := forallb (fun c => negb (c =? dot)) p.

Lemma split_no_dot p : no_dot p = true -> split_on dot p = [p].
Proof.
  induction p as [|c r IH]; intros H; [reflexivity|].
  unfold no_dot in H. cbn [forallb] in H. apply andb_true_iff in H. destruct H as [Hc Hr].
  cbn [split_on]. apply negb_true_iff in Hc. rewrite Hc. rewrite (IH Hr). reflexivity.
Qed.

Lemma split_app_dot p rest : no_dot p = true -> split_on dot (p ++ dot :: rest) = p :: split_on dot rest.
Proof.
  induction p as [|c r IH]; intros H.
  - cbn [app split_on]. rewrite N.eqb_refl. reflexivity.
  - unfold no_dot in H. cbn [forallb] in H. apply andb_true_iff in H. destruct H as [Hc Hr].
    cbn [app split_on]. apply negb_true_iff in Hc. rewrite Hc. rewrite (IH Hr). reflexivity.
Qed.

Lemma split_join parts : parts <> [] -> Forall (fun p => no_dot p = true) parts ->
  split_on dot (join_with dot parts) = parts.
Proof.
  induction parts as [|p ps IH]; intros Hne Hall; [congruence|].
  inversion Hall as [|? ? Hp Hps]; subst.
  destruct ps as [|q qs].
  - cbn [join_with]. apply split_no_dot; exact Hp.
  - cbn [join_with]. rewrite (split_app_dot p _ Hp). f_equal. apply IH; [discriminate|exact Hps].
Qed.

Lemma valid_utf8_join parts : Forall (fun p => valid_utf8 p = true) parts ->
  valid_utf8 (join_with dot parts) = true.
Proof.
  induction parts as [|p ps IH]; intros Hall; [reflexivity|].
  inversion Hall as [|? ? Hp Hps]; subst.
  destruct ps as [|q qs]; [exact Hp|].
  cbn [join_with]. apply valid_utf8_app; [exact Hp|]. cbn [valid_utf8]. cbn [dot N.ltb N.compare Pos.compare Pos.compare_cont].
  apply IH; exact Hps.
Qed.

(* ---------- substring search ---------- *)
Lemma starts_with_app p a b : starts_with p a = true -> starts_with p (a ++ b) = true.
Proof.
  revert a. induction p as [|x p IH]; intros a H; [reflexivity|].
  destruct a as [|y a]; [discriminate|]. cbn [starts_with app] in *.
  apply andb_true_iff in H. destruct H as [H1 H2]. rewrite H1, (IH a H2). reflexivity.
Qed.

Lemma contains_starts p s : starts_with p s = true -> contains p s = true.
Proof. intros H. destruct s; cbn [contains]; rewrite H; reflexivity. Qed.

Lemma contains_app_l p a b : contains p a = true -> contains p (a ++ b) = true.
Proof.
  induction a as [|x a IH]; intros H.
  - cbn [contains] in H. rewrite orb_false_r in H. destruct p; [|discriminate].
    destruct b; reflexivity.
  - cbn [contains app] in *. apply orb_true_iff in H. destruct H as [H|H].
    + assert (E := starts_with_app p (x :: a) b H). cbn [app] in E. rewrite E. reflexivity.
    + rewrite (IH H). apply orb_true_r.
Qed.

Lemma contains_app_r p a b : contains p b = true -> contains p (a ++ b) = true.
Proof.
  induction a as [|x a IH]; intros H; [exact H|].
  cbn [contains app]. rewrite (IH H). apply orb_true_r.
Qed.

Lemma contains_join p parts q : In q parts -> starts_with p q = true -> contains p (join_with dot parts) = true.
Proof.
  induction parts as [|a ps IH]; intros Hin Hs; [contradiction|].
  destruct ps as [|b bs].
  - destruct Hin as [->|[]]. cbn [join_with]. apply contains_starts; exact Hs.
  - change (join_with dot (a :: b :: bs)) with (a ++ dot :: join_with dot (b :: bs)).
    destruct Hin as [->|Hin].
    + apply contains_app_l. apply contains_starts; exact Hs.
    + apply contains_app_r.
      change (contains p (dot :: join_with dot (b :: bs)))
        with (starts_with p (dot :: join_with dot (b :: bs)) || contains p (join_with dot (b :: bs))).
      rewrite (IH Hin Hs). apply orb_true_r.
Qed.

(* ---------- the validate: false round trip, relative to the bootstring inverse ---------- *)
Record good_part (p : bytes) : Prop := {
  gp_nodot : no_dot p = true;
  gp_valid : valid_utf8 p = true;
  gp_lower : to_lowercase p = p;                       (* already lower-case *)
  gp_noprefix : starts_with xn_prefix p = false        (* not already an A-label *)
}.

Section PunycodeGlue.
  (* RFC 3492 decoding inverts encoding, and the encoder's output is made of ASCII letters, digits and '-'
     (stated for the model's puny_encode / puny_decode; unproved, compared with idna on every run) *)
  Hypothesis bootstring_inverse : forall cps e,
    puny_encode cps = Some e ->
    puny_decode e = Some cps /\ is_ascii_bytes e = true /\ no_dot e = true.

  Definition encodable (p : bytes) : Prop :=
    is_ascii_bytes p = false -> puny_encode (utf8_chars p) <> None.     (* no u32 overflow *)

  Lemma encode_part_ascii p : good_part p -> is_ascii_bytes p = true -> encode_part p = p.
  Proof.
    intros G Ha. unfold encode_part. rewrite Ha, orb_true_r. apply (gp_lower p G).
  Qed.

  Lemma encode_part_spec p : good_part p -> encodable p ->
    no_dot (encode_part p) = true /\ valid_utf8 (encode_part p) = true /\ decode_part (encode_part p) = p
    /\ (is_ascii_bytes p = false -> starts_with xn_prefix (encode_part p) = true).
  Proof.
    intros G He. destruct (is_ascii_bytes p) eqn:Ha.
    - rewrite (encode_part_ascii p G Ha). repeat split; try apply G.
      + unfold decode_part. rewrite (gp_noprefix p G). reflexivity.
      + discriminate.
    - unfold encode_part. rewrite Ha, (gp_noprefix p G). cbn [orb]. rewrite (gp_lower p G).
      destruct (puny_encode (utf8_chars p)) as [e|] eqn:Ee; [|exfalso; apply (He Ha); exact Ee].
      destruct (bootstring_inverse _ _ Ee) as [Hd [Hae Hnd]].
      split; [|split; [|split]].
      + unfold no_dot, xn_prefix. cbn [app forallb]. exact Hnd.
      + apply ascii_valid_utf8. unfold is_ascii_bytes, xn_prefix. cbn [app forallb]. exact Hae.
      + unfold decode_part, xn_prefix. cbn [app starts_with]. rewrite !N.eqb_refl. cbn [andb skipn].
        rewrite Hd. apply utf8_reencode. apply G.
      + intros _. unfold xn_prefix. cbn [app starts_with]. rewrite !N.eqb_refl. reflexivity.
  Qed.

  Theorem punycode_novalidate_roundtrip parts :
    parts <> [] -> Forall good_part parts -> Forall encodable parts ->
    let s := join_with dot parts in
    exists e, encode_punycode_novalidate s = ROk e /\ decode_punycode_novalidate e = ROk s.
  Proof.
    intros Hne Hgood Henc s.
    assert (Hvs : valid_utf8 s = true).
    { apply valid_utf8_join. eapply Forall_impl; [|exact Hgood]. intros p G; apply G. }
    assert (Hsplit : split_on dot s = parts).
    { apply split_join; [exact Hne|]. eapply Forall_impl; [|exact Hgood]. intros p G; apply G. }
    unfold encode_punycode_novalidate. rewrite (lossy_valid s Hvs).
    destruct (forallb plain_char s) eqn:Hplain.
    { exists s. split; [reflexivity|]. apply punycode_ascii_passthrough; exact Hplain. }
    rewrite Hsplit. eexists. split; [reflexivity|].
    set (eparts := map encode_part parts).
    assert (Hspec : Forall (fun p => no_dot (encode_part p) = true /\ valid_utf8 (encode_part p) = true
                                      /\ decode_part (encode_part p) = p
                                      /\ (is_ascii_bytes p = false -> starts_with xn_prefix (encode_part p) = true)) parts).
    { rewrite Forall_forall in *. intros p Hin. apply encode_part_spec; [apply Hgood|apply Henc]; exact Hin. }
    assert (Hve : valid_utf8 (join_with dot eparts) = true).
    { apply valid_utf8_join. unfold eparts. rewrite Forall_map. eapply Forall_impl; [|exact Hspec].
      intros p H; apply H. }
    assert (Hse : split_on dot (join_with dot eparts) = eparts).
    { apply split_join.
      - unfold eparts. destruct parts; [congruence|discriminate].
      - unfold eparts. rewrite Forall_map. eapply Forall_impl; [|exact Hspec]. intros p H; apply H. }
    assert (Hdec : map decode_part eparts = parts).
    { unfold eparts. rewrite map_map. rewrite <- (map_id parts) at 2. apply map_ext_in.
      intros p Hin. rewrite Forall_forall in Hspec. apply (Hspec p Hin). }
    unfold decode_punycode_novalidate. rewrite (lossy_valid _ Hve).
    destruct (contains xn_prefix (join_with dot eparts)) eqn:Hc; cbn [negb].
    - rewrite Hse, Hdec. reflexivity.
    - (* no "xn--" anywhere: then no part was converted, the encoder returned the input *)
      assert (Hall : forall p, In p parts -> is_ascii_bytes p = true).
      { intros p Hin. destruct (is_ascii_bytes p) eqn:Ha; [reflexivity|]. exfalso.
        rewrite Forall_forall in Hspec. destruct (Hspec p Hin) as [_ [_ [_ Hpre]]].
        assert (Hin' : In (encode_part p) eparts) by (unfold eparts; apply in_map; exact Hin).
        rewrite (contains_join xn_prefix eparts _ Hin' (Hpre Ha)) in Hc. discriminate. }
      assert (Heq : eparts = parts).
      { unfold eparts. rewrite <- (map_id parts) at 2. apply map_ext_in. intros p Hin.
        rewrite Forall_forall in Hgood. apply encode_part_ascii; [apply Hgood; exact Hin|apply Hall; exact Hin]. }
      rewrite Heq. reflexivity.
  Qed.
End PunycodeGlue.
