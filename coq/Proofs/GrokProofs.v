(* C32: proofs about the grok model (Model/Grok.v):
   - the matcher is sound and complete for the declarative reading, captures included;
   - escaping of literal text is complete;
   - alias expansion cannot run out of fuel, and a reference to an alias under expansion is rejected. *)
From Coq Require Import List NArith ZArith Bool Lia PeanoNat.
From VRL Require Import Base.Bytes Base.Value Model.ValueCrud Model.IntText Model.Grok.
Import ListNotations.
Local Open Scope list_scope.

(* ---------- induction principle for the nested inductive piece ---------- *)
Section piece_ind_nested.
  Variable P : piece -> Prop.
  Hypothesis HLit : forall c, P (PLit c).
  Hypothesis HOpt : forall k, P (POpt k).
  Hypothesis HRep : forall k m g, P (PRep k m g).
  Hypothesis HBnd : P PBnd.
  Hypothesis HGrp : forall cap ps, Forall P ps -> P (PGrp cap ps).

  Fixpoint piece_ind' (x : piece) : P x :=
    match x with
    | PLit c => HLit c
    | POpt k => HOpt k
    | PRep k m g => HRep k m g
    | PBnd => HBnd
    | PGrp cap ps =>
        HGrp cap ps ((fix fl (l : list piece) : Forall P l :=
                        match l with
                        | [] => Forall_nil _
                        | y :: r => Forall_cons y (piece_ind' y) (fl r)
                        end) ps)
    end.
End piece_ind_nested.

(* ---------- unfolding of the nested fixpoints ---------- *)
Lemma run_piece_grp cap ps caps p s :
  run_piece (PGrp cap ps) caps p s =
  map (fun a : alt =>
         let '(c1, p1, s1) := a in
         match cap with
         | Some g => ((g, firstn (List.length s - List.length s1) s) :: c1, p1, s1)
         | None => (c1, p1, s1)
         end) (run_list ps caps p s).
Proof. reflexivity. Qed.

Lemma mpiece_grp cap ps p w n cs :
  mpiece (PGrp cap ps) p w n cs <->
  exists c0, mlist ps p w n c0 /\ cs = match cap with Some g => (g, w) :: c0 | None => c0 end.
Proof. reflexivity. Qed.

(* ---------- small facts ---------- *)
Lemma last_of_app p a b : last_of p (a ++ b) = last_of (last_of p a) b.
Proof. revert p. induction a as [|c a IH]; intros p; cbn; auto. Qed.

Lemma hd_opt_app w s : hd_opt (w ++ s) = nextc w (hd_opt s).
Proof. destruct w; reflexivity. Qed.

Lemma down_from_In hi : forall lo n, In n (down_from hi lo) <-> (lo <= n <= hi)%nat.
Proof.
  induction hi as [|h IH]; intros lo n; cbn [down_from].
  - destruct (Nat.eqb_spec lo 0); cbn; [subst; lia|]. split; [tauto|lia].
  - destruct (Nat.leb_spec lo (S h)); [|split; [cbn; tauto|lia]].
    destruct (Nat.eqb_spec lo (S h)).
    + subst. cbn. split; [intros [E|[]]; lia|intros; left; lia].
    + cbn [In]. rewrite IH. lia.
Qed.

Lemma lengths_In g lo hi n : In n (lengths g lo hi) <-> (lo <= n <= hi)%nat.
Proof. unfold lengths. destruct g; [|rewrite <- in_rev]; apply down_from_In. Qed.

Lemma take_cls_le k s : (take_cls k s <= List.length s)%nat.
Proof. induction s as [|c r IH]; cbn; auto. destruct (in_cls k c); cbn; lia. Qed.

Lemma take_cls_firstn k s : forall n, (n <= take_cls k s)%nat -> forallb (in_cls k) (firstn n s) = true.
Proof.
  induction s as [|c r IH]; intros n H; cbn in *.
  - destruct n; reflexivity.
  - destruct n; [reflexivity|]. destruct (in_cls k c) eqn:E; [|lia]. cbn. rewrite E. apply IH. lia.
Qed.

Lemma take_cls_app k w s : forallb (in_cls k) w = true -> (List.length w <= take_cls k (w ++ s))%nat.
Proof.
  induction w as [|c r IH]; cbn; intros H; [lia|].
  apply andb_true_iff in H. destruct H as [H1 H2]. rewrite H1. specialize (IH H2). lia.
Qed.

Lemma firstn_app_exact {A} (w s : list A) : firstn (List.length w) (w ++ s) = w.
Proof. induction w; cbn; auto. f_equal; auto. Qed.

Lemma skipn_app_exact {A} (w s : list A) : skipn (List.length w) (w ++ s) = s.
Proof. induction w; cbn; auto. Qed.

(* ---------- soundness ---------- *)
Definition alt_ok_p (x : piece) (caps : list (nat * bytes)) (p : option N) (s : bytes) (a : alt) : Prop :=
  let '(c1, p1, s1) := a in
  exists w cs, s = w ++ s1 /\ mpiece x p w (hd_opt s1) cs /\ c1 = cs ++ caps /\ p1 = last_of p w.
Definition alt_ok_l (ps : list piece) (caps : list (nat * bytes)) (p : option N) (s : bytes) (a : alt) : Prop :=
  let '(c1, p1, s1) := a in
  exists w cs, s = w ++ s1 /\ mlist ps p w (hd_opt s1) cs /\ c1 = cs ++ caps /\ p1 = last_of p w.

Definition Sound (x : piece) : Prop := forall caps p s a, In a (run_piece x caps p s) -> alt_ok_p x caps p s a.

Lemma sound_list ps : Forall Sound ps ->
  forall caps p s a, In a (run_list ps caps p s) -> alt_ok_l ps caps p s a.
Proof.
  induction 1 as [|y r Hy Hr IH]; intros caps p s a Hin; cbn [run_list] in Hin.
  - destruct Hin as [E|[]]. subst a. exists [], []. cbn. auto.
  - apply in_flat_map in Hin. destruct Hin as [[[c1 p1] s1] [H1 H2]].
    specialize (Hy _ _ _ _ H1). cbn in Hy. destruct Hy as [w1 [cs1 [E1 [M1 [E2 E3]]]]].
    specialize (IH _ _ _ _ H2). destruct a as [[c2 p2] s2]. cbn in IH. destruct IH as [w2 [cs2 [F1 [M2 [F2 F3]]]]].
    exists (w1 ++ w2), (cs2 ++ cs1). subst. repeat split.
    + rewrite <- app_assoc. reflexivity.
    + cbn [mlist]. exists w1, w2, cs1, cs2. repeat split; auto.
      rewrite hd_opt_app in M1. exact M1.
    + rewrite app_assoc. reflexivity.
    + rewrite last_of_app. reflexivity.
Qed.

Theorem run_sound x : Sound x.
Proof.
  induction x using piece_ind'; intros caps p s a Hin.
  - (* lit *) cbn [run_piece] in Hin. destruct s as [|d r]; [destruct Hin|].
    destruct (N.eqb_spec d c); [|destruct Hin]. destruct Hin as [E|[]]. subst.
    exists [c], []. cbn. auto.
  - (* opt *) cbn [run_piece] in Hin. destruct s as [|d r].
    + destruct Hin as [E|[]]. subst. exists [], []. cbn. auto.
    + destruct (in_cls k d) eqn:Ek.
      * destruct Hin as [E|[E|[]]]; subst.
        -- exists [d], []. cbn. repeat split; auto. right. exists d. auto.
        -- exists [], []. cbn. auto.
      * destruct Hin as [E|[]]. subst. exists [], []. cbn. auto.
  - (* rep *) cbn [run_piece] in Hin. apply in_map_iff in Hin. destruct Hin as [n [E Hn]]. subst a.
    apply lengths_In in Hn. destruct Hn as [Hlo Hhi].
    exists (firstn n s), []. cbn [alt_ok_p mpiece app]. repeat split.
    + symmetry. apply firstn_skipn.
    + apply take_cls_firstn; auto.
    + intros Hm. subst m. pose proof (take_cls_le k s). intros C.
      assert (L : List.length (firstn n s) = n) by (apply firstn_length_le; lia). rewrite C in L. cbn in L. lia.
  - (* bnd *) cbn [run_piece] in Hin. destruct (bnd p (hd_opt s)) eqn:Eb; [|destruct Hin].
    destruct Hin as [E|[]]. subst. exists [], []. cbn. auto.
  - (* grp *) rewrite run_piece_grp in Hin. apply in_map_iff in Hin. destruct Hin as [[[c1 p1] s1] [E Hin]].
    pose proof (sound_list ps H _ _ _ _ Hin) as Hl. cbn in Hl. destruct Hl as [w [cs [E1 [M [E2 E3]]]]].
    assert (Hw : firstn (List.length s - List.length s1) s = w).
    { subst s. rewrite app_length. replace (List.length w + List.length s1 - List.length s1)%nat with (List.length w) by lia.
      apply firstn_app_exact. }
    destruct cap as [g|]; subst a; cbn [alt_ok_p].
    + exists w, ((g, w) :: cs). repeat split; auto.
      * apply mpiece_grp. exists cs. auto.
      * rewrite Hw, E2. reflexivity.
    + exists w, cs. repeat split; auto. apply mpiece_grp. exists cs. auto.
Qed.

(* ---------- completeness ---------- *)
Definition Complete (x : piece) : Prop :=
  forall caps p w s1 cs, mpiece x p w (hd_opt s1) cs -> In (cs ++ caps, last_of p w, s1) (run_piece x caps p (w ++ s1)).

Lemma complete_list ps : Forall Complete ps ->
  forall caps p w s1 cs, mlist ps p w (hd_opt s1) cs -> In (cs ++ caps, last_of p w, s1) (run_list ps caps p (w ++ s1)).
Proof.
  induction 1 as [|y r Hy Hr IH]; intros caps p w s1 cs M; cbn [mlist] in M; cbn [run_list].
  - destruct M as [E1 E2]. subst. cbn. auto.
  - destruct M as [w1 [w2 [c1 [c2 [E1 [E2 [M1 M2]]]]]]]. subst.
    apply in_flat_map. exists (c1 ++ caps, last_of p w1, w2 ++ s1). split.
    + rewrite <- app_assoc. apply Hy. rewrite hd_opt_app. exact M1.
    + rewrite <- app_assoc, last_of_app. apply IH. exact M2.
Qed.

Theorem run_complete x : Complete x.
Proof.
  induction x using piece_ind'; intros caps p w s1 cs M.
  - cbn [mpiece] in M. destruct M as [E1 E2]. subst. cbn. rewrite N.eqb_refl. left; reflexivity.
  - cbn [mpiece] in M. destruct M as [[E|[c [E Hc]]] E2]; subst; cbn.
    + destruct s1 as [|d r]; [left; reflexivity|]. destruct (in_cls k d); [right; left|left]; reflexivity.
    + rewrite Hc. left; reflexivity.
  - cbn [mpiece] in M. destruct M as [Hf [Hm E]]. subst. cbn [run_piece app].
    apply in_map_iff. exists (List.length w). split.
    + rewrite firstn_app_exact, skipn_app_exact. reflexivity.
    + apply lengths_In. split; [|apply take_cls_app; auto].
      destruct m; [|lia]. destruct w; [exfalso; apply Hm; auto|cbn; lia].
  - cbn [mpiece] in M. destruct M as [E1 [Hb E2]]. subst. cbn. rewrite Hb. left; reflexivity.
  - apply mpiece_grp in M. destruct M as [c0 [M E]]. rewrite run_piece_grp.
    pose proof (complete_list ps H caps p w s1 c0 M) as Hin.
    apply in_map_iff. exists (c0 ++ caps, last_of p w, s1). split; auto.
    assert (Hw : firstn (List.length (w ++ s1) - List.length s1) (w ++ s1) = w).
    { rewrite app_length. replace (List.length w + List.length s1 - List.length s1)%nat with (List.length w) by lia.
      apply firstn_app_exact. }
    destruct cap as [g|]; subst cs; [rewrite Hw|]; reflexivity.
Qed.

Lemma all_sound ps : Forall Sound ps.
Proof. apply Forall_forall. intros x _. apply run_sound. Qed.
Lemma all_complete ps : Forall Complete ps.
Proof. apply Forall_forall. intros x _. apply run_complete. Qed.

(* ---------- the anchored rule ---------- *)
Lemma filter_hd {A} (f : A -> bool) l a r : filter f l = a :: r -> In a l /\ f a = true.
Proof. intros H. assert (Hin : In a (filter f l)) by (rewrite H; left; auto). apply filter_In in Hin. exact Hin. Qed.

(* whatever the matcher returns is a split of the whole text, with the captures of that split *)
Theorem match_rule_sound ps t caps : match_rule ps t = Some caps -> mlist ps None t None caps.
Proof.
  unfold match_rule. destruct (filter _ (run_list ps [] None t)) as [|a r] eqn:E; [discriminate|].
  intros H. inversion H; subst caps. apply filter_hd in E. destruct E as [Hin Hf].
  pose proof (sound_list ps (all_sound ps) _ _ _ _ Hin) as Hl. destruct a as [[c1 p1] s1]. cbn in Hf.
  destruct s1; [|discriminate]. cbn in Hl. destruct Hl as [w [cs [E1 [M [E2 E3]]]]].
  rewrite app_nil_r in E1, E2. subst. exact M.
Qed.

(* the matcher fails only if no split exists *)
Theorem match_rule_complete ps t : matches ps t -> match_rule ps t <> None.
Proof.
  intros [cs M]. pose proof (complete_list ps (all_complete ps) [] None t [] cs M) as Hin.
  rewrite !app_nil_r in Hin. unfold match_rule.
  destruct (filter _ (run_list ps [] None t)) as [|a r] eqn:E; [|discriminate].
  assert (Hf : In (cs, last_of None t, []) (filter (fun a : alt => match snd a with [] => true | _ => false end)
                                                   (run_list ps [] None t))).
  { apply filter_In. split; auto. }
  rewrite E in Hf. destruct Hf.
Qed.

Theorem match_rule_iff ps t : (exists caps, match_rule ps t = Some caps) <-> matches ps t.
Proof.
  split.
  - intros [caps H]. exists caps. apply match_rule_sound; auto.
  - intros H. apply match_rule_complete in H. destruct (match_rule ps t); [eauto|congruence].
Qed.

(* ---------- literal text ---------- *)
Lemma is_punct_bsl : is_punct BSL = true. Proof. reflexivity. Qed.
Lemma is_punct_pct : is_punct PCT = true. Proof. reflexivity. Qed.
Lemma is_punct_lbr : is_punct LBR = true. Proof. reflexivity. Qed.

Lemma esc_hd_not_lbr s : hd_opt (esc s) <> Some LBR.
Proof.
  destruct s as [|c r]; cbn; [discriminate|]. unfold esc_char. destruct (is_punct c) eqn:E; cbn.
  - intros H. inversion H.
  - intros H. inversion H. subst c. rewrite is_punct_lbr in E. discriminate.
Qed.

Lemma scan_plain fuel c r ts :
  scan fuel r = Some ts -> (c <> PCT \/ hd_opt r <> Some LBR) -> scan (S fuel) (c :: r) = Some (TChr c :: ts).
Proof.
  intros H Hc. cbn [scan]. rewrite H. destruct (N.eqb_spec c PCT); [|reflexivity].
  destruct r as [|c2 r2]; [reflexivity|]. destruct (N.eqb_spec c2 LBR); [|reflexivity].
  exfalso. destruct Hc as [Hc|Hc]; [congruence|]. apply Hc. subst. reflexivity.
Qed.

Lemma scan_esc s : forall fuel, (List.length (esc s) < fuel)%nat -> scan fuel (esc s) = Some (map TChr (esc s)).
Proof.
  induction s as [|c r IH]; intros fuel Hf.
  - destruct fuel; [cbn in Hf; lia|reflexivity].
  - cbn [esc flat_map] in *. fold (esc r) in *. unfold esc_char in *. destruct (is_punct c) eqn:Ep.
    + cbn [app List.length] in Hf. cbn [app map]. destruct fuel as [|[|f2]]; try lia.
      apply scan_plain; [|left; discriminate].
      apply scan_plain; [apply IH; lia|right; apply esc_hd_not_lbr].
    + cbn [app List.length] in Hf. cbn [app map]. destruct fuel as [|f1]; [lia|].
      apply scan_plain; [apply IH; lia|]. left. intros E. subst. rewrite is_punct_pct in Ep. discriminate.
Qed.

Lemma comp_toks_esc al rec s : forall cx,
  comp_toks al rec (map TChr (esc s)) cx =
  Some (inl (mkCtx (rev (map PLit s) ++ c_pieces cx) (c_fields cx) (c_stack cx))).
Proof.
  induction s as [|c r IH]; intros cx.
  - destruct cx; reflexivity.
  - cbn [esc flat_map]. fold (esc r). unfold esc_char. destruct (is_punct c) eqn:Ep.
    + cbn [app map comp_toks]. rewrite N.eqb_refl, Ep. rewrite IH. cbn [c_pieces c_fields c_stack map rev].
      rewrite <- app_assoc. reflexivity.
    + cbn [app map comp_toks]. destruct (N.eqb_spec c BSL); [subst; rewrite is_punct_bsl in Ep; discriminate|].
      rewrite Ep, IH. cbn [c_pieces c_fields c_stack map rev]. rewrite <- app_assoc. reflexivity.
Qed.

Theorem compile_literal al s : compile_rule al (esc s) = Some (inl (map PLit s, [])).
Proof.
  unfold compile_rule, scan_text. rewrite scan_esc by lia. cbn [comp]. rewrite comp_toks_esc.
  cbn [c_pieces c_fields]. rewrite app_nil_r, rev_involutive. reflexivity.
Qed.

Lemma mlist_lit s : forall p w n cs, mlist (map PLit s) p w n cs <-> w = s /\ cs = [].
Proof.
  induction s as [|c r IH]; intros p w n cs; cbn [map mlist].
  - tauto.
  - split.
    + intros [w1 [w2 [c1 [c2 [E1 [E2 [M1 M2]]]]]]]. cbn in M1. destruct M1 as [F1 F2]. apply IH in M2. destruct M2. subst. auto.
    + intros [E1 E2]. subst. exists [c], r, [], []. repeat split; auto. apply IH. auto.
Qed.

Theorem literal_matches s t : matches (map PLit s) t <-> t = s.
Proof.
  unfold matches. split.
  - intros [cs M]. apply mlist_lit in M. tauto.
  - intros E. exists []. apply mlist_lit. auto.
Qed.

Theorem literal_exec s t : match_rule (map PLit s) t = if bytes_eqb t s then Some [] else None.
Proof.
  destruct (bytes_eqb t s) eqn:E.
  - apply bytes_eqb_eq in E. subst.
    destruct (match_rule (map PLit s) s) as [caps|] eqn:M.
    + apply match_rule_sound in M. apply mlist_lit in M. destruct M. subst. reflexivity.
    + exfalso. apply (match_rule_complete (map PLit s) s); auto. apply literal_matches. reflexivity.
  - destruct (match_rule (map PLit s) t) as [caps|] eqn:M; auto.
    apply match_rule_sound in M. apply mlist_lit in M. destruct M. subst.
    rewrite bytes_eqb_refl in E. discriminate.
Qed.

(* ---------- alias expansion: fuel and cycles ---------- *)
Lemma alias_get_In al k v : alias_get al k = Some v -> In k (map fst al).
Proof.
  induction al as [|[k' v'] r IH]; cbn; [discriminate|].
  destruct (bytes_eqb k k') eqn:E; intros H.
  - apply bytes_eqb_eq in E. subst. left; auto.
  - right; auto.
Qed.

Lemma on_stack_false st k : on_stack st k = false -> ~ In k st.
Proof.
  unfold on_stack. intros H Hin. assert (existsb (bytes_eqb k) st = true).
  { apply existsb_exists. exists k. split; auto. apply bytes_eqb_refl. }
  congruence.
Qed.

Definition stack_ok (al : list (bytes * bytes)) (st : list bytes) : Prop := NoDup st /\ incl st (map fst al).

(* the step function never invents EFuel; it can only pass on the one its `rec` returns, and `rec` is only called
   with the alias stack extended by a name that was not on it *)
Lemma comp_toks_no_fuel al rec st :
  stack_ok al st ->
  (forall dts cx', stack_ok al (c_stack cx') -> (List.length st < List.length (c_stack cx'))%nat ->
                   rec dts cx' <> Some (inr EFuel)) ->
  forall n ts cx, (List.length ts <= n)%nat -> c_stack cx = st -> comp_toks al rec ts cx <> Some (inr EFuel).
Proof.
  intros Hst Hrec. induction n as [|n IH]; intros ts cx Hlen Hcx.
  - destruct ts; [cbn; discriminate|cbn in Hlen; lia].
  - destruct ts as [|t r]; [cbn; discriminate|]. cbn in Hlen.
    destruct t as [c|inner].
    + cbn [comp_toks]. destruct (N.eqb_spec c BSL).
      * destruct r as [|[d|i2] r']; try discriminate.
        destruct (is_punct d); [|discriminate]. apply IH; [cbn in Hlen; lia|exact Hcx].
      * destruct (is_punct c); [discriminate|]. apply IH; [lia|exact Hcx].
    + cbn [comp_toks]. destruct (parse_pat inner) as [p|]; [|discriminate].
      assert (Tail : forall f1 galias,
        match alias_get al (p_name p) with
        | Some def =>
            if on_stack (c_stack cx) (p_name p) then Some (inr (ECircular (last (c_stack cx) (p_name p))))
            else match scan_text def with
                 | None => None
                 | Some dts =>
                     match rec dts (mkCtx [] f1 (p_name p :: c_stack cx)) with
                     | None => None
                     | Some (inr e) => Some (inr e)
                     | Some (inl cx') =>
                         comp_toks al rec r
                           (mkCtx (rev (match galias with Some g => [PGrp (Some g) (rev (c_pieces cx'))] | None => rev (c_pieces cx') end)
                                   ++ c_pieces cx) (c_fields cx') (c_stack cx))
                     end
                 end
        | None =>
            match library (p_name p) with
            | None => None
            | Some (ps, implicit) =>
                comp_toks al rec r
                  (mkCtx (PGrp galias ps :: c_pieces cx)
                         (match galias, implicit with Some g, Some fl => add_filter f1 g fl | _, _ => f1 end) (c_stack cx))
            end
        end <> Some (inr EFuel)).
      { intros f1 galias. destruct (alias_get al (p_name p)) as [def|] eqn:Ea.
        - destruct (on_stack (c_stack cx) (p_name p)) eqn:Eo; [discriminate|].
          destruct (scan_text def) as [dts|]; [|discriminate].
          assert (Hst' : stack_ok al (p_name p :: c_stack cx)).
          { rewrite Hcx in *. destruct Hst as [Hn Hi]. split.
            - constructor; auto. apply on_stack_false; auto.
            - intros x [E|Hx]; [subst; eapply alias_get_In; eauto|auto]. }
          pose proof (Hrec dts (mkCtx [] f1 (p_name p :: c_stack cx)) Hst' ltac:(cbn; rewrite Hcx; lia)) as Hnf.
          destruct (rec dts (mkCtx [] f1 (p_name p :: c_stack cx))) as [[cx'|e]|] eqn:Er; [| |discriminate].
          + apply IH; [lia|exact Hcx].
          + intros C. inversion C; subst e. apply Hnf; reflexivity.
        - destruct (library (p_name p)) as [[ps implicit]|]; [|discriminate].
          apply IH; [lia|exact Hcx]. }
      destruct (p_dest p) as [[path [f|]]|].
      * destruct (mk_filter f) as [[fl|e]|] eqn:Em;
          [exact (Tail (c_fields cx ++ [(List.length (c_fields cx), mkField path [fl])]) (Some (List.length (c_fields cx))))| |discriminate].
        intros C. inversion C; subst e. unfold mk_filter in Em. destruct f as [nm arg].
        repeat match type of Em with
               | context [if ?b then _ else _] => destruct b
               | context [match ?a with _ => _ end] => destruct a
               end; discriminate.
      * exact (Tail (c_fields cx ++ [(List.length (c_fields cx), mkField path [])]) (Some (List.length (c_fields cx)))).
      * exact (Tail (c_fields cx) None).
Qed.

Theorem comp_no_fuel al : forall fuel ts cx,
  stack_ok al (c_stack cx) -> (List.length al < fuel + List.length (c_stack cx))%nat ->
  comp al fuel ts cx <> Some (inr EFuel).
Proof.
  induction fuel as [|f IH]; intros ts cx Hst Hlen.
  - (* the stack would hold more distinct alias names than there are aliases *)
    exfalso. destruct Hst as [Hn Hi]. pose proof (NoDup_incl_length Hn Hi) as L. rewrite map_length in L. lia.
  - cbn [comp]. apply (comp_toks_no_fuel al (comp al f) (c_stack cx) Hst) with (n := List.length ts); auto.
    intros dts cx' Hst' Hl. apply IH; auto. lia.
Qed.

Theorem compile_never_out_of_fuel al rule : compile_rule al rule <> Some (inr EFuel).
Proof.
  unfold compile_rule. destruct (scan_text rule) as [ts|]; [|discriminate].
  pose proof (comp_no_fuel al (S (List.length al)) ts (mkCtx [] [] [])) as H.
  destruct (comp al (S (List.length al)) ts (mkCtx [] [] [])) as [[cx|e]|]; try discriminate.
  intros C. inversion C; subst e. apply H; auto.
  - split; [constructor|intros x []].
  - cbn. lia.
Qed.

(* parse_alias: a reference to an alias whose expansion is in progress is rejected, naming the outermost alias *)
Theorem cycle_rejected al rec inner rest cx p def :
  parse_pat inner = Some p -> p_dest p = None ->
  alias_get al (p_name p) = Some def -> on_stack (c_stack cx) (p_name p) = true ->
  comp_toks al rec (TPat inner :: rest) cx = Some (inr (ECircular (last (c_stack cx) (p_name p)))).
Proof.
  intros Hp Hd Ha Ho. cbn [comp_toks]. rewrite Hp, Hd, Ha, Ho. reflexivity.
Qed.

(* ---------- cyclic aliases over arbitrary identifiers ---------- *)
Definition ident (a : bytes) : Prop :=
  (exists c r, a = c :: r /\ is_ident_start c = true) /\ forallb is_ident_char a = true /\ kw a = false.

Definition ref (a : bytes) : bytes := PCT :: LBR :: a ++ [RBR].

Lemma ident_char_plain c : is_ident_char c = true -> (c =? RBR)%N = false /\ (c =? BSL)%N = false /\ (c =? QUO)%N = false.
Proof.
  intros H. repeat split; apply N.eqb_neq; intros E; subst c; vm_compute in H; discriminate.
Qed.

Lemma scan_inner_ident a : forallb is_ident_char a = true ->
  forall fuel acc rest, (List.length a < fuel)%nat -> (a <> [] \/ acc <> []) ->
    scan_inner fuel (a ++ RBR :: rest) acc = Some (Some (rev acc ++ a, rest)).
Proof.
  induction a as [|c r IH]; intros Hf fuel acc rest Hl Hne.
  - destruct fuel; [cbn in Hl; lia|]. cbn [app scan_inner]. rewrite N.eqb_refl.
    destruct acc; [destruct Hne; congruence|]. rewrite app_nil_r. reflexivity.
  - cbn [forallb] in Hf. apply andb_true_iff in Hf. destruct Hf as [Hc Hr].
    destruct (ident_char_plain c Hc) as [E1 [E2 E3]].
    destruct fuel; [cbn in Hl; lia|]. cbn [app scan_inner]. rewrite E1, E2, E3.
    rewrite IH; auto; [|cbn in Hl; lia|right; discriminate].
    cbn [rev]. rewrite <- app_assoc. reflexivity.
Qed.

Lemma scan_ref a : ident a -> scan_text (ref a) = Some [TPat a].
Proof.
  intros [[c [r [Ea Hs]]] [Hf Hk]]. unfold scan_text, ref. cbn [List.length scan].
  destruct (N.eqb_spec PCT PCT); [|congruence]. destruct (N.eqb_spec LBR LBR); [|congruence].
  rewrite scan_inner_ident; auto; [rewrite app_length; cbn; lia|left; subst; discriminate].
Qed.

Lemma span_all f a : forallb f a = true -> span f a = (a, []).
Proof. induction a as [|c r IH]; cbn; auto. intros H. apply andb_true_iff in H. destruct H as [H1 H2]. rewrite H1, IH; auto. Qed.

Lemma take_ident_ident a : ident a -> take_ident a = Some (a, []).
Proof.
  intros [[c [r [Ea Hs]]] [Hf Hk]]. subst a. unfold take_ident. rewrite Hs.
  rewrite (span_all is_ident_char (c :: r) Hf). rewrite Hk. reflexivity.
Qed.

Lemma parse_pat_ident a : ident a -> parse_pat a = Some (mkPat a None).
Proof.
  intros Ha. unfold parse_pat. cbn [take_dotted]. rewrite take_ident_ident by auto. reflexivity.
Qed.

Theorem cycle_self al a : ident a -> alias_get al a = Some (ref a) ->
  compile_rule al (ref a) = Some (inr (ECircular a)).
Proof.
  intros Ha Hal. unfold compile_rule. rewrite scan_ref by auto. cbn [comp comp_toks].
  rewrite parse_pat_ident by auto. cbn [p_dest p_name]. rewrite Hal. cbn [on_stack existsb c_stack].
  rewrite scan_ref by auto. destruct (List.length al) eqn:El.
  - cbn [comp comp_toks]. rewrite parse_pat_ident by auto. cbn [p_dest p_name]. rewrite Hal.
    cbn [on_stack existsb c_stack]. rewrite bytes_eqb_refl. reflexivity.
  - cbn [comp comp_toks]. rewrite parse_pat_ident by auto. cbn [p_dest p_name]. rewrite Hal.
    cbn [on_stack existsb c_stack]. rewrite bytes_eqb_refl. reflexivity.
Qed.

Theorem cycle_two a b : ident a -> ident b -> a <> b ->
  compile_rule [(a, ref b); (b, ref a)] (ref a) = Some (inr (ECircular a)).
Proof.
  intros Ha Hb Hab.
  assert (Eab : bytes_eqb a b = false) by (apply bytes_eqb_neq; auto).
  assert (Eba : bytes_eqb b a = false) by (apply bytes_eqb_neq; auto).
  unfold compile_rule. rewrite scan_ref by auto. cbn [List.length comp comp_toks].
  rewrite parse_pat_ident by auto. cbn [p_dest p_name alias_get]. rewrite bytes_eqb_refl.
  cbn [on_stack existsb c_stack]. rewrite scan_ref by auto. cbn [comp comp_toks].
  rewrite parse_pat_ident by auto. cbn [p_dest p_name alias_get]. rewrite Eba, bytes_eqb_refl.
  cbn [on_stack existsb c_stack]. rewrite Eba. cbn [orb]. rewrite scan_ref by auto. cbn [comp comp_toks].
  rewrite parse_pat_ident by auto. cbn [p_dest p_name alias_get]. rewrite bytes_eqb_refl.
  cbn [on_stack existsb c_stack]. rewrite Eab, bytes_eqb_refl. cbn [orb last]. reflexivity.
Qed.

(* ---------- filters ---------- *)
Lemma to_lower_idem c : to_lower (to_lower c) = to_lower c.
Proof.
  unfold to_lower. destruct (is_upper c) eqn:E; [|rewrite E; reflexivity].
  unfold is_upper in *. apply andb_true_iff in E. destruct E as [E1 E2].
  apply N.leb_le in E1. apply N.leb_le in E2.
  destruct ((65 <=? c + 32) && (c + 32 <=? 90))%N eqn:F; auto.
  apply andb_true_iff in F. destruct F as [_ F2]. apply N.leb_le in F2. lia.
Qed.

Lemma to_upper_idem c : to_upper (to_upper c) = to_upper c.
Proof.
  unfold to_upper. destruct (is_lower c) eqn:E; [|rewrite E; reflexivity].
  unfold is_lower in *. apply andb_true_iff in E. destruct E as [E1 E2].
  apply N.leb_le in E1. apply N.leb_le in E2.
  destruct ((97 <=? c - 32) && (c - 32 <=? 122))%N eqn:F; auto.
  apply andb_true_iff in F. destruct F as [F1 _]. apply N.leb_le in F1. lia.
Qed.

(* what the case filters and nullIf return is what the grammar of the filter promises *)
Theorem filters_spec s x :
  (apply_filter (VBytes s) (FNullIf x) = if bytes_eqb s x then FDrop else FVal (VBytes s))
  /\ (is_ascii s = true -> apply_filter (VBytes s) FLower = FVal (VBytes (map to_lower s))
                           /\ map to_lower (map to_lower s) = map to_lower s)
  /\ (is_ascii s = true -> apply_filter (VBytes s) FUpper = FVal (VBytes (map to_upper s))
                           /\ map to_upper (map to_upper s) = map to_upper s)
  /\ (apply_filter (VBytes s) FInteger = match from_str_radix s 10 with Some z => FVal (VInt z) | None => FDrop end).
Proof.
  split; [reflexivity|]. split; [|split; [|reflexivity]].
  - intros Ha. split; [cbn; rewrite Ha; reflexivity|].
    rewrite map_map. apply map_ext. intros c. apply to_lower_idem.
  - intros Ha. split; [cbn; rewrite Ha; reflexivity|].
    rewrite map_map. apply map_ext. intros c. apply to_upper_idem.
Qed.
