(* Whole messages through the wire (Model/Proto.v): decoding what the encoder wrote gives back the dynamic
   message, normalised the way presence works (`canon`: fields without presence holding their default are
   absent, recursively) — scalars of all kinds, packed and unpacked repeated fields, embedded messages to any
   depth, maps.  Induction on the nesting fuel. *)
From Coq Require Import List NArith ZArith Bool Arith Lia.
From Coq Require Import Floats.SpecFloat.
From VRL Require Import Base.Bytes Base.Lit Model.CodecUtf8 Model.Proto Proofs.ProtoWireProofs Proofs.ProtoScalarProofs.
Import ListNotations.

Local Open Scope N_scope.

(* ---------- descriptors ---------- *)

Fixpoint increasing (lo : N) (d : msgdesc) : Prop :=
  match d with
  | [] => True
  | f :: r => lo < f_num f /\ f_num f < 2 ^ 29 /\ increasing (f_num f) r
  end.
(* MessageDescriptor::fields(): strictly increasing field numbers in 1 .. 2^29-1 *)
Definition wf_desc (d : msgdesc) : Prop := increasing 0 d.

Lemma increasing_weaken lo lo' d : lo' <= lo -> increasing lo d -> increasing lo' d.
Proof. destruct d as [|f r]; cbn; [tauto|]. intros H (H1 & H2 & H3). repeat split; try assumption. lia. Qed.

Lemma increasing_all_gt lo d : increasing lo d -> Forall (fun f => lo < f_num f) d.
Proof.
  revert lo; induction d as [|f r IH]; intros lo H; [constructor|].
  destruct H as (H1 & H2 & H3). constructor; [exact H1|].
  eapply Forall_impl; [|apply IH; exact H3]. cbn. intros a Ha. lia.
Qed.

Lemma find_field_none d num : Forall (fun f => f_num f <> num) d -> find_field d num = None.
Proof.
  induction 1 as [|f r Hf Hr IH]; [reflexivity|]. cbn [find_field].
  replace (f_num f =? num) with false by (symmetry; apply N.eqb_neq; exact Hf). exact IH.
Qed.

Lemma find_field_mid lo d1 f d2 : increasing lo (d1 ++ f :: d2) -> find_field (d1 ++ f :: d2) (f_num f) = Some f.
Proof.
  revert lo; induction d1 as [|g d1 IH]; intros lo H.
  - cbn [app find_field]. rewrite N.eqb_refl. reflexivity.
  - cbn [app] in *. destruct H as (H1 & H2 & H3). cbn [find_field].
    pose proof (increasing_all_gt _ _ H3) as Hall. rewrite Forall_app in Hall. destruct Hall as [_ Hall].
    inversion Hall as [|? ? Hf _]; subst.
    replace (f_num g =? f_num f) with false by (symmetry; apply N.eqb_neq; lia).
    eapply IH. exact H3.
Qed.

Lemma find_field_num_ok lo d n f :
  increasing lo d -> find_field d n = Some f -> f_num f = n /\ 1 <= f_num f /\ f_num f < 2 ^ 29.
Proof.
  revert lo; induction d as [|g r IH]; intros lo H Hf; [discriminate|].
  destruct H as (H1 & H2 & H3). cbn [find_field] in Hf. destruct (f_num g =? n) eqn:E.
  - inversion Hf; subst. apply N.eqb_eq in E. repeat split; [exact E | lia | exact H2].
  - eapply IH; eassumption.
Qed.

(* ---------- BTreeMap-as-sorted-list facts ---------- *)

Definition all_lt (n : N) (m : dmsg) : Prop := Forall (fun e => fst e < n) m.

Lemma dm_get_none n m : all_lt n m -> dm_get m n = None.
Proof.
  induction 1 as [|[k v] r Hk Hr IH]; [reflexivity|]. cbn [dm_get]. cbn in Hk.
  replace (k =? n) with false by (symmetry; apply N.eqb_neq; lia). exact IH.
Qed.

Lemma dm_set_append n m v : all_lt n m -> dm_set m n v = m ++ [(n, v)].
Proof.
  induction 1 as [|[k x] r Hk Hr IH]; [reflexivity|]. cbn [dm_set app]. cbn in Hk.
  replace (k =? n) with false by (symmetry; apply N.eqb_neq; lia).
  replace (n <? k) with false by (symmetry; apply N.ltb_ge; lia). rewrite IH. reflexivity.
Qed.

Lemma dm_get_last n m v : all_lt n m -> dm_get (m ++ [(n, v)]) n = Some v.
Proof.
  induction 1 as [|[k x] r Hk Hr IH]; cbn [app dm_get]; [rewrite N.eqb_refl; reflexivity|]. cbn in Hk.
  replace (k =? n) with false by (symmetry; apply N.eqb_neq; lia). exact IH.
Qed.

Lemma dm_set_last n m v v' : all_lt n m -> dm_set (m ++ [(n, v)]) n v' = m ++ [(n, v')].
Proof.
  induction 1 as [|[k x] r Hk Hr IH]; cbn [app dm_set]; [rewrite N.eqb_refl; reflexivity|]. cbn in Hk.
  replace (k =? n) with false by (symmetry; apply N.eqb_neq; lia).
  replace (n <? k) with false by (symmetry; apply N.ltb_ge; lia). rewrite IH. reflexivity.
Qed.

Lemma all_lt_weaken n n' m : n <= n' -> all_lt n m -> all_lt n' m.
Proof. intros H. apply Forall_impl. intros a Ha. lia. Qed.

Lemma all_lt_snoc n n' m v : n < n' -> all_lt n m -> all_lt n' (m ++ [(n, v)]).
Proof.
  intros H Hm. apply Forall_app. split; [eapply all_lt_weaken; [|exact Hm]; lia|].
  constructor; [cbn; exact H | constructor].
Qed.

Lemma fold_left_pbind_err {A B} (f : pres A -> B -> pres A) (l : list B) :
  (forall b, f PErr b = PErr) -> fold_left f l PErr = PErr.
Proof. intros H. induction l as [|b l IH]; [reflexivity|]. cbn. rewrite H. exact IH. Qed.

(* ---------- normal form and typing ---------- *)

Section Msg.
  Variable P : pool.
  Hypothesis wf_pool : forall i, wf_desc (get_msg P i).

  Definition canon_scalar (cn : msgdesc -> dmsg -> dmsg) (k : skind) (v : pval) : pval :=
    match k, v with
    | KMsg i, PMsg fs => PMsg (cn (get_msg P i) fs)
    | _, _ => v
    end.

  Definition canon_field (cn : msgdesc -> dmsg -> dmsg) (f : field) (v : pval) : pval :=
    match f_card f, v with
    | CRepeated _, PList l => PList (map (canon_scalar cn (f_kind f)) l)
    | CMap _ _ _, PMap l => PMap (map (fun kv : pval * pval => (fst kv, canon_scalar cn (f_kind f) (snd kv))) l)
    | _, _ => canon_scalar cn (f_kind f) v
    end.

  Definition canon_entry (cn : msgdesc -> dmsg -> dmsg) (m : dmsg) (f : field) : dmsg :=
    match dm_get m (f_num f) with
    | Some v => if has_value f v then [(f_num f, canon_field cn f v)] else []
    | None => []
    end.

  (* the message as the decoder rebuilds it: only the fields that `has`, in field-number order *)
  Fixpoint canon (fuel : nat) (d : msgdesc) (m : dmsg) : dmsg :=
    match fuel with
    | O => []
    | S fu => flat_map (canon_entry (canon fu) m) d
    end.

  Definition wt_scalar (wt : msgdesc -> dmsg -> Prop) (k : skind) (v : pval) : Prop :=
    match k, v with
    | KMsg i, PMsg fs => wt (get_msg P i) fs
    | KMsg _, _ => False
    | _, _ => wt_plain k v
    end.

  (* the keys of a map: integers, bool or string, pairwise different *)
  Definition is_key_kind (k : skind) : Prop :=
    match k with
    | KDouble | KFloat | KBytes | KEnum _ _ | KMsg _ => False
    | _ => True
    end.

  Fixpoint keys_distinct (l : list (pval * pval)) : Prop :=
    match l with
    | [] => True
    | (k, _) :: r => Forall (fun kv => pval_key_eqb k (fst kv) = false) r /\ keys_distinct r
    end.

  Definition wt_field (em : msgdesc -> dmsg -> bytes) (wt : msgdesc -> dmsg -> Prop) (f : field) (v : pval) : Prop :=
    match f_card f with
    | CSingular _ => wt_scalar wt (f_kind f) v
    | CRepeated packed =>
        exists l, v = PList l /\ Forall (wt_scalar wt (f_kind f)) l
                  /\ (packed = true -> is_packable (f_kind f) = true
                                       /\ len_ok (concat (map (enc_packed_elem (f_kind f)) l)))
    | CMap kk kpres vpres =>
        exists l, v = PMap l /\ is_key_kind kk /\ keys_distinct l
                  /\ Forall (fun kv : pval * pval =>
                               wt_plain kk (fst kv) /\ wt_scalar wt (f_kind f) (snd kv)
                               /\ (vpres = false -> is_default_scalar (f_kind f) (snd kv) = true ->
                                   snd kv = default_of (f_kind f))
                               /\ len_ok (enc_entry P em kk kpres (f_kind f) vpres kv)) l
    end.

  (* every stored value fits its field; embedded messages likewise, and their encodings fit a length prefix *)
  Fixpoint wt_msg (fuel : nat) (d : msgdesc) (m : dmsg) : Prop :=
    match fuel with
    | O => False
    | S fu =>
        Forall (fun f => match dm_get m (f_num f) with
                         | Some v => wt_field (enc_msg P fu)
                                              (fun d' m' => wt_msg fu d' m' /\ len_ok (enc_msg P fu d' m')) f v
                         | None => True
                         end) d
    end.

  (* ---------- one level, given the level below ---------- *)

  Section Level.
    Variable em : msgdesc -> dmsg -> bytes.
    Variable mm : msgdesc -> dmsg -> bytes -> pres dmsg.
    Variable cn : msgdesc -> dmsg -> dmsg.
    Variable wt : msgdesc -> dmsg -> Prop.
    Hypothesis below : forall i m', wt (get_msg P i) m' ->
      len_ok (em (get_msg P i) m') /\ mm (get_msg P i) [] (em (get_msg P i) m') = POk (cn (get_msg P i) m').
    Hypothesis cn_nil : forall d, cn d [] = [].

    Lemma value_roundtrip k v cur :
      wt_scalar wt k v -> (cur = None \/ cur = Some (default_of k)) ->
      exists w, enc_scalar P em k v = Some w /\ wf_wval w
                /\ dec_value P mm k cur w = POk (canon_scalar cn k v)
                /\ (is_packable k = true -> forall b, w <> WLen b).
    Proof.
      intros Hwt Hcur. destruct (is_msg_kind k) eqn:Ek.
      - destruct k; try discriminate. destruct v; cbn [wt_scalar] in Hwt; try contradiction.
        destruct (below idx fs Hwt) as [Hlen Hdec].
        exists (WLen (em (get_msg P idx) fs)). split; [reflexivity|]. split; [exact Hlen|]. split; [|discriminate].
        cbn [dec_value expect_len pbind canon_scalar].
        replace (match cur with Some (PMsg fs0) => fs0 | _ => [] end) with (@nil (N * pval))
          by (destruct Hcur as [->| ->]; reflexivity).
        rewrite Hdec. reflexivity.
      - assert (Hp : wt_plain k v) by (destruct k; try discriminate; exact Hwt).
        destruct (plain_roundtrip P em k v Ek Hp) as (w & He & Hw & Hd & Hpk).
        exists w. split; [exact He|]. split; [exact Hw|]. split.
        + replace (canon_scalar cn k v) with v by (destruct k; try discriminate; reflexivity).
          destruct k; try discriminate; exact Hd.
        + intros Hpack b Hb. destruct (Hpk Hpack) as [Hwt' _]. subst w. cbn in Hwt'.
          symmetry in Hwt'. exact (packed_wt_not_len k Hwt').
    Qed.

    Variable D : msgdesc.
    Hypothesis wfD : wf_desc D.

    Lemma step_known f acc w v :
      find_field D (f_num f) = Some f ->
      merge_field P mm f (dm_get acc (f_num f)) w = POk v ->
      msg_step P mm D (POk acc) (f_num f, w) = POk (dm_set acc (f_num f) v).
    Proof. intros Hf Hm. unfold msg_step. cbn [pbind fst snd]. rewrite Hf, Hm. reflexivity. Qed.

    (* unpacked repeated field: one record per element, each appended *)
    Lemma repeated_fold f acc : find_field D (f_num f) = Some f -> all_lt (f_num f) acc ->
      (exists p, f_card f = CRepeated p) ->
      forall l pre, Forall (wt_scalar wt (f_kind f)) l -> pre <> [] ->
      fold_left (msg_step P mm D)
                (flat_map (fun x => rec_of (f_num f) (enc_scalar P em (f_kind f) x)) l)
                (POk (acc ++ [(f_num f, PList pre)]))
      = POk (acc ++ [(f_num f, PList (pre ++ map (canon_scalar cn (f_kind f)) l))])
      /\ Forall wf_record (flat_map (fun x => rec_of (f_num f) (enc_scalar P em (f_kind f) x)) l).
    Proof.
      intros Hf Hacc [p Hc]. induction l as [|x l IH]; intros pre Hwt Hpre.
      - cbn. rewrite app_nil_r. split; [reflexivity | constructor].
      - inversion Hwt as [|? ? Hx Hl]; subst.
        destruct (value_roundtrip (f_kind f) x None Hx (or_introl eq_refl)) as (w & He & Hw & Hd & Hnl).
        cbn [flat_map]. rewrite He. cbn [rec_of app fold_left].
        assert (Hm : merge_field P mm f (dm_get (acc ++ [(f_num f, PList pre)]) (f_num f)) w
                     = POk (PList (pre ++ [canon_scalar cn (f_kind f) x]))).
        { rewrite dm_get_last by exact Hacc. unfold merge_field. rewrite Hc.
          destruct w as [n|b|b|b]; try (rewrite Hd; reflexivity).
          destruct (is_packable (f_kind f)) eqn:Ep; [exfalso; exact (Hnl eq_refl b eq_refl)|].
          rewrite Hd. reflexivity. }
        rewrite (step_known f _ w _ Hf Hm). rewrite dm_set_last by exact Hacc.
        destruct (IH (pre ++ [canon_scalar cn (f_kind f) x]) Hl ltac:(destruct pre; discriminate)) as [IH1 IH2].
        rewrite IH1. rewrite <- app_assoc. cbn [app map]. split; [reflexivity|].
        constructor; [|exact IH2].
        destruct (find_field_num_ok _ _ _ _ wfD Hf) as (_ & Hn1 & Hn2).
        repeat split; cbn [fst snd]; assumption.
    Qed.

    Lemma canon_scalar_plain k v : is_msg_kind k = false -> canon_scalar cn k v = v.
    Proof. destruct k; try discriminate; reflexivity. Qed.

    Lemma wt_scalar_plain k v : is_msg_kind k = false -> wt_scalar wt k v -> wt_plain k v.
    Proof. destruct k; try discriminate; intros _ H; exact H. Qed.

    Lemma packable_not_msg k : is_packable k = true -> is_msg_kind k = false.
    Proof. destruct k; try reflexivity; discriminate. Qed.

    Lemma key_kind_not_msg k : is_key_kind k -> is_msg_kind k = false.
    Proof. destruct k; try reflexivity; contradiction. Qed.

    Lemma key_default k v : is_key_kind k -> wt_plain k v -> is_default_scalar k v = true -> v = default_of k.
    Proof.
      intros Hk Hw Hd. destruct k; try contradiction; destruct v; cbn in Hw; try contradiction; cbn in Hd |- *;
        try (apply Z.eqb_eq in Hd; subst; reflexivity); try discriminate.
      - destruct b; [discriminate | reflexivity].
      - destruct s; [reflexivity | discriminate].
    Qed.

    Lemma canon_default k : canon_scalar cn k (default_of k) = default_of k.
    Proof. destruct k; try reflexivity. cbn. rewrite cn_nil. reflexivity. Qed.

    (* ---------- one map entry ---------- *)

    Lemma entry_roundtrip kk kpres vk vpres kv :
      is_key_kind kk -> wt_plain kk (fst kv) -> wt_scalar wt vk (snd kv) ->
      (vpres = false -> is_default_scalar vk (snd kv) = true -> snd kv = default_of vk) ->
      len_ok (enc_entry P em kk kpres vk vpres kv) ->
      pbind (parse_records (enc_entry P em kk kpres vk vpres kv))
            (fun rs => fold_left (entry_step P mm kk vk) rs (POk (default_of kk, default_of vk)))
      = POk (fst kv, canon_scalar cn vk (snd kv)).
    Proof.
      intros Hkk Hk Hv Hdef Hlen. destruct kv as [k v]. cbn [fst snd] in *.
      unfold enc_entry. cbn [fst snd].
      destruct (plain_roundtrip P em kk k (key_kind_not_msg kk Hkk) Hk) as (wk & Hek & Hwk & Hdk & _).
      destruct (value_roundtrip vk v (Some (default_of vk)) Hv (or_intror eq_refl)) as (wv & Hev & Hwv & Hdv & _).
      rewrite Hek, Hev. cbn [rec_of].
      set (krec := if has_value (mkField [] 1 kk (CSingular kpres)) k then [(1, wk)] else []).
      set (vrec := if has_value (mkField [] 2 vk (CSingular vpres)) v then [(2, wv)] else []).
      assert (Hwf : Forall wf_record (krec ++ vrec)).
      { apply Forall_app. split.
        - unfold krec. destruct (has_value _ k); constructor; [|constructor].
          unfold wf_record; cbn [fst snd]; split; [lia | split; [reflexivity | exact Hwk]].
        - unfold vrec. destruct (has_value _ v); constructor; [|constructor].
          unfold wf_record; cbn [fst snd]; split; [lia | split; [reflexivity | exact Hwv]]. }
      rewrite (records_roundtrip _ Hwf). cbn [pbind]. rewrite fold_left_app.
      assert (Hkstep : fold_left (entry_step P mm kk vk) krec (POk (default_of kk, default_of vk))
                       = POk (k, default_of vk)).
      { unfold krec, has_value. cbn [f_card f_kind]. destruct kpres.
        - cbn [fold_left entry_step pbind fst snd N.eqb Pos.eqb]. rewrite Hdk. reflexivity.
        - destruct (is_default_scalar kk k) eqn:Ed; cbn [negb].
          + cbn [fold_left]. rewrite (key_default kk k Hkk Hk Ed). reflexivity.
          + cbn [fold_left entry_step pbind fst snd N.eqb Pos.eqb]. rewrite Hdk. reflexivity. }
      rewrite Hkstep.
      unfold vrec, has_value. cbn [f_card f_kind]. destruct vpres.
      - cbn [fold_left entry_step pbind fst snd N.eqb Pos.eqb]. rewrite Hdv. reflexivity.
      - destruct (is_default_scalar vk v) eqn:Ed; cbn [negb].
        + cbn [fold_left]. rewrite (Hdef eq_refl eq_refl), canon_default. reflexivity.
        + cbn [fold_left entry_step pbind fst snd N.eqb Pos.eqb]. rewrite Hdv. reflexivity.
    Qed.

    Lemma map_insert_append pre k v :
      Forall (fun e : pval * pval => pval_key_eqb (fst e) k = false) pre -> map_insert pre k v = pre ++ [(k, v)].
    Proof.
      induction 1 as [|[k' v'] r Hk Hr IH]; [reflexivity|]. cbn [map_insert app]. cbn [fst] in Hk.
      rewrite Hk, IH. reflexivity.
    Qed.

    Definition entry_ok (f : field) (kk : skind) (kpres vpres : bool) (kv : pval * pval) : Prop :=
      wt_plain kk (fst kv) /\ wt_scalar wt (f_kind f) (snd kv)
      /\ (vpres = false -> is_default_scalar (f_kind f) (snd kv) = true -> snd kv = default_of (f_kind f))
      /\ len_ok (enc_entry P em kk kpres (f_kind f) vpres kv).

    Definition canon_kv (f : field) (kv : pval * pval) : pval * pval := (fst kv, canon_scalar cn (f_kind f) (snd kv)).

    Lemma map_step f acc kk kpres vpres kv (cur : option pval) (old : list (pval * pval)) :
      find_field D (f_num f) = Some f -> f_card f = CMap kk kpres vpres -> is_key_kind kk ->
      entry_ok f kk kpres vpres kv ->
      dm_get acc (f_num f) = cur -> old = match cur with Some (PMap l) => l | _ => [] end ->
      Forall (fun e : pval * pval => pval_key_eqb (fst e) (fst kv) = false) old ->
      msg_step P mm D (POk acc) (f_num f, WLen (enc_entry P em kk kpres (f_kind f) vpres kv))
      = POk (dm_set acc (f_num f) (PMap (old ++ [canon_kv f kv]))).
    Proof.
      intros Hf Hc Hkk (Hk & Hv & Hdef & Hlen) Hcur Hold Hdist.
      apply step_known; [exact Hf|]. unfold merge_field. rewrite Hc, Hcur, <- Hold.
      cbn [expect_len_map pbind].
      pose proof (entry_roundtrip kk kpres (f_kind f) vpres kv Hkk Hk Hv Hdef Hlen) as He.
      destruct (parse_records (enc_entry P em kk kpres (f_kind f) vpres kv)) as [rs| |]; cbn [pbind] in He |- *;
        try discriminate.
      rewrite He. cbn [pbind]. rewrite map_insert_append by exact Hdist. reflexivity.
    Qed.

    Lemma map_fold f acc kk kpres vpres : find_field D (f_num f) = Some f -> all_lt (f_num f) acc ->
      f_card f = CMap kk kpres vpres -> is_key_kind kk ->
      forall l pre, Forall (entry_ok f kk kpres vpres) l -> keys_distinct l -> pre <> [] ->
      Forall (fun e : pval * pval => Forall (fun kv : pval * pval => pval_key_eqb (fst e) (fst kv) = false) l) pre ->
      fold_left (msg_step P mm D)
                (map (fun kv => (f_num f, WLen (enc_entry P em kk kpres (f_kind f) vpres kv))) l)
                (POk (acc ++ [(f_num f, PMap pre)]))
      = POk (acc ++ [(f_num f, PMap (pre ++ map (canon_kv f) l))])
      /\ Forall wf_record (map (fun kv => (f_num f, WLen (enc_entry P em kk kpres (f_kind f) vpres kv))) l).
    Proof.
      intros Hf Hacc Hc Hkk. induction l as [|kv l IH]; intros pre Hok Hd Hpre Hcross.
      - cbn. rewrite app_nil_r. split; [reflexivity | constructor].
      - inversion Hok as [|? ? Hkv Hl]; subst. destruct kv as [k v]. cbn [keys_distinct] in Hd. destruct Hd as [Hd1 Hd2].
        cbn [map fold_left].
        rewrite (map_step f _ kk kpres vpres (k, v) (Some (PMap pre)) pre Hf Hc Hkk Hkv
                          (dm_get_last _ _ _ Hacc) eq_refl).
        2:{ eapply Forall_impl; [|exact Hcross]. intros e He. inversion He; assumption. }
        rewrite dm_set_last by exact Hacc.
        destruct (IH (pre ++ [canon_kv f (k, v)]) Hl Hd2 ltac:(destruct pre; discriminate)) as [IH1 IH2].
        { apply Forall_app. split.
          - eapply Forall_impl; [|exact Hcross]. intros e He. inversion He; assumption.
          - constructor; [|constructor]. cbn [canon_kv fst]. exact Hd1. }
        rewrite IH1. rewrite <- app_assoc. cbn [app map]. split; [reflexivity|].
        constructor; [|exact IH2].
        destruct (find_field_num_ok _ _ _ _ wfD Hf) as (_ & Hn1 & Hn2). destruct Hkv as (_ & _ & _ & Hlen).
        repeat split; cbn [fst snd]; assumption.
    Qed.

    (* ---------- one field ---------- *)

    Lemma field_roundtrip f acc v :
      find_field D (f_num f) = Some f -> all_lt (f_num f) acc -> wt_field em wt f v ->
      fold_left (msg_step P mm D) (enc_field P em f v) (POk acc)
      = POk (acc ++ (if has_value f v then [(f_num f, canon_field cn f v)] else []))
      /\ Forall wf_record (enc_field P em f v).
    Proof.
      intros Hf Hacc Hwt. destruct (find_field_num_ok _ _ _ _ wfD Hf) as (_ & Hn1 & Hn2).
      unfold enc_field. destruct (has_value f v) eqn:Hhas; cbn [negb].
      2:{ cbn. rewrite app_nil_r. split; [reflexivity | constructor]. }
      unfold wt_field in Hwt. unfold canon_field. destruct (f_card f) as [pr|packed|kk kpres vpres] eqn:Hc.
      - (* singular *)
        destruct (value_roundtrip (f_kind f) v None Hwt (or_introl eq_refl)) as (w & He & Hw & Hd & _).
        rewrite He. cbn [rec_of fold_left].
        assert (Hm : merge_field P mm f (dm_get acc (f_num f)) w = POk (canon_scalar cn (f_kind f) v)).
        { rewrite dm_get_none by exact Hacc. unfold merge_field. rewrite Hc. exact Hd. }
        rewrite (step_known f _ w _ Hf Hm), dm_set_append by exact Hacc.
        split; [reflexivity|]. constructor; [|constructor]. repeat split; cbn [fst snd]; assumption.
      - (* repeated *)
        destruct Hwt as (l & -> & Hl & Hp). destruct packed.
        + destruct (Hp eq_refl) as [Hpack Hlen]. cbn [fold_left].
          assert (Hnm : is_msg_kind (f_kind f) = false) by (apply packable_not_msg; exact Hpack).
          assert (Hplain : Forall (wt_plain (f_kind f)) l).
          { eapply Forall_impl; [|exact Hl]. intros x Hx. apply wt_scalar_plain; assumption. }
          assert (Hm : merge_field P mm f (dm_get acc (f_num f))
                         (WLen (concat (map (enc_packed_elem (f_kind f)) l))) = POk (PList l)).
          { rewrite dm_get_none by exact Hacc. unfold merge_field. rewrite Hc, Hpack.
            rewrite (packed_roundtrip P em (f_kind f) Hpack l _ Hplain (Nat.le_refl _)). reflexivity. }
          rewrite (step_known f _ _ _ Hf Hm), dm_set_append by exact Hacc.
          replace (map (canon_scalar cn (f_kind f)) l) with l.
          2:{ clear -Hnm. induction l; cbn; [reflexivity|]. rewrite canon_scalar_plain by exact Hnm. f_equal. assumption. }
          split; [reflexivity|]. constructor; [|constructor]. repeat split; cbn [fst snd]; assumption.
        + destruct l as [|x l]; [unfold has_value in Hhas; rewrite Hc in Hhas; discriminate|].
          inversion Hl as [|? ? Hx Hl']; subst.
          destruct (value_roundtrip (f_kind f) x None Hx (or_introl eq_refl)) as (w & He & Hw & Hd & Hnl).
          cbn [flat_map]. rewrite He. cbn [rec_of app fold_left].
          assert (Hm : merge_field P mm f (dm_get acc (f_num f)) w = POk (PList [canon_scalar cn (f_kind f) x])).
          { rewrite dm_get_none by exact Hacc. unfold merge_field. rewrite Hc.
            destruct w as [n|b|b|b]; try (rewrite Hd; reflexivity).
            destruct (is_packable (f_kind f)) eqn:Ep; [exfalso; exact (Hnl eq_refl b eq_refl)|].
            rewrite Hd. reflexivity. }
          rewrite (step_known f _ w _ Hf Hm), dm_set_append by exact Hacc.
          destruct (repeated_fold f acc Hf Hacc (ex_intro _ false Hc) l [canon_scalar cn (f_kind f) x] Hl'
                                  ltac:(discriminate)) as [R1 R2].
          rewrite R1. cbn [app map]. split; [reflexivity|].
          constructor; [|exact R2]. repeat split; cbn [fst snd]; assumption.
      - (* map *)
        destruct Hwt as (l & -> & Hkk & Hdist & Hl).
        destruct l as [|[k v] l]; [unfold has_value in Hhas; rewrite Hc in Hhas; discriminate|].
        inversion Hl as [|? ? Hkv Hl']; subst. cbn [keys_distinct] in Hdist. destruct Hdist as [Hd1 Hd2].
        cbn [map fold_left].
        rewrite (map_step f acc kk kpres vpres (k, v) None [] Hf Hc Hkk Hkv (dm_get_none _ _ Hacc) eq_refl (Forall_nil _)).
        rewrite dm_set_append by exact Hacc. cbn [app].
        destruct (map_fold f acc kk kpres vpres Hf Hacc Hc Hkk l [canon_kv f (k, v)] Hl' Hd2 ltac:(discriminate)) as [R1 R2].
        { constructor; [|constructor]. cbn [canon_kv fst]. exact Hd1. }
        rewrite R1. cbn [app map]. split; [reflexivity|].
        constructor; [|exact R2]. destruct Hkv as (_ & _ & _ & Hlen). repeat split; cbn [fst snd]; assumption.
    Qed.

    (* ---------- all fields of the message, in order ---------- *)

    Definition field_records (m : dmsg) (f : field) : list record :=
      match dm_get m (f_num f) with Some v => enc_field P em f v | None => [] end.

    Definition field_typed (m : dmsg) (f : field) : Prop :=
      match dm_get m (f_num f) with Some v => wt_field em wt f v | None => True end.

    Lemma fields_fold m : forall d2 d1 lo acc,
      D = d1 ++ d2 -> increasing lo d2 -> all_lt (lo + 1) acc -> Forall (field_typed m) d2 ->
      fold_left (msg_step P mm D) (flat_map (field_records m) d2) (POk acc)
      = POk (acc ++ flat_map (canon_entry cn m) d2)
      /\ Forall wf_record (flat_map (field_records m) d2).
    Proof.
      induction d2 as [|f d2 IH]; intros d1 lo acc HD Hinc Hacc Hty.
      - cbn. rewrite app_nil_r. split; [reflexivity | constructor].
      - destruct Hinc as (H1 & H2 & H3).
        pose proof (Forall_inv Hty) as Hf. pose proof (Forall_inv_tail Hty) as Hty'.
        assert (Hfind : find_field D (f_num f) = Some f).
        { rewrite HD. eapply find_field_mid. rewrite <- HD. exact wfD. }
        assert (Hacc' : all_lt (f_num f) acc) by (eapply all_lt_weaken; [|exact Hacc]; lia).
        cbn [flat_map]. rewrite fold_left_app.
        change (field_records m f) with (match dm_get m (f_num f) with Some v => enc_field P em f v | None => [] end).
        change (canon_entry cn m f)
          with (match dm_get m (f_num f) with
                | Some v => if has_value f v then [(f_num f, canon_field cn f v)] else []
                | None => []
                end).
        unfold field_typed in Hf.
        destruct (dm_get m (f_num f)) as [v|] eqn:Eg.
        + destruct (field_roundtrip f acc v Hfind Hacc' Hf) as [R1 R2]. rewrite R1.
          destruct (IH (d1 ++ [f]) (f_num f) (acc ++ (if has_value f v then [(f_num f, canon_field cn f v)] else [])))
            as [I1 I2]; try assumption.
          { rewrite <- app_assoc. exact HD. }
          { destruct (has_value f v).
            - apply all_lt_snoc; [lia | exact Hacc'].
            - rewrite app_nil_r. eapply all_lt_weaken; [|exact Hacc']. lia. }
          rewrite I1, <- app_assoc. split; [reflexivity|]. apply Forall_app. split; assumption.
        + cbn [fold_left app].
          destruct (IH (d1 ++ [f]) (f_num f) acc) as [I1 I2]; try assumption.
          { rewrite <- app_assoc. exact HD. }
          { eapply all_lt_weaken; [|exact Hacc']. lia. }
          rewrite I1. split; [reflexivity | exact I2].
    Qed.
  End Level.

  (* ---------- the theorem ---------- *)

  Lemma canon_nil fuel d : canon fuel d [] = [].
  Proof.
    destruct fuel; [reflexivity|]. cbn [canon]. induction d as [|f r IH]; [reflexivity|].
    cbn [flat_map]. unfold canon_entry at 1. cbn [dm_get app]. exact IH.
  Qed.

  Theorem msg_roundtrip : forall fuel d m,
    wf_desc d -> wt_msg fuel d m ->
    merge_msg P fuel d [] (enc_msg P fuel d m) = POk (canon fuel d m).
  Proof.
    induction fuel as [|fu IH]; intros d m Hd Hwt; [contradiction|].
    cbn [wt_msg] in Hwt. cbn [merge_msg enc_msg canon].
    set (wt := fun d' m' => wt_msg fu d' m' /\ len_ok (enc_msg P fu d' m')).
    assert (below : forall i m', wt (get_msg P i) m' ->
              len_ok (enc_msg P fu (get_msg P i) m')
              /\ merge_msg P fu (get_msg P i) [] (enc_msg P fu (get_msg P i) m') = POk (canon fu (get_msg P i) m')).
    { intros i m' [Hw Hl]. split; [exact Hl|]. apply IH; [apply wf_pool | exact Hw]. }
    destruct (fields_fold (enc_msg P fu) (merge_msg P fu) (canon fu) wt below (canon_nil fu) d Hd m d [] 0 [])
      as [F1 F2]; try reflexivity; try assumption.
    { constructor. }
    change (flat_map (fun f => match dm_get m (f_num f) with
                               | Some v => enc_field P (enc_msg P fu) f v
                               | None => []
                               end) d)
      with (flat_map (field_records (enc_msg P fu) m) d).
    rewrite (records_roundtrip _ F2). cbn [pbind]. rewrite F1. reflexivity.
  Qed.
End Msg.
