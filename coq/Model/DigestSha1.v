(* C27 — SHA-1 as specified by FIPS 180-4 section 6.1 (the reference for `sha1`, src/stdlib/sha1.rs, and
   for hmac's "SHA1").  Words are 32-bit `N`, big-endian.  Definitions only. *)
From Coq Require Import List NArith Bool.
From VRL Require Import Base.Bytes Model.DigestWord.
Import ListNotations.
Local Open Scope N_scope.

Definition sha1_idx : list N := map N.of_nat (seq 0 80).

(* message schedule: `win` holds W[t-16..t-1]; W[t] = ROTL1(W[t-3] xor W[t-8] xor W[t-14] xor W[t-16]) *)
Fixpoint sha1_sched (n : nat) (win : list N) : list N :=
  match n with
  | O => []
  | S k =>
      let w := rotl32 (N.lxor (N.lxor (nth 13 win 0) (nth 8 win 0)) (N.lxor (nth 2 win 0) (nth 0 win 0))) 1 in
      w :: sha1_sched k (tl win ++ [w])
  end.

Definition sha1_f (t b c d : N) : N :=
  if t <? 20 then N.lxor (N.land b c) (N.land (N.lxor b mask32) d)          (* Ch *)
  else if t <? 40 then N.lxor (N.lxor b c) d                                   (* Parity *)
  else if t <? 60 then N.lxor (N.lxor (N.land b c) (N.land b d)) (N.land c d)  (* Maj *)
  else N.lxor (N.lxor b c) d.

Definition sha1_k (t : N) : N :=
  if t <? 20 then 0x5a827999 else if t <? 40 then 0x6ed9eba1 else if t <? 60 then 0x8f1bbcdc else 0xca62c1d6.

Definition sha1_state := (N * N * N * N * N)%type.

Definition sha1_round (st : sha1_state) (tw : N * N) : sha1_state :=
  let '(a, b, c, d, e) := st in
  let '(t, w) := tw in
  let tmp := add32 (add32 (add32 (add32 (rotl32 a 5) (sha1_f t b c d)) e) (sha1_k t)) w in
  (tmp, a, rotl32 b 30, c, d).

Definition sha1_block (st : sha1_state) (m : list N) : sha1_state :=
  let '(a, b, c, d, e) := st in
  let w := m ++ sha1_sched 64 m in
  let '(a', b', c', d', e') := fold_left sha1_round (combine sha1_idx w) st in
  (add32 a a', add32 b b', add32 c c', add32 d d', add32 e e').

Definition sha1_pad (msg : bytes) : bytes :=
  let len := blen msg in
  msg ++ [128] ++ zeros (md_pad_zeros 64 8 len) ++ N_to_be 8 (trunc 64 (8 * len)).

Definition sha1_init : sha1_state := (0x67452301, 0xefcdab89, 0x98badcfe, 0x10325476, 0xc3d2e1f0).

Definition sha1 (msg : bytes) : bytes :=
  let blocks := chunks 16 (words_be 4 (sha1_pad msg)) in
  let '(a, b, c, d, e) := fold_left sha1_block blocks sha1_init in
  N_to_be 4 a ++ N_to_be 4 b ++ N_to_be 4 c ++ N_to_be 4 d ++ N_to_be 4 e.
