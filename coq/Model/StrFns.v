(* C28: the string functions of src/stdlib (upcase, downcase, strip_whitespace, split, join, starts_with,
   ends_with, contains, truncate, strlen, slice, chunks), mirrored on `bytes`.

   Every function that goes through `try_bytes_utf8_lossy` first applies `utf8_lossy` (Model/CodecUtf8.v) and
   then works on the code points `utf8_chars` of the (now valid) string: `chars s` is Rust's
   `String::from_utf8_lossy(s).chars()`.

   Unicode tables.  `char::is_whitespace` (the White_Space property, 25 code points) is modelled completely.
   The case mappings are Model/CaseTables.v (generated from the implementation, complete on the domain
   `case_domain`, identity outside); the generic functions `upcase_with` / `downcase_with` take the per-code-point
   mapping as a parameter so that the idempotence theorems can be stated for *any* mapping with the stated
   pointwise property (which the harness checks exhaustively for all 1,112,064 scalar values).
   Definitions only. *)
From Coq Require Import List NArith ZArith Bool PArith FMapPositive.
From VRL Require Import Base.Bytes Base.Value Model.CodecUtf8 Model.CaseTables.
Import ListNotations.
Local Open Scope N_scope.

(* ---------- results ---------- *)
Inductive res :=
| ROk (v : value)
| RErr                 (* ExpressionError (wrong argument type, range error, ...) *)
| RUnmodelled.         (* input outside what this model covers (regex patterns, flatten of objects): nothing is claimed *)

(* ---------- strings as code points ---------- *)
Definition chars (s : bytes) : list N := utf8_chars (utf8_lossy s).
Definition str (l : list N) : bytes := utf8_of_cps l.

(* usize-counted `take` that never converts a huge limit to nat *)
Fixpoint take_n {A} (n : N) (l : list A) : list A :=
  match l with
  | [] => []
  | x :: r => if n =? 0 then [] else x :: take_n (n - 1) r
  end.

Fixpoint drop_while {A} (f : A -> bool) (l : list A) : list A :=
  match l with
  | [] => []
  | x :: r => if f x then drop_while f r else l
  end.

(* ---------- char::is_whitespace ---------- *)
Definition is_ws (c : N) : bool :=
  ((9 <=? c) && (c <=? 13)) || (c =? 32) || (c =? 133) || (c =? 160) || (c =? 5760)
  || ((8192 <=? c) && (c <=? 8202)) || (c =? 8232) || (c =? 8233) || (c =? 8239) || (c =? 8287) || (c =? 12288).

(* ---------- case tables ---------- *)
Definition build_map (l : list (N * list N)) : PositiveMap.t (list N) :=
  fold_right (fun e m => match fst e with Npos p => PositiveMap.add p (snd e) m | N0 => m end)
             (PositiveMap.empty _) l.

Definition upper_map : PositiveMap.t (list N) := Eval vm_compute in build_map upper_entries.
Definition lower_map : PositiveMap.t (list N) := Eval vm_compute in build_map lower_entries.

Definition map_cp (m : PositiveMap.t (list N)) (c : N) : list N :=
  match c with
  | Npos p => match PositiveMap.find p m with Some l => l | None => [c] end
  | N0 => [c]
  end.

Definition upper_cp : N -> list N := map_cp upper_map.     (* char::to_uppercase *)
Definition lower_cp : N -> list N := map_cp lower_map.     (* char::to_lowercase (context free: Σ -> σ) *)

Definition in_ranges (l : list (N * N)) (c : N) : bool :=
  existsb (fun r => (fst r <=? c) && (c <=? snd r)) l.
Definition cased_cp : N -> bool := in_ranges cased_ranges.
Definition ign_cp : N -> bool := in_ranges ign_ranges.
Definition in_case_domain (c : N) : bool :=
  existsb (fun r => (fst r <=? c) && (c <? snd r)) case_domain.

(* ---------- upcase / downcase ---------- *)
Definition capital_sigma : N := 931.   (* Σ *)
Definition final_sigma : N := 962.     (* ς *)
Definition small_sigma : N := 963.     (* σ *)

Section CaseMapping.
  Variable upper : N -> list N.
  Variable lower : N -> list N.
  Variable cased : N -> bool.
  Variable ign : N -> bool.

  (* str::to_uppercase: every char replaced by its (1..3 char) uppercase mapping *)
  Definition upcase_with (s : bytes) : bytes := str (flat_map upper (chars s)).

  (* alloc::str::case_ignorable_then_cased *)
  Definition ign_then_cased (l : list N) : bool :=
    match drop_while ign l with
    | c :: _ => cased c
    | [] => false
    end.

  (* str::to_lowercase: Σ is ς when it is word-final (Final_Sigma of Unicode ch. 3), σ otherwise;
     `before` is the already consumed prefix of the *source* string, reversed *)
  Fixpoint lower_go (before : list N) (l : list N) : list N :=
    match l with
    | [] => []
    | c :: r =>
        (if c =? capital_sigma
         then [if ign_then_cased before && negb (ign_then_cased r) then final_sigma else small_sigma]
         else lower c) ++ lower_go (c :: before) r
    end.

  Definition downcase_cps (l : list N) : list N := lower_go [] l.
  Definition downcase_with (s : bytes) : bytes := str (downcase_cps (chars s)).
End CaseMapping.

Definition upcase : bytes -> bytes := upcase_with upper_cp.
Definition downcase : bytes -> bytes := downcase_with lower_cp cased_cp ign_cp.

(* ---------- strip_whitespace: str::trim ---------- *)
Definition trim_start (l : list N) : list N := drop_while is_ws l.
Definition trim_end (l : list N) : list N := rev (drop_while is_ws (rev l)).
Definition trim (l : list N) : list N := trim_end (trim_start l).
Definition strip_ws (s : bytes) : bytes := str (trim (chars s)).

(* ---------- substring search on bytes ---------- *)
Fixpoint is_prefix (p s : bytes) : bool :=
  match p, s with
  | [], _ => true
  | x :: p', y :: s' => (x =? y) && is_prefix p' s'
  | _ :: _, [] => false
  end.

Definition is_suffix (p s : bytes) : bool := is_prefix (rev p) (rev s).

(* first occurrence of p in s: (what precedes it, what follows it) *)
Fixpoint find_sub (p s : bytes) {struct s} : option (bytes * bytes) :=
  if is_prefix p s then Some ([], skipn (length p) s)
  else match s with
       | [] => None
       | c :: r => match find_sub p r with
                   | Some (b, a) => Some (c :: b, a)
                   | None => None
                   end
       end.

Definition is_infix (p s : bytes) : bool :=
  match find_sub p s with Some _ => true | None => false end.

(* ---------- split (string pattern): str::splitn(limit, pattern) ---------- *)
(* non-empty pattern; every round consumes at least one byte of s, so fuel = length s + 1 never runs out *)
Fixpoint splitn_ne (fuel : nat) (n : N) (p s : bytes) : list bytes :=
  match fuel with
  | O => [s]
  | S f =>
      if n =? 0 then []
      else if n =? 1 then [s]
      else match find_sub p s with
           | None => [s]
           | Some (b, a) => b :: splitn_ne f (n - 1) p a
           end
  end.

(* the empty pattern matches at every char boundary, the start and the end included *)
Definition char_pieces (v : bytes) : list bytes := map utf8_of_cp (utf8_chars v).
Definition split_empty (n : N) (v : bytes) : list bytes :=
  let all := [] :: char_pieces v ++ [[]] in
  if n =? 0 then []
  else if N.of_nat (length all) <=? n then all
  else take_n (n - 1) all ++ [concat (skipn (N.to_nat (n - 1)) all)].

Definition limit_of (limit : Z) : N := if (limit <? 0)%Z then 0 else Z.to_N limit.

Definition split_str (s d : bytes) (limit : Z) : list bytes :=
  let v := utf8_lossy s in
  let p := utf8_lossy d in
  match p with
  | [] => split_empty (limit_of limit) v
  | _ => splitn_ne (S (length v)) (limit_of limit) p v
  end.

Definition default_split_limit : Z := 999999999%Z.

Definition fn_split (s d limit : value) : res :=
  match s, limit, d with
  | VBytes s, VInt l, VBytes d => ROk (VArr (map VBytes (split_str s d l)))
  | VBytes _, VInt _, VRegex _ => RUnmodelled
  | _, _, _ => RErr
  end.

(* ---------- join ---------- *)
Fixpoint join_bytes (sep : bytes) (parts : list bytes) : bytes :=
  match parts with
  | [] => []
  | [p] => p
  | p :: ps => p ++ sep ++ join_bytes sep ps
  end.

Fixpoint all_bytes (l : list value) : option (list bytes) :=
  match l with
  | [] => Some []
  | VBytes b :: r => match all_bytes r with Some t => Some (utf8_lossy b :: t) | None => None end
  | _ :: _ => None
  end.

Definition fn_join (arr : value) (sep : option value) : res :=
  match arr with
  | VArr l =>
      match all_bytes l with
      | None => RErr
      | Some parts =>
          match sep with
          | None => ROk (VBytes (join_bytes [] parts))
          | Some (VBytes d) => ROk (VBytes (join_bytes (utf8_lossy d) parts))
          | Some _ => RErr
          end
      end
  | _ => RErr
  end.

(* ---------- starts_with / ends_with / contains ---------- *)
(* case sensitive starts_with compares the raw bytes (no lossy conversion) *)
Definition starts_with_cs (s p : bytes) : bool :=
  if (length s <? length p)%nat then false else is_prefix p s.

Definition ascii_lower (c : N) : N := if (65 <=? c) && (c <=? 90) then c + 32 else c.

Fixpoint zip_all {A} (f : A -> A -> bool) (l1 l2 : list A) : bool :=
  match l1, l2 with
  | x :: l1', y :: l2' => f x y && zip_all f l1' l2'
  | _, _ => true
  end.

(* the closure inside starts_with's Case::Insensitive arm *)
Definition ci_char_eq (a b : N) : bool :=
  if (a <? 128) && (b <? 128) then ascii_lower a =? ascii_lower b
  else zip_all N.eqb (lower_cp a) (lower_cp b).

(* the hand-written `Chars` iterator of starts_with.rs: the width comes from the first byte (utf8_width::get_width:
   1 for 00..7F, 2 for C2..DF, 3 for E0..EF, 4 for F0..F4, 0 otherwise); when the `width` bytes at the position are a
   valid UTF-8 sequence the item is that char, otherwise (width 0, too few bytes left, malformed sequence) the item
   is Err(first byte) and the position advances by ONE byte *)
Inductive citem := CIok (c : N) | CIerr (b : N).

Fixpoint ci_items (s : bytes) : list citem :=
  match s with
  | [] => []
  | b0 :: r =>
    if b0 <? 128 then CIok b0 :: ci_items r
    else if width2 b0 then
      match r with
      | b1 :: r1 => if is_cont b1 then CIok ((b0 - 192) * 64 + (b1 - 128)) :: ci_items r1
                    else CIerr b0 :: ci_items r
      | [] => [CIerr b0]
      end
    else if width3 b0 then
      match r with
      | b1 :: b2 :: r2 =>
          if ok3 b0 b1 && is_cont b2
          then CIok ((b0 - 224) * 4096 + (b1 - 128) * 64 + (b2 - 128)) :: ci_items r2
          else CIerr b0 :: ci_items r
      | _ => CIerr b0 :: ci_items r
      end
    else if width4 b0 then
      match r with
      | b1 :: b2 :: b3 :: r3 =>
          if ok4 b0 b1 && is_cont b2 && is_cont b3
          then CIok ((b0 - 240) * 262144 + (b1 - 128) * 4096 + (b2 - 128) * 64 + (b3 - 128)) :: ci_items r3
          else CIerr b0 :: ci_items r
      | _ => CIerr b0 :: ci_items r
      end
    else CIerr b0 :: ci_items r
  end.

(* the closure of `.all(..)`: chars as above, two invalid bytes match iff they are equal, a char never matches
   an invalid byte *)
Definition ci_item_eq (a b : citem) : bool :=
  match a, b with
  | CIok x, CIok y => ci_char_eq x y
  | CIerr x, CIerr y => x =? y
  | _, _ => false
  end.

(* Chars::new(starts).zip(Chars::new(bytes)).all(..) *)
Definition starts_with_ci (s p : bytes) : bool :=
  if (length s <? length p)%nat then false
  else zip_all ci_item_eq (ci_items p) (ci_items s).

Definition ends_with_cs (s p : bytes) : bool := is_suffix (utf8_lossy p) (utf8_lossy s).
Definition ends_with_ci (s p : bytes) : bool := is_suffix (downcase p) (downcase s).
Definition contains_cs (s p : bytes) : bool := is_infix (utf8_lossy p) (utf8_lossy s).
Definition contains_ci (s p : bytes) : bool := is_infix (downcase p) (downcase s).

Definition fn_starts_with (s p : value) (cs : bool) : res :=
  match s, p with
  | VBytes s, VBytes p =>
      ROk (VBool (if cs then starts_with_cs s p else starts_with_ci s p))
  | _, _ => RErr
  end.

Definition fn_ends_with (s p : value) (cs : bool) : res :=
  match s, p with
  | VBytes s, VBytes p => ROk (VBool (if cs then ends_with_cs s p else ends_with_ci s p))
  | _, _ => RErr
  end.

Definition fn_contains (s p : value) (cs : bool) : res :=
  match s, p with
  | VBytes s, VBytes p => ROk (VBool (if cs then contains_cs s p else contains_ci s p))
  | _, _ => RErr
  end.

(* ---------- truncate ---------- *)
Definition truncate_str (s : bytes) (limit : Z) (suffix : bytes) : bytes :=
  let v := utf8_lossy s in
  let kept := str (take_n (limit_of limit) (utf8_chars v)) in     (* v[..pos] *)
  if (length kept <? length v)%nat then kept ++ utf8_lossy suffix else v.

Definition fn_truncate (s limit suffix : value) : res :=
  match s, limit, suffix with
  | VBytes s, VInt l, VBytes x => ROk (VBytes (truncate_str s l x))
  | _, _, _ => RErr
  end.

(* ---------- strlen ---------- *)
Definition strlen (s : bytes) : Z := Z.of_nat (length (chars s)).

(* ---------- slice (bytes: by byte offsets; arrays) ---------- *)
Definition slice_range (start : Z) (end_ : option Z) (len : Z) : option (Z * Z) :=
  let s := if (start <? 0)%Z then (start + len)%Z else start in
  let e := match end_ with
           | Some e => if (e <? 0)%Z then (e + len)%Z else e
           | None => len
           end in
  if ((s <? 0) || (len <? s))%Z then None
  else if (e <? s)%Z then None
  else if (len <? e)%Z then Some (s, len)
  else Some (s, e).

Definition slice_list {A} (l : list A) (start : Z) (end_ : option Z) : option (list A) :=
  match slice_range start end_ (Z.of_nat (length l)) with
  | Some (s, e) => Some (firstn (Z.to_nat (e - s)) (skipn (Z.to_nat s) l))
  | None => None
  end.

Definition fn_slice (v start : value) (end_ : option value) : res :=
  match start with
  | VInt s =>
      match (match end_ with
             | None => Some None
             | Some (VInt e) => Some (Some e)
             | Some _ => None
             end) with
      | None => RErr
      | Some e =>
          match v with
          | VBytes b => match slice_list b s e with Some r => ROk (VBytes r) | None => RErr end
          | VArr a => match slice_list a s e with Some r => ROk (VArr r) | None => RErr end
          | _ => RErr
          end
      end
  | _ => RErr
  end.

(* ---------- chunks: <[u8]>::chunks(n) ---------- *)
Fixpoint chunks_go (fuel : nat) (n : nat) (s : bytes) : list bytes :=
  match fuel with
  | O => []
  | S f => match s with
           | [] => []
           | _ => firstn n s :: chunks_go f n (skipn n s)
           end
  end.

Definition fn_chunks (v size : value) : res :=
  match v, size with
  | VBytes b, VInt n =>
      if (n <? 1)%Z then RErr
      else ROk (VArr (map VBytes (chunks_go (length b) (Z.to_nat (Z.min n (Z.of_nat (length b) + 1))) b)))
  | _, _ => RErr
  end.
