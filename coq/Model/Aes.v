(* AES (FIPS-197) block encryption and decryption for 128/192/256-bit keys, on byte lists.
   Used only to INSTANTIATE the abstract block cipher of Model/Modes.v in the correspondence run
   (Corr/C23.v), so that the implementation's ciphertext bytes can be compared with what the mode models
   compute; no theorem depends on this file (the theorems quantify over any invertible block cipher).
   Pinned to the standard by the FIPS-197 appendix C vectors (Examples in Proofs/CipherProofs.v).
   Definitions only.  The state is the 16 input bytes in input order (column-major: byte r + 4c is row r,
   column c). *)
From Coq Require Import List NArith Bool Arith.
From VRL Require Import Base.Bytes.
Import ListNotations.
Local Open Scope N_scope.

Definition sbox (x : N) : N :=
  match x with
  | 0 => 99 | 1 => 124 | 2 => 119 | 3 => 123 | 4 => 242 | 5 => 107 | 6 => 111 | 7 => 197
  | 8 => 48 | 9 => 1 | 10 => 103 | 11 => 43 | 12 => 254 | 13 => 215 | 14 => 171 | 15 => 118
  | 16 => 202 | 17 => 130 | 18 => 201 | 19 => 125 | 20 => 250 | 21 => 89 | 22 => 71 | 23 => 240
  | 24 => 173 | 25 => 212 | 26 => 162 | 27 => 175 | 28 => 156 | 29 => 164 | 30 => 114 | 31 => 192
  | 32 => 183 | 33 => 253 | 34 => 147 | 35 => 38 | 36 => 54 | 37 => 63 | 38 => 247 | 39 => 204
  | 40 => 52 | 41 => 165 | 42 => 229 | 43 => 241 | 44 => 113 | 45 => 216 | 46 => 49 | 47 => 21
  | 48 => 4 | 49 => 199 | 50 => 35 | 51 => 195 | 52 => 24 | 53 => 150 | 54 => 5 | 55 => 154
  | 56 => 7 | 57 => 18 | 58 => 128 | 59 => 226 | 60 => 235 | 61 => 39 | 62 => 178 | 63 => 117
  | 64 => 9 | 65 => 131 | 66 => 44 | 67 => 26 | 68 => 27 | 69 => 110 | 70 => 90 | 71 => 160
  | 72 => 82 | 73 => 59 | 74 => 214 | 75 => 179 | 76 => 41 | 77 => 227 | 78 => 47 | 79 => 132
  | 80 => 83 | 81 => 209 | 82 => 0 | 83 => 237 | 84 => 32 | 85 => 252 | 86 => 177 | 87 => 91
  | 88 => 106 | 89 => 203 | 90 => 190 | 91 => 57 | 92 => 74 | 93 => 76 | 94 => 88 | 95 => 207
  | 96 => 208 | 97 => 239 | 98 => 170 | 99 => 251 | 100 => 67 | 101 => 77 | 102 => 51 | 103 => 133
  | 104 => 69 | 105 => 249 | 106 => 2 | 107 => 127 | 108 => 80 | 109 => 60 | 110 => 159 | 111 => 168
  | 112 => 81 | 113 => 163 | 114 => 64 | 115 => 143 | 116 => 146 | 117 => 157 | 118 => 56 | 119 => 245
  | 120 => 188 | 121 => 182 | 122 => 218 | 123 => 33 | 124 => 16 | 125 => 255 | 126 => 243 | 127 => 210
  | 128 => 205 | 129 => 12 | 130 => 19 | 131 => 236 | 132 => 95 | 133 => 151 | 134 => 68 | 135 => 23
  | 136 => 196 | 137 => 167 | 138 => 126 | 139 => 61 | 140 => 100 | 141 => 93 | 142 => 25 | 143 => 115
  | 144 => 96 | 145 => 129 | 146 => 79 | 147 => 220 | 148 => 34 | 149 => 42 | 150 => 144 | 151 => 136
  | 152 => 70 | 153 => 238 | 154 => 184 | 155 => 20 | 156 => 222 | 157 => 94 | 158 => 11 | 159 => 219
  | 160 => 224 | 161 => 50 | 162 => 58 | 163 => 10 | 164 => 73 | 165 => 6 | 166 => 36 | 167 => 92
  | 168 => 194 | 169 => 211 | 170 => 172 | 171 => 98 | 172 => 145 | 173 => 149 | 174 => 228 | 175 => 121
  | 176 => 231 | 177 => 200 | 178 => 55 | 179 => 109 | 180 => 141 | 181 => 213 | 182 => 78 | 183 => 169
  | 184 => 108 | 185 => 86 | 186 => 244 | 187 => 234 | 188 => 101 | 189 => 122 | 190 => 174 | 191 => 8
  | 192 => 186 | 193 => 120 | 194 => 37 | 195 => 46 | 196 => 28 | 197 => 166 | 198 => 180 | 199 => 198
  | 200 => 232 | 201 => 221 | 202 => 116 | 203 => 31 | 204 => 75 | 205 => 189 | 206 => 139 | 207 => 138
  | 208 => 112 | 209 => 62 | 210 => 181 | 211 => 102 | 212 => 72 | 213 => 3 | 214 => 246 | 215 => 14
  | 216 => 97 | 217 => 53 | 218 => 87 | 219 => 185 | 220 => 134 | 221 => 193 | 222 => 29 | 223 => 158
  | 224 => 225 | 225 => 248 | 226 => 152 | 227 => 17 | 228 => 105 | 229 => 217 | 230 => 142 | 231 => 148
  | 232 => 155 | 233 => 30 | 234 => 135 | 235 => 233 | 236 => 206 | 237 => 85 | 238 => 40 | 239 => 223
  | 240 => 140 | 241 => 161 | 242 => 137 | 243 => 13 | 244 => 191 | 245 => 230 | 246 => 66 | 247 => 104
  | 248 => 65 | 249 => 153 | 250 => 45 | 251 => 15 | 252 => 176 | 253 => 84 | 254 => 187 | 255 => 22
  | _ => 0
  end.

Definition inv_sbox (x : N) : N :=
  match x with
  | 0 => 82 | 1 => 9 | 2 => 106 | 3 => 213 | 4 => 48 | 5 => 54 | 6 => 165 | 7 => 56
  | 8 => 191 | 9 => 64 | 10 => 163 | 11 => 158 | 12 => 129 | 13 => 243 | 14 => 215 | 15 => 251
  | 16 => 124 | 17 => 227 | 18 => 57 | 19 => 130 | 20 => 155 | 21 => 47 | 22 => 255 | 23 => 135
  | 24 => 52 | 25 => 142 | 26 => 67 | 27 => 68 | 28 => 196 | 29 => 222 | 30 => 233 | 31 => 203
  | 32 => 84 | 33 => 123 | 34 => 148 | 35 => 50 | 36 => 166 | 37 => 194 | 38 => 35 | 39 => 61
  | 40 => 238 | 41 => 76 | 42 => 149 | 43 => 11 | 44 => 66 | 45 => 250 | 46 => 195 | 47 => 78
  | 48 => 8 | 49 => 46 | 50 => 161 | 51 => 102 | 52 => 40 | 53 => 217 | 54 => 36 | 55 => 178
  | 56 => 118 | 57 => 91 | 58 => 162 | 59 => 73 | 60 => 109 | 61 => 139 | 62 => 209 | 63 => 37
  | 64 => 114 | 65 => 248 | 66 => 246 | 67 => 100 | 68 => 134 | 69 => 104 | 70 => 152 | 71 => 22
  | 72 => 212 | 73 => 164 | 74 => 92 | 75 => 204 | 76 => 93 | 77 => 101 | 78 => 182 | 79 => 146
  | 80 => 108 | 81 => 112 | 82 => 72 | 83 => 80 | 84 => 253 | 85 => 237 | 86 => 185 | 87 => 218
  | 88 => 94 | 89 => 21 | 90 => 70 | 91 => 87 | 92 => 167 | 93 => 141 | 94 => 157 | 95 => 132
  | 96 => 144 | 97 => 216 | 98 => 171 | 99 => 0 | 100 => 140 | 101 => 188 | 102 => 211 | 103 => 10
  | 104 => 247 | 105 => 228 | 106 => 88 | 107 => 5 | 108 => 184 | 109 => 179 | 110 => 69 | 111 => 6
  | 112 => 208 | 113 => 44 | 114 => 30 | 115 => 143 | 116 => 202 | 117 => 63 | 118 => 15 | 119 => 2
  | 120 => 193 | 121 => 175 | 122 => 189 | 123 => 3 | 124 => 1 | 125 => 19 | 126 => 138 | 127 => 107
  | 128 => 58 | 129 => 145 | 130 => 17 | 131 => 65 | 132 => 79 | 133 => 103 | 134 => 220 | 135 => 234
  | 136 => 151 | 137 => 242 | 138 => 207 | 139 => 206 | 140 => 240 | 141 => 180 | 142 => 230 | 143 => 115
  | 144 => 150 | 145 => 172 | 146 => 116 | 147 => 34 | 148 => 231 | 149 => 173 | 150 => 53 | 151 => 133
  | 152 => 226 | 153 => 249 | 154 => 55 | 155 => 232 | 156 => 28 | 157 => 117 | 158 => 223 | 159 => 110
  | 160 => 71 | 161 => 241 | 162 => 26 | 163 => 113 | 164 => 29 | 165 => 41 | 166 => 197 | 167 => 137
  | 168 => 111 | 169 => 183 | 170 => 98 | 171 => 14 | 172 => 170 | 173 => 24 | 174 => 190 | 175 => 27
  | 176 => 252 | 177 => 86 | 178 => 62 | 179 => 75 | 180 => 198 | 181 => 210 | 182 => 121 | 183 => 32
  | 184 => 154 | 185 => 219 | 186 => 192 | 187 => 254 | 188 => 120 | 189 => 205 | 190 => 90 | 191 => 244
  | 192 => 31 | 193 => 221 | 194 => 168 | 195 => 51 | 196 => 136 | 197 => 7 | 198 => 199 | 199 => 49
  | 200 => 177 | 201 => 18 | 202 => 16 | 203 => 89 | 204 => 39 | 205 => 128 | 206 => 236 | 207 => 95
  | 208 => 96 | 209 => 81 | 210 => 127 | 211 => 169 | 212 => 25 | 213 => 181 | 214 => 74 | 215 => 13
  | 216 => 45 | 217 => 229 | 218 => 122 | 219 => 159 | 220 => 147 | 221 => 201 | 222 => 156 | 223 => 239
  | 224 => 160 | 225 => 224 | 226 => 59 | 227 => 77 | 228 => 174 | 229 => 42 | 230 => 245 | 231 => 176
  | 232 => 200 | 233 => 235 | 234 => 187 | 235 => 60 | 236 => 131 | 237 => 83 | 238 => 153 | 239 => 97
  | 240 => 23 | 241 => 43 | 242 => 4 | 243 => 126 | 244 => 186 | 245 => 119 | 246 => 214 | 247 => 38
  | 248 => 225 | 249 => 105 | 250 => 20 | 251 => 99 | 252 => 85 | 253 => 33 | 254 => 12 | 255 => 125
  | _ => 0
  end.

Definition xtime (x : N) : N :=
  let y := N.land (N.shiftl x 1) 255 in if N.testbit x 7 then N.lxor y 27 else y.
Definition gm2 := xtime.
Definition gm3 (x : N) := N.lxor (xtime x) x.
Definition gm9 (x : N) := N.lxor (xtime (xtime (xtime x))) x.
Definition gm11 (x : N) := N.lxor (N.lxor (xtime (xtime (xtime x))) (xtime x)) x.
Definition gm13 (x : N) := N.lxor (N.lxor (xtime (xtime (xtime x))) (xtime (xtime x))) x.
Definition gm14 (x : N) := N.lxor (N.lxor (xtime (xtime (xtime x))) (xtime (xtime x))) (xtime x).

Definition x4 (a b c d : N) : N := N.lxor (N.lxor a b) (N.lxor c d).

Fixpoint xor_bytes (a b : bytes) : bytes :=
  match a, b with
  | x :: a', y :: b' => N.lxor x y :: xor_bytes a' b'
  | _, _ => []
  end.

Definition shift_rows (s : bytes) : bytes :=
  match s with
  | [s0; s1; s2; s3; s4; s5; s6; s7; s8; s9; s10; s11; s12; s13; s14; s15] =>
      [s0; s5; s10; s15; s4; s9; s14; s3; s8; s13; s2; s7; s12; s1; s6; s11]
  | _ => s
  end.
Definition inv_shift_rows (s : bytes) : bytes :=
  match s with
  | [s0; s1; s2; s3; s4; s5; s6; s7; s8; s9; s10; s11; s12; s13; s14; s15] =>
      [s0; s13; s10; s7; s4; s1; s14; s11; s8; s5; s2; s15; s12; s9; s6; s3]
  | _ => s
  end.

Fixpoint mix_columns (s : bytes) : bytes :=
  match s with
  | a0 :: a1 :: a2 :: a3 :: r =>
      x4 (gm2 a0) (gm3 a1) a2 a3 :: x4 a0 (gm2 a1) (gm3 a2) a3
      :: x4 a0 a1 (gm2 a2) (gm3 a3) :: x4 (gm3 a0) a1 a2 (gm2 a3) :: mix_columns r
  | _ => []
  end.
Fixpoint inv_mix_columns (s : bytes) : bytes :=
  match s with
  | a0 :: a1 :: a2 :: a3 :: r =>
      x4 (gm14 a0) (gm11 a1) (gm13 a2) (gm9 a3) :: x4 (gm9 a0) (gm14 a1) (gm11 a2) (gm13 a3)
      :: x4 (gm13 a0) (gm9 a1) (gm14 a2) (gm11 a3) :: x4 (gm11 a0) (gm13 a1) (gm9 a2) (gm14 a3)
      :: inv_mix_columns r
  | _ => []
  end.

(* ---------- key expansion: words are 4-byte lists, the schedule is kept in order ---------- *)

Fixpoint words (b : bytes) : list bytes :=
  match b with
  | a :: b' :: c :: d :: r => [a; b'; c; d] :: words r
  | _ => []
  end.

Definition rot_word (w : bytes) : bytes := match w with a :: r => r ++ [a] | [] => [] end.
Definition sub_word (w : bytes) : bytes := map sbox w.

(* `todo` more words; i = index of the next word; rc = the current round constant *)
Fixpoint expand (todo : nat) (nk i : nat) (rc : N) (ws : list bytes) : list bytes :=
  match todo with
  | O => ws
  | S t =>
      let prev := nth (i - 1) ws [] in
      let back := nth (i - nk) ws [] in
      let '(tmp, rc') :=
        if Nat.eqb (i mod nk) 0 then (xor_bytes (sub_word (rot_word prev)) [rc; 0; 0; 0], xtime rc)
        else if Nat.ltb 6 nk && Nat.eqb (i mod nk) 4 then (sub_word prev, rc)
        else (prev, rc) in
      expand t nk (S i) rc' (ws ++ [xor_bytes back tmp])
  end.

(* the round keys (16 bytes each) for a 16/24/32-byte key; [] for any other length *)
Fixpoint group4 (ws : list bytes) : list bytes :=
  match ws with
  | a :: b :: c :: d :: r => (a ++ b ++ c ++ d) :: group4 r
  | _ => []
  end.

Definition round_keys (key : bytes) : list bytes :=
  let nk := Nat.div (length key) 4 in
  if Nat.eqb nk 4 || Nat.eqb nk 6 || Nat.eqb nk 8 then
    if Nat.eqb (length key) (4 * nk) then
      group4 (expand (4 * (nk + 7) - nk) nk nk 1 (words key))
    else []
  else [].

(* ---------- the cipher on a prepared schedule ---------- *)

Fixpoint enc_rounds (rks : list bytes) (s : bytes) : bytes :=
  match rks with
  | [] => s
  | [last] => xor_bytes (shift_rows (map sbox s)) last
  | rk :: r => enc_rounds r (xor_bytes (mix_columns (shift_rows (map sbox s))) rk)
  end.

Definition aes_enc_rk (rks : list bytes) (b : bytes) : bytes :=
  match rks with
  | [] => b
  | rk0 :: r => enc_rounds r (xor_bytes b rk0)
  end.

(* the inverse cipher, walking the schedule backwards (`rrks` = the reversed schedule) *)
Fixpoint dec_rounds (rrks : list bytes) (s : bytes) : bytes :=
  match rrks with
  | [] => s
  | [rk0] => xor_bytes (map inv_sbox (inv_shift_rows s)) rk0
  | rk :: r => dec_rounds r (inv_mix_columns (xor_bytes (map inv_sbox (inv_shift_rows s)) rk))
  end.

Definition aes_dec_rk (rks : list bytes) (b : bytes) : bytes :=
  match rev rks with
  | [] => b
  | last :: r => dec_rounds r (xor_bytes b last)
  end.

Definition aes_enc (key b : bytes) : bytes := aes_enc_rk (round_keys key) b.
Definition aes_dec (key b : bytes) : bytes := aes_dec_rk (round_keys key) b.
