(* Core VRL: the compiled expression language (one constructor per `Expr` variant of
   src/compiler/expression.rs that the core properties talk about) and its run-time state. *)
From Coq Require Import List NArith ZArith Bool.
From VRL Require Import Base.Bytes Base.Value.
Import ListNotations.

Definition ident := bytes.
Definition fname := bytes.

Inductive prefix := PEvent | PMeta.
Inductive opcode := OMul | ODiv | OAdd | OSub | OOr | OAnd | OErr | ONe | OEq | OGe | OGt | OLe | OLt | OMerge.

(* assignment::Target *)
Inductive target := TNoop | TVar (x : ident) (p : path) | TExt (pfx : prefix) (p : path).

(* the closure-taking stdlib functions that are modelled concretely *)
Inductive cfn := CForEach | CFilter | CMapKeys | CMapValues.

Inductive expr :=
| ELit (v : value)
| EVar (x : ident)
| EQExt (pfx : prefix) (p : path)                 (* query::Target::External *)
| EQVar (x : ident) (p : path)                    (* query::Target::Internal *)
| EQExpr (e : expr) (p : path)                    (* query::Target::{Container, FunctionCall} *)
| EArr (es : list expr)
| EObj (kvs : list (bytes * expr))                (* BTreeMap<KeyString, Expr>: evaluated in key order *)
| EBlock (es : list expr)
| EGroup (e : expr)
| EIf (c : list expr) (t : list expr) (f : option (list expr))   (* predicate is a block *)
| EOp (o : opcode) (a b : expr)
| ENot (e : expr)
| EAssign (t : target) (e : expr)
| EAssignInf (ok err : target) (e : expr) (dflt : value)
| EAbort (m : option expr)
| EReturn (e : expr)
| ECall (f : fname) (args : list expr)            (* closure-free function call; arguments in parameter order *)
| EDelExt (pfx : prefix) (p : path) (compact : bool)   (* del(.path, compact: literal) *)
| EDelVar (x : ident) (p : path) (compact : bool)      (* del(var.path) *)
| EExistsExt (pfx : prefix) (p : path)                 (* exists(.path) *)
| EExistsVar (x : ident) (p : path)
| EClosure (cf : cfn) (arg : expr) (params : list ident) (body : list expr).

(* ExpressionError, as far as the runtime can raise it; error messages are abstracted away except
   for abort (the property C07 is about the message).  `Panic` marks the two `expect`s. *)
Inductive err :=
| Error
| Abort (m : option bytes)
| Return (v : value)
| Panic.

Definition res := (value + err)%type.

(* operations on the external target, as the Target trait sees them *)
Inductive top :=
| TGet (pfx : prefix) (p : path)
| TIns (pfx : prefix) (p : path)
| TRem (pfx : prefix) (p : path) (compact : bool).

(* `tlog`: every Target operation performed so far, newest first (C16).
   `faults`: the fault schedule of the target (C17): the n-th Target operation is rejected
   (returns Err) iff the n-th element is true; an exhausted schedule rejects nothing. *)
Record state := mkState { vars : list (ident * value); ev : value; md : value;
                          tlog : list top; faults : list bool }.

Definition st0 (vs : list (ident * value)) (e m : value) : state := mkState vs e m [] [].

Fixpoint var_get (vs : list (ident * value)) (x : ident) : option value :=
  match vs with
  | [] => None
  | (y, v) :: r => if bytes_eqb y x then Some v else var_get r x
  end.

Fixpoint var_remove (vs : list (ident * value)) (x : ident) : list (ident * value) :=
  match vs with
  | [] => []
  | (y, v) :: r => if bytes_eqb y x then var_remove r x else (y, v) :: var_remove r x
  end.

(* HashMap::insert *)
Definition var_set (vs : list (ident * value)) (x : ident) (v : value) : list (ident * value) :=
  (x, v) :: var_remove vs x.

Definition set_vars (s : state) (vs : list (ident * value)) : state :=
  mkState vs (ev s) (md s) (tlog s) (faults s).

(* the message stored by `ok, err = e` when e fails; its text is not modelled *)
Definition ERRMSG : value := VBytes [0; 69; 82; 82; 0]%N.
