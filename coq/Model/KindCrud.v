(* Model of src/value/kind/merge.rs, kind/collection.rs (merge, is_superset), kind/comparison.rs
   (is_superset), kind/crud/{get,insert,remove}.rs.  Definitions only; every function mirrors the
   Rust branch by branch.  Recursion over kinds (merge, is_superset) is by fuel: `depth a + depth b`
   always suffices (each call strictly decreases the sum of depths); out of fuel yields the answer
   that claims nothing (`any` resp. `false`), so no statement about them can hold for lack of fuel. *)
From Coq Require Import List NArith ZArith Bool Lia.
From VRL Require Import Base.Bytes Base.Value Model.ValueCrud Model.Kind.
Import ListNotations.

(* ---------- merge.rs / Collection::merge / Unknown::merge ---------- *)

(* Unknown::merge; M = merge_keep with the caller's overwrite flag *)
Definition umerge (M : kind -> kind -> kind) (l r : unk) : unk :=
  match l, r with
  | UExact x, UExact y => UExact (M x y)
  | UInf x, UInf y => UInf (inf_or x y)
  | _, UInf y => UInf y
  | UInf x, UExact _ => UInf x
  end.

Section CollMerge.
  Context {K : Type}.
  Variable keqb : K -> K -> bool.
  Variable kcmp : K -> K -> comparison.
  Variable M : kind -> kind -> kind.   (* merge_keep(_, overwrite) *)
  Variable U : kind -> kind -> kind.   (* merge_keep(_, false) = union *)

  (* first loop of Collection::merge: the new kind of an entry (key, sk) of self.known *)
  Definition merge_self_entry (ow : bool) (r : coll_ K kind) (key : K) (sk : kind) : kind :=
    let ru := unknown_kind r in
    match aget keqb (known r) key with
    | Some ok => if ow then ok else U sk ok
    | None =>
        if contains_any_defined ru then
          (if ow then U (remove_undefined ru) sk else U sk ru)
        else if ow then sk else or_undefined sk
    end.

  (* second part: an entry of other.known whose key self does not know; lu = self.unknown_kind() *)
  Definition merge_other_entry (ow : bool) (lu : kind) (ok : kind) : kind :=
    if contains_any_defined lu then (if ow then ok else U ok lu)
    else if ow then ok else or_undefined ok.

  (* Collection::merge(self = l, other = r, overwrite = ow) *)
  Definition cmerge (ow : bool) (l r : coll_ K kind) : coll_ K kind :=
    let known1 := amap (merge_self_entry ow r) (known l) in
    (* what is left of other.known after the removals of the first loop *)
    let rest := filter (fun kv => negb (ahas keqb (known l) (fst kv))) (known r) in
    let known2 := aset_all kcmp known1 (map (fun kv => (fst kv, merge_other_entry ow (unknown_kind l) (snd kv))) rest) in
    mkC known2 (umerge M (unknown l) (unknown r)).
End CollMerge.

Definition merge_opt {A} (f : A -> A -> A) (l r : option A) : option A :=
  match l, r with
  | None, r => r
  | Some x, Some y => Some (f x y)
  | l, None => l
  end.

(* Kind::merge_keep(self = a, other = b, overwrite = ow) *)
Fixpoint merge_f (n : nat) (ow : bool) (a b : kind) {struct n} : kind :=
  match n with
  | O => k_any
  | S n' =>
      let M := merge_f n' ow in
      let U := merge_f n' false in
      Kind (p_or (prims_of a) (prims_of b))
           (merge_opt (cmerge Nat.eqb Nat.compare M U ow) (arr_of a) (arr_of b))
           (merge_opt (cmerge bytes_eqb bytes_cmp M U ow) (obj_of a) (obj_of b))
  end.

Definition merge_keep (a b : kind) (ow : bool) : kind := merge_f (depth a + depth b) ow a b.
Definition union (a b : kind) : kind := merge_keep a b false.

(* Kind::merge with a Strategy: collisions.is_shallow() = Overwrite *)
Inductive collision_strategy := Overwrite | Union.
Definition merge (a b : kind) (s : collision_strategy) : kind :=
  merge_keep a b (match s with Overwrite => true | Union => false end).

(* Collection::merge at top level (used by insert / remove), overwrite = false *)
Definition cunion_a (l r : acoll) : acoll := cmerge Nat.eqb Nat.compare union union false l r.
Definition cunion_o (l r : ocoll) : ocoll := cmerge bytes_eqb bytes_cmp union union false l r.

(* ---------- is_superset ---------- *)

Definition prims_superset (x y : prims) : bool :=
  implb' (p_bytes y) (p_bytes x) && implb' (p_integer y) (p_integer x) && implb' (p_float y) (p_float x)
  && implb' (p_boolean y) (p_boolean x) && implb' (p_timestamp y) (p_timestamp x)
  && implb' (p_regex y) (p_regex x) && implb' (p_null y) (p_null x) && implb' (p_undefined y) (p_undefined x).

(* Unknown::is_superset *)
Definition usuperset (S : kind -> kind -> bool) (l r : unk) : bool :=
  match l, r with
  | UInf i, UExact y => if inf_is_any i then true else S (kind_of_inf i) y
  | UExact x, UExact y => S (remove_undefined x) (remove_undefined y)
  | UExact x, UInf _ => is_any x
  | UInf i, UInf j => if inf_is_any i then true else inf_superset i j
  end.

(* Collection::is_superset *)
Definition csuperset {K} (keqb : K -> K -> bool) (S : kind -> kind -> bool) (l r : coll_ K kind) : bool :=
  usuperset S (unknown l) (unknown r)
  && forallb (fun kv => S (coll_at keqb l (fst kv)) (snd kv)) (known r)
  && forallb (fun kv => ahas keqb (known r) (fst kv) || S (snd kv) (unknown_kind r)) (known l).

Definition sup_opt {A} (f : A -> A -> bool) (l r : option A) : bool :=
  match l, r with
  | None, Some _ => false
  | Some x, Some y => f x y
  | _, None => true
  end.

(* Kind::is_superset(self = a, other = b).is_ok() *)
Fixpoint superset_f (n : nat) (a b : kind) {struct n} : bool :=
  match n with
  | O => false
  | S n' =>
      prims_superset (prims_of a) (prims_of b)
      && sup_opt (csuperset Nat.eqb (superset_f n')) (arr_of a) (arr_of b)
      && sup_opt (csuperset bytes_eqb (superset_f n')) (obj_of a) (obj_of b)
  end.

Definition is_superset (a b : kind) : bool := superset_f (depth a + depth b) a b.

(* ---------- crud/get.rs ---------- *)

Definition get_field (k : kind) (f : bytes) : kind :=
  match obj_of k with
  | None => k_undefined
  | Some c =>
      let kk := coll_at bytes_eqb c f in
      if is_exact k then kk else or_undefined kk
  end.

(* get_recursive *)
Fixpoint at_path (k : kind) (p : path) {struct p} : kind :=
  if is_never k then k_never else
  match p with
  | [] => k
  | SField f :: p' => at_path (get_field k f) p'
  | SIndex i :: p' =>
      match arr_of k with
      | None => k_undefined
      | Some c =>
          let positive (idx : nat) :=
            let kk := coll_at Nat.eqb c idx in
            at_path (if is_exact k then kk else or_undefined kk) p' in
          if (i <? 0)%Z then
            let largest := max_opt (map fst (known c)) in      (* every key, defined or not *)
            let len_required := Z.to_nat (- i) in
            let len := match largest with Some l => S l | None => 0 end in
            if contains_any_defined (unknown_kind c) then
              let s := (Z.of_nat len + i)%Z in
              let min_index := Z.to_nat (Z.max s 0) in
              let can_underflow := (s <? 0)%Z in
              let kind0 := unknown_kind c in
              let kind1 := if is_exact k && negb can_underflow then remove_undefined kind0 else kind0 in
              let kind2 := fold_left (fun acc kv => if Nat.leb min_index (fst kv) then union acc (snd kv) else acc)
                                     (known c) kind1 in
              at_path kind2 p'
            else if Nat.leb len_required len then positive (Z.to_nat (i + Z.of_nat len))
            else k_undefined
          else positive (Z.to_nat i)
      end
  end.

(* Kind::get *)
Definition kget (k : kind) (p : path) : kind := upgrade_undefined (at_path k p).

(* ---------- crud/insert.rs ---------- *)

(* `for i in lo..hi { known.entry(i).or_insert(x) }` *)
Definition fill_absent (m : list (nat * kind)) (lo hi : nat) (x : kind) : list (nat * kind) :=
  fold_left (fun acc j => if ahas Nat.eqb acc j then acc else aset Nat.compare acc j x) (seq lo (hi - lo)) m.

(* `for i in lo..hi { known.insert(i, x) }` *)
Definition fill_all (m : list (nat * kind)) (lo hi : nat) (x : kind) : list (nat * kind) :=
  fold_left (fun acc j => aset Nat.compare acc j x) (seq lo (hi - lo)) m.

(* the collection shifted right by `s` places, indices 1..s-1 typed null (index 0 is left to the insertion) *)
Definition shifted_coll (c : acoll) (s : nat) : acoll :=
  let holes := fill_all [] 1 s k_null in
  set_known c (aset_all Nat.compare holes (map (fun kv => (fst kv + s, snd kv)) (known c))).

(* insert_recursive(self = k, path = p, kind = x) *)
Fixpoint insert_rec (k : kind) (p : path) (x : kind) {struct p} : kind :=
  if is_never x then k else
  match p with
  | [] => x
  | SField f :: p' =>
      let c := match obj_of k with Some c => c | None => coll_empty end in
      let cur := coll_at bytes_eqb c f in
      k_object (set_known c (aset bytes_cmp (known c) f (insert_rec cur p' x)))
  | SIndex i :: p' =>
      let c := match arr_of k with Some c => c | None => coll_empty end in
      let positive (c : acoll) (index : nat) :=
        let c2 :=
          if ahas Nat.eqb (known c) index then c
          else set_known c (fill_absent (known c) 0 index (or_null (remove_undefined (unknown_kind c)))) in
        let cur := coll_at Nat.eqb c2 index in
        k_array (set_known c2 (aset Nat.compare (known c2) index (insert_rec cur p' x))) in
      if (i <? 0)%Z then
        let len_required := Z.to_nat (- i) in
        let uk := unknown_kind c in
        if contains_any_defined uk then
          let ml := min_length c in
          let c1 :=
            if Nat.ltb ml len_required then
              fold_left (fun acc s => cunion_a acc (shifted_coll c s)) (seq 1 (len_required - ml)) c
            else c in
          let min_index := Z.to_nat (Z.max (Z.of_nat ml + i) 0) in
          (* indices below len_required are guaranteed to exist afterwards *)
          let known1 :=
            fold_left (fun acc j =>
                         aset Nat.compare acc j
                              (remove_undefined (match aget Nat.eqb acc j with Some y => y | None => uk end)))
                      (seq 0 len_required) (known c1) in
          (* Kind::insert on a copy: upgrade_undefined, then insert_recursive *)
          let x' := upgrade_undefined x in
          let known2 :=
            amap (fun j jk => if Nat.leb min_index j then union jk (insert_rec jk p' x') else jk) known1 in
          let new_uk := union uk (insert_rec uk p' x') in
          k_array (mkC known2 (unk_of_kind new_uk))
        else
          let exact_len := match largest_known_index c with Some m => S m | None => 0 end in
          let c1 := if Nat.ltb exact_len len_required
                    then set_known c (fill_all (known c) exact_len len_required k_null) else c in
          positive c1 (Z.to_nat (i + Z.of_nat (Nat.max len_required exact_len)))
      else positive c (Z.to_nat i)
  end.

(* Kind::insert *)
Definition kinsert (k : kind) (p : path) (x : kind) : kind := insert_rec k p (upgrade_undefined x).
(* Kind::set_at_path *)
Definition set_at_path (k : kind) (p : path) (x : kind) : kind := insert_rec k p x.

(* ---------- crud/remove.rs ---------- *)

(* CompactOptions; CPanic = a debug-build arithmetic overflow panic was hit on the way *)
Inductive compact_opt := CAlways | CMaybe | CNever | CPanic.

(* CompactOptions::new; (false, false) is `unreachable!` — it cannot occur because `never` returns early *)
Definition co_new (compact dont : bool) : compact_opt :=
  match compact, dont with
  | true, false => CAlways
  | false, true => CNever
  | true, true => CMaybe
  | false, false => CPanic
  end.

Definition co_should (c : compact_opt) : bool :=
  match c with CAlways | CMaybe => true | _ => false end.

Definition co_of_empty (e : empty_state) : compact_opt :=
  match e with ENever => CNever | EMaybe => CMaybe | EAlways => CAlways end.

Section Compact.
  Context {K : Type}.
  Variable remove_known : coll_ K kind -> K -> coll_ K kind.
  Variable cunion : coll_ K kind -> coll_ K kind -> coll_ K kind.

  (* CompactOptions::compact(self, collection, key, continue_compact) *)
  Definition compact (self : compact_opt) (c : coll_ K kind) (key : K) (cont : bool) : coll_ K kind * compact_opt :=
    match self with
    | CPanic => (c, CPanic)
    | _ =>
        let c' := match self with
                  | CAlways => remove_known c key
                  | CMaybe => cunion (remove_known c key) c
                  | _ => c
                  end in
        (c', if negb (co_should self) then CNever
             else if negb cont then CNever
             else co_of_empty (coll_is_empty c'))
    end.
End Compact.

Definition remove_known_o (c : ocoll) (f : bytes) : ocoll := set_known c (adel bytes_eqb (known c) f).
Definition compact_o := compact remove_known_o cunion_o.
Definition compact_a := compact remove_shift cunion_a.

(* remove_inner: the new `self` and the CompactOptions it returns *)
Fixpoint remove_inner (k : kind) (p : path) (cpt : bool) {struct p} : kind * compact_opt :=
  if is_never k then (k_never, CNever) else
  match p with
  | [] => (k, co_new (contains_any_defined k) (contains_undefined k))
  | SField f :: p' =>
      let apk := at_path k p in
      match obj_of k with
      | None => (k, CNever)
      | Some c =>
          let '(c1, co) :=
            match aget bytes_eqb (known c) f with
            | Some child => let '(child', co) := remove_inner child p' cpt in
                            (set_known c (aset bytes_cmp (known c) f child'), co)
            | None => (c, snd (remove_inner apk p' cpt))      (* the modified temporary is discarded *)
            end in
          let '(c2, co') := compact_o co c1 f cpt in
          (Kind (prims_of k) (arr_of k) (Some c2), co')
      end
  | SIndex i :: p' =>
      let apk := at_path k p in
      match arr_of k with
      | None => (k, CNever)
      | Some c =>
          let positive (index : nat) :=
            let '(c1, co) :=
              match aget Nat.eqb (known c) index with
              | Some child => let '(child', co) := remove_inner child p' cpt in
                              (set_known c (aset Nat.compare (known c) index child'), co)
              | None => (c, snd (remove_inner apk p' cpt))
              end in
            let '(c2, co') := compact_a co c1 index cpt in
            (Kind (prims_of k) (Some c2) (obj_of k), co') in
          if (i <? 0)%Z then
            let negative_index := Z.to_nat (- i) in
            if contains_any_defined (unknown_kind c) then
              match largest_known_index c with
              | None => (k, if Nat.leb (min_length c) 1 then CMaybe else CNever)
              | Some l =>
                    (* `(x + 1).saturating_sub(negative_index)` (since 3fccdc6; it used to underflow usize);
                       subtraction on nat saturates *)
                    let min_index := S l - negative_index in
                    let one (j : nat) : acoll * bool :=
                      match aget Nat.eqb (known c) j with
                      | Some child =>
                          let '(child', co) := remove_inner child p' cpt in
                          let '(c2, co') := compact_a co (set_known c (aset Nat.compare (known c) j child')) j cpt in
                          (c2, match co with CPanic => true | _ => false end)
                      | None => (c, false)
                      end in
                    let '(c', panicked) :=
                      fold_left (fun acc j => let '(sr, pk) := one j in (cunion_a (fst acc) sr, snd acc || pk))
                                (seq min_index (S l - min_index)) (c, false) in
                    (Kind (prims_of k) (Some c') (obj_of k),
                     if panicked then CPanic else if Nat.leb (min_length c') 1 then CMaybe else CNever)
              end
            else match get_positive_index c i with
                 | Some pos => positive pos
                 | None => (k, CNever)
                 end
          else positive (Z.to_nat i)
      end
  end.

(* Kind::remove: (new self, returned kind, panicked) *)
Definition kremove (k : kind) (p : path) (cpt : bool) : kind * kind * bool :=
  let removed := kget k p in
  match p with
  | [] =>
      let o := if contains_object k then Some coll_empty else None in
      let a := if contains_array k then Some coll_empty else None in
      let pr := if contains_primitive k then p_set_null p_none true else p_none in
      (Kind pr a o, removed, false)
  | _ :: _ =>
      let '(k', co) := remove_inner k p cpt in
      (k', removed, match co with CPanic => true | _ => false end)
  end.
