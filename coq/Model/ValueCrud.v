(* Model of src/value/value/crud/{get,insert,remove,mod}.rs and the `Value::{get,insert,remove}`
   wrappers of src/value/value.rs.  Definitions only. *)
From Coq Require Import List NArith ZArith Bool Lia.
From VRL Require Import Base.Bytes Base.Value.
Import ListNotations.

(* crud::get *)
Fixpoint get (v : value) (p : path) {struct p} : option value :=
  match p with
  | [] => Some v
  | SField k :: p' =>
      match v with
      | VObj m => match obj_get m k with Some w => get w p' | None => None end
      | _ => None
      end
  | SIndex i :: p' =>
      match v with
      | VArr a => match arr_get a i with Some w => get w p' | None => None end
      | _ => None
      end
  end.

(* crud::insert, seen from the slot the key designates: `slot` is what
   `value.get_mut_value(key)` returns (None = vacant); the result is what the slot holds afterwards.
   A slot holding the wrong container kind (or a scalar, or nothing) is replaced by a fresh
   container, exactly as the `else` branches do. *)
Fixpoint ins (slot : option value) (p : path) (x : value) {struct p} : value :=
  match p with
  | [] => x
  | SField k :: p' =>
      let m := match slot with Some (VObj m) => m | _ => [] end in
      VObj (obj_set m k (ins (obj_get m k) p' x))
  | SIndex i :: p' =>
      let a := match slot with Some (VArr a) => a | _ => [] end in
      VArr (arr_set a i (ins (arr_get a i) p' x))
  end.

(* Value::insert: the new value of `self` *)
Definition insert (v : value) (p : path) (x : value) : value := ins (Some v) p x.

(* Value::insert's return value (the previous occupant) *)
Fixpoint ins_prev (slot : option value) (p : path) {struct p} : option value :=
  match p with
  | [] => slot
  | SField k :: p' =>
      let m := match slot with Some (VObj m) => m | _ => [] end in
      ins_prev (obj_get m k) p'
  | SIndex i :: p' =>
      let a := match slot with Some (VArr a) => a | _ => [] end in
      ins_prev (arr_get a i) p'
  end.
Definition insert_prev (v : value) (p : path) : option value := ins_prev (Some v) p.

(* crud::remove below the root: `c` is the container the current key lives in, `p` the
   non-empty remaining path (its head is the key).  Result: (removed value, new container). *)
Fixpoint rm (c : value) (p : path) (prune : bool) {struct p} : option (value * value) :=
  match p with
  | [] => None
  | SField f :: p' =>
      match c with
      | VObj m =>
          match p' with
          | [] => match obj_get m f with
                  | Some old => Some (old, VObj (obj_remove m f))
                  | None => None
                  end
          | _ :: _ =>
              match obj_get m f with
              | Some c' =>
                  match rm c' p' prune with
                  | Some (prev, c'') =>
                      Some (prev, VObj (if prune && is_empty_coll c''
                                        then obj_remove m f else obj_set m f c''))
                  | None => None
                  end
              | None => None
              end
          end
      | _ => None
      end
  | SIndex i :: p' =>
      match c with
      | VArr a =>
          match p' with
          | [] => match arr_remove a i with
                  | Some (old, a') => Some (old, VArr a')
                  | None => None
                  end
          | _ :: _ =>
              match arr_get a i with
              | Some c' =>
                  match rm c' p' prune with
                  | Some (prev, c'') =>
                      Some (prev, VArr (if prune && is_empty_coll c''
                                        then match arr_remove a i with
                                             | Some (_, a') => a' | None => a end
                                        else arr_set a i c''))
                  | None => None
                  end
              | None => None
              end
          end
      | _ => None
      end
  end.

(* Value::remove: (returned value, new self) *)
Definition remove (v : value) (p : path) (prune : bool) : option value * value :=
  match p with
  | [] => match v with
          | VObj _ => (Some v, VObj [])
          | VArr _ => (Some v, VArr [])
          | _ => (Some v, VNull)
          end
  | _ :: _ => match rm v p prune with
              | Some (prev, v') => (Some prev, v')
              | None => (None, v)
              end
  end.

(* ---------- vocabulary for the frame law (C18) ---------- *)

Definition get_opt (slot : option value) (q : path) : option value :=
  match slot with Some v => get v q | None => None end.

Definition as_obj (slot : option value) : obj := match slot with Some (VObj m) => m | _ => [] end.
Definition as_arr (slot : option value) : list value := match slot with Some (VArr a) => a | _ => [] end.

Definition in_range (len : nat) (i : Z) : bool :=
  match arr_index len i with Some n => Nat.ltb n len | None => false end.

Definition new_len (len : nat) (i : Z) : nat :=
  if (0 <=? i)%Z then Nat.max len (S (Z.to_nat i)) else Nat.max len (Z.to_nat (- i)).

(* `disjoint_stable slot p q`: q names a location that neither contains nor is contained in p,
   and whose *name* keeps denoting the same element while p is written:
     - field vs field with different keys: always;
     - index vs index: different elements, and when the write extends the array, q's index has the
       sign that is not renumbered by the extension (end padding renumbers negative indices, front
       padding renumbers non-negative ones), or q stays outside the extended array;
     - field vs index (or the reverse): the write replaces a container of the other kind
       (assignment coerces), so q must not have existed there. *)
Fixpoint disjoint_stable (slot : option value) (p q : path) {struct p} : bool :=
  match p, q with
  | [], _ => false
  | _, [] => false
  | SField k1 :: p', SField k2 :: q' =>
      if bytes_eqb k1 k2 then disjoint_stable (obj_get (as_obj slot) k1) p' q' else true
  | SIndex i :: p', SIndex j :: q' =>
      let a := as_arr slot in
      let len := length a in
      if (i =? j)%Z then disjoint_stable (arr_get a i) p' q'
      else if in_range len i && in_range len j then
        if match arr_index len i, arr_index len j with
           | Some n, Some m => Nat.eqb n m | _, _ => false end
        then disjoint_stable (arr_get a i) p' q'
        else true
      else if in_range len j then
        (* the write pads the array *)
        ((0 <=? i)%Z && (0 <=? j)%Z) || ((i <? 0)%Z && (j <? 0)%Z)
      else
        negb (in_range (new_len len i) j)
  | SField _ :: _, SIndex j :: _ =>
      match slot with Some (VArr a) => negb (in_range (length a) j) | _ => true end
  | SIndex _ :: _, SField k :: _ =>
      match slot with Some (VObj m) => match obj_get m k with None => true | Some _ => false end
                 | _ => true end
  end.

Definition is_scalar (v : value) : bool :=
  match v with VObj _ | VArr _ => false | _ => true end.
