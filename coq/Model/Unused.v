(* C34: the unused-expression checker of src/compiler/unused_expression_checker.rs
   (AstVisitor / VisitorState) over the *parser* AST, the elaboration of that AST into the compiled
   expression language of Model/Expr.v, and statement deletion.  Definitions only.

   Parser AST (`pexpr`).  One constructor per `parser::ast::Expr` shape the checker distinguishes:
     Literal (scalar; composite literals are Container::Array/Object of literals in the parser AST;
     template strings are not modelled), Variable, Query with an External / Internal target,
     Query whose target is a Container or a FunctionCall (PQExpr), Container::{Group,Block,Array,
     Object}, IfStatement (Predicate::One/Many = a list), Op, Unary::Not, Assignment::{Single,
     Infallible}, Abort, Return, FunctionCall.  Function calls are split by what the compiler makes
     of them: PCall (closure-free, any name), PDel*/PExists* (`del(q)` / `exists(q)` on a query),
     PClosure (for_each / filter / map_keys / map_values with their closure).
   Children are numbered flat, in source order: a position is the list of child indices from the
   root statement list.  PIf: predicates, then the if-block's statements, then the else-block's;
   PClosure: the argument is child 0, the closure body's statements follow. *)
From Coq Require Import List NArith ZArith Bool String Ascii.
From VRL Require Import Base.Bytes Base.Value Model.Expr.
Import ListNotations.
Local Open Scope list_scope.

Inductive pexpr :=
| PLit (v : value)
| PVar (x : ident)
| PQExt (pfx : prefix) (p : path)
| PQVar (x : ident) (p : path)
| PQExpr (e : pexpr) (p : path)
| PGroup (e : pexpr)
| PBlock (es : list pexpr)
| PArr (es : list pexpr)
| PObj (kvs : list (bytes * pexpr))                 (* source order *)
| PIf (c : list pexpr) (t : list pexpr) (f : option (list pexpr))
| POp (o : opcode) (a b : pexpr)
| PNot (e : pexpr)
| PAssign (t : target) (e : pexpr)
| PAssignInf (ok er : target) (e : pexpr) (dflt : value)
| PAbort (m : option pexpr)
| PReturn (e : pexpr)
| PCall (f : fname) (bang : bool) (args : list pexpr)
| PDelExt (pfx : prefix) (p : path)
| PDelVar (x : ident) (p : path)
| PExistsExt (pfx : prefix) (p : path)
| PExistsVar (x : ident) (p : path)
| PClosure (cf : cfn) (bang : bool) (arg : pexpr) (ps : list ident) (body : list pexpr).

Fixpoint bs (s : string) : bytes :=
  match s with
  | EmptyString => []
  | String c r => N_of_ascii c :: bs r
  end.

(* const SIDE_EFFECT_FUNCTIONS *)
Definition SIDE_EFFECT_FUNCTIONS : list bytes :=
  [bs "del"%string; bs "log"%string; bs "assert"%string; bs "assert_eq"%string; bs "set_semantic_meaning"%string].

Definition is_se (f : fname) : bool := existsb (bytes_eqb f) SIDE_EFFECT_FUNCTIONS.

Definition cfn_name (cf : cfn) : fname :=
  match cf with
  | CForEach => bs "for_each"%string
  | CFilter => bs "filter"%string
  | CMapKeys => bs "map_keys"%string
  | CMapValues => bs "map_values"%string
  end.

(* QueryTarget::FunctionCall (as opposed to QueryTarget::Container) *)
Definition is_call (e : pexpr) : bool :=
  match e with
  | PCall _ _ _ | PDelExt _ _ | PDelVar _ _ | PExistsExt _ _ | PExistsVar _ _ | PClosure _ _ _ _ _ => true
  | _ => false
  end.

(* ---------- VisitorState ---------- *)

(* the three messages of append_diagnostic that are about an expression
   ("unused literal", "unused object", "unused result for function call") *)
Inductive wcls := WLit | WObj | WCall.

Definition pos := list nat.

(* HashMap<usize,bool>::get(..).is_some_and(|b| *b): a missing entry reads as false *)
Record vstate := mkV {
  v_level : nat;
  v_exp : nat -> bool;        (* expecting_result *)
  v_blk : nat -> bool;        (* within_block_expression *)
  v_diags : list (pos * wcls) (* newest first *)
}.

Definition v0 : vstate := mkV 0 (fun _ => false) (fun _ => false) [].

Definition upd (f : nat -> bool) (k : nat) (b : bool) : nat -> bool :=
  fun n => if Nat.eqb n k then b else f n.

Definition is_unused (st : vstate) : bool := negb (v_exp st (v_level st)).
Definition is_within (st : vstate) : bool := v_blk st (v_level st).
Definition inc (st : vstate) : vstate := mkV (S (v_level st)) (v_exp st) (v_blk st) (v_diags st).
Definition dec (st : vstate) : vstate := mkV (Nat.pred (v_level st)) (v_exp st) (v_blk st) (v_diags st).
Definition mark_exp (st : vstate) (b : bool) : vstate :=
  mkV (v_level st) (upd (v_exp st) (v_level st) b) (v_blk st) (v_diags st).
Definition mark_blk (st : vstate) (b : bool) : vstate :=
  mkV (v_level st) (v_exp st) (upd (v_blk st) (v_level st) b) (v_diags st).
Definition enter_block (st : vstate) : vstate := mark_blk (inc st) true.
Definition exiting_block (st : vstate) : vstate := dec (mark_blk st false).
Definition flag (st : vstate) (p : pos) (c : wcls) : vstate :=
  mkV (v_level st) (v_exp st) (v_blk st) ((p, c) :: v_diags st).

(* scoped_visit; visit_assignment, visit_return and the argument loop of visit_function_call do
   exactly the same bookkeeping *)
Definition scoped (f : vstate -> vstate) (st : vstate) : vstate :=
  dec (mark_exp (f (mark_exp (inc st) true)) false).

Definition foldi {A St} (f : nat -> A -> St -> St) : nat -> list A -> St -> St :=
  fix go (i : nat) (l : list A) (s : St) {struct l} : St :=
    match l with
    | [] => s
    | x :: r => go (S i) r (f i x s)
    end.

(* the loop of visit_block: exiting_block runs just before the last expression is visited *)
Definition fold_blk {A} (f : nat -> A -> vstate -> vstate) : nat -> list A -> vstate -> vstate :=
  fix go (i : nat) (l : list A) (s : vstate) {struct l} : vstate :=
    match l with
    | [] => s
    | x :: r =>
        match r with
        | [] => f i x (exiting_block s)
        | _ :: _ => go (S i) r (f i x s)
        end
    end.

(* visit_function_call after the arguments have been visited; `clo` is the visit of the closure block *)
Definition call_tail (f : fname) (bang : bool) (clo : option (vstate -> vstate)) (p : pos) (st : vstate) : vstate :=
  let st2 := if negb bang && is_within st then mark_exp st true else st in
  let st3 :=
    if is_se f then st2
    else match clo with
         | Some body => mark_exp (body (mark_exp st2 true)) false
         | None => if is_unused st2 then flag st2 p WCall else st2
         end in
  if negb bang && is_within st3 then mark_exp st3 false else st3.

Fixpoint visit (e : pexpr) (p : pos) (st : vstate) {struct e} : vstate :=
  let vblock :=
    fun (off : nat) (es : list pexpr) (st : vstate) =>
      match es with
      | [] => st
      | _ :: _ => fold_blk (fun i x s => visit x (p ++ [i]) s) off es (enter_block st)
      end in
  match e with
  | PLit _ => if is_unused st then flag st p WLit else st
  | PVar _ | PQExt _ _ | PQVar _ _ | PAbort _ => st
  | PQExpr e1 _ => if is_call e1 then visit e1 (p ++ [0]) st else st
  | PGroup e1 | PNot e1 => visit e1 (p ++ [0]) st
  | PBlock es => vblock 0 es st
  | PArr es => foldi (fun i x s => visit x (p ++ [i]) s) 0 es st
  | PObj kvs =>
      let st1 := if is_unused st then flag st p WObj else st in
      foldi (fun i kv s => scoped (visit (snd kv) (p ++ [i])) s) 0 kvs st1
  | PIf c t f =>
      scoped (fun s =>
                let s1 := foldi (fun i x s => visit x (p ++ [i]) s) 0 c s in
                let s2 := scoped (vblock (List.length c) t) s1 in
                match f with
                | Some fb => scoped (vblock (List.length c + List.length t) fb) s2
                | None => s2
                end) st
  | POp _ a b => scoped (visit b (p ++ [1])) (visit a (p ++ [0]) st)
  | PAssign _ e1 | PAssignInf _ _ e1 _ | PReturn e1 => scoped (visit e1 (p ++ [0])) st
  | PCall f bang args =>
      call_tail f bang None p (foldi (fun i x s => scoped (visit x (p ++ [i])) s) 0 args st)
  | PDelExt _ _ | PDelVar _ _ => call_tail (bs "del"%string) false None p st
  | PExistsExt _ _ | PExistsVar _ _ => call_tail (bs "exists"%string) false None p st
  | PClosure cf bang arg _ body =>
      call_tail (cfn_name cf) bang (Some (vblock 1 body)) p (scoped (visit arg (p ++ [0])) st)
  end.

(* AstVisitor::check_for_unused_results, the expression diagnostics only, in the order they are pushed *)
Fixpoint visit_root (i : nat) (es : list pexpr) (st : vstate) : vstate :=
  match es with
  | [] => st
  | x :: r =>
      match r with
      | [] => mark_exp (dec (visit x [i] (mark_exp (inc st) true))) false
      | _ :: _ => visit_root (S i) r (visit x [i] st)
      end
  end.

Definition check_program (es : list pexpr) : list (pos * wcls) := rev (v_diags (visit_root 0 es v0)).

(* ---------- sub-expressions by position ---------- *)

Definition children (e : pexpr) : list pexpr :=
  match e with
  | PQExpr e1 _ | PGroup e1 | PNot e1 | PAssign _ e1 | PAssignInf _ _ e1 _ | PReturn e1 => [e1]
  | PBlock es | PArr es | PCall _ _ es => es
  | PObj kvs => map snd kvs
  | PIf c t f => c ++ t ++ match f with Some fb => fb | None => [] end
  | POp _ a b => [a; b]
  | PAbort (Some m) => [m]
  | PClosure _ _ arg _ body => arg :: body
  | _ => []
  end.

Fixpoint sub (e : pexpr) (q : pos) {struct q} : option pexpr :=
  match q with
  | [] => Some e
  | i :: r => match nth_error (children e) i with Some x => sub x r | None => None end
  end.

Definition psub (es : list pexpr) (q : pos) : option pexpr :=
  match q with
  | [] => None
  | i :: r => match nth_error es i with Some x => sub x r | None => None end
  end.

(* ---------- elaboration into the compiled expression language ---------- *)

Fixpoint kv_insert (k : bytes) (e : expr) (l : list (bytes * expr)) : list (bytes * expr) :=
  match l with
  | [] => [(k, e)]
  | (k', e') :: r =>
      match bytes_cmp k k' with
      | Lt => (k, e) :: l
      | Eq => (k, e) :: r
      | Gt => (k', e') :: kv_insert k e r
      end
  end.

(* BTreeMap<KeyString, Expr>: evaluated in key order *)
Definition kv_sort (l : list (bytes * expr)) : list (bytes * expr) :=
  fold_left (fun acc kv => kv_insert (fst kv) (snd kv) acc) l [].

Fixpoint elab (e : pexpr) : expr :=
  match e with
  | PLit v => ELit v
  | PVar x => EVar x
  | PQExt pfx p => EQExt pfx p
  | PQVar x p => EQVar x p
  | PQExpr e1 p => EQExpr (elab e1) p
  | PGroup e1 => EGroup (elab e1)
  | PBlock es => EBlock (map elab es)
  | PArr es => EArr (map elab es)
  | PObj kvs => EObj (kv_sort (map (fun kv => (fst kv, elab (snd kv))) kvs))
  | PIf c t f => EIf (map elab c) (map elab t) (match f with Some fb => Some (map elab fb) | None => None end)
  | POp o a b => EOp o (elab a) (elab b)
  | PNot e1 => ENot (elab e1)
  | PAssign t e1 => EAssign t (elab e1)
  | PAssignInf ok er e1 d => EAssignInf ok er (elab e1) d
  | PAbort m => EAbort (match m with Some x => Some (elab x) | None => None end)
  | PReturn e1 => EReturn (elab e1)
  | PCall f _ args => ECall f (map elab args)
  | PDelExt pfx p => EDelExt pfx p false
  | PDelVar x p => EDelVar x p false
  | PExistsExt pfx p => EExistsExt pfx p
  | PExistsVar x p => EExistsVar x p
  | PClosure cf _ arg ps body => EClosure cf (elab arg) ps (map elab body)
  end.

Definition elab_prog (es : list pexpr) : list expr := map elab es.

(* ---------- syntactic purity ---------- *)

Definition nonempty {A} (l : list A) : bool := match l with [] => false | _ => true end.

(* no assignment, no del, no closure, no abort / return; every block has a statement *)
Fixpoint eff_free (e : pexpr) : bool :=
  match e with
  | PLit _ | PVar _ | PQExt _ _ | PQVar _ _ | PExistsExt _ _ | PExistsVar _ _ => true
  | PQExpr e1 _ | PGroup e1 | PNot e1 => eff_free e1
  | PBlock es => nonempty es && forallb eff_free es
  | PArr es | PCall _ _ es => forallb eff_free es
  | PObj kvs => forallb (fun kv => eff_free (snd kv)) kvs
  | PIf c t f =>
      nonempty c && forallb eff_free c && nonempty t && forallb eff_free t
      && match f with Some fb => nonempty fb && forallb eff_free fb | None => true end
  | POp _ a b => eff_free a && eff_free b
  | PAssign _ _ | PAssignInf _ _ _ _ | PAbort _ | PReturn _ | PDelExt _ _ | PDelVar _ _
  | PClosure _ _ _ _ _ => false
  end.

(* ... and, in addition, cannot fail: `tf f n` says that function f never returns an error on n arguments *)
Fixpoint total (tf : fname -> nat -> bool) (e : pexpr) : bool :=
  match e with
  | PLit _ | PVar _ | PQExt _ _ | PQVar _ _ | PExistsExt _ _ | PExistsVar _ _ => true
  | PQExpr e1 _ | PGroup e1 => total tf e1
  | PBlock es => nonempty es && forallb (total tf) es
  | PArr es => forallb (total tf) es
  | PObj kvs => forallb (fun kv => total tf (snd kv)) kvs
  | POp OErr a b => eff_free a && total tf b
  | POp OOr a b => total tf a && total tf b
  | PCall f _ es => tf f (List.length es) && forallb (total tf) es
  | _ => false
  end.

(* what a flagged expression looks like, and "its children carry no effect / cannot fail" *)
Definition shape_ok (c : wcls) (e : pexpr) : bool :=
  match c, e with
  | WLit, PLit _ => true
  | WObj, PObj _ => true
  | WCall, PCall f _ _ => negb (is_se f)
  | WCall, (PExistsExt _ _ | PExistsVar _ _) => true
  | _, _ => false
  end.

Definition kids_eff_free (e : pexpr) : bool := forallb eff_free (children e).
Definition kids_total (tf : fname -> nat -> bool) (e : pexpr) : bool :=
  forallb (total tf) (children e)
  && match e with PCall f _ es => tf f (List.length es) | _ => true end.

(* ---------- deleting statements ---------- *)

Definition mapi {A B} (f : nat -> A -> B) : nat -> list A -> list B :=
  fix go (i : nat) (l : list A) {struct l} : list B :=
    match l with
    | [] => []
    | x :: r => f i x :: go (S i) r
    end.

(* drop the selected statements of a statement list, never the last one *)
Definition drop_stmts {A} (sel : nat -> bool) : nat -> list A -> list A :=
  fix go (i : nat) (l : list A) {struct l} : list A :=
    match l with
    | [] => []
    | x :: r =>
        match r with
        | [] => [x]
        | _ :: _ => if sel i then go (S i) r else x :: go (S i) r
        end
    end.

(* delete every selected non-last statement of every block (Block, if/else blocks, closure bodies) *)
Fixpoint pdel (sel : pos -> bool) (p : pos) (e : pexpr) {struct e} : pexpr :=
  let kids := fun off es => mapi (fun i x => pdel sel (p ++ [i]) x) off es in
  let stmts := fun off es => drop_stmts (fun i => sel (p ++ [i])) off (kids off es) in
  match e with
  | PQExpr e1 q => PQExpr (pdel sel (p ++ [0]) e1) q
  | PGroup e1 => PGroup (pdel sel (p ++ [0]) e1)
  | PNot e1 => PNot (pdel sel (p ++ [0]) e1)
  | PBlock es => PBlock (stmts 0 es)
  | PArr es => PArr (kids 0 es)
  | PObj kvs => PObj (mapi (fun i kv => (fst kv, pdel sel (p ++ [i]) (snd kv))) 0 kvs)
  | PIf c t f =>
      PIf (kids 0 c) (stmts (List.length c) t)
          (match f with Some fb => Some (stmts (List.length c + List.length t) fb) | None => None end)
  | POp o a b => POp o (pdel sel (p ++ [0]) a) (pdel sel (p ++ [1]) b)
  | PAssign t e1 => PAssign t (pdel sel (p ++ [0]) e1)
  | PAssignInf ok er e1 d => PAssignInf ok er (pdel sel (p ++ [0]) e1) d
  | PAbort (Some m) => PAbort (Some (pdel sel (p ++ [0]) m))
  | PReturn e1 => PReturn (pdel sel (p ++ [0]) e1)
  | PCall f bang args => PCall f bang (kids 0 args)
  | PClosure cf bang arg ps body => PClosure cf bang (pdel sel (p ++ [0]) arg) ps (stmts 1 body)
  | _ => e
  end.

Definition pdel_prog (sel : pos -> bool) (es : list pexpr) : list pexpr :=
  drop_stmts (fun i => sel [i]) 0 (mapi (fun i x => pdel sel [i] x) 0 es).

(* every statement the selection would delete satisfies D *)
Definition stmts_ok {A} (D : A -> bool) (sel : nat -> bool) : nat -> list A -> bool :=
  fix go (i : nat) (l : list A) {struct l} : bool :=
    match l with
    | [] => true
    | x :: r =>
        match r with
        | [] => true
        | _ :: _ => (if sel i then D x else true) && go (S i) r
        end
    end.

Definition foralli {A} (f : nat -> A -> bool) : nat -> list A -> bool :=
  fix go (i : nat) (l : list A) {struct l} : bool :=
    match l with
    | [] => true
    | x :: r => f i x && go (S i) r
    end.

Fixpoint sel_ok (D : pexpr -> bool) (sel : pos -> bool) (p : pos) (e : pexpr) {struct e} : bool :=
  let kids := fun off es => foralli (fun i x => sel_ok D sel (p ++ [i]) x) off es in
  let stmts := fun off es => stmts_ok D (fun i => sel (p ++ [i])) off es && kids off es in
  match e with
  | PQExpr e1 _ | PGroup e1 | PNot e1 | PAssign _ e1 | PAssignInf _ _ e1 _ | PReturn e1
  | PAbort (Some e1) => sel_ok D sel (p ++ [0]) e1
  | PBlock es => stmts 0 es
  | PArr es | PCall _ _ es => kids 0 es
  | PObj kvs => foralli (fun i kv => sel_ok D sel (p ++ [i]) (snd kv)) 0 kvs
  | PIf c t f =>
      kids 0 c && stmts (List.length c) t
      && match f with Some fb => stmts (List.length c + List.length t) fb | None => true end
  | POp _ a b => sel_ok D sel (p ++ [0]) a && sel_ok D sel (p ++ [1]) b
  | PClosure _ _ arg _ body => sel_ok D sel (p ++ [0]) arg && stmts 1 body
  | _ => true
  end.

Definition sel_ok_prog (D : pexpr -> bool) (sel : pos -> bool) (es : list pexpr) : bool :=
  stmts_ok D (fun i => sel [i]) 0 es && foralli (fun i x => sel_ok D sel [i] x) 0 es.

Fixpoint pos_eqb (a b : pos) : bool :=
  match a, b with
  | [], [] => true
  | x :: a', y :: b' => Nat.eqb x y && pos_eqb a' b'
  | _, _ => false
  end.

(* delete the one statement at position q (nothing happens unless q is a non-last statement of a block) *)
Definition delete_at (q : pos) (es : list pexpr) : list pexpr := pdel_prog (pos_eqb q) es.
