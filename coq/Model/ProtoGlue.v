(* VRL's own protobuf code: src/protobuf/encode.rs (parse_map_key, convert_value_raw, convert_value,
   encode_message, encode_proto) and src/protobuf/parse.rs (proto_to_value, parse_proto) over the dynamic-message
   model of Model/Proto.v, plus the two notions the property is stated with: `shaped` (a value shaped like a
   message type) and `strip_defaults` (the same value without the fields holding the proto3 default).
   Definitions only.  Options: use_json_names = false (what the stdlib functions use).

   Not modelled (PUnmodelled): the string-parsing coercions (Bytes into bool / numeric fields), Float and Timestamp
   into string fields (allow_lossy_string_coercion), Timestamp into google.protobuf.Timestamp. *)
From Coq Require Import String.
From Coq Require Import List NArith ZArith Bool Arith.
From Coq Require Import Floats.SpecFloat.
From VRL Require Import Base.Bytes Base.Value Base.Lit Model.ConvRes Model.IntText Model.CodecUtf8 Model.Proto.
Import ListNotations.

(* ---------- decimal text of integers (Display) and FromStr for the map keys ---------- *)

Definition dec_digits (x : Z) : bytes :=
  match digits_loop 64 10 x [] with Some s => s | None => [] end.
Definition dec_of_z (z : Z) : bytes := if (z <? 0)%Z then 45%N :: dec_digits (- z) else dec_digits z.

Fixpoint digits_val (s : bytes) (acc : Z) : option Z :=
  match s with
  | [] => Some acc
  | c :: r => if (48 <=? c)%N && (c <=? 57)%N then digits_val r (acc * 10 + (Z.of_N c - 48))%Z else None
  end.

(* str::parse::<i32 / i64 / u32 / u64>: optional '+' (and '-' for the signed types), at least one digit, no
   overflow of the target type *)
Definition parse_dec (signed : bool) (lo hi : Z) (s : bytes) : option Z :=
  let '(neg, ds) :=
    match s with
    | 43%N :: r => (false, r)
    | 45%N :: r => if signed then (true, r) else (false, s)
    | _ => (false, s)
    end in
  match ds with
  | [] => None
  | _ => match digits_val ds 0 with
         | Some v => let v' := if neg then (- v)%Z else v in
                     if (lo <=? v')%Z && (v' <=? hi)%Z then Some v' else None
         | None => None
         end
  end.

Definition txt_true : bytes := ascii_bytes "true".
Definition txt_false : bytes := ascii_bytes "false".

(* parse_map_key *)
Definition parse_map_key (kk : skind) (key : bytes) : pres pval :=
  let int signed lo hi := match parse_dec signed lo hi key with Some z => POk (PInt z) | None => PErr end in
  match kk with
  | KString => POk (PStr key)
  | KBool => if bytes_eqb key txt_true then POk (PBool true)
             else if bytes_eqb key txt_false then POk (PBool false) else PErr
  | KInt32 | KSint32 | KSfixed32 => int true (- 2 ^ 31)%Z (2 ^ 31 - 1)%Z
  | KInt64 | KSint64 | KSfixed64 => int true (- 2 ^ 63)%Z (2 ^ 63 - 1)%Z
  | KUint32 | KFixed32 => int false 0%Z (2 ^ 32 - 1)%Z
  | KUint64 | KFixed64 => int false 0%Z (2 ^ 64 - 1)%Z
  | _ => PErr
  end.

(* the stringification of map keys in proto_to_value *)
Definition map_key_text (k : pval) : bytes :=
  match k with
  | PBool b => if b then txt_true else txt_false
  | PInt z => dec_of_z z
  | PStr s => s
  | _ => []
  end.

(* ---------- enum names ---------- *)

Definition ascii_lower (c : N) : N := if (65 <=? c)%N && (c <=? 90)%N then (c + 32)%N else c.
Definition eq_ignore_ascii_case (a b : bytes) : bool := bytes_eqb (map ascii_lower a) (map ascii_lower b).

Fixpoint enum_by_name (vals : list (bytes * Z)) (s : bytes) : option Z :=
  match vals with
  | [] => None
  | (n, z) :: r => if eq_ignore_ascii_case n s then Some z else enum_by_name r s
  end.
(* EnumDescriptor::get_value(number) *)
Fixpoint enum_by_number (vals : list (bytes * Z)) (z : Z) : option bytes :=
  match vals with
  | [] => None
  | (n, z') :: r => if Z.eqb z' z then Some n else enum_by_number r z
  end.

(* ---------- encode.rs ---------- *)

Section Convert.
  Variable P : pool.
  Variable lossy : bool.             (* Options::allow_lossy_string_coercion *)

  (* convert_value_raw *)
  Definition conv_raw (conv_msg : msgdesc -> value -> pres dmsg) (x : value) (k : skind) : pres pval :=
    match x, k with
    | VBool b, KBool => POk (PBool b)
    | VInt i, KBool => POk (PBool (negb (Z.eqb i 0)))
    | VBytes _, KBool => PUnmodelled                                    (* Conversion::Boolean *)
    | VBytes b, KBytes => POk (PBytes b)
    | VBytes b, KString => POk (PStr (utf8_lossy b))
    | VBytes b, KEnum vals _ =>
        match enum_by_name vals (utf8_lossy b) with Some z => POk (PEnum z) | None => PErr end
    | VFloat f, KDouble => POk (PF64 f)
    | VFloat f, KFloat => POk (PF32 (f32_of_f64 f))
    | VBytes _, (KDouble | KFloat | KInt32 | KInt64 | KUint32 | KUint64 | KSint32 | KSint64
                 | KFixed32 | KFixed64 | KSfixed32 | KSfixed64) => PUnmodelled     (* str::parse *)
    | VInt i, (KInt32 | KSint32 | KSfixed32) => POk (PInt (wrap_s 32 i))           (* i as i32 *)
    | VInt i, (KInt64 | KSint64 | KSfixed64) => POk (PInt i)
    | VInt i, (KUint32 | KFixed32) => POk (PInt (wrap_u 32 i))                     (* i as u32 *)
    | VInt i, (KUint64 | KFixed64) => POk (PInt (wrap_u 64 i))                     (* i as u64 *)
    | VInt i, KDouble => POk (PF64 (f64_of_int i))
    | VInt i, KFloat => POk (PF32 (f32_of_int i))
    | VInt i, KEnum _ _ => POk (PEnum (wrap_s 32 i))
    | VObj _, KMsg idx => pbind (conv_msg (get_msg P idx) x) (fun m => POk (PMsg m))
    | VRegex r, KString => POk (PStr r)
    | VRegex r, KBytes => POk (PBytes r)
    | VTs t, KInt64 => POk (PInt (t / 1000)%Z)                                     (* timestamp_micros *)
    | VTs _, KMsg _ => PUnmodelled                                                 (* google.protobuf.Timestamp *)
    | VBool b, KString => if lossy then POk (PStr (if b then txt_true else txt_false)) else PErr
    | VInt i, KString => if lossy then POk (PStr (dec_of_z i)) else PErr
    | VFloat _, KString => if lossy then PUnmodelled else PErr
    | VTs _, KString => if lossy then PUnmodelled else PErr
    | _, _ => PErr
    end.

  (* the entries of an object into a map value (HashMap::insert: a later equal key replaces) *)
  Fixpoint conv_entries (conv_msg : msgdesc -> value -> pres dmsg) (kk vk : skind) (o : list (bytes * value))
           (acc : list (pval * pval)) : pres (list (pval * pval)) :=
    match o with
    | [] => POk acc
    | (key, val) :: r =>
        pbind (parse_map_key kk key) (fun pk =>
        pbind (match val with
               | VArr _ => PErr                        (* convert_value on the (singular) value field *)
               | _ => conv_raw conv_msg val vk
               end) (fun pv =>
        conv_entries conv_msg kk vk r (map_insert acc pk pv)))
    end.

  Fixpoint conv_list (conv_msg : msgdesc -> value -> pres dmsg) (k : skind) (a : list value) : pres (list pval) :=
    match a with
    | [] => POk []
    | x :: r => pbind (conv_raw conv_msg x k) (fun v => pbind (conv_list conv_msg k r) (fun vs => POk (v :: vs)))
    end.

  (* convert_value followed by try_set_field's validity check *)
  Definition conv_field (conv_msg : msgdesc -> value -> pres dmsg) (f : field) (x : value) : pres pval :=
    match x with
    | VArr a =>
        match f_card f with
        | CRepeated _ => pbind (conv_list conv_msg (f_kind f) a) (fun vs => POk (PList vs))
        | _ => PErr      (* non-repeated: "Cannot encode array"; map field: a List is not valid for it *)
        end
    | _ =>
        match f_card f with
        | CMap kk _ _ =>
            match x with
            | VObj o => pbind (conv_entries conv_msg kk (f_kind f) o []) (fun l => POk (PMap l))
            | _ => PErr
            end
        | _ => conv_raw conv_msg x (f_kind f)           (* incl. a lone value for a repeated field *)
        end
    end.

  (* encode_message: the descriptor's fields in order; a missing or null entry clears the field *)
  Fixpoint conv_msg (fuel : nat) (d : msgdesc) (v : value) : pres dmsg :=
    match fuel with
    | O => PUnmodelled
    | S fu =>
        match v with
        | VObj o =>
            fold_left (fun (acc : pres dmsg) (f : field) =>
                         pbind acc (fun m =>
                           match obj_get o (f_name f) with
                           | None | Some VNull => POk m
                           | Some x => pbind (conv_field (conv_msg fu) f x) (fun pv => POk (dm_set m (f_num f) pv))
                           end))
                      d (POk [])
        | _ => PErr
        end
    end.
End Convert.

(* ---------- parse.rs ---------- *)

Section ToValue.
  Variable P : pool.

  Definition ptv_scalar (ptv_msg : msgdesc -> dmsg -> pres value) (k : skind) (v : pval) : pres value :=
    match v with
    | PBool b => POk (VBool b)
    | PInt z => POk (VInt (match k with KUint64 | KFixed64 => wrap_s 64 z | _ => z end))   (* u64 as i64 *)
    | PF32 f => if is_nan f then PErr else POk (VFloat (f64_of_f32 f))
    | PF64 f => if is_nan f then PErr else POk (VFloat f)
    | PStr s => POk (VBytes s)
    | PBytes s => POk (VBytes s)
    | PEnum z =>
        match k with
        | KEnum vals _ => match enum_by_number vals z with Some n => POk (VBytes n) | None => PErr end
        | _ => PErr
        end
    | PMsg fs => match k with KMsg i => ptv_msg (get_msg P i) fs | _ => PErr end
    | _ => PErr
    end.

  Fixpoint ptv_list (ptv_msg : msgdesc -> dmsg -> pres value) (k : skind) (l : list pval) : pres (list value) :=
    match l with
    | [] => POk []
    | v :: r => pbind (ptv_scalar ptv_msg k v) (fun x => pbind (ptv_list ptv_msg k r) (fun xs => POk (x :: xs)))
    end.

  Fixpoint ptv_entries (ptv_msg : msgdesc -> dmsg -> pres value) (vk : skind) (l : list (pval * pval)) (acc : obj)
    : pres obj :=
    match l with
    | [] => POk acc
    | (k, v) :: r =>
        pbind (ptv_scalar ptv_msg vk v) (fun x => ptv_entries ptv_msg vk r (obj_set acc (map_key_text k) x))
    end.

  Definition ptv_field (ptv_msg : msgdesc -> dmsg -> pres value) (f : field) (v : pval) : pres value :=
    match v with
    | PList l => pbind (ptv_list ptv_msg (f_kind f) l) (fun xs => POk (VArr xs))
    | PMap l => pbind (ptv_entries ptv_msg (f_kind f) l []) (fun o => POk (VObj o))
    | _ => ptv_scalar ptv_msg (f_kind f) v
    end.

  (* the Value::Message arm: every field of the descriptor that `has_field` *)
  Fixpoint ptv_msg (fuel : nat) (d : msgdesc) (m : dmsg) : pres value :=
    match fuel with
    | O => PUnmodelled
    | S fu =>
        pbind (fold_left (fun (acc : pres obj) (f : field) =>
                            pbind acc (fun o =>
                              match dm_get m (f_num f) with
                              | Some v => if has_value f v
                                          then pbind (ptv_field (ptv_msg fu) f v) (fun x => POk (obj_set o (f_name f) x))
                                          else POk o
                              | None => POk o
                              end))
                         d (POk []))
              (fun o => POk (VObj o))
    end.
End ToValue.

(* ---------- the two stdlib functions ---------- *)

Definition glue_fuel : nat := 101.

Definition encode_proto (P : pool) (lossy : bool) (d : msgdesc) (v : value) : pres bytes :=
  pbind (conv_msg P lossy glue_fuel d v) (fun m => POk (encode_msg P d m)).

Definition parse_proto (P : pool) (d : msgdesc) (b : bytes) : pres value :=
  pbind (decode_msg P d b) (fun m => ptv_msg P glue_fuel d m).

(* ---------- the property's vocabulary ---------- *)

Definition in_range (lo hi z : Z) : bool := (lo <=? z)%Z && (z <=? hi)%Z.

Fixpoint find_by_name (d : msgdesc) (name : bytes) : option field :=
  match d with
  | [] => None
  | f :: r => if bytes_eqb (f_name f) name then Some f else find_by_name r name
  end.

(* the canonical spelling of a map key of the given kind *)
Definition canonical_key (kk : skind) (key : bytes) : bool :=
  match parse_map_key kk key with
  | POk k => bytes_eqb (map_key_text k) key && match kk with KString => valid_utf8 key | _ => true end
  | _ => false
  end.

Definition is_neg_zero (x : value) : bool := match x with VFloat (S754_zero true) => true | _ => false end.

Section Shape.
  Variable P : pool.

  (* a VRL value shaped like one value of a protobuf kind ("scalars in range", "enums by name") *)
  Definition shaped_scalar (shaped_msg : msgdesc -> value -> bool) (k : skind) (x : value) : bool :=
    match k, x with
    | KBool, VBool _ => true
    | (KInt32 | KSint32 | KSfixed32), VInt i => in_range (- 2 ^ 31) (2 ^ 31 - 1) i
    | (KInt64 | KSint64 | KSfixed64 | KUint64 | KFixed64), VInt i => in_range (- 2 ^ 63) (2 ^ 63 - 1) i
    | (KUint32 | KFixed32), VInt i => in_range 0 (2 ^ 32 - 1) i
    | KDouble, VFloat f =>
        (* a binary64 value in its canonical representation *)
        negb (is_nan f) && sf_eqb (f64_of_bits (f64_to_bits f)) f && in_range 0 (2 ^ 64 - 1) (f64_to_bits f)
    | KFloat, VFloat f =>
        (* exactly a binary32 value: narrowing and widening again gives it back *)
        let g := f32_of_f64 f in
        negb (is_nan f) && negb (is_nan g) && sf_eqb (f64_of_f32 g) f
        && sf_eqb (f32_of_bits (f32_to_bits g)) g && in_range 0 (2 ^ 32 - 1) (f32_to_bits g)
        && Bool.eqb (is_zero_float g) (is_zero_float f)
    | KString, VBytes b => valid_utf8 b
    | KBytes, VBytes _ => true
    | KEnum vals dflt, VBytes b =>
        (* the exact name of a declared value (the one its number is printed as); names are unique, so the value is the
           default exactly when the name is the default's *)
        valid_utf8 b
        && match enum_by_name vals b with
           | Some z => in_range (- 2 ^ 31) (2 ^ 31 - 1) z
                       && match enum_by_number vals z with Some n => bytes_eqb n b | None => false end
                       && Bool.eqb (Z.eqb z dflt)
                                   (match enum_by_number vals dflt with Some n => bytes_eqb n b | None => false end)
           | None => false
           end
    | KMsg i, VObj _ => shaped_msg (get_msg P i) x
    | _, _ => false
    end.

  Definition shaped_field (shaped_msg : msgdesc -> value -> bool) (f : field) (x : value) : bool :=
    match f_card f, x with
    | CSingular _, _ => shaped_scalar shaped_msg (f_kind f) x
    | CRepeated _, VArr a => forallb (shaped_scalar shaped_msg (f_kind f)) a
    | CMap kk _ vpres, VObj o =>
        (* canonical keys; a value field without presence cannot tell -0.0 from the absent 0.0 *)
        obj_sorted o
        && forallb (fun kv : bytes * value => canonical_key kk (fst kv) && shaped_scalar shaped_msg (f_kind f) (snd kv)
                                               && (vpres || negb (is_neg_zero (snd kv)))) o
    | _, _ => false
    end.

  (* an object whose keys are field names of the message (sorted, as VRL objects are) *)
  Fixpoint shaped_msg (fuel : nat) (d : msgdesc) (v : value) : bool :=
    match fuel with
    | O => false
    | S fu =>
        match v with
        | VObj o =>
            obj_sorted o
            && forallb (fun kv : bytes * value =>
                          match find_by_name d (fst kv) with
                          | Some f => shaped_field (shaped_msg fu) f (snd kv)
                          | None => false
                          end) o
        | _ => false
        end
    end.

  (* the proto3 default of a kind, as a VRL value test *)
  Definition is_default_value (k : skind) (x : value) : bool :=
    match k, x with
    | KBool, VBool b => negb b
    | (KDouble | KFloat), VFloat f => is_zero_float f
    | (KString | KBytes), VBytes b => match b with [] => true | _ => false end
    | KEnum vals dflt, VBytes b => match enum_by_number vals dflt with Some n => bytes_eqb n b | None => false end
    | KMsg _, _ => false
    | _, VInt i => Z.eqb i 0
    | _, _ => false
    end.

  Definition strip_scalar (strip_msg : msgdesc -> value -> value) (k : skind) (x : value) : value :=
    match k with KMsg i => strip_msg (get_msg P i) x | _ => x end.

  (* what is left of one field's value: None = the field is dropped *)
  Definition strip_field (strip_msg : msgdesc -> value -> value) (f : field) (x : value) : option value :=
    match f_card f, x with
    | CSingular true, _ => Some (strip_scalar strip_msg (f_kind f) x)
    | CSingular false, _ =>
        if is_default_value (f_kind f) x then None else Some (strip_scalar strip_msg (f_kind f) x)
    | CRepeated _, VArr [] => None
    | CRepeated _, VArr a => Some (VArr (map (strip_scalar strip_msg (f_kind f)) a))
    | CMap _ _ _, VObj [] => None
    | CMap _ _ _, VObj es =>
        Some (VObj (map (fun e : bytes * value => (fst e, strip_scalar strip_msg (f_kind f) (snd e))) es))
    | _, _ => Some x
    end.

  Definition strip_entry (strip_msg : msgdesc -> value -> value) (d : msgdesc) (kv : bytes * value) : list (bytes * value) :=
    match find_by_name d (fst kv) with
    | None => []
    | Some f => match strip_field strip_msg f (snd kv) with Some y => [(fst kv, y)] | None => [] end
    end.

  (* the same value without the fields that hold the default of a field without presence *)
  Fixpoint strip_msg (fuel : nat) (d : msgdesc) (v : value) : value :=
    match fuel with
    | O => v
    | S fu =>
        match v with
        | VObj o => VObj (flat_map (strip_entry (strip_msg fu) d) o)
        | _ => v
        end
    end.
End Shape.

Definition shaped (P : pool) (d : msgdesc) (v : value) : bool := shaped_msg P glue_fuel d v.
Definition strip_defaults (P : pool) (d : msgdesc) (v : value) : value := strip_msg P glue_fuel d v.
