(* C03: declared signatures of the closure-free stdlib functions that have a Gallina model
   (Model/EvalInst.v F_inst), as `Function::parameters()` / `Function::return_kind()` declare them.
   The table is compared with the running implementation's own declarations on every check. *)
From Coq Require Import List NArith ZArith Bool String.
From VRL Require Import Base.Bytes Base.Value Model.Expr Model.EvalInst.
Import ListNotations.
Local Open Scope string_scope.

(* src/compiler/value/kind.rs bit constants *)
Definition K_BYTES : N := 2.   Definition K_INTEGER : N := 4.  Definition K_FLOAT : N := 8.
Definition K_BOOLEAN : N := 16. Definition K_OBJECT : N := 32.  Definition K_ARRAY : N := 64.
Definition K_TIMESTAMP : N := 128. Definition K_REGEX : N := 256. Definition K_NULL : N := 512.
Definition K_ANY : N := 2046.

Definition kind_bit (v : value) : N :=
  match v with
  | VBytes _ => K_BYTES | VInt _ => K_INTEGER | VFloat _ => K_FLOAT | VBool _ => K_BOOLEAN
  | VObj _ => K_OBJECT | VArr _ => K_ARRAY | VTs _ => K_TIMESTAMP | VRegex _ => K_REGEX | VNull => K_NULL
  end.

Record sig := mkSig { s_name : string; s_param : N; s_return : N; s_infallible_when_typed : bool }.

(* name, kind mask of the single parameter, return_kind mask, "a call whose argument kind is within the
   parameter's mask is typed infallible" *)
Definition sigs : list sig :=
  [ mkSig "string" K_ANY K_BYTES false; mkSig "int" K_ANY K_INTEGER false; mkSig "bool" K_ANY K_BOOLEAN false;
    mkSig "array" K_ANY K_ARRAY false; mkSig "object" K_ANY K_OBJECT false;
    mkSig "is_null" K_ANY K_BOOLEAN true; mkSig "is_string" K_ANY K_BOOLEAN true;
    mkSig "length" (N.lor K_BYTES (N.lor K_ARRAY K_OBJECT)) K_INTEGER true ].

Definition in_mask (v : value) (m : N) : bool := negb (N.eqb (N.land (kind_bit v) m) 0).
