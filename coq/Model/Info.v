(* What the compiler reports about a program's use of the external target (ProgramInfo):
   `queries`  mirrors Compiler::compile_query (every query with an external target, including the
              arguments of del and exists) -> ProgramInfo::target_queries;
   `assigns`  mirrors Compiler::compile_assignment -> ProgramInfo::target_assignments. *)
From Coq Require Import List NArith ZArith Bool.
From VRL Require Import Base.Bytes Base.Value Model.Expr.
Import ListNotations.

Definition tgt_paths (t : target) : list (prefix * path) :=
  match t with TExt pfx p => [(pfx, p)] | _ => [] end.

(* a reported query; the tag records whether the query is the argument of `del` (the only reported
   reads through which the target is modified), and then its `compact` flag *)
Definition qent := (option bool * (prefix * path))%type.

Fixpoint queries (e : expr) : list qent :=
  let ql := fix ql (l : list expr) : list qent :=
              match l with [] => [] | x :: r => queries x ++ ql r end in
  match e with
  | EQExt pfx p | EExistsExt pfx p => [(None, (pfx, p))]
  | EDelExt pfx p c => [(Some c, (pfx, p))]
  | EQExpr e1 _ | EGroup e1 | ENot e1 | EAssign _ e1 | EAssignInf _ _ e1 _ | EReturn e1 => queries e1
  | EArr es | EBlock es | ECall _ es => ql es
  | EObj kvs =>
      (fix go (l : list (bytes * expr)) : list qent :=
         match l with [] => [] | kv :: r => queries (snd kv) ++ go r end) kvs
  | EIf c t f => ql c ++ ql t ++ match f with Some fb => ql fb | None => [] end
  | EOp _ a b => queries a ++ queries b
  | EAbort (Some m) => queries m
  | EClosure _ arg _ body => queries arg ++ ql body
  | ELit _ | EVar _ | EQVar _ _ | EAbort None | EDelVar _ _ _ | EExistsVar _ _ => []
  end.

Fixpoint assigns (e : expr) : list (prefix * path) :=
  let al := fix al (l : list expr) : list (prefix * path) :=
              match l with [] => [] | x :: r => assigns x ++ al r end in
  match e with
  | EAssign t e1 => tgt_paths t ++ assigns e1
  | EAssignInf ok er e1 _ => tgt_paths ok ++ tgt_paths er ++ assigns e1
  | EQExpr e1 _ | EGroup e1 | ENot e1 | EReturn e1 => assigns e1
  | EArr es | EBlock es | ECall _ es => al es
  | EObj kvs =>
      (fix go (l : list (bytes * expr)) : list (prefix * path) :=
         match l with [] => [] | kv :: r => assigns (snd kv) ++ go r end) kvs
  | EIf c t f => al c ++ al t ++ match f with Some fb => al fb | None => [] end
  | EOp _ a b => assigns a ++ assigns b
  | EAbort (Some m) => assigns m
  | EClosure _ arg _ body => assigns arg ++ al body
  | ELit _ | EVar _ | EQExt _ _ | EQVar _ _ | EAbort None | EDelExt _ _ _ | EDelVar _ _ _
  | EExistsExt _ _ | EExistsVar _ _ => []
  end.

Definition queries_l (es : list expr) : list qent := flat_map queries es.
(* ProgramInfo::target_queries *)
Definition query_paths (es : list expr) : list (prefix * path) := map snd (queries_l es).
Definition assigns_l (es : list expr) : list (prefix * path) := flat_map assigns es.

(* a Target operation is accounted for by the report *)
Definition logged_ok (Q : list qent) (A : list (prefix * path)) (t : top) : Prop :=
  match t with
  | TGet pfx p => In (pfx, p) (map snd Q)
  | TRem pfx p c => In (Some c, (pfx, p)) Q
  | TIns pfx p => In (pfx, p) A
  end.

(* names of the closure-free functions an expression may call *)
Fixpoint fnames (e : expr) : list fname :=
  let fl := fix fl (l : list expr) : list fname :=
              match l with [] => [] | x :: r => fnames x ++ fl r end in
  match e with
  | ECall f es => f :: fl es
  | EQExpr e1 _ | EGroup e1 | ENot e1 | EAssign _ e1 | EAssignInf _ _ e1 _ | EReturn e1 => fnames e1
  | EArr es | EBlock es => fl es
  | EObj kvs =>
      (fix go (l : list (bytes * expr)) : list fname :=
         match l with [] => [] | kv :: r => fnames (snd kv) ++ go r end) kvs
  | EIf c t f => fl c ++ fl t ++ match f with Some fb => fl fb | None => [] end
  | EOp _ a b => fnames a ++ fnames b
  | EAbort (Some m) => fnames m
  | EClosure _ arg _ body => fnames arg ++ fl body
  | _ => []
  end.
Definition fnames_l (es : list expr) : list fname := flat_map fnames es.
