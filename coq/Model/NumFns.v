(* Model of the numeric functions of the VRL stdlib (property C29):
     src/stdlib/util.rs       round_to_precision(num, precision, fun) =
                                 let multiplier = 10_f64.powf(precision as f64); fun(num * multiplier) / multiplier
     src/stdlib/round.rs, ceil.rs, floor.rs   (precision.try_integer()?; Float -> from_f64_or_zero(round_to_precision ..);
                                               Integer -> unchanged; anything else -> error)
     src/stdlib/abs.rs        (Float -> from_f64_or_zero(f.abs()); Integer -> i.wrapping_abs(): i64::MIN wraps to itself
                               [since /repo b0e107f; before, i.abs() panicked there]; anything else -> error)
     src/stdlib/mod_func.rs   (value.try_rem(modulus), Model/Arith.v)
     src/stdlib/to_int.rs, to_float.rs, to_string.rs, parse_int.rs (Model/IntText.v), parse_float.rs
     src/compiler/conversion/mod.rs  Conversion::Integer (str::parse::<i64>), Conversion::Float (str::parse::<f64>, NaN rejected)
     src/value/value/convert.rs      Value::from_f64_or_zero
   Definitions only.  Conventions as in Model/Arith.v: i64 = Z with explicit range handling, f64 = SpecFloat binary64
   (SFmul/SFdiv 53 1024, round to nearest even), a float held by a value is never NaN.

   Library behaviour:
   * `10_f64.powf(p as f64)` is libm: a function parameter `pow10 : Z -> spec_float` of the rounding functions (the
     hypotheses the theorems need about it are stated where they are used; `pow10_faithful` below is what the
     correspondence checks about the implementation's powf for every exponent it sees).  glibc's pow is NOT correctly
     rounded (10^23 and 10^210 come out one ulp high), so no closed definition is used.
   * f64::round / ceil / floor / abs, `f64 as i64`, `i64 as f64` are IEEE/LLVM-defined and modelled exactly on
     (sign, mantissa, exponent).
   * str::parse::<f64> (core::num::dec2flt) is documented to be correctly rounded: modelled exactly (grammar +
     correctly rounded value of the decimal, computed with SFdiv on exact integer mantissas).
   * f64's Display (shortest digits that read back) and chrono's RFC 3339 printing are parameters `fmt_f64`, `fmt_ts`
     of to_string. *)
From Coq Require Import List NArith ZArith Bool String.
From Coq Require Import Floats.SpecFloat.
From VRL Require Import Base.Bytes Base.Value Base.Lit Model.ConvRes Model.Arith Model.IntText.
Import ListNotations.
Local Open Scope Z_scope.

(* ---------- small float helpers ---------- *)

(* Value::from_f64_or_zero: NaN becomes +0.0 *)
Definition or_zero (f : spec_float) : spec_float :=
  match f with S754_nan => S754_zero false | f => f end.

Definition f_one : spec_float := S754_finite false 4503599627370496 (-52).

Definition f_is_finite (f : spec_float) : bool :=
  match f with S754_zero _ | S754_finite _ _ _ => true | _ => false end.

(* the binary64 datum of sign s and integer magnitude n, 0 <= n <= 2^53 (exact; canonical: the mantissa is
   shifted up to 53 bits) *)
Definition sf_of_small_int (s : bool) (n : Z) : spec_float :=
  match n with
  | Zpos p =>
      let d := Zdigits2 n in
      match 53 - d with
      | Zpos k => S754_finite s (shift_pos k p) (d - 53)
      | Z0 => S754_finite s p 0
      | Zneg _ => binary_normalize fprec femax (cond_Zopp s n) 0 s     (* n >= 2^53: not reached from f_rint *)
      end
  | _ => S754_zero s
  end.

(* ---------- f64::round, f64::ceil, f64::floor ---------- *)

Inductive rkind := KRound | KCeil | KFloor.

(* the integer magnitude chosen for sign s, m / 2^k = q remainder r (0 <= r < 2^k):
   floor rounds towards -inf, ceil towards +inf, round to nearest with ties away from zero *)
Definition rint_mag (k : rkind) (s : bool) (q r den : Z) : Z :=
  match k with
  | KFloor => if s then (if r =? 0 then q else q + 1) else q
  | KCeil => if s then q else (if r =? 0 then q else q + 1)
  | KRound => if den <=? 2 * r then q + 1 else q
  end.

(* Non-finite values and zeros are returned unchanged; a finite value with a non-negative exponent is an integer
   already; otherwise the value is m / 2^(-e) < 2^52 and the result is an integer below 2^53, with the sign of the
   argument (so ceil(-0.5) = -0.0). *)
Definition f_rint (k : rkind) (x : spec_float) : spec_float :=
  match x with
  | S754_finite s m e =>
      if 0 <=? e then x
      else
        let den := 2 ^ (- e) in
        let q := Zpos m / den in
        let r := Zpos m mod den in
        sf_of_small_int s (rint_mag k s q r den)
  | _ => x
  end.

(* ---------- round_to_precision ---------- *)

Section Rounding.
  Variable pow10 : Z -> spec_float.        (* 10_f64.powf(precision as f64) *)

  Definition round_to_precision (num : spec_float) (precision : Z) (k : rkind) : spec_float :=
    let multiplier := pow10 precision in
    f_div (f_rint k (f_mul num multiplier)) multiplier.

  (* round / ceil / floor (value, precision: optional, default 0) *)
  Definition round_fn (k : rkind) (v : value) (precision : option value) : res value :=
    match (match precision with None => ROk 0 | Some (VInt p) => ROk p | Some _ => RErr end) with
    | ROk p =>
        match v with
        | VFloat f => ROk (VFloat (or_zero (round_to_precision f p k)))
        | VInt _ => ROk v
        | _ => RErr
        end
    | _ => RErr
    end.
End Rounding.

(* ---------- abs ---------- *)

(* i64::wrapping_abs: the absolute value, wrapped into i64 (only i64::MIN is affected: it is returned unchanged) *)
Definition wrapping_abs (i : Z) : Z := wrap64 (Z.abs i).

Definition abs_fn (v : value) : res value :=
  match v with
  | VFloat f => ROk (VFloat (or_zero (SFabs f)))
  | VInt i => ROk (VInt (wrapping_abs i))
  | _ => RErr
  end.

(* ---------- mod ---------- *)

Definition mod_fn (x y : value) : res value :=
  match try_rem x y with
  | Ok v => ROk v
  | Err _ => RErr
  end.

(* ---------- to_int ---------- *)

(* `f as i64`: truncation towards zero, saturating, NaN -> 0 *)
Definition f_to_i64 (f : spec_float) : Z :=
  match f with
  | S754_zero _ => 0
  | S754_nan => 0
  | S754_infinity s => if s then i64_min else i64_max
  | S754_finite s m e =>
      let a := if 0 <=? e then Zpos m * 2 ^ e else Zpos m / 2 ^ (- e) in
      let v := if s then - a else a in
      Z.max i64_min (Z.min i64_max v)
  end.

(* str::parse::<i64>() = i64::from_str_radix(s, 10).  (String::from_utf8_lossy first: an invalid byte becomes
   U+FFFD, three non-digit bytes, so the outcome is the same as parsing the raw bytes.) *)
Definition parse_i64 (s : bytes) : option Z := from_str_radix s 10.

Definition to_int (v : value) : res value :=
  match v with
  | VInt _ => ROk v
  | VFloat f => ROk (VInt (f_to_i64 f))
  | VBool b => ROk (VInt (if b then 1 else 0))
  | VNull => ROk (VInt 0)
  | VBytes s => match parse_i64 s with Some z => ROk (VInt z) | None => RErr end
  | VTs ns => ROk (VInt (ns / 1000000000))             (* DateTime::timestamp(): whole seconds, floor *)
  | _ => RErr
  end.

(* ---------- str::parse::<f64>() ---------- *)

Definition is_dig (c : N) : bool := ((48 <=? c) && (c <=? 57))%N.

Fixpoint span_digits (s : bytes) : bytes * bytes :=
  match s with
  | c :: r => if is_dig c then let '(d, rest) := span_digits r in (c :: d, rest) else ([], s)
  | [] => ([], [])
  end.

Fixpoint digits_val (acc : Z) (ds : bytes) : Z :=
  match ds with
  | [] => acc
  | c :: r => digits_val (acc * 10 + (Z.of_N c - 48)) r
  end.

Fixpoint strip_zeros (ds : bytes) : bytes :=
  match ds with
  | 48%N :: r => strip_zeros r
  | _ => ds
  end.

(* parse_scientific's accumulator: `if exponent < 0x10000 { exponent = 10 * exponent + digit }` *)
Fixpoint exp_val (acc : Z) (ds : bytes) : Z :=
  match ds with
  | [] => acc
  | c :: r => exp_val (if acc <? 65536 then acc * 10 + (Z.of_N c - 48) else acc) r
  end.

Definition upper (c : N) : N := if ((97 <=? c) && (c <=? 122))%N then (c - 32)%N else c.

(* the correctly rounded binary64 value of (-1)^neg * n * 10^e, n > 0 with nd significant decimal digits *)
Definition dec_to_f64 (neg : bool) (n : Z) (nd : Z) (e : Z) : spec_float :=
  if 310 <=? nd + e then S754_infinity neg                 (* >= 10^309 > f64::MAX *)
  else if nd + e <=? -324 then S754_zero neg               (* < 10^-324 < 2^-1075 *)
  else if 0 <=? e then binary_normalize fprec femax (cond_Zopp neg (n * 10 ^ e)) 0 neg
  else match n, 10 ^ (- e) with
       | Zpos pn, Zpos pd => SFdiv fprec femax (S754_finite neg pn 0) (S754_finite false pd 0)
       | _, _ => S754_nan
       end.

(* the number grammar of core::num::dec2flt: digits [. digits] [(e|E) [+|-] digits], at least one mantissa digit *)
Definition parse_number (neg : bool) (s : bytes) : option spec_float :=
  let '(ip, r1) := span_digits s in
  let '(fp, r2) := match r1 with
                   | 46%N :: r => span_digits r
                   | _ => ([], r1)
                   end in
  let ds := ip ++ fp in
  match ds with
  | [] => None
  | _ :: _ =>
      let ex : option Z :=
        match r2 with
        | [] => Some 0
        | c :: r =>
            if ((c =? 101) || (c =? 69))%N then
              let '(eneg, r') := match r with
                                 | 45%N :: t => (true, t)
                                 | 43%N :: t => (false, t)
                                 | _ => (false, r)
                                 end in
              match span_digits r' with
              | ((_ :: _) as eds, []) => Some (if eneg then - exp_val 0 eds else exp_val 0 eds)
              | _ => None
              end
            else None
        end in
      match ex with
      | None => None
      | Some e =>
          let sig := strip_zeros ds in
          match sig with
          | [] => Some (S754_zero neg)
          | _ => Some (dec_to_f64 neg (digits_val 0 sig) (Z.of_nat (List.length sig))
                                   (e - Z.of_nat (List.length fp)))
          end
      end
  end.

(* parse_inf_nan: "nan", "inf", "infinity", ASCII case-insensitive *)
Definition parse_inf_nan (neg : bool) (s : bytes) : option spec_float :=
  let u := map upper s in
  if bytes_eqb u (ascii_bytes "NAN"%string) then Some S754_nan
  else if bytes_eqb u (ascii_bytes "INF"%string) || bytes_eqb u (ascii_bytes "INFINITY"%string) then Some (S754_infinity neg)
  else None.

Definition parse_f64 (s : bytes) : option spec_float :=
  match s with
  | [] => None
  | c :: r =>
      let neg := (c =? 45)%N in
      let body := if ((c =? 45) || (c =? 43))%N then r else s in
      match body with
      | [] => None
      | _ => match parse_number neg body with
             | Some f => Some f
             | None => parse_inf_nan neg body
             end
      end
  end.

(* Conversion::Float.convert: parse, then NotNan::new (a parsed NaN is an error) *)
Definition bytes_to_float (s : bytes) : res value :=
  match parse_f64 s with
  | Some f => if f_is_nan f then RErr else ROk (VFloat f)
  | None => RErr
  end.

(* ---------- to_float, parse_float ---------- *)

Definition to_float (v : value) : res value :=
  match v with
  | VFloat _ => ROk v
  | VInt z => ROk (VFloat (or_zero (of_i64 z)))
  | VBool b => ROk (VFloat (if b then f_one else S754_zero false))
  | VNull => ROk (VFloat (S754_zero false))
  | VTs ns =>
      (* timestamp_nanos_opt(): None outside the i64 range of nanoseconds *)
      if ConvRes.in_i64 ns then ROk (VFloat (or_zero (f_div (of_i64 ns) (of_i64 1000000000))))
      else RErr
  | VBytes s => bytes_to_float s
  | _ => RErr
  end.

Definition parse_float (v : value) : res value :=
  match v with
  | VBytes s => bytes_to_float s
  | _ => RErr
  end.

(* ---------- to_string ---------- *)

(* i64's Display: decimal digits of the magnitude (computed in u64, so i64::MIN is fine), '-' when negative *)
Definition int_to_string (z : Z) : res bytes :=
  match digits_loop 64 10 (Z.abs z) [] with
  | Some s => ROk (if z <? 0 then 45%N :: s else s)
  | None => RFuel
  end.

Section ToString.
  Variable fmt_f64 : spec_float -> bytes.     (* <f64 as Display>::fmt *)
  Variable fmt_ts : Z -> bytes.               (* DateTime::to_rfc3339_opts(SecondsFormat::AutoSi, true) *)

  Definition to_string (v : value) : res value :=
    match v with
    | VBytes _ => ROk v
    | VInt z => res_bind (int_to_string z) (fun s => ROk (VBytes s))
    | VFloat f => ROk (VBytes (fmt_f64 f))
    | VBool b => ROk (VBytes (ascii_bytes (if b then "true" else "false")%string))
    | VTs ns => ROk (VBytes (fmt_ts ns))
    | VNull => ROk (VBytes [])
    | _ => RErr
    end.
End ToString.

(* ---------- what the correspondence checks about the implementation's powf ---------- *)

(* exact comparison of a positive finite binary64 (m, e) with 10^p *)
Definition cmp_pow10 (m : positive) (e : Z) (p : Z) : comparison :=
  let a := Zpos m * (if 0 <=? e then 2 ^ e else 1) * (if p <? 0 then 10 ^ (- p) else 1) in
  let b := (if 0 <=? e then 1 else 2 ^ (- e)) * (if 0 <=? p then 10 ^ p else 1) in
  a ?= b.

Definition f_succ (f : spec_float) : spec_float := f64_of_bits (f64_to_bits f + 1).
Definition f_pred (f : spec_float) : spec_float := f64_of_bits (f64_to_bits f - 1).

Definition cmp_f_pow10 (f : spec_float) (p : Z) : option comparison :=
  match f with
  | S754_zero _ => Some Lt
  | S754_infinity false => Some Gt
  | S754_finite false m e => Some (cmp_pow10 m e p)
  | _ => None
  end.

(* w is 10^p rounded faithfully (one of the two binary64 neighbours of 10^p, 10^p itself when it is a binary64
   number); +inf from 10^309 on, +0 from 10^-324 down.  Exponents beyond +-400 are not evaluated exactly. *)
Definition pow10_faithful (p : Z) (w : spec_float) : bool :=
  if 309 <=? p then sf_eqb w (S754_infinity false)
  else if p <=? -324 then sf_eqb w (S754_zero false)
  else match cmp_f_pow10 w p with
       | Some Eq => true
       | Some Lt => match cmp_f_pow10 (f_succ w) p with Some Gt => true | _ => false end
       | Some Gt => match w with
                    | S754_infinity _ => false
                    | _ => match cmp_f_pow10 (f_pred w) p with Some Lt => true | _ => false end
                    end
       | None => false
       end.

(* ================= specification-side helpers (used by the statements and by the oracle, not by the model) ================= *)

(* ---------- exact arithmetic on finite binary64 values ---------- *)

(* a finite float as (M, E): value M * 2^E *)
Definition sf_ME (f : spec_float) : Z * Z :=
  match f with
  | S754_finite s m e => (cond_Zopp s (Zpos m), e)
  | _ => (0, 0)
  end.

(* both at the smaller exponent *)
Definition common (x y : spec_float) : Z * Z * Z :=
  let '(mx, ex) := sf_ME x in
  let '(my, ey) := sf_ME y in
  let e := Z.min ex ey in
  (mx * 2 ^ (ex - e), my * 2 ^ (ey - e), e).

Definition f_leq (x y : spec_float) : bool := let '(a, b, _) := common x y in a <=? b.

Definition clamp400 (p : Z) : Z := Z.max (-400) (Z.min 400 p).

(* |x - y| <= 10^-p + ulp(y)/2, exactly: y is within half a unit in its last place (the unavoidable representation
   error of a binary64 result: floor(-1e-76, 2) = -0.01, and the double nearest to -0.01 is 2e-19 beyond it) of a real
   number that is within 10^-p of x.  Differences of binary64 numbers are multiples of 2^-1074 > 10^-400 and smaller
   than 2^1025 < 10^400, so clamping p to [-400, 400] does not change the answer. *)
Definition within_pow10 (x y : spec_float) (p : Z) : bool :=
  let '(a, b, e) := common x y in
  let p := clamp400 p in
  let half_ulp2 := match y with S754_finite _ _ ey => 2 ^ (ey - e) | _ => 0 end in    (* 2 * (ulp(y)/2) / 2^e *)
  let num := (2 * Z.abs (a - b) - half_ulp2) * (if 0 <=? e then 2 ^ e else 1) * (if 0 <=? p then 10 ^ p else 1) in
  let den := 2 * (if 0 <=? e then 1 else 2 ^ (- e)) * (if 0 <=? p then 1 else 10 ^ (- p)) in
  num <=? den.

Definition round_law (k : rkind) (x y : spec_float) (p : Z) : bool :=
  f_is_finite y && within_pow10 x y p
  && match k with KCeil => f_leq x y | KFloor => f_leq y x | KRound => true end.


(* the exact integer value of a float, when it has one *)
Definition f_int_value (f : spec_float) : option Z :=
  match f with
  | S754_zero _ => Some 0
  | S754_finite s m e =>
      if 0 <=? e then Some (cond_Zopp s (Zpos m * 2 ^ e))
      else if Zpos m mod 2 ^ (- e) =? 0 then Some (cond_Zopp s (Zpos m / 2 ^ (- e)))
      else None
  | _ => None
  end.

(* ---------- the regimes of round_to_precision (num, p) given w = 10f64.powf(p) ---------- *)

Definition f_is_inf (f : spec_float) : bool := match f with S754_infinity _ => true | _ => false end.

(* x * w computed without rounding equals the float t *)
Definition product_exact (x w t : spec_float) : bool :=
  match x, w, t with
  | S754_finite sx mx ex, S754_finite sw mw ew, S754_finite st mt et =>
      let e := Z.min (ex + ew) et in
      Bool.eqb (xorb sx sw) st && (Zpos mx * Zpos mw * 2 ^ (ex + ew - e) =? Zpos mt * 2 ^ (et - e))
  | S754_zero _, S754_finite _ _ _, S754_zero _ => true
  | _, _, _ => false
  end.

Inductive rclass :=
| RcRange          (* the multiplier 10^p is 0 or +inf, or x * 10^p overflows / underflows to zero, or the quotient overflows *)
| RcBig            (* |x * 10^p| >= 2^52: the product is an integer already, the result is (x * m) / m, rounded twice *)
| RcInexactMult    (* p < 0 or p > 22: 10^p is not a binary64 number, the multiplier carries a rounding error *)
| RcProductRounds  (* 0 <= p <= 22 but the multiplication x * 10^p rounds *)
| RcGood.          (* everything before the final division is exact *)

Definition round_class (k : rkind) (x : spec_float) (p : Z) (w : spec_float) : rclass :=
  let t := f_mul x w in
  let q := f_div (f_rint k t) w in
  if negb (f_is_finite w) || f_is_zero w
     || (negb (f_is_zero x) && (f_is_zero t || negb (f_is_finite t)))
     || negb (f_is_finite q) then RcRange
  else if (match t with S754_finite _ _ e => 0 <=? e | _ => false end) then RcBig
  else if (p <? 0) || (22 <? p) then RcInexactMult
  else if negb (product_exact x w t) then RcProductRounds
  else RcGood.

Definition rclass_eqb (a b : rclass) : bool :=
  match a, b with
  | RcRange, RcRange | RcBig, RcBig | RcInexactMult, RcInexactMult | RcProductRounds, RcProductRounds | RcGood, RcGood => true
  | _, _ => false
  end.
