(* Witness programs of the known classes of C01 / C02 / C12 (each was first observed on the implementation;
   corpus/C01, C02, C12 replay them there).  Definitions only. *)
From Coq Require Import List NArith ZArith Bool String.
From VRL Require Import Base.Bytes Base.Value Base.Lit Model.ValueCrud Model.Kind Model.KindCrud Model.Expr Model.Eval
  Model.EvalInst Model.TypeInfo Model.TypeInfoInst Model.TypeDomains.
Import ListNotations.
Local Open Scope string_scope.
Local Open Scope list_scope.
Local Open Scope Z_scope.

(* the default external kinds: objects with unknown any fields *)
Definition k_any_object : kind := k_object coll_any.
Definition ts_default : tstate := ts0 k_any_object k_any_object.
Definition ev_c_true : value := VObj [(hx "63", VBool true)].

Definition w_fallible (w : list expr) : bool := td_fal (snd (program_type_info_inst w ts_default)).
Definition w_reason (w : list expr) : N := program_reason binop_inst T_inst w ts_default.
Definition w_run (w : list expr) (event : value) := run_typed w (st0 [] event (VObj [])).
Definition w_final_target (w : list expr) : kind := tgt (fst (program_type_info_inst w ts_default)).
Definition w_result_kind (w : list expr) : kind := upgrade_undefined (td_kind (snd (program_type_info_inst w ts_default))).

(* x = {"a": 2}; del(x.a); 10 / x.a *)
Definition w_del_local : list expr :=
  [(EAssign (TVar (hx "78") []) (ELit (VObj [((hx "61"), (VInt 2))]))); (EDelVar (hx "78") [SField (hx "61")] false); (EOp ODiv (ELit (VInt 10)) (EQVar (hx "78") [SField (hx "61")]))].

(* x = {}; x.b = 5; 10 / x *)
Definition w_path_assign : list expr :=
  [(EAssign (TVar (hx "78") []) (ELit (VObj []))); (EAssign (TVar (hx "78") [SField (hx "62")]) (ELit (VInt 5))); (EOp ODiv (ELit (VInt 10)) (EVar (hx "78")))].

(* x = 5; for_each([1]) -> |k, v| { x = 0; null }; 10 / x *)
Definition w_closure_assign : list expr :=
  [(EAssign (TVar (hx "78") []) (ELit (VInt 5))); (EClosure CForEach (ELit (VArr [(VInt 1)])) [(hx "6b"); (hx "76")] [(EAssign (TVar (hx "78") []) (ELit (VInt 0))); (ELit VNull)]); (EOp ODiv (ELit (VInt 10)) (EVar (hx "78")))].

(* x = 5; y = (1 / { x = 0; 2 }) ?? 0; 10 / x *)
Definition w_div_effect : list expr :=
  [(EAssign (TVar (hx "78") []) (ELit (VInt 5))); (EAssign (TVar (hx "79") []) (EOp OErr (EOp ODiv (ELit (VInt 1)) (EBlock [(EAssign (TVar (hx "78") []) (ELit (VInt 0))); (ELit (VInt 2))])) (ELit (VInt 0)))); (EOp ODiv (ELit (VInt 10)) (EVar (hx "78")))].

(* .a = 1; x = (.a.q || "s"); x && true *)
Definition w_or_undefined : list expr :=
  [(EAssign (TExt PEvent [SField (hx "61")]) (ELit (VInt 1)));
   (EAssign (TVar (hx "78") []) (EOp OOr (EQExt PEvent [SField (hx "61"); SField (hx "71")]) (ELit (VBytes (hx "73")))));
   (EOp OAnd (EVar (hx "78")) (ELit (VBool true)))].

(* .a = 1; if .c == true { return 0 }; .a = "s" *)
Definition w_early_return : list expr :=
  [(EAssign (TExt PEvent [SField (hx "61")]) (ELit (VInt 1))); (EIf [(EOp OEq (EQExt PEvent [SField (hx "63")]) (ELit (VBool true)))] [(EReturn (ELit (VInt 0)))] None); (EAssign (TExt PEvent [SField (hx "61")]) (ELit (VBytes (hx "73"))))].

(* .a = 1; for_each([1]) -> |k, v| { .a = "s"; null }; .a + 1 *)
Definition w_closure_event : list expr :=
  [(EAssign (TExt PEvent [SField (hx "61")]) (ELit (VInt 1))); (EClosure CForEach (ELit (VArr [(VInt 1)])) [(hx "6b"); (hx "76")] [(EAssign (TExt PEvent [SField (hx "61")]) (ELit (VBytes (hx "73")))); (ELit VNull)]); (EOp OAdd (EQExt PEvent [SField (hx "61")]) (ELit (VInt 1)))].

(* { z = {"p": 2}; null }; z.q = "b"; z *)
Definition w_scope_leak : list expr :=
  [(EBlock [(EAssign (TVar (hx "7a") []) (ELit (VObj [((hx "70"), (VInt 2))]))); (ELit VNull)]); (EAssign (TVar (hx "7a") [SField (hx "71")]) (ELit (VBytes (hx "62")))); (EVar (hx "7a"))].

(* x = if .c == true { true } else { {"a": 1} }; x.b = .zz; x.a + 1 *)
Definition w_coerce : list expr :=
  [(EAssign (TVar (hx "78") []) (EIf [(EOp OEq (EQExt PEvent [SField (hx "63")]) (ELit (VBool true)))] [(ELit (VBool true))] (Some [(ELit (VObj [((hx "61"), (VInt 1))]))]))); (EAssign (TVar (hx "78") [SField (hx "62")]) (EQExt PEvent [SField (hx "7a7a")])); (EOp OAdd (EQVar (hx "78") [SField (hx "61")]) (ELit (VInt 1)))].

(* .x = [1, "a", true, 7]; del(.x[0]); .x[3] + 1 *)
Definition w_remove_shift : list expr :=
  [(EAssign (TExt PEvent [SField (hx "78")]) (ELit (VArr [(VInt 1); (VBytes (hx "61")); (VBool true); (VInt 7)]))); (EDelExt PEvent [SField (hx "78"); SIndex 0] false); (EOp OAdd (EQExt PEvent [SField (hx "78"); SIndex 3]) (ELit (VInt 1)))].

(* x = [1]; x[-3] = .zz; x *)
Definition w_negidx_insert : list expr :=
  [(EAssign (TVar (hx "78") []) (ELit (VArr [(VInt 1)]))); (EAssign (TVar (hx "78") [SIndex (-3)]) (EQExt PEvent [SField (hx "7a7a")])); (EVar (hx "78"))].

(* (.a || (x = 5)); 10 / x *)
Definition w_maybe_rhs_var : list expr :=
  [(EOp OOr (EQExt PEvent [SField (hx "61")]) (EAssign (TVar (hx "78") []) (ELit (VInt 5))));
   (EOp ODiv (ELit (VInt 10)) (EVar (hx "78")))].
Definition ev_a_true : value := VObj [(hx "61", VBool true)].

(* y = ([int(.a), (x = 5)] ?? 0); 10 / x *)
Definition w_err_partial : list expr :=
  [(EAssign (TVar (hx "79") []) (EOp OErr (EArr [ECall (hx "696e74") [EQExt PEvent [SField (hx "61")]];
                                                   EAssign (TVar (hx "78") []) (ELit (VInt 5))]) (ELit (VInt 0))));
   (EOp ODiv (ELit (VInt 10)) (EVar (hx "78")))].

(* true && .i   on {i: -7} *)
Definition w_and_true : list expr := [EOp OAnd (ELit (VBool true)) (EQExt PEvent [SField (hx "69")])].
Definition ev_i_int : value := VObj [(hx "69", VInt (-7))].

(* (1 / 0) / 7 *)
Definition w_div_lhs : list expr := [EOp ODiv (EOp ODiv (ELit (VInt 1)) (ELit (VInt 0))) (ELit (VInt 7))].
