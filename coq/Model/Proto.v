(* Protocol-buffers wire format as prost 0.13 / prost-reflect 0.14 `DynamicMessage` implement it (the library
   side of src/protobuf/{encode,parse}.rs), over an abstract descriptor pool.  Definitions only.

   Wire primitives (protobuf encoding spec): base-128 varints (at most 10 bytes, the tenth at most 1), zigzag,
   little-endian fixed32/fixed64, tags (field number << 3 | wire type), length-delimited payloads.
   A message is a sequence of records; `parse_records` cuts a byte string into them (record boundaries depend
   on the wire type only), `merge_record` interprets one record against a message descriptor the way
   `DynamicMessage::merge_field` does (last scalar wins, repeated fields append, packed or unpacked accepted,
   map entries insert, embedded messages merge recursively, unknown fields are skipped), `enc_msg` writes the
   set fields in field-number order the way `DynamicMessage::encode_raw` does (fields without presence holding
   their default are skipped, proto3 repeated scalars are packed, map entries are little two-field messages).
   Groups (wire types 3, 4), extensions and real oneofs are not modelled (none in the bundled descriptors). *)
From Coq Require Import List NArith ZArith Bool Arith.
From Coq Require Import Floats.SpecFloat.
From VRL Require Import Base.Bytes Base.Lit Model.CodecUtf8.
Import ListNotations.

(* outcome of a decoding step *)
Inductive pres (A : Type) := POk (a : A) | PErr | PUnmodelled.
Arguments POk {A} a.
Arguments PErr {A}.
Arguments PUnmodelled {A}.

Definition pbind {A B} (r : pres A) (f : A -> pres B) : pres B :=
  match r with POk a => f a | PErr => PErr | PUnmodelled => PUnmodelled end.

(* ---------- varint ---------- *)

Fixpoint encode_varint_f (fuel : nat) (n : N) : bytes :=
  match fuel with
  | O => []
  | S f => if (n <? 128)%N then [n] else (n mod 128 + 128)%N :: encode_varint_f f (n / 128)%N
  end.
(* prost::encoding::encode_varint on a u64: at most 10 groups of 7 bits *)
Definition encode_varint (n : N) : bytes := encode_varint_f 10 n.

(* prost::encoding::decode_varint: up to 10 bytes; the tenth may only contribute one bit *)
Fixpoint decode_varint_f (fuel : nat) (i : N) (acc : N) (b : bytes) : option (N * bytes) :=
  match fuel with
  | O => None
  | S f =>
      match b with
      | [] => None
      | x :: r =>
          let acc' := (acc + (x mod 128) * 2 ^ (7 * i))%N in
          if (x <? 128)%N then (if (i =? 9)%N && (2 <=? x)%N then None else Some (acc', r))
          else decode_varint_f f (i + 1)%N acc' r
      end
  end.
Definition decode_varint (b : bytes) : option (N * bytes) := decode_varint_f 10 0 0 b.

Definition two32 : Z := 4294967296.
Definition two64 : Z := 18446744073709551616.

(* `as u64` of a signed value (sign extension), and the signed readings of a u64 *)
Definition to_u64 (z : Z) : N := Z.to_N (z mod two64)%Z.
Definition wrap_s (bits : Z) (z : Z) : Z :=
  (let m := z mod 2 ^ bits in if m <? 2 ^ (bits - 1) then m else m - 2 ^ bits)%Z.
Definition wrap_u (bits : Z) (z : Z) : Z := (z mod 2 ^ bits)%Z.

(* zigzag: (n << 1) ^ (n >> bits-1) *)
Definition zigzag (z : Z) : N := Z.to_N (if (z <? 0)%Z then (-2 * z - 1)%Z else (2 * z)%Z).
Definition unzigzag (n : N) : Z :=
  if N.even n then Z.of_N (n / 2) else (- Z.of_N ((n + 1) / 2))%Z.

(* little-endian fixed width *)
Fixpoint le_bytes (n : nat) (v : N) : bytes :=
  match n with
  | O => []
  | S n' => (v mod 256)%N :: le_bytes n' (v / 256)%N
  end.
Fixpoint le_val (b : bytes) : N :=
  match b with
  | [] => 0%N
  | x :: r => (x + 256 * le_val r)%N
  end.

(* ---------- records ---------- *)

Inductive wval := WVarint (n : N) | WF64 (b : bytes) | WLen (b : bytes) | WF32 (b : bytes).

Definition wire_type (w : wval) : N :=
  match w with WVarint _ => 0 | WF64 _ => 1 | WLen _ => 2 | WF32 _ => 5 end%N.

Definition encode_key (num wt : N) : bytes := encode_varint (num * 8 + wt)%N.

Definition ser_wval (w : wval) : bytes :=
  match w with
  | WVarint n => encode_varint n
  | WF64 b => b
  | WLen b => encode_varint (N.of_nat (length b)) ++ b
  | WF32 b => b
  end.

Notation record := (N * wval)%type (only parsing).
Definition ser_record (r : record) : bytes := encode_key (fst r) (wire_type (snd r)) ++ ser_wval (snd r).
Definition ser_records (rs : list record) : bytes := concat (map ser_record rs).

Definition take (n : nat) (b : bytes) : option (bytes * bytes) :=
  if Nat.ltb (length b) n then None else Some (firstn n b, skipn n b).

(* decode_key: the key is a varint that fits a u32, wire type 0..5, field number >= 1 *)
Definition decode_key (b : bytes) : pres (N * N * bytes) :=
  match decode_varint b with
  | None => PErr
  | Some (key, r) =>
      if (4294967295 <? key)%N then PErr
      else let wt := (key mod 8)%N in
           if (5 <? wt)%N then PErr
           else if (key / 8 =? 0)%N then PErr
           else POk (key / 8, wt, r)%N
  end.

Definition decode_wval (wt : N) (b : bytes) : pres (wval * bytes) :=
  if (wt =? 0)%N then
    match decode_varint b with Some (n, r) => POk (WVarint n, r) | None => PErr end
  else if (wt =? 1)%N then
    match take 8 b with Some (x, r) => POk (WF64 x, r) | None => PErr end
  else if (wt =? 5)%N then
    match take 4 b with Some (x, r) => POk (WF32 x, r) | None => PErr end
  else if (wt =? 2)%N then
    match decode_varint b with
    | Some (len, r) =>
        match take (N.to_nat len) r with Some (x, r') => POk (WLen x, r') | None => PErr end
    | None => PErr
    end
  else PUnmodelled.                              (* groups *)

(* the records of a message body; fuel = an upper bound of the number of records (the length) *)
Fixpoint parse_records_f (fuel : nat) (b : bytes) : pres (list record) :=
  match fuel with
  | O => match b with [] => POk [] | _ => PErr end
  | S f =>
      match b with
      | [] => POk []
      | _ =>
          pbind (decode_key b) (fun '(num, wt, r) =>
          pbind (decode_wval wt r) (fun '(w, r') =>
          pbind (parse_records_f f r') (fun rs => POk ((num, w) :: rs))))
      end
  end.
Definition parse_records (b : bytes) : pres (list record) := parse_records_f (length b) b.

(* ---------- descriptors ---------- *)

Inductive skind :=
| KInt32 | KInt64 | KUint32 | KUint64 | KSint32 | KSint64 | KFixed32 | KFixed64 | KSfixed32 | KSfixed64
| KDouble | KFloat | KBool | KString | KBytes
| KEnum (vals : list (bytes * Z)) (dflt : Z)   (* (name, number) as EnumDescriptor::values() yields them; the number of
                                                 EnumDescriptor::default_value() (the first DECLARED value) *)
| KMsg (idx : nat).                         (* index into the pool *)

Inductive card :=
| CSingular (presence : bool)               (* FieldDescriptor::supports_presence *)
| CRepeated (packed : bool)                 (* is_list, is_packed *)
| CMap (kk : skind) (kpres : bool) (vpres : bool).    (* is_map: key field kind; presence of the entry's two fields;
                                                          the field's kind is the VALUE kind *)

Record field := mkField { f_name : bytes; f_num : N; f_kind : skind; f_card : card }.
Notation msgdesc := (list field) (only parsing).     (* MessageDescriptor::fields(): ordered by number *)
Notation pool := (list (list field)) (only parsing).

Definition get_msg (P : pool) (i : nat) : msgdesc := nth i P [].

Fixpoint find_field (d : msgdesc) (num : N) : option field :=
  match d with
  | [] => None
  | f :: r => if (f_num f =? num)%N then Some f else find_field r num
  end.

(* ---------- dynamic values (prost_reflect::Value; the integer variants are collapsed, the numbers are kept
              in the range of the field's kind) ---------- *)

Inductive pval :=
| PBool (b : bool) | PInt (z : Z) | PF32 (f : spec_float) | PF64 (f : spec_float)
| PStr (s : bytes) | PBytes (s : bytes) | PEnum (z : Z)
| PMsg (fs : list (N * pval))               (* DynamicMessageFieldSet: BTreeMap<u32, Value> *)
| PList (l : list pval)
| PMap (l : list (pval * pval)).            (* HashMap<MapKey, Value>: keys unique, order irrelevant *)

Notation dmsg := (list (N * pval)) (only parsing).

Fixpoint dm_get (m : dmsg) (num : N) : option pval :=
  match m with
  | [] => None
  | (n, v) :: r => if (n =? num)%N then Some v else dm_get r num
  end.

(* BTreeMap::insert *)
Fixpoint dm_set (m : dmsg) (num : N) (v : pval) : dmsg :=
  match m with
  | [] => [(num, v)]
  | (n, x) :: r =>
      if (n =? num)%N then (num, v) :: r
      else if (num <? n)%N then (num, v) :: (n, x) :: r
      else (n, x) :: dm_set r num v
  end.

(* ---------- floats: binary32 next to the binary64 of Base/Lit.v ---------- *)

(* `x as f32` (round to nearest even, overflow to infinity) *)
Definition f32_of_f64 (f : spec_float) : spec_float :=
  match f with
  | S754_finite s m e => binary_round 24 128 s m e
  | other => other
  end.
(* f64::from(f32): exact; re-normalised to the 53-bit form f64_to_bits expects *)
Definition f64_of_f32 (f : spec_float) : spec_float :=
  match f with
  | S754_finite s m e => binary_round 53 1024 s m e
  | other => other
  end.
Definition f32_to_bits (f : spec_float) : Z :=
  let sb (s : bool) := if s then (2 ^ 31)%Z else 0%Z in
  match f with
  | S754_zero s => sb s
  | S754_infinity s => (sb s + 255 * 2 ^ 23)%Z
  | S754_nan => (255 * 2 ^ 23 + 2 ^ 22)%Z
  | S754_finite s m e =>
      if (Zpos m <? 2 ^ 23)%Z then (sb s + Zpos m)%Z
      else (sb s + (e + 150) * 2 ^ 23 + (Zpos m - 2 ^ 23))%Z
  end.
Definition f32_of_bits (bits : Z) : spec_float :=
  let s := Z.testbit bits 31 in
  let e := Z.land (Z.shiftr bits 23) 255 in
  let m := Z.land bits (2 ^ 23 - 1) in
  if (e =? 0)%Z then
    match m with Zpos p => S754_finite s p (-149) | _ => S754_zero s end
  else if (e =? 255)%Z then (if (m =? 0)%Z then S754_infinity s else S754_nan)
  else match (m + 2 ^ 23)%Z with Zpos p => S754_finite s p (e - 150) | _ => S754_nan end.

(* `i as f64`, `i as f32` *)
Definition f64_of_int (z : Z) : spec_float := binary_normalize 53 1024 z 0 false.
Definition f32_of_int (z : Z) : spec_float := binary_normalize 24 128 z 0 false.

Definition is_zero_float (f : spec_float) : bool := match f with S754_zero _ => true | _ => false end.
Definition is_nan (f : spec_float) : bool := match f with S754_nan => true | _ => false end.

(* ---------- defaults and presence ---------- *)

(* Value::default_value(kind) *)
Definition default_of (k : skind) : pval :=
  match k with
  | KDouble => PF64 (S754_zero false)
  | KFloat => PF32 (S754_zero false)
  | KBool => PBool false
  | KString => PStr []
  | KBytes => PBytes []
  | KEnum _ dflt => PEnum dflt
  | KMsg _ => PMsg []
  | _ => PInt 0
  end.

(* `*value == Value::default_value(kind)`: derived PartialEq, so 0.0 == -0.0, and an embedded message equals the
   default when it has no set field *)
Definition is_default_scalar (k : skind) (v : pval) : bool :=
  match k, v with
  | KDouble, PF64 f | KFloat, PF32 f => is_zero_float f
  | KBool, PBool b => negb b
  | KString, PStr s | KBytes, PBytes s => match s with [] => true | _ => false end
  | KEnum _ dflt, PEnum z => Z.eqb z dflt
  | KMsg _, PMsg fs => match fs with [] => true | _ => false end
  | _, PInt z => Z.eqb z 0
  | _, _ => false
  end.

(* FieldDescriptorLike::has: supports_presence || value != default_value_for_field *)
Definition has_value (f : field) (v : pval) : bool :=
  match f_card f with
  | CSingular true => true
  | CSingular false => negb (is_default_scalar (f_kind f) v)
  | CRepeated _ => match v with PList [] => false | _ => true end
  | CMap _ _ _ => match v with PMap [] => false | _ => true end
  end.

(* ---------- encoding ---------- *)

Definition is_packable (k : skind) : bool :=
  match k with KString | KBytes | KMsg _ => false | _ => true end.

Definition bool_n (b : bool) : N := if b then 1%N else 0%N.

(* the payload of one value of a scalar kind (no key): varint / fixed bytes *)
Definition enc_packed_elem (k : skind) (v : pval) : bytes :=
  match k, v with
  | (KInt32 | KInt64), PInt z => encode_varint (to_u64 z)
  | (KUint32 | KUint64), PInt z => encode_varint (Z.to_N z)
  | (KSint32 | KSint64), PInt z => encode_varint (zigzag z)
  | (KFixed32 | KSfixed32), PInt z => le_bytes 4 (Z.to_N (wrap_u 32 z))
  | (KFixed64 | KSfixed64), PInt z => le_bytes 8 (Z.to_N (wrap_u 64 z))
  | KDouble, PF64 f => le_bytes 8 (Z.to_N (f64_to_bits f))
  | KFloat, PF32 f => le_bytes 4 (Z.to_N (f32_to_bits f))
  | KBool, PBool b => encode_varint (bool_n b)
  | KEnum _ _, PEnum z => encode_varint (to_u64 z)
  | _, _ => []
  end.

Section Enc.
  Variable P : pool.

  (* one value as a wire value; messages need the recursive encoder *)
  Definition enc_scalar (enc_msg : msgdesc -> dmsg -> bytes) (k : skind) (v : pval) : option wval :=
    match k, v with
    | (KInt32 | KInt64), PInt z => Some (WVarint (to_u64 z))
    | (KUint32 | KUint64), PInt z => Some (WVarint (Z.to_N z))
    | (KSint32 | KSint64), PInt z => Some (WVarint (zigzag z))
    | (KFixed32 | KSfixed32), PInt z => Some (WF32 (le_bytes 4 (Z.to_N (wrap_u 32 z))))
    | (KFixed64 | KSfixed64), PInt z => Some (WF64 (le_bytes 8 (Z.to_N (wrap_u 64 z))))
    | KDouble, PF64 f => Some (WF64 (le_bytes 8 (Z.to_N (f64_to_bits f))))
    | KFloat, PF32 f => Some (WF32 (le_bytes 4 (Z.to_N (f32_to_bits f))))
    | KBool, PBool b => Some (WVarint (bool_n b))
    | KString, PStr s => Some (WLen s)
    | KBytes, PBytes s => Some (WLen s)
    | KEnum _ _, PEnum z => Some (WVarint (to_u64 z))
    | KMsg i, PMsg fs => Some (WLen (enc_msg (get_msg P i) fs))
    | _, _ => None
    end.

  Definition rec_of (num : N) (o : option wval) : list record :=
    match o with Some w => [(num, w)] | None => [] end.

  (* one map entry: a two-field message, each field subject to the usual presence rule *)
  Definition enc_entry (enc_msg : msgdesc -> dmsg -> bytes) (kk : skind) (kpres : bool) (vk : skind) (vpres : bool)
             (kv : pval * pval) : bytes :=
    let kf := mkField [] 1 kk (CSingular kpres) in
    let vf := mkField [] 2 vk (CSingular vpres) in
    let krec := if has_value kf (fst kv) then rec_of 1 (enc_scalar enc_msg kk (fst kv)) else [] in
    let vrec := if has_value vf (snd kv) then rec_of 2 (enc_scalar enc_msg vk (snd kv)) else [] in
    ser_records (krec ++ vrec).

  (* Value::encode_field as a list of records (a mismatching value, which the Rust would panic on, gives none) *)
  Definition enc_field (enc_msg : msgdesc -> dmsg -> bytes) (f : field) (v : pval) : list record :=
    if negb (has_value f v) then []
    else
      match f_card f, v with
      | CRepeated packed, PList l =>
          if packed then [(f_num f, WLen (concat (map (enc_packed_elem (f_kind f)) l)))]
          else flat_map (fun x => rec_of (f_num f) (enc_scalar enc_msg (f_kind f) x)) l
      | CMap kk kpres vpres, PMap l =>
          map (fun kv : pval * pval => (f_num f, WLen (enc_entry enc_msg kk kpres (f_kind f) vpres kv))) l
      | _, _ => rec_of (f_num f) (enc_scalar enc_msg (f_kind f) v)      (* incl. a lone value in a repeated field *)
      end.

  (* DynamicMessage::encode_raw: the descriptor's fields in number order; fuel = nesting depth *)
  Fixpoint enc_msg (fuel : nat) (d : msgdesc) (m : dmsg) : bytes :=
    match fuel with
    | O => []
    | S fu =>
        ser_records (flat_map (fun f => match dm_get m (f_num f) with
                                        | Some v => enc_field (enc_msg fu) f v
                                        | None => []
                                        end) d)
    end.
End Enc.

(* ---------- decoding ---------- *)

Definition expect_varint (w : wval) : pres N := match w with WVarint n => POk n | _ => PErr end.
Definition expect_f32 (w : wval) : pres N := match w with WF32 b => POk (le_val b) | _ => PErr end.
Definition expect_f64 (w : wval) : pres N := match w with WF64 b => POk (le_val b) | _ => PErr end.
Definition expect_len (w : wval) : pres bytes := match w with WLen b => POk b | _ => PErr end.
Definition expect_len_map (w : wval) : pres bytes := match w with WLen b => POk b | _ => PUnmodelled end.

(* prost::encoding::<kind>::merge for the scalar kinds (the wire type must match; the value is overwritten) *)
Definition dec_plain (k : skind) (w : wval) : pres pval :=
  match k with
  | KInt32 => pbind (expect_varint w) (fun n => POk (PInt (wrap_s 32 (Z.of_N n))))
  | KInt64 => pbind (expect_varint w) (fun n => POk (PInt (wrap_s 64 (Z.of_N n))))
  | KUint32 => pbind (expect_varint w) (fun n => POk (PInt (wrap_u 32 (Z.of_N n))))
  | KUint64 => pbind (expect_varint w) (fun n => POk (PInt (Z.of_N n)))
  | KSint32 => pbind (expect_varint w) (fun n => POk (PInt (unzigzag (n mod 4294967296)%N)))
  | KSint64 => pbind (expect_varint w) (fun n => POk (PInt (unzigzag n)))
  | KFixed32 => pbind (expect_f32 w) (fun n => POk (PInt (Z.of_N n)))
  | KSfixed32 => pbind (expect_f32 w) (fun n => POk (PInt (wrap_s 32 (Z.of_N n))))
  | KFixed64 => pbind (expect_f64 w) (fun n => POk (PInt (Z.of_N n)))
  | KSfixed64 => pbind (expect_f64 w) (fun n => POk (PInt (wrap_s 64 (Z.of_N n))))
  | KDouble => pbind (expect_f64 w) (fun n => POk (PF64 (f64_of_bits (Z.of_N n))))
  | KFloat => pbind (expect_f32 w) (fun n => POk (PF32 (f32_of_bits (Z.of_N n))))
  | KBool => pbind (expect_varint w) (fun n => POk (PBool (negb (n =? 0)%N)))
  | KString => pbind (expect_len w) (fun s => if valid_utf8 s then POk (PStr s) else PErr)
  | KBytes => pbind (expect_len w) (fun s => POk (PBytes s))
  | KEnum _ _ => pbind (expect_varint w) (fun n => POk (PEnum (wrap_s 32 (Z.of_N n))))
  | KMsg _ => PErr
  end.

(* the elements of a packed payload: values back to back, each read with the kind's own wire type *)
Definition packed_wt (k : skind) : N :=
  match k with
  | KFixed32 | KSfixed32 | KFloat => 5
  | KFixed64 | KSfixed64 | KDouble => 1
  | _ => 0
  end%N.

Fixpoint dec_packed_f (fuel : nat) (k : skind) (b : bytes) : pres (list pval) :=
  match fuel with
  | O => match b with [] => POk [] | _ => PErr end
  | S f =>
      match b with
      | [] => POk []
      | _ => pbind (decode_wval (packed_wt k) b) (fun '(w, r) =>
             pbind (dec_plain k w) (fun v =>
             pbind (dec_packed_f f k r) (fun vs => POk (v :: vs))))
      end
  end.

(* HashMap::insert on an association list: replace the value of an equal key, else add *)
Definition pval_key_eqb (a b : pval) : bool :=
  match a, b with
  | PBool x, PBool y => Bool.eqb x y
  | PInt x, PInt y => Z.eqb x y
  | PStr x, PStr y => bytes_eqb x y
  | _, _ => false
  end.
Fixpoint map_insert (l : list (pval * pval)) (k v : pval) : list (pval * pval) :=
  match l with
  | [] => [(k, v)]
  | (k', v') :: r => if pval_key_eqb k' k then (k, v) :: r else (k', v') :: map_insert r k v
  end.

Section Dec.
  Variable P : pool.

  (* one value of the field's kind: scalars overwrite, an embedded message merges into `cur` *)
  Definition dec_value (merge_msg : msgdesc -> dmsg -> bytes -> pres dmsg) (k : skind) (cur : option pval) (w : wval)
    : pres pval :=
    match k with
    | KMsg i =>
        pbind (expect_len w) (fun b =>
        let old := match cur with Some (PMsg fs) => fs | _ => [] end in
        pbind (merge_msg (get_msg P i) old b) (fun fs => POk (PMsg fs)))
    | _ => dec_plain k w
    end.

  (* one record of a map entry: field 1 is the key, field 2 the value, anything else is skipped *)
  Definition entry_step (merge_msg : msgdesc -> dmsg -> bytes -> pres dmsg) (kk vk : skind)
             (acc : pres (pval * pval)) (r : record) : pres (pval * pval) :=
    pbind acc (fun '(k, v) =>
      if (fst r =? 1)%N then pbind (dec_plain kk (snd r)) (fun k' => POk (k', v))
      else if (fst r =? 2)%N then pbind (dec_value merge_msg vk (Some v) (snd r)) (fun v' => POk (k, v'))
      else POk (k, v)).

  (* Value::merge_field for one record of a known field, given the field's current value *)
  Definition merge_field (merge_msg : msgdesc -> dmsg -> bytes -> pres dmsg) (f : field) (cur : option pval) (w : wval)
    : pres pval :=
    match f_card f with
    | CSingular _ => dec_value merge_msg (f_kind f) cur w
    | CRepeated _ =>
        let old := match cur with Some (PList l) => l | _ => [] end in
        match w with
        | WLen b =>
            if is_packable (f_kind f) then
              pbind (dec_packed_f (length b) (f_kind f) b) (fun vs => POk (PList (old ++ vs)))
            else pbind (dec_value merge_msg (f_kind f) None w) (fun v => POk (PList (old ++ [v])))
        | _ => pbind (dec_value merge_msg (f_kind f) None w) (fun v => POk (PList (old ++ [v])))
        end
    | CMap kk _ _ =>
        (* prost-reflect does NOT check the wire type of a map field: merge_loop reads a length varint from whatever
           follows the key.  Only the length-delimited case is modelled (record boundaries would differ otherwise). *)
        let old := match cur with Some (PMap l) => l | _ => [] end in
        pbind (expect_len_map w) (fun b =>
        pbind (parse_records b) (fun rs =>
        pbind (fold_left (entry_step merge_msg kk (f_kind f)) rs (POk (default_of kk, default_of (f_kind f))))
          (fun '(k, v) => POk (PMap (map_insert old k v)))))
    end.

  (* Message::merge: every record in turn; unknown field numbers are skipped (kept aside by the library) *)
  Definition msg_step (merge_msg : msgdesc -> dmsg -> bytes -> pres dmsg) (d : msgdesc) (acc : pres dmsg) (r : record)
    : pres dmsg :=
    pbind acc (fun m' =>
      match find_field d (fst r) with
      | None => POk m'
      | Some f =>
          pbind (merge_field merge_msg f (dm_get m' (fst r)) (snd r)) (fun v => POk (dm_set m' (fst r) v))
      end).

  Fixpoint merge_msg (fuel : nat) (d : msgdesc) (m : dmsg) (b : bytes) : pres dmsg :=
    match fuel with
    | O => PErr                                     (* DecodeContext: "recursion limit reached" *)
    | S fu => pbind (parse_records b) (fun rs => fold_left (msg_step (merge_msg fu) d) rs (POk m))
    end.
End Dec.

(* DynamicMessage::decode; prost's recursion limit is 100 *)
Definition decode_msg (P : pool) (d : msgdesc) (b : bytes) : pres dmsg := merge_msg P 101 d [] b.
Definition encode_msg (P : pool) (d : msgdesc) (m : dmsg) : bytes := enc_msg P 101 d m.
