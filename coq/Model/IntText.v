(* Model of src/stdlib/format_int.rs (format_int, format_radix) and src/stdlib/parse_int.rs
   (parse_int + core's i64::from_str_radix, char::from_digit, char::to_digit).  Definitions only.
   Integers are Z with explicit i64 range checks. *)
From Coq Require Import List NArith ZArith Bool.
From VRL Require Import Base.Bytes Base.Value Model.ConvRes.
Import ListNotations.
Local Open Scope Z_scope.

(* std::char::from_digit(m, radix).unwrap() for m < radix <= 36: '0'..'9', 'a'..'z' *)
Definition digit_char (m : Z) : N :=
  Z.to_N (if m <? 10 then 48 + m else 87 + m).

(* char::to_digit(radix): '0'..'9', 'a'..'z', 'A'..'Z', below the radix *)
Definition digit_val (c : N) : option Z :=
  let z := Z.of_N c in
  if (48 <=? z) && (z <=? 57) then Some (z - 48)
  else if (97 <=? z) && (z <=? 122) then Some (z - 87)
  else if (65 <=? z) && (z <=? 90) then Some (z - 55)
  else None.

Definition to_digit (radix : Z) (c : N) : option Z :=
  match digit_val c with
  | Some d => if d <? radix then Some d else None
  | None => None
  end.

(* the `loop { m = x % radix; x /= radix; push_front(digit m); if x == 0 {break} }` of format_radix on
   the u64 magnitude; `acc` is the VecDeque so far.  None = out of fuel. *)
Fixpoint digits_loop (fuel : nat) (radix x : Z) (acc : bytes) : option bytes :=
  match fuel with
  | O => None
  | S f =>
      let m := x mod radix in
      let x' := x / radix in
      let acc' := digit_char m :: acc in
      if x' =? 0 then Some acc' else digits_loop f radix x' acc'
  end.

(* format_radix(x: i64, radix: u32) -> String ; fuel 64 is enough for every u64 and radix >= 2.
   `(x.unsigned_abs(), x < 0)`: the magnitude is taken in u64, so i64::MIN is an ordinary input (2^63). *)
Definition format_radix (x radix : Z) : res bytes :=
  let negative := x <? 0 in
  match digits_loop 64 radix (Z.abs x) [] with
  | Some s => ROk (if negative then 45%N :: s else s)
  | None => RFuel
  end.

(* format_int(value, base) *)
Definition format_int (v0 base : value) : res value :=
  match v0 with
  | VInt v =>
      match base with
      | VInt b =>
          if (2 <=? b) && (b <=? 36) then
            res_bind (format_radix v b) (fun s => ROk (VBytes s))
          else RErr
      | _ => RErr
      end
  | _ => RErr
  end.
(* the optional `base` argument defaults to 10 *)
Definition format_int_opt (v0 : value) (base : option value) : res value :=
  format_int v0 (match base with Some b => b | None => VInt 10 end).

(* i64::from_str_radix: the digit loop with checked_mul / checked_add (or checked_sub when negative) *)
Fixpoint parse_digits (neg : bool) (radix : Z) (s : bytes) (acc : Z) : option Z :=
  match s with
  | [] => Some acc
  | c :: s' =>
      match to_digit radix c with
      | None => None                                   (* InvalidDigit *)
      | Some d =>
          let m := acc * radix in
          if in_i64 m then
            let a := if neg then m - d else m + d in
            if in_i64 a then parse_digits neg radix s' a else None   (* Pos/NegOverflow *)
          else None
      end
  end.

Definition from_str_radix (s : bytes) (radix : Z) : option Z :=
  match s with
  | [] => None                                          (* Empty *)
  | [c] => if (c =? 43)%N || (c =? 45)%N then None else parse_digits false radix s 0
  | c :: rest =>
      if (c =? 43)%N then parse_digits false radix rest 0
      else if (c =? 45)%N then parse_digits true radix rest 0
      else parse_digits false radix s 0
  end.

(* parse_int(value, base: Option<Value>) *)
Definition parse_int (v0 : value) (base : option value) : res value :=
  match v0 with
  | VBytes s =>
      let bi : res (Z * nat) :=
        match base with
        | Some (VInt b) => if (2 <=? b) && (b <=? 36) then ROk (b, O) else RErr
        | Some _ => RErr
        | None =>
            match s with
            | 48%N :: rest =>
                match rest with
                | 98%N :: _ => ROk (2, 2%nat)       (* 0b *)
                | 111%N :: _ => ROk (8, 2%nat)      (* 0o *)
                | 120%N :: _ => ROk (16, 2%nat)     (* 0x *)
                | _ => ROk (8, O)
                end
            | _ :: _ => ROk (10, O)
            | [] => RErr                             (* "value is empty" *)
            end
        end in
      res_bind bi (fun '(b, index) =>
        match from_str_radix (skipn index s) b with
        | Some z => ROk (VInt z)
        | None => RErr
        end)
  | _ => RErr
  end.
