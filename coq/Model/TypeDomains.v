(* The known classes of programs on which the compiler's type information is NOT sound (C01, C02, C12),
   as a decidable walk over the program along the type states `type_info` computes:
   `reason e s` = 0 when no construct of e belongs to a known class, otherwise the number of the
   class of the first such construct in evaluation order (known_findings/C01.json lists them).
   Definitions only. *)
From Coq Require Import List NArith ZArith Bool.
From VRL Require Import Base.Bytes Base.Value Model.ValueCrud Model.Kind Model.KindCrud Model.KindDomains
  Model.Expr Model.TypeInfo.
Import ListNotations.
Local Open Scope N_scope.

Definition first_nz (a b : N) : N := if N.eqb a 0 then b else a.

(* ---------- the C19 side conditions, as reasons ---------- *)

Fixpoint ins_reason (fresh : bool) (k : kind) (p : path) {struct p} : N :=
  match p with
  | [] => 0
  | SField f :: p' =>
      let c := match obj_of k with Some c => c | None => coll_empty end in
      let cur := coll_at bytes_eqb c f in
      if fresh || negb (is_some (obj_of k)) then
        (if others_optional bytes_eqb c f then ins_reason true cur p' else 103)
      else if negb (is_exact k || others_optional bytes_eqb c f) then 103
      else first_nz (ins_reason false cur p')
                    (if is_exact k && negb (p_undefined (prims_of cur)) then 0 else ins_reason true cur p')
  | SIndex i :: p' =>
      let c := match arr_of k with Some c => c | None => coll_empty end in
      if (i <? 0)%Z then
        if contains_any_defined (unknown_kind c) then 113
        else if fresh || negb (is_exact k) || negb (is_some (arr_of k)) || negb (all_required c) || negb (all_defined c) then 114
        else if negb (Nat.leb (Z.to_nat (- i)) (known_len c)) then 102
        else ins_reason false (coll_at Nat.eqb c (known_len c - Z.to_nat (- i))%nat) p'
      else
        let idx := Z.to_nat i in
        let cur := coll_at Nat.eqb c idx in
        if fresh || negb (is_some (arr_of k)) then
          (if idx_fresh_ok c idx then ins_reason true cur p' else 103)
        else if negb (idx_pad_ok c idx) then 104
        else if negb (is_exact k || idx_fresh_ok c idx) then 103
        else first_nz (ins_reason false cur p')
                      (if is_exact k && negb (p_undefined (prims_of cur)) then 0 else ins_reason true cur p')
  end.

Definition or199 (r : N) : N := if N.eqb r 0 then 199%N else r.

(* Kind::insert into a slot typed k *)
Definition insert_reason (k : kind) (p : path) : N :=
  if ins_ok false k p then 0 else or199 (ins_reason false k p).

(* Kind::at_path *)
Definition query_reason (k : kind) (p : path) : N := if get_ok k p then 0 else 105.

(* Kind::remove *)
Definition delete_reason (k : kind) (p : path) (cpt : bool) : N :=
  if remove_ok k p cpt then 0 else 107.

(* does evaluating e change the type state (assignments, deletions, closures)? *)
Fixpoint effectful (e : expr) : bool :=
  let any := fix any (es : list expr) : bool := match es with [] => false | e1 :: r => effectful e1 || any r end in
  match e with
  | ELit _ | EVar _ | EQExt _ _ | EQVar _ _ | EExistsExt _ _ | EExistsVar _ _ => false
  | EQExpr e1 _ | EGroup e1 | ENot e1 | EReturn e1 => effectful e1
  | EArr es | EBlock es | ECall _ es => any es
  | EObj kvs => (fix anyo (l : list (bytes * expr)) : bool :=
                   match l with [] => false | kv :: r => effectful (snd kv) || anyo r end) kvs
  | EIf c t f => any c || any t || match f with Some fb => any fb | None => false end
  | EOp _ a b => effectful a || effectful b
  | EAbort m => match m with Some me => effectful me | None => false end
  | EAssign _ _ | EAssignInf _ _ _ _ | EDelExt _ _ _ | EDelVar _ _ _ | EClosure _ _ _ _ => true
  end.

Section Reason.
  Variable binop : opcode -> value -> value -> option value.
  Variable T : fname -> list tdef -> list tdef -> tdef.

  Notation ti := (type_info binop T).

  Definition var_kind (s : tstate) (x : ident) : kind :=
    match lvar (locals s) x with Some d => td_kind (fst d) | None => k_undefined end.

  (* an assignment target in state s (after the right-hand side), `c` = the constant of the right-hand side *)
  Definition target_reason (t : target) (s : tstate) (c : option value) : N :=
    match t with
    | TNoop => 0
    | TVar x [] => 0
    | TVar x p =>
        (* a variable out of scope may still hold a run-time value from an inner block; *)
        (* the whole variable is recorded as holding the constant assigned to the path *)
        if negb (is_some (lvar (locals s) x)) then 127
        else if is_some c then 126
        else insert_reason (match lvar (locals s) x with Some d => td_kind (fst d) | None => k_never end) p
    | TExt pfx p => insert_reason (ext_kind s pfx) p
    end.

  (* a variable that exists only in the state after a maybe-evaluated right operand: LocalEnv::merge
     records it (type and constant) as if the operand had run *)
  Definition new_vars (before after : tstate) : bool :=
    existsb (fun xd => negb (is_some (lvar (locals before) (fst xd)))) (locals after).

  Fixpoint reason (e : expr) (s : tstate) {struct e} : N :=
    let seq :=
      fix seq (es : list expr) (s : tstate) {struct es} : N :=
        match es with
        | [] => 0
        | e1 :: es' => first_nz (reason e1 s) (seq es' (fst (ti e1 s)))
        end in
    match e with
    | ELit _ | EVar _ | EExistsExt _ _ | EExistsVar _ _ => 0
    | EQExt pfx p => query_reason (ext_kind s pfx) p
    | EQVar x p => query_reason (var_kind s x) p
    | EQExpr e1 p => first_nz (reason e1 s) (query_reason (td_kind (snd (ti e1 s))) p)
    | EArr es | EBlock es | ECall _ es => seq es s
    | EObj kvs =>
        (fix go (kvs : list (bytes * expr)) (s : tstate) {struct kvs} : N :=
           match kvs with
           | [] => 0
           | kv :: r => first_nz (reason (snd kv) s) (go r (fst (ti (snd kv) s)))
           end) kvs s
    | EGroup e1 | ENot e1 => reason e1 s
    | EIf c t f =>
        let s1 := fst (ti (EIf c [ELit VNull] None) s) in   (* the state after the predicate *)
        first_nz (seq c s)
          (first_nz (seq t (fold_left (fun s e1 => fst (ti e1 s)) c s))
                    (match f with Some fb => seq fb (fold_left (fun s e1 => fst (ti e1 s)) c s) | None => 0 end))
    | EOp o a b =>
        let s1 := fst (ti a s) in
        let lk := td_kind (snd (ti a s)) in
        first_nz (reason a s)
          (match o with
           | OOr =>
               (* a left operand that can only be missing is typed as always true *)
               if p_undefined (prims_of lk) && negb (contains_null lk || contains_boolean lk) && negb (k_is_null lk)
               then 123
               else if new_vars s1 (fst (ti b s1)) then 128 else reason b s1
           | OErr =>
               (* the right operand runs when the left one failed, possibly half-way, but is typed in the
                  state after the whole left operand *)
               if effectful a then 129 else if new_vars s1 (fst (ti b s1)) then 128 else reason b s1
           | OAnd =>
               (* a constant-true left operand: the right operand's kind is not checked against
                  null-or-boolean although `true && 5` fails *)
               if ovalue_eqb (resolve_constant binop a s) (Some (VBool true))
                  && negb (is_superset k_null_or_bool (td_kind (snd (ti b s1))))
               then 130
               else if new_vars s1 (fst (ti b s1)) then 128 else reason b s1
           | ODiv =>
               (* the result starts from a fresh TypeDef::float(): the left operand's fallibility is lost *)
               if td_fal (snd (ti a s)) && negb (td_fal (snd (ti (EOp ODiv a b) s))) then 131
               else if effectful b then 124 else reason b s1
           | OMerge => first_nz (reason b s1) 112
           | _ => reason b s1
           end)
    | EAssign t e1 =>
        first_nz (reason e1 s) (target_reason t (fst (ti e1 s)) (resolve_constant binop e1 (fst (ti e1 s))))
    | EAssignInf ok er e1 d =>
        let s1 := fst (ti e1 s) in
        first_nz (if effectful e1 then 129 else reason e1 s)
          (first_nz (target_reason ok s1 (resolve_constant binop e1 s1))
                    (target_reason er (insert_type_def ok s1 (td_of k_never) None) None))
    | EAbort _ => 0
    | EReturn _ => 121
    | EDelExt pfx p cpt =>
        if cpt then delete_reason (ext_kind s pfx) p true
        else first_nz (delete_reason (ext_kind s pfx) p false) (delete_reason (ext_kind s pfx) p true)
    | EDelVar _ _ _ => 125
    | EClosure _ _ _ _ => 122
    end.

  Definition program_reason (es : list expr) (s : tstate) : N :=
    (fix seq (es : list expr) (s : tstate) {struct es} : N :=
       match es with
       | [] => 0
       | e1 :: es' => first_nz (reason e1 s) (seq es' (fst (ti e1 s)))
       end) es s.
End Reason.
