(* C27 — the VRL side of the digest / checksum functions: src/stdlib/{md5,sha1,sha2,sha3,hmac,crc,xxhash,
   seahash}.rs modelled down to the call into the hashing crate, with the published algorithm
   (Model/Digest*.v, Hmac.v, Crc.v, XxHash.v, Seahash.v) in the crate's place.

   What is modelled, function by function:
   * the argument checks (`value.try_bytes()?`, `key.try_bytes()?`, `try_bytes_utf8_lossy()?`);
   * how the variant / algorithm name reaches the dispatch:
       sha2, sha3     — compile-time enum (`optional_enum`): only a string literal equal, byte for byte, to one
                        of the listed names compiles; no case folding; a non-constant expression does not compile;
       hmac, crc, xxhash — run-time: lossy UTF-8, `str::to_uppercase`, then an exact `match`;
   * the default when the argument is omitted;
   * the output encoding: lower-case hex text (md5, sha1, sha2, sha3), raw bytes (hmac), decimal text of the
     unsigned register (crc, XXH3-128), integer (XXH32: as is; XXH64, XXH3-64, seahash: the u64 reinterpreted
     as i64).
   Definitions only. *)
From Coq Require Import List NArith ZArith Bool String Ascii.
From VRL Require Import Base.Bytes Base.Value Model.DigestWord Model.DigestMd5 Model.DigestSha1 Model.DigestSha2
     Model.DigestSha3 Model.Hmac Model.Crc Model.XxHash Model.Seahash Model.Base64.
Import ListNotations.
Local Open Scope N_scope.

Fixpoint str (s : string) : bytes :=
  match s with EmptyString => [] | String a r => N_of_ascii a :: str r end.

(* ---------------------------------------------------------------- results and arguments *)
Inductive err := EType | EName.                    (* not bytes / unknown algorithm name *)
Inductive res := ROk (v : value) | RErr (e : err) | RCompile.

(* how the optional variant / algorithm argument is written in the program *)
Inductive varg :=
| ADefault                 (* omitted *)
| ALit (name : bytes)      (* a string literal *)
| ADyn (v : value).        (* any non-constant expression, with the value it evaluates to *)

Definition as_bytes (v : value) : option bytes := match v with VBytes b => Some b | _ => None end.

(* ---------------------------------------------------------------- encoders *)
Definition hexdigit (n : N) : N := if n <? 10 then 48 + n else 87 + n.      (* 0-9 a-f *)
Fixpoint hex (b : bytes) : bytes :=
  match b with [] => [] | x :: r => hexdigit (x / 16) :: hexdigit (x mod 16) :: hex r end.

(* u8..u128::to_string: decimal, no sign, no leading zeros; fuel = number of bits >= number of digits *)
Fixpoint dec_aux (fuel : nat) (n : N) (acc : bytes) : bytes :=
  match fuel with
  | O => acc
  | S f => let acc' := (48 + n mod 10) :: acc in if n <? 10 then acc' else dec_aux f (n / 10) acc'
  end.
Definition dec (n : N) : bytes := dec_aux (S (N.to_nat (N.size n))) n [].

(* `u64 as i64` *)
Definition to_i64 (u : N) : Z := if u <? 2 ^ 63 then Z.of_N u else (Z.of_N u - 2 ^ 64)%Z.

(* encode_base64 with its defaults: standard alphabet, padding *)
Definition b64 (b : bytes) : bytes := b64_encode false true b.

(* ---------------------------------------------------------------- str::to_uppercase, as far as it matters
   Every accepted name is ASCII.  The result of to_uppercase is ASCII exactly when every character maps to
   ASCII, and besides the ASCII characters themselves exactly ten characters do (checked over all scalar
   values against Rust's char::to_uppercase): U+00DF, U+0131, U+017F, U+FB00..U+FB06.  All other bytes
   (including whatever lossy decoding makes of invalid UTF-8: U+FFFD) are left in place — they keep the
   result non-ASCII, so it cannot equal a name. *)
Definition up_ascii (x : N) : N := if (97 <=? x) && (x <=? 122) then x - 32 else x.

Fixpoint name_upper (b : bytes) : bytes :=
  match b with
  | [] => []
  | x :: r =>
      match r with
      | y :: r2 =>
          if (x =? 0xC3) && (y =? 0x9F) then 83 :: 83 :: name_upper r2            (* U+00DF -> SS *)
          else if (x =? 0xC4) && (y =? 0xB1) then 73 :: name_upper r2             (* U+0131 -> I *)
          else if (x =? 0xC5) && (y =? 0xBF) then 83 :: name_upper r2             (* U+017F -> S *)
          else
            match r2 with
            | z :: r3 =>
                if (x =? 0xEF) && (y =? 0xAC) then
                  if z =? 0x80 then 70 :: 70 :: name_upper r3                      (* U+FB00 -> FF *)
                  else if z =? 0x81 then 70 :: 73 :: name_upper r3                 (* U+FB01 -> FI *)
                  else if z =? 0x82 then 70 :: 76 :: name_upper r3                 (* U+FB02 -> FL *)
                  else if z =? 0x83 then 70 :: 70 :: 73 :: name_upper r3           (* U+FB03 -> FFI *)
                  else if z =? 0x84 then 70 :: 70 :: 76 :: name_upper r3           (* U+FB04 -> FFL *)
                  else if z =? 0x85 then 83 :: 84 :: name_upper r3                 (* U+FB05 -> ST *)
                  else if z =? 0x86 then 83 :: 84 :: name_upper r3                 (* U+FB06 -> ST *)
                  else up_ascii x :: name_upper r
                else up_ascii x :: name_upper r
            | [] => up_ascii x :: name_upper r
            end
      | [] => [up_ascii x]
      end
  end.

(* ---------------------------------------------------------------- the algorithms behind the names *)
Inductive sha2_variant := S224 | S256 | S384 | S512 | S512_224 | S512_256.
Definition sha2_all := [S224; S256; S384; S512; S512_224; S512_256].
Definition sha2_name (v : sha2_variant) : string :=
  match v with
  | S224 => "SHA-224" | S256 => "SHA-256" | S384 => "SHA-384" | S512 => "SHA-512"
  | S512_224 => "SHA-512/224" | S512_256 => "SHA-512/256"
  end.
Definition sha2_spec (v : sha2_variant) : bytes -> bytes :=
  match v with
  | S224 => sha224 | S256 => sha256 | S384 => sha384 | S512 => sha512
  | S512_224 => sha512_224 | S512_256 => sha512_256
  end.

Inductive sha3_variant := T224 | T256 | T384 | T512.
Definition sha3_all := [T224; T256; T384; T512].
Definition sha3_name (v : sha3_variant) : string :=
  match v with T224 => "SHA3-224" | T256 => "SHA3-256" | T384 => "SHA3-384" | T512 => "SHA3-512" end.
Definition sha3_spec (v : sha3_variant) : bytes -> bytes :=
  match v with T224 => sha3_224 | T256 => sha3_256 | T384 => sha3_384 | T512 => sha3_512 end.

Inductive hmac_alg := HSha1 | HSha224 | HSha256 | HSha384 | HSha512.
Definition hmac_all := [HSha1; HSha224; HSha256; HSha384; HSha512].
Definition hmac_name (a : hmac_alg) : string :=
  match a with
  | HSha1 => "SHA1" | HSha224 => "SHA-224" | HSha256 => "SHA-256" | HSha384 => "SHA-384" | HSha512 => "SHA-512"
  end.
Definition hmac_hash (a : hmac_alg) : bytes -> bytes :=
  match a with
  | HSha1 => sha1 | HSha224 => sha224 | HSha256 => sha256 | HSha384 => sha384 | HSha512 => sha512
  end.
Definition hmac_block (a : hmac_alg) : N :=
  match a with HSha1 | HSha224 | HSha256 => 64 | HSha384 | HSha512 => 128 end.
Definition hmac_spec (a : hmac_alg) (key msg : bytes) : bytes := hmac (hmac_hash a) (hmac_block a) key msg.

Inductive xxh_variant := X32 | X64 | X3_64 | X3_128.
Definition xxh_all := [X32; X64; X3_64; X3_128].
Definition xxh_name (v : xxh_variant) : string :=
  match v with X32 => "XXH32" | X64 => "XXH64" | X3_64 => "XXH3-64" | X3_128 => "XXH3-128" end.
(* the documented result: XXH32 as an integer, the 64-bit ones as i64, the 128-bit one as decimal text *)
Definition xxh_spec (v : xxh_variant) (x : bytes) : value :=
  match v with
  | X32 => VInt (Z.of_N (xxh32 x))
  | X64 => VInt (to_i64 (xxh64 x))
  | X3_64 => VInt (to_i64 (xxh3_64 x))
  | X3_128 => VBytes (dec (xxh3_128 x))
  end.

(* name lookup: first entry whose name equals the given bytes *)
Definition lookup {A} (name_of : A -> string) (all : list A) (n : bytes) : option A :=
  find (fun a => bytes_eqb (str (name_of a)) n) all.

Definition crc_entry := (string * crc_params * N)%type.
Definition crc_lookup (n : bytes) : option crc_entry := lookup (fun e : crc_entry => fst (fst e)) crc_catalogue n.
Definition crc_spec (e : crc_entry) (x : bytes) : N := crc (snd (fst e)) x.

(* ---------------------------------------------------------------- the VRL functions *)
Definition with_bytes (v : value) (k : bytes -> res) : res :=
  match as_bytes v with Some b => k b | None => RErr EType end.

Definition vrl_md5 (x : value) : res := with_bytes x (fun b => ROk (VBytes (hex (md5 b)))).
Definition vrl_sha1 (x : value) : res := with_bytes x (fun b => ROk (VBytes (hex (sha1 b)))).
Definition vrl_seahash (x : value) : res := with_bytes x (fun b => ROk (VInt (to_i64 (seahash b)))).

(* compile-time enum argument: Some variant, or None = the program does not compile *)
Definition enum_arg {A} (name_of : A -> string) (all : list A) (dflt : A) (a : varg) : option A :=
  match a with
  | ADefault => Some dflt
  | ALit n => lookup name_of all n
  | ADyn _ => None
  end.

Definition vrl_sha2 (a : varg) (x : value) : res :=
  match enum_arg sha2_name sha2_all S512_256 a with
  | None => RCompile
  | Some v => with_bytes x (fun b => ROk (VBytes (hex (sha2_spec v b))))
  end.

Definition vrl_sha3 (a : varg) (x : value) : res :=
  match enum_arg sha3_name sha3_all T512 a with
  | None => RCompile
  | Some v => with_bytes x (fun b => ROk (VBytes (hex (sha3_spec v b))))
  end.

(* run-time name argument: the value the `match` sees, or an error *)
Definition runtime_name (dflt : string) (a : varg) : option bytes :=
  match a with
  | ADefault => Some (name_upper (str dflt))
  | ALit n => Some (name_upper n)
  | ADyn v => match as_bytes v with Some n => Some (name_upper n) | None => None end
  end.

Definition vrl_hmac (a : varg) (x key : value) : res :=
  with_bytes x (fun b => with_bytes key (fun k =>
    match runtime_name "SHA-256" a with
    | None => RErr EType
    | Some n => match lookup hmac_name hmac_all n with
                | Some alg => ROk (VBytes (hmac_spec alg k b))
                | None => RErr EName
                end
    end)).

Definition vrl_crc (a : varg) (x : value) : res :=
  match runtime_name "CRC_32_ISO_HDLC" a with
  | None => RErr EType
  | Some n => with_bytes x (fun b =>
      match crc_lookup n with
      | Some e => ROk (VBytes (dec (crc_spec e b)))
      | None => RErr EName
      end)
  end.

Definition vrl_xxhash (a : varg) (x : value) : res :=
  with_bytes x (fun b =>
    match runtime_name "XXH32" a with
    | None => RErr EType
    | Some n => match lookup xxh_name xxh_all n with
                | Some v => ROk (xxh_spec v b)
                | None => RErr EName
                end
    end).

(* `encode_base16(..)` / `encode_base64(..)` around a call that returned bytes *)
Inductive wrap := WRaw | WHex | WB64.
Definition wrap_bytes (w : wrap) (b : bytes) : bytes :=
  match w with WRaw => b | WHex => hex b | WB64 => b64 b end.
Definition wrap_res (w : wrap) (r : res) : res :=
  match w, r with
  | WRaw, _ => r
  | _, ROk (VBytes b) => ROk (VBytes (wrap_bytes w b))
  | _, ROk _ => RErr EType
  | _, _ => r
  end.
