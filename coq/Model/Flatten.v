(* Model of src/stdlib/flatten.rs (MapFlatten / ArrayFlatten iterators, collected into a BTreeMap / Vec)
   and src/stdlib/unflatten.rs (do_unflatten, do_unflatten_entries, do_unflatten_entry; str::split_once,
   str::split, itertools::into_group_map_by).  Definitions only.
   Keys are byte strings; for valid UTF-8 keys and separators byte-wise substring search coincides with
   str's.  The model of `split` / `split_once` is the one for a non-empty separator (with an empty
   separator and two or more keys the Rust recursion never ends; unflatten then answers RFuel here). *)
From Coq Require Import List NArith ZArith Bool.
From VRL Require Import Base.Bytes Base.Value Model.ConvRes.
Import ListNotations.

Definition entry := (bytes * value)%type.

Fixpoint mem_bytes (k : bytes) (l : list bytes) : bool :=
  match l with
  | [] => false
  | x :: r => bytes_eqb x k || mem_bytes k r
  end.

(* .collect::<ObjectMap>() : insert in iteration order, later entries replace earlier ones *)
Definition collect (l : list entry) : obj :=
  fold_left (fun m kv => obj_set m (fst kv) (snd kv)) l [].

(* ---------- flatten ---------- *)

(* The items MapFlatten yields for one (key, value) of the current level; nk = self.new_key(key).
   A nested object (whose key is not in `except`) is replaced by the items of a MapFlatten over it with
   parent = nk; an empty nested object therefore yields nothing. *)
Fixpoint flat_val (sep : bytes) (except : list bytes) (nk k : bytes) (v : value) {struct v} : list entry :=
  match v with
  | VObj m =>
      if mem_bytes k except then [(nk, v)]
      else (fix go (l : list entry) : list entry :=
              match l with
              | [] => []
              | (k', x) :: l' => flat_val sep except (nk ++ sep ++ k') k' x ++ go l'
              end) m
  | _ => [(nk, v)]
  end.

Fixpoint flat_list (sep : bytes) (except : list bytes) (m : list entry) : list entry :=
  match m with
  | [] => []
  | (k, v) :: m' => flat_val sep except k k v ++ flat_list sep except m'
  end.

(* ArrayFlatten: nested arrays are spliced in, at every depth *)
Fixpoint flat_arr_val (v : value) {struct v} : list value :=
  match v with
  | VArr a => (fix go (l : list value) : list value :=
                 match l with
                 | [] => []
                 | x :: l' => flat_arr_val x ++ go l'
                 end) a
  | _ => [v]
  end.

(* flatten(value, separator, except) *)
Definition flatten (v sep : value) (except : list bytes) : res value :=
  match sep with
  | VBytes s =>
      match v with
      | VArr a => ROk (VArr (flat_map flat_arr_val a))
      | VObj m => ROk (VObj (collect (flat_list s except m)))
      | _ => RErr
      end
  | _ => RErr
  end.

(* ---------- unflatten ---------- *)

Fixpoint strip_prefix (p s : bytes) : option bytes :=
  match p with
  | [] => Some s
  | c :: p' => match s with
               | d :: s' => if (c =? d)%N then strip_prefix p' s' else None
               | [] => None
               end
  end.

(* str::split_once(sep): around the first occurrence *)
Fixpoint split_once (sep s : bytes) : option (bytes * bytes) :=
  match strip_prefix sep s with
  | Some rest => Some ([], rest)
  | None =>
      match s with
      | [] => None
      | c :: s' => match split_once sep s' with
                   | Some (a, b) => Some (c :: a, b)
                   | None => None
                   end
      end
  end.

(* str::split(sep).collect() for a non-empty separator *)
Fixpoint split_all (fuel : nat) (sep s : bytes) : list bytes :=
  match fuel with
  | O => [s]
  | S f => match split_once sep s with
           | Some (a, b) => a :: split_all f sep b
           | None => [s]
           end
  end.

Definition triple := (bytes * option bytes * value)%type.
Definition t_head (t : triple) : bytes := fst (fst t).

Definition split_entry (sep : bytes) (kv : entry) : triple :=
  match split_once sep (fst kv) with
  | Some (h, r) => (h, Some r, snd kv)
  | None => (fst kv, None, snd kv)
  end.

(* the keys of the group map, each once *)
Fixpoint nodup_bytes (l : list bytes) : list bytes :=
  match l with
  | [] => []
  | x :: r => if mem_bytes x r then nodup_bytes r else x :: nodup_bytes r
  end.

Definition group_of (h : bytes) (ts : list triple) : list triple :=
  filter (fun t => bytes_eqb (t_head t) h) ts.

(* values.into_iter().filter_map(|(_, rest, value)| rest.map(|rest| (rest, value))) *)
Fixpoint rest_entries (g : list triple) : list entry :=
  match g with
  | [] => []
  | (_, Some r, v) :: g' => (r, v) :: rest_entries g'
  | (_, None, _) :: g' => rest_entries g'
  end.

Fixpoint sequence_entries (l : list (bytes * option value)) : option (list entry) :=
  match l with
  | [] => Some []
  | (k, Some v) :: r => match sequence_entries r with Some r' => Some ((k, v) :: r') | None => None end
  | (_, None) :: _ => None
  end.

Definition nest (keys : list bytes) (v : value) : value :=
  fold_right (fun k acc => VObj [(k, acc)]) v keys.

(* None = out of fuel.  The three functions of unflatten.rs, mutually recursive. *)
Fixpoint do_unflatten (fuel : nat) (sep : bytes) (recursive : bool) (v : value) : option value :=
  match fuel with
  | O => None
  | S f =>
      match v with
      | VObj m => option_map VObj (do_unflatten_entries f sep recursive m)
      | _ => Some v
      end
  end
with do_unflatten_entries (fuel : nat) (sep : bytes) (recursive : bool) (entries : list entry) : option obj :=
  match fuel with
  | O => None
  | S f =>
      let ts := map (split_entry sep) entries in
      let heads := nodup_bytes (map t_head ts) in
      option_map collect (sequence_entries (map (fun h =>
        (h, match group_of h ts with
            | [(_, None, v)] => if recursive then do_unflatten f sep recursive v else Some v
            | [(_, Some rest, v)] => do_unflatten_entry f sep recursive rest v
            | g => option_map VObj (do_unflatten_entries f sep recursive (rest_entries g))
            end)) heads))
  end
with do_unflatten_entry (fuel : nat) (sep : bytes) (recursive : bool) (key : bytes) (v : value) : option value :=
  match fuel with
  | O => None
  | S f =>
      let keys := split_all (length key) sep key in
      option_map (nest keys) (if recursive then do_unflatten f sep recursive v else Some v)
  end.

(* fuel that covers every recursion on a non-empty separator (see Proofs/FlattenProofs.v) *)
Fixpoint weight (v : value) : nat :=
  match v with
  | VObj m => S ((fix go (l : list entry) : nat :=
                    match l with
                    | [] => O
                    | (k, x) :: l' => 4 + 4 * length k + weight x + go l'
                    end) m)
  | VArr a => 1
  | _ => 1
  end.

(* unflatten(value, separator, recursive) *)
Definition unflatten (v sep recursive : value) : res value :=
  match sep with
  | VBytes s =>
      match recursive with
      | VBool r =>
          match v with
          | VObj m => match do_unflatten (4 + weight v) s r v with
                      | Some o => ROk o
                      | None => RFuel
                      end
          | _ => RErr
          end
      | _ => RErr
      end
  | _ => RErr
  end.
