(* C27 — MD5 as specified by RFC 1321 (the reference for `md5`, src/stdlib/md5.rs, which calls the
   `md-5` crate).  Words are 32-bit `N`, little-endian.  Definitions only. *)
From Coq Require Import List NArith Bool.
From VRL Require Import Base.Bytes Model.DigestWord.
Import ListNotations.
Local Open Scope N_scope.

(* T[i] = floor(2^32 * abs(sin(i+1))), RFC 1321 section 3.4 *)
Definition md5_T : list N :=
  [0xd76aa478; 0xe8c7b756; 0x242070db; 0xc1bdceee; 0xf57c0faf; 0x4787c62a; 0xa8304613; 0xfd469501;
   0x698098d8; 0x8b44f7af; 0xffff5bb1; 0x895cd7be; 0x6b901122; 0xfd987193; 0xa679438e; 0x49b40821;
   0xf61e2562; 0xc040b340; 0x265e5a51; 0xe9b6c7aa; 0xd62f105d; 0x02441453; 0xd8a1e681; 0xe7d3fbc8;
   0x21e1cde6; 0xc33707d6; 0xf4d50d87; 0x455a14ed; 0xa9e3e905; 0xfcefa3f8; 0x676f02d9; 0x8d2a4c8a;
   0xfffa3942; 0x8771f681; 0x6d9d6122; 0xfde5380c; 0xa4beea44; 0x4bdecfa9; 0xf6bb4b60; 0xbebfbc70;
   0x289b7ec6; 0xeaa127fa; 0xd4ef3085; 0x04881d05; 0xd9d4d039; 0xe6db99e5; 0x1fa27cf8; 0xc4ac5665;
   0xf4292244; 0x432aff97; 0xab9423a7; 0xfc93a039; 0x655b59c3; 0x8f0ccc92; 0xffeff47d; 0x85845dd1;
   0x6fa87e4f; 0xfe2ce6e0; 0xa3014314; 0x4e0811a1; 0xf7537e82; 0xbd3af235; 0x2ad7d2bb; 0xeb86d391].

(* per-step left rotations *)
Definition md5_S : list N :=
  [7; 12; 17; 22; 7; 12; 17; 22; 7; 12; 17; 22; 7; 12; 17; 22;
   5; 9; 14; 20; 5; 9; 14; 20; 5; 9; 14; 20; 5; 9; 14; 20;
   4; 11; 16; 23; 4; 11; 16; 23; 4; 11; 16; 23; 4; 11; 16; 23;
   6; 10; 15; 21; 6; 10; 15; 21; 6; 10; 15; 21; 6; 10; 15; 21].

Definition md5_idx : list N := map N.of_nat (seq 0 64).

Definition not32 (x : N) : N := N.lxor x mask32.

(* the auxiliary function and the message-word index of step i *)
Definition md5_f (i b c d : N) : N :=
  if i <? 16 then N.lor (N.land b c) (N.land (not32 b) d)
  else if i <? 32 then N.lor (N.land d b) (N.land (not32 d) c)
  else if i <? 48 then N.lxor (N.lxor b c) d
  else N.lxor c (N.lor b (not32 d)).

Definition md5_g (i : N) : N :=
  if i <? 16 then i
  else if i <? 32 then (5 * i + 1) mod 16
  else if i <? 48 then (3 * i + 5) mod 16
  else (7 * i) mod 16.

Definition md5_state := (N * N * N * N)%type.

Definition md5_step (m : list N) (st : md5_state) (its : N * (N * N)) : md5_state :=
  let '(a, b, c, d) := st in
  let '(i, (t, s)) := its in
  let f := add32 (add32 (add32 (md5_f i b c d) a) t) (nth (N.to_nat (md5_g i)) m 0) in
  (d, add32 b (rotl32 f s), b, c).

Definition md5_block (st : md5_state) (m : list N) : md5_state :=
  let '(a, b, c, d) := st in
  let '(a', b', c', d') := fold_left (md5_step m) (combine md5_idx (combine md5_T md5_S)) st in
  (add32 a a', add32 b b', add32 c c', add32 d d').

Definition md5_pad (msg : bytes) : bytes :=
  let len := blen msg in
  msg ++ [128] ++ zeros (md_pad_zeros 64 8 len) ++ N_to_le 8 (trunc 64 (8 * len)).

Definition md5_init : md5_state := (0x67452301, 0xefcdab89, 0x98badcfe, 0x10325476).

Definition md5 (msg : bytes) : bytes :=
  let blocks := chunks 16 (words_le 4 (md5_pad msg)) in
  let '(a, b, c, d) := fold_left md5_block blocks md5_init in
  N_to_le 4 a ++ N_to_le 4 b ++ N_to_le 4 c ++ N_to_le 4 d.
