(* Core VRL: the compiler's type information — `Expression::type_info` and `resolve_constant` of every
   expression kind of Model/Expr.v, `TypeState` / `LocalEnv` / `ExternalEnv` (src/compiler/state.rs),
   `TypeDef` / `Details` (src/compiler/type_def.rs), `Target::insert_type_def`
   (expression/assignment.rs), `Program::final_type_info` (program.rs).  Definitions only.
   Kinds are those of Model/Kind.v with the operations of Model/KindCrud.v.
   Parameters (Section variables; Model/TypeInfoInst.v instantiates them for execution):
     binop : the arithmetic of constants (as in Model/Eval.v);
     T     : the type definition of a closure-free function call, from the argument types before and
             after the arguments' own effects, i.e. Builder::new's parameter check together with the
             function's type_def and the `!` flag (a name ending in '!' is the abort-on-error call). *)
From Coq Require Import List NArith ZArith Bool.
From Coq Require Import Floats.SpecFloat.
From VRL Require Import Base.Bytes Base.Value Model.ValueCrud Model.Kind Model.KindCrud Model.Expr.
Import ListNotations.

(* ---------- TypeDef ---------- *)

(* fallibility is observable only through is_fallible (MightFail and AlwaysFails merge alike);
   purity is not modelled *)
Record tdef := mkTd { td_fal : bool; td_kind : kind; td_ret : kind }.

Definition td_of (k : kind) : tdef := mkTd false k k_never.          (* From<Kind> for TypeDef *)
Definition td_with_kind (t : tdef) (k : kind) : tdef := mkTd (td_fal t) k (td_ret t).
Definition td_with_ret (t : tdef) (r : kind) : tdef := mkTd (td_fal t) (td_kind t) r.
Definition td_maybe_fallible (t : tdef) (b : bool) : tdef := mkTd b (td_kind t) (td_ret t).
Definition td_fallible (t : tdef) : tdef := td_maybe_fallible t true.
Definition td_infallible (t : tdef) : tdef := td_maybe_fallible t false.
Definition td_at_path (t : tdef) (p : path) : tdef := td_with_kind t (at_path (td_kind t) p).
Definition td_upgrade (t : tdef) : tdef := td_with_kind t (upgrade_undefined (td_kind t)).

Definition td_union (a b : tdef) : tdef :=
  mkTd (td_fal a || td_fal b) (union (td_kind a) (td_kind b)) (union (td_ret a) (td_ret b)).

(* TypeDef::merge_overwrite *)
Definition td_merge_overwrite (a b : tdef) : tdef :=
  mkTd (td_fal a || td_fal b) (merge (td_kind a) (td_kind b) Overwrite) (union (td_ret a) (td_ret b)).

(* fallible_unless: fallible if `k` is not a superset of the definition's kind *)
Definition td_fallible_unless (t : tdef) (k : kind) : tdef :=
  if is_superset k (td_kind t) then t else td_fallible t.

(* with_type_inserted: the returns of `self` are kept *)
Definition td_with_type_inserted (t : tdef) (p : path) (o : tdef) : tdef :=
  mkTd (td_fal t || td_fal o) (kinsert (td_kind t) p (td_kind o)) (td_ret t).

(* exact kinds: is_bytes etc. = every other state is absent *)
Definition only (flag : prims -> bool) (k : kind) : bool :=
  Nat.eqb (nstates k) (Nat.b2n (flag (prims_of k))).
Definition k_is_bytes := only p_bytes.
Definition k_is_integer := only p_integer.
Definition k_is_float := only p_float.
Definition k_is_boolean := only p_boolean.
Definition k_is_timestamp := only p_timestamp.
Definition k_is_null := only p_null.
Definition k_is_object (k : kind) : bool := Nat.eqb (nstates k) (Nat.b2n (is_some (obj_of k))).

Definition kp (p : prims) : kind := Kind p None None.
Definition k_bytes := kp (mkP true false false false false false false false).
Definition k_integer := kp (mkP false true false false false false false false).
Definition k_float := kp (mkP false false true false false false false false).
Definition k_boolean := kp (mkP false false false true false false false false).
Definition k_timestamp := kp (mkP false false false false true false false false).
Definition k_regex := kp (mkP false false false false false true false false).
Definition k_bytes_or_null := kp (mkP true false false false false false true false).
Definition k_int_or_float := kp (mkP false true true false false false false false).
Definition k_null_or_bool := kp (mkP false false false true false false true false).
Definition k_bytes_int_float := kp (mkP true true true false false false false false).

Definition add_bytes (k : kind) : kind :=
  let 'Kind p a o := k in
  Kind (mkP true (p_integer p) (p_float p) (p_boolean p) (p_timestamp p) (p_regex p) (p_null p) (p_undefined p)) a o.
Definition remove_null (k : kind) : kind := let 'Kind p a o := k in Kind (p_set_null p false) a o.

(* From<&Value> for Kind *)
Fixpoint kind_of_value (v : value) : kind :=
  match v with
  | VBytes _ => k_bytes
  | VRegex _ => k_regex
  | VInt _ => k_integer
  | VFloat _ => k_float
  | VBool _ => k_boolean
  | VTs _ => k_timestamp
  | VNull => k_null
  | VObj kvs =>
      k_object (mkC ((fix go (l : list (bytes * value)) : list (bytes * kind) :=
                        match l with [] => [] | kv :: r => (fst kv, kind_of_value (snd kv)) :: go r end) kvs)
                    (UExact k_undefined))
  | VArr vs =>
      k_array (mkC ((fix go (l : list value) (i : nat) : list (nat * kind) :=
                       match l with [] => [] | x :: r => (i, kind_of_value x) :: go r (S i) end) vs 0)
                   (UExact k_undefined))
  end.

(* ---------- TypeState ---------- *)

Definition details := (tdef * option value)%type.

(* `tgt`: the kind of ExternalEnv.target (its fallibility / returns / value are never read) *)
Record tstate := mkTs { locals : list (ident * details); tgt : kind; mdk : kind }.

Fixpoint lvar (l : list (ident * details)) (x : ident) : option details :=
  match l with
  | [] => None
  | (y, d) :: r => if bytes_eqb y x then Some d else lvar r x
  end.

Fixpoint lremove (l : list (ident * details)) (x : ident) : list (ident * details) :=
  match l with
  | [] => []
  | (y, d) :: r => if bytes_eqb y x then lremove r x else (y, d) :: lremove r x
  end.

Definition lset (l : list (ident * details)) (x : ident) (d : details) : list (ident * details) :=
  (x, d) :: lremove l x.

Definition ovalue_eqb (a b : option value) : bool :=
  match a, b with Some x, Some y => value_eqb x y | None, None => true | _, _ => false end.

(* Details::merge *)
Definition details_merge (a b : details) : details :=
  (td_union (fst a) (fst b), if ovalue_eqb (snd a) (snd b) then snd a else None).

(* LocalEnv::merge(self, other) *)
Definition lmerge (self other : list (ident * details)) : list (ident * details) :=
  fold_left (fun acc xd =>
               match lvar acc (fst xd) with
               | Some d => lset acc (fst xd) (details_merge d (snd xd))
               | None => lset acc (fst xd) (snd xd)
               end) other self.

(* LocalEnv::apply_child_scope(self = parent, child) *)
Definition apply_child_scope (parent child : list (ident * details)) : list (ident * details) :=
  map (fun xd => match lvar child (fst xd) with Some d => (fst xd, d) | None => xd end) parent.

(* TypeState::merge *)
Definition ts_merge (a b : tstate) : tstate :=
  mkTs (lmerge (locals a) (locals b)) (union (tgt a) (tgt b)) (union (mdk a) (mdk b)).

Definition ext_kind (s : tstate) (pfx : prefix) : kind := match pfx with PEvent => tgt s | PMeta => mdk s end.
Definition set_ext_kind (s : tstate) (pfx : prefix) (k : kind) : tstate :=
  match pfx with PEvent => mkTs (locals s) k (mdk s) | PMeta => mkTs (locals s) (tgt s) k end.

(* Target::insert_type_def *)
Definition insert_type_def (t : target) (s : tstate) (new : tdef) (c : option value) : tstate :=
  match t with
  | TNoop => s
  | TVar x p =>
      let old := match lvar (locals s) x with Some d => fst d | None => td_of k_never end in
      mkTs (lset (locals s) x (td_with_type_inserted old p new, c)) (tgt s) (mdk s)
  | TExt pfx p => set_ext_kind s pfx (kinsert (ext_kind s pfx) p (td_kind new))
  end.

(* f64::is_normal *)
Definition sf_is_normal (f : spec_float) : bool :=
  match f with S754_finite _ m _ => (2 ^ 52 <=? Zpos m)%Z | _ => false end.

Definition is_number (v : value) : bool := match v with VInt _ | VFloat _ => true | _ => false end.
Definition is_float_v (v : value) : bool := match v with VFloat _ => true | _ => false end.

(* Collection::reduced_kind *)
Definition reduced_kind {K} (c : coll_ K kind) : kind :=
  union (match map snd (known c) with
         | [] => k_never
         | x :: r => fold_left union r x
         end)
        (remove_undefined (unknown_kind c)).

(* the closure-taking functions: the kind of the `value` parameter *)
Definition k_obj_or_arr : kind := Kind p_none (Some coll_any) (Some coll_any).
Definition cf_param (cf : cfn) : kind :=
  match cf with CMapKeys => k_object coll_any | _ => k_obj_or_arr end.

(* closure variables as check_closure types them from the target's type definition *)
Definition inner_key_kind (k : kind) : kind :=
  if is_some (arr_of k) || is_some (obj_of k) then
    if p_is_none (prims_of k) then            (* is_collection *)
      Kind (mkP (k_is_object k) (Nat.eqb (nstates k) (Nat.b2n (is_some (arr_of k)))) false false false false false false)
           None None
    else k_any
  else k_any.
Definition inner_value_kind (k : kind) : kind :=
  match obj_of k with
  | Some c => reduced_kind c
  | None => match arr_of k with Some c => reduced_kind c | None => k_any end
  end.
Definition closure_var_kinds (cf : cfn) (k : kind) : list kind :=
  match cf with
  | CForEach | CFilter => [inner_key_kind k; inner_value_kind k]
  | CMapKeys => [k_bytes]
  | CMapValues => [inner_value_kind k]
  end.

(* map_values.rs recursive_type_def at the root: every known entry becomes the closure's kind, the
   unknown entries keep their kind *)
Definition map_values_kind (from to : kind) : kind :=
  let 'Kind p a o := from in
  let f {K} (c : coll_ K kind) := mkC (map (fun kv => (fst kv, to)) (known c)) (unknown c) in
  Kind p (match a with Some c => Some (f c) | None => None end) (match o with Some c => Some (f c) | None => None end).

(* filter.rs type_def *)
Definition filter_kind (k : kind) : kind :=
  let 'Kind p a o := k in
  let nev := is_never k in
  Kind p (if is_some a || nev then Some coll_any else a) (if is_some o || nev then Some coll_any else o).

Section TypeInfo.
  Variable binop : opcode -> value -> value -> option value.
  Variable T : fname -> list tdef -> list tdef -> tdef.

  (* ---------- resolve_constant ---------- *)

  Fixpoint resolve_constant (e : expr) (s : tstate) {struct e} : option value :=
    match e with
    | ELit v => Some v
    | EVar x => match lvar (locals s) x with Some d => snd d | None => None end
    | EQVar x p =>
        match lvar (locals s) x with
        | Some (_, Some v) => get v p
        | _ => None
        end
    | EArr es =>
        (fix go (es : list expr) (acc : list value) {struct es} : option value :=
           match es with
           | [] => Some (VArr (rev acc))
           | e1 :: es' => match resolve_constant e1 s with Some v => go es' (v :: acc) | None => None end
           end) es []
    | EObj kvs =>
        (fix go (kvs : list (bytes * expr)) (acc : obj) {struct kvs} : option value :=
           match kvs with
           | [] => Some (VObj acc)
           | (k, e1) :: kvs' =>
               match resolve_constant e1 s with Some v => go kvs' (obj_set acc k v) | None => None end
           end) kvs []
    | EGroup e1 => resolve_constant e1 s
    | EOp o a b =>
        match resolve_constant a s, resolve_constant b s with
        | Some x, Some y =>
            if is_number x && is_number y then
              match o with
              | OMul | ODiv | OAdd | OSub => binop o x y
              | _ => None
              end
            else None
        | _, _ => None
        end
    | _ => None          (* Block, IfStatement, Assignment, Unary, Abort, Return, FunctionCall, external queries *)
    end.

  (* constant_arithmetic_produces_nan: for two numbers one of which is a float, + - * fail only with NaN *)
  Definition const_nan (o : opcode) (lv rv : option value) : bool :=
    match lv, rv with
    | Some x, Some y =>
        is_number x && is_number y && (is_float_v x || is_float_v y)
        && match binop o x y with None => true | Some _ => false end
    | _, _ => false
    end.

  (* ---------- type_info ---------- *)

  Definition td_never_ret (r : kind) : tdef := mkTd false k_never r.

  (* the collections of Array / Object type_info: known entries, no unknown *)
  Definition arr_kind (ks : list kind) : kind :=
    k_array (mkC ((fix go (l : list kind) (i : nat) : list (nat * kind) :=
                     match l with [] => [] | x :: r => (i, x) :: go r (S i) end) ks 0) (UExact k_undefined)).
  Definition obj_kind (ks : list (bytes * kind)) : kind :=
    k_object (mkC (fold_left (fun m kv => aset bytes_cmp m (fst kv) (snd kv)) ks []) (UExact k_undefined)).

  Fixpoint type_info (e : expr) (s : tstate) {struct e} : tstate * tdef :=
    (* Block::type_info *)
    let blk :=
      fix blk (es : list expr) (s : tstate) (result : tdef) (fallible after_never : bool) (returns : kind)
              {struct es} : tstate * tdef :=
        match es with
        | [] => (s, td_with_ret (td_maybe_fallible result fallible) returns)
        | e1 :: es' =>
            let '(s', r) := type_info e1 s in
            blk es' s' r (fallible || (negb after_never && td_fal r))
                (after_never || is_never (td_kind r)) (union returns (td_ret r))
        end in
    let block (scoped : bool) (es : list expr) (s : tstate) : tstate * tdef :=
      let '(s', r) := blk es s (td_of k_null) false false k_never in
      (if scoped then mkTs (apply_child_scope (locals s) (locals s')) (tgt s') (mdk s') else s', r) in
    (* calculates state for an RHS that may or may not be resolved at runtime *)
    let maybe_rhs (b : expr) (s : tstate) : tstate * tdef :=
      let '(sr, rd) := type_info b s in (ts_merge s sr, rd) in
    match e with
    | ELit v => (s, td_of (kind_of_value v))
    | EVar x => (s, match lvar (locals s) x with Some d => fst d | None => td_of k_undefined end)
    | EQExt pfx p => (s, td_of (at_path (ext_kind s pfx) p))
    | EQVar x p =>
        (s, td_at_path (match lvar (locals s) x with Some d => fst d | None => td_of k_undefined end) p)
    | EQExpr e1 p => let '(s', r) := type_info e1 s in (s', td_at_path r p)
    | EArr es =>
        (fix go (es : list expr) (s : tstate) (acc : list tdef) (fallible : bool) {struct es} : tstate * tdef :=
           match es with
           | [] =>
               let tds := rev acc in
               (s, mkTd fallible (arr_kind (map td_kind tds))
                        (fold_left (fun r t => union r (td_ret t)) tds k_never))
           | e1 :: es' =>
               let '(s', r0) := type_info e1 s in
               let r := td_upgrade r0 in
               let fallible' := fallible || td_fal r in
               if is_never (td_kind r) then (s', mkTd fallible' k_never k_never)
               else go es' s' (r :: acc) fallible'
           end) es s [] false
    | EObj kvs =>
        (fix go (kvs : list (bytes * expr)) (s : tstate) (acc : list (bytes * kind)) (fallible : bool)
                (returns : kind) {struct kvs} : tstate * tdef :=
           match kvs with
           | [] => (s, mkTd fallible (obj_kind (rev acc)) returns)
           | (k, e1) :: kvs' =>
               let '(s', r0) := type_info e1 s in
               let r := td_upgrade r0 in
               let returns' := union returns (td_ret r) in
               let fallible' := fallible || td_fal r in
               if is_never (td_kind r) then (s', mkTd fallible' k_never returns')
               else go kvs' s' ((k, td_kind r) :: acc) fallible' returns'
           end) kvs s [] false k_never
    | EBlock es => block true es s
    | EGroup e1 => type_info e1 s
    | EIf c t f =>
        let '(s1, pr) := block false c s in
        let '(si, ri) := block true t s1 in
        match f with
        | Some fb =>
            let '(se, re) := block true fb s1 in
            let r := td_union ri re in
            (ts_merge si se, td_with_ret r (union (td_ret r) (td_ret pr)))
        | None =>
            let r := td_with_kind ri (or_null (td_kind ri)) in
            (ts_merge si s1, td_with_ret r (union (td_ret r) (td_ret pr)))
        end
    | EOp o a b =>
        let '(s1, l) := type_info a s in
        let lv := resolve_constant a s in
        match o with
        | OErr =>
            let '(s2, r) := maybe_rhs b s1 in
            (s2, td_maybe_fallible (td_union l r) (td_fal l && td_fal r))
        | OOr =>
            if k_is_null (td_kind l) || ovalue_eqb lv (Some (VBool false)) then type_info b s1
            else if negb (contains_null (td_kind l) || contains_boolean (td_kind l))
                    || ovalue_eqb lv (Some (VBool true)) then (s1, l)
            else
              let l' := td_with_kind l (remove_null (td_kind l)) in
              let '(s2, r) := maybe_rhs b s1 in (s2, td_union l' r)
        | OMerge => let '(s2, r) := type_info b s1 in (s2, td_merge_overwrite l r)
        | OAnd =>
            if k_is_null (td_kind l) || ovalue_eqb lv (Some (VBool false)) then (s1, td_of k_boolean)
            else if ovalue_eqb lv (Some (VBool true)) then
              let '(s2, r) := type_info b s1 in (s2, td_with_kind r k_boolean)
            else
              let '(s2, r) := maybe_rhs b s1 in
              (s2, td_with_kind (td_union (td_fallible_unless l k_null_or_bool) (td_fallible_unless r k_null_or_bool))
                                k_boolean)
        | OEq | ONe => let '(s2, r) := type_info b s1 in (s2, td_with_kind (td_union l r) k_boolean)
        | OGt | OGe | OLt | OLe =>
            let '(s2, r) := type_info b s1 in
            if (k_is_bytes (td_kind l) && k_is_bytes (td_kind r))
               || (k_is_timestamp (td_kind l) && k_is_timestamp (td_kind r))
            then (s2, td_with_kind (td_union l r) k_boolean)
            else (s2, td_with_kind (td_union (td_fallible_unless l k_int_or_float) (td_fallible_unless r k_int_or_float))
                                   k_boolean)
        | ODiv =>
            (* the divisor's own effects on the type state are not applied *)
            let fallible :=
              match resolve_constant b s1 with
              | Some v =>
                  if k_is_float (td_kind l) || k_is_integer (td_kind l) then
                    match v with
                    | VFloat x => negb (sf_is_normal x)
                    | VInt z => (z =? 0)%Z
                    | _ => true
                    end
                  else true
              | None => true
              end in
            (s1, mkTd fallible k_float k_never)
        | OAdd | OSub | OMul =>
            let rv := resolve_constant b s1 in
            let '(s2, r) := type_info b s1 in
            let nanf := const_nan o lv rv in
            let lk := td_kind l in
            let rk := td_kind r in
            let is_add := match o with OAdd => true | _ => false end in
            let is_mul := match o with OMul => true | _ => false end in
            if is_add && (k_is_bytes lk || k_is_bytes rk) then
              (s2, td_with_kind (td_union (td_fallible_unless l k_bytes_or_null) (td_fallible_unless r k_bytes_or_null)) k_bytes)
            else if k_is_float lk || k_is_float rk then
              let t := td_with_kind (td_union (td_fallible_unless l k_int_or_float) (td_fallible_unless r k_int_or_float)) k_float in
              (s2, if nanf then td_fallible t else t)
            else if k_is_integer lk && k_is_integer rk then (s2, td_with_kind (td_union l r) k_integer)
            else if is_mul && k_is_bytes lk && k_is_integer rk then (s2, td_with_kind (td_union l r) k_bytes)
            else if is_mul && k_is_integer lk && k_is_bytes rk then (s2, td_with_kind (td_union l r) k_bytes)
            else if is_add || is_mul then (s2, td_with_kind (td_fallible (td_union l r)) k_bytes_int_float)
            else (s2, td_with_kind (td_fallible (td_union l r)) k_int_or_float)
        end
    | ENot e1 => let '(s1, r) := type_info e1 s in (s1, mkTd (td_fal r) k_boolean (td_ret r))
    | EAssign t e1 =>
        let '(s1, r) := type_info e1 s in
        (insert_type_def t s1 r (resolve_constant e1 s1), r)
    | EAssignInf ok er e1 dflt =>
        let '(s1, r) := type_info e1 s in
        let ok_type := td_infallible (td_union r (td_of (kind_of_value dflt))) in
        let s2 := insert_type_def ok s1 ok_type (resolve_constant e1 s1) in
        let s3 := insert_type_def er s2 (td_of (or_null k_bytes)) None in
        (s3, td_with_kind (td_infallible r) (add_bytes (td_kind r)))
    | EAbort m =>
        (s, td_never_ret (match m with Some me => td_ret (snd (type_info me s)) | None => k_never end))
    | EReturn e1 => (s, td_never_ret (td_kind (snd (type_info e1 s))))
    | ECall f args =>
        let before := map (fun a => snd (type_info a s)) args in
        let s' := fold_left (fun s a => fst (type_info a s)) args s in
        let after := map (fun a => snd (type_info a s')) args in
        (s', T f before after)
    | EDelExt pfx p compact =>
        (* del.rs type_info.  `compact = false` stands for a call without the compact argument (the
           printer never writes `compact: false`): the type state is then the merge of both outcomes *)
        let k := ext_kind s pfx in
        let rm c := set_ext_kind s pfx (fst (fst (kremove k p c))) in
        let s' := if compact then rm true
                  else let f := rm false in let t := rm true in
                       mkTs (locals s) (union (tgt f) (tgt t)) (union (mdk f) (mdk t)) in
        (s', td_of (at_path k p))
    | EDelVar x p _ =>
        (s, td_at_path (match lvar (locals s) x with Some d => fst d | None => td_of k_undefined end) p)
    | EExistsExt _ _ => (s, td_of k_boolean)
    | EExistsVar _ _ => (s, td_of k_boolean)
    | EClosure cf arg ps body =>
        (* FunctionCall::type_info of a closure-taking function: the argument is typed; the closure block
           was typed once, at compile time, with the closure variables bound (check_closure), only for
           its result type and fallibility: its effects on the type state are dropped *)
        let before := snd (type_info arg s) in
        let s1 := fst (type_info arg s) in
        let after := snd (type_info arg s1) in
        let vks := closure_var_kinds cf (td_kind after) in
        let sb := mkTs (fold_left (fun l xk => match fst xk with [] => l | x => lset l x (td_of (snd xk), None) end)
                                  (combine ps vks) (locals s1)) (tgt s1) (mdk s1) in
        let bt := snd (block true body sb) in
        let base :=
          match cf with
          | CForEach => td_of k_null
          | CFilter => td_with_kind after (filter_kind (td_kind after))
          | CMapKeys => after
          | CMapValues => td_with_kind after (map_values_kind (td_kind after) (td_kind bt))
          end in
        let t := if is_superset (cf_param cf) (td_kind before) then base else td_fallible base in
        (s1, if td_fal bt then td_fallible t else t)
    end.

  (* Program::final_type_info: the root block is inline *)
  Definition program_type_info (es : list expr) (s : tstate) : tstate * tdef :=
    let '(s', r) :=
      (fix blk (es : list expr) (s : tstate) (result : tdef) (fallible after_never : bool) (returns : kind)
               {struct es} : tstate * tdef :=
         match es with
         | [] => (s, td_with_ret (td_maybe_fallible result fallible) returns)
         | e1 :: es' =>
             let '(s', r) := type_info e1 s in
             blk es' s' r (fallible || (negb after_never && td_fal r))
                 (after_never || is_never (td_kind r)) (union returns (td_ret r))
         end) es s (td_of k_null) false false k_never in
    (s', r).
End TypeInfo.

Definition ts0 (ek mk : kind) : tstate := mkTs [] ek mk.
