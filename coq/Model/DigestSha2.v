(* C27 — the SHA-2 family as specified by FIPS 180-4 (sections 4.1.2/4.1.3, 4.2.2/4.2.3, 5, 6.2-6.7): one
   development parametrised by the word size, instantiated for SHA-224/256 (32-bit words) and
   SHA-384/512/512-224/512-256 (64-bit words).  Reference for `sha2` (src/stdlib/sha2.rs) and for hmac's
   SHA-2 algorithms.  Words are `N`, big-endian.  Definitions only. *)
From Coq Require Import List NArith Bool.
From VRL Require Import Base.Bytes Model.DigestWord.
Import ListNotations.
Local Open Scope N_scope.

Record sha2_alg := mkSha2Alg {
  a_w : N;              (* word size in bits *)
  a_mask : N;           (* 2^w - 1 *)
  a_wbytes : nat;       (* word size in bytes *)
  a_block : N;          (* block size in bytes *)
  a_lenbytes : nat;     (* size of the length field in bytes *)
  a_rounds : nat;
  a_K : list N;
  a_S0 : N * N * N;     (* Sigma0 = ROTR^a xor ROTR^b xor ROTR^c *)
  a_S1 : N * N * N;
  a_s0 : N * N * N;     (* sigma0 = ROTR^a xor ROTR^b xor SHR^c *)
  a_s1 : N * N * N }.

Definition K256 : list N :=
  [0x428a2f98; 0x71374491; 0xb5c0fbcf; 0xe9b5dba5; 0x3956c25b; 0x59f111f1; 0x923f82a4; 0xab1c5ed5;
   0xd807aa98; 0x12835b01; 0x243185be; 0x550c7dc3; 0x72be5d74; 0x80deb1fe; 0x9bdc06a7; 0xc19bf174;
   0xe49b69c1; 0xefbe4786; 0x0fc19dc6; 0x240ca1cc; 0x2de92c6f; 0x4a7484aa; 0x5cb0a9dc; 0x76f988da;
   0x983e5152; 0xa831c66d; 0xb00327c8; 0xbf597fc7; 0xc6e00bf3; 0xd5a79147; 0x06ca6351; 0x14292967;
   0x27b70a85; 0x2e1b2138; 0x4d2c6dfc; 0x53380d13; 0x650a7354; 0x766a0abb; 0x81c2c92e; 0x92722c85;
   0xa2bfe8a1; 0xa81a664b; 0xc24b8b70; 0xc76c51a3; 0xd192e819; 0xd6990624; 0xf40e3585; 0x106aa070;
   0x19a4c116; 0x1e376c08; 0x2748774c; 0x34b0bcb5; 0x391c0cb3; 0x4ed8aa4a; 0x5b9cca4f; 0x682e6ff3;
   0x748f82ee; 0x78a5636f; 0x84c87814; 0x8cc70208; 0x90befffa; 0xa4506ceb; 0xbef9a3f7; 0xc67178f2].

Definition K512 : list N :=
  [0x428a2f98d728ae22; 0x7137449123ef65cd; 0xb5c0fbcfec4d3b2f; 0xe9b5dba58189dbbc;
   0x3956c25bf348b538; 0x59f111f1b605d019; 0x923f82a4af194f9b; 0xab1c5ed5da6d8118;
   0xd807aa98a3030242; 0x12835b0145706fbe; 0x243185be4ee4b28c; 0x550c7dc3d5ffb4e2;
   0x72be5d74f27b896f; 0x80deb1fe3b1696b1; 0x9bdc06a725c71235; 0xc19bf174cf692694;
   0xe49b69c19ef14ad2; 0xefbe4786384f25e3; 0x0fc19dc68b8cd5b5; 0x240ca1cc77ac9c65;
   0x2de92c6f592b0275; 0x4a7484aa6ea6e483; 0x5cb0a9dcbd41fbd4; 0x76f988da831153b5;
   0x983e5152ee66dfab; 0xa831c66d2db43210; 0xb00327c898fb213f; 0xbf597fc7beef0ee4;
   0xc6e00bf33da88fc2; 0xd5a79147930aa725; 0x06ca6351e003826f; 0x142929670a0e6e70;
   0x27b70a8546d22ffc; 0x2e1b21385c26c926; 0x4d2c6dfc5ac42aed; 0x53380d139d95b3df;
   0x650a73548baf63de; 0x766a0abb3c77b2a8; 0x81c2c92e47edaee6; 0x92722c851482353b;
   0xa2bfe8a14cf10364; 0xa81a664bbc423001; 0xc24b8b70d0f89791; 0xc76c51a30654be30;
   0xd192e819d6ef5218; 0xd69906245565a910; 0xf40e35855771202a; 0x106aa07032bbd1b8;
   0x19a4c116b8d2d0c8; 0x1e376c085141ab53; 0x2748774cdf8eeb99; 0x34b0bcb5e19b48a8;
   0x391c0cb3c5c95a63; 0x4ed8aa4ae3418acb; 0x5b9cca4f7763e373; 0x682e6ff3d6b2b8a3;
   0x748f82ee5defb2fc; 0x78a5636f43172f60; 0x84c87814a1f0ab72; 0x8cc702081a6439ec;
   0x90befffa23631e28; 0xa4506cebde82bde9; 0xbef9a3f7b2c67915; 0xc67178f2e372532b;
   0xca273eceea26619c; 0xd186b8c721c0c207; 0xeada7dd6cde0eb1e; 0xf57d4f7fee6ed178;
   0x06f067aa72176fba; 0x0a637dc5a2c898a6; 0x113f9804bef90dae; 0x1b710b35131c471b;
   0x28db77f523047d84; 0x32caab7b40c72493; 0x3c9ebe0a15c9bebc; 0x431d67c49c100d4c;
   0x4cc5d4becb3e42b6; 0x597f299cfc657e2a; 0x5fcb6fab3ad6faec; 0x6c44198c4a475817].

Definition alg32 : sha2_alg :=
  mkSha2Alg 32 mask32 4 64 8 64 K256 (2, 13, 22) (6, 11, 25) (7, 18, 3) (17, 19, 10).
Definition alg64 : sha2_alg :=
  mkSha2Alg 64 mask64 8 128 16 80 K512 (28, 34, 39) (14, 18, 41) (1, 8, 7) (19, 61, 6).

Section Sha2.
  Variable A : sha2_alg.
  Let w := a_w A.

  Let m := a_mask A.

  Definition rotr (x n : N) : N := N.lor (N.shiftr x n) (N.land (N.shiftl x (w - n)) m).
  Definition addw (a b : N) : N := N.land (a + b) m.

  Definition bigsig (p : N * N * N) (x : N) : N :=
    let '(a, b, c) := p in N.lxor (N.lxor (rotr x a) (rotr x b)) (rotr x c).
  Definition smallsig (p : N * N * N) (x : N) : N :=
    let '(a, b, c) := p in N.lxor (N.lxor (rotr x a) (rotr x b)) (N.shiftr x c).
  Definition ch (x y z : N) : N := N.lxor (N.land x y) (N.land (N.lxor x m) z).
  Definition maj (x y z : N) : N := N.lxor (N.lxor (N.land x y) (N.land x z)) (N.land y z).

  (* `win` holds W[t-16..t-1]; W[t] = sigma1(W[t-2]) + W[t-7] + sigma0(W[t-15]) + W[t-16] *)
  Fixpoint sha2_sched (n : nat) (win : list N) : list N :=
    match n with
    | O => []
    | S k =>
        let x := addw (addw (smallsig (a_s1 A) (nth 14 win 0)) (nth 9 win 0))
                      (addw (smallsig (a_s0 A) (nth 1 win 0)) (nth 0 win 0)) in
        x :: sha2_sched k (tl win ++ [x])
    end.

  Definition sha2_state := (N * N * N * N * N * N * N * N)%type.

  Definition sha2_round (st : sha2_state) (kw : N * N) : sha2_state :=
    let '(a, b, c, d, e, f, g, h) := st in
    let '(k, x) := kw in
    let t1 := addw (addw (addw (addw h (bigsig (a_S1 A) e)) (ch e f g)) k) x in
    let t2 := addw (bigsig (a_S0 A) a) (maj a b c) in
    (addw t1 t2, a, b, c, addw d t1, e, f, g).

  Definition sha2_block (st : sha2_state) (m : list N) : sha2_state :=
    let '(a, b, c, d, e, f, g, h) := st in
    let ws := m ++ sha2_sched (a_rounds A - 16) m in
    let '(a', b', c', d', e', f', g', h') := fold_left sha2_round (combine (a_K A) ws) st in
    (addw a a', addw b b', addw c c', addw d d', addw e e', addw f f', addw g g', addw h h').

  Definition sha2_pad (msg : bytes) : bytes :=
    let len := blen msg in
    msg ++ [128] ++ zeros (md_pad_zeros (a_block A) (N.of_nat (a_lenbytes A)) len)
        ++ N_to_be (a_lenbytes A) (trunc (8 * N.of_nat (a_lenbytes A)) (8 * len)).

  Definition state_of (iv : list N) : sha2_state :=
    (nth 0 iv 0, nth 1 iv 0, nth 2 iv 0, nth 3 iv 0, nth 4 iv 0, nth 5 iv 0, nth 6 iv 0, nth 7 iv 0).

  Definition words_of (st : sha2_state) : list N :=
    let '(a, b, c, d, e, f, g, h) := st in [a; b; c; d; e; f; g; h].

  (* the full chaining value after the padded message *)
  Definition sha2_compress_all (iv : list N) (msg : bytes) : list N :=
    let blocks := chunks 16 (words_be (a_wbytes A) (sha2_pad msg)) in
    words_of (fold_left sha2_block blocks (state_of iv)).

  Definition sha2_generic (iv : list N) (outlen : nat) (msg : bytes) : bytes :=
    firstn outlen (flat_map (N_to_be (a_wbytes A)) (sha2_compress_all iv msg)).
End Sha2.

(* initial hash values, FIPS 180-4 section 5.3 *)
Definition iv224 : list N :=
  [0xc1059ed8; 0x367cd507; 0x3070dd17; 0xf70e5939; 0xffc00b31; 0x68581511; 0x64f98fa7; 0xbefa4fa4].
Definition iv256 : list N :=
  [0x6a09e667; 0xbb67ae85; 0x3c6ef372; 0xa54ff53a; 0x510e527f; 0x9b05688c; 0x1f83d9ab; 0x5be0cd19].
Definition iv384 : list N :=
  [0xcbbb9d5dc1059ed8; 0x629a292a367cd507; 0x9159015a3070dd17; 0x152fecd8f70e5939;
   0x67332667ffc00b31; 0x8eb44a8768581511; 0xdb0c2e0d64f98fa7; 0x47b5481dbefa4fa4].
Definition iv512 : list N :=
  [0x6a09e667f3bcc908; 0xbb67ae8584caa73b; 0x3c6ef372fe94f82b; 0xa54ff53a5f1d36f1;
   0x510e527fade682d1; 0x9b05688c2b3e6c1f; 0x1f83d9abfb41bd6b; 0x5be0cd19137e2179].

(* FIPS 180-4 section 5.3.6: the SHA-512/t IV generation function — SHA-512 run from IV xor a5a5.. over
   the ASCII text "SHA-512/t".  The two tables below are proved equal to it (Properties/C27.v). *)
Definition sha512t_iv_gen (name : bytes) : list N :=
  sha2_compress_all alg64 (map (fun x => N.lxor x 0xa5a5a5a5a5a5a5a5) iv512) name.

Definition iv512_224 : list N :=
  [0x8C3D37C819544DA2; 0x73E1996689DCD4D6; 0x1DFAB7AE32FF9C82; 0x679DD514582F9FCF;
   0x0F6D2B697BD44DA8; 0x77E36F7304C48942; 0x3F9D85A86A1D36C8; 0x1112E6AD91D692A1].
Definition iv512_256 : list N :=
  [0x22312194FC2BF72C; 0x9F555FA3C84C64C2; 0x2393B86B6F53B151; 0x963877195940EABD;
   0x96283EE2A88EFFE3; 0xBE5E1E2553863992; 0x2B0199FC2C85B8AA; 0x0EB72DDC81C52CA2].

Definition sha224 : bytes -> bytes := sha2_generic alg32 iv224 28.
Definition sha256 : bytes -> bytes := sha2_generic alg32 iv256 32.
Definition sha384 : bytes -> bytes := sha2_generic alg64 iv384 48.
Definition sha512 : bytes -> bytes := sha2_generic alg64 iv512 64.
Definition sha512_224 : bytes -> bytes := sha2_generic alg64 iv512_224 28.
Definition sha512_256 : bytes -> bytes := sha2_generic alg64 iv512_256 32.
