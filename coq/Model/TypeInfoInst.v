(* Executable instance of the parameters of Model/TypeInfo.v, used by the correspondence run:
   the function table of the eight closure-free stdlib functions of Model/EvalInst.v (their
   `type_def`, their parameter kinds for Builder::new's "unknown type validity" rule, and the
   abort-on-error flag, encoded as a trailing '!' of the name), and the evaluator instance that
   treats `f!` as `f`. *)
From Coq Require Import List NArith ZArith Bool String Ascii.
From VRL Require Import Base.Bytes Base.Value Model.ValueCrud Model.Kind Model.KindCrud Model.Expr Model.Eval
  Model.EvalInst Model.TypeInfo.
Import ListNotations.
Local Open Scope string_scope.

Definition strip_bang (f : fname) : fname * bool :=
  match rev f with
  | 33%N :: r => (rev r, true)
  | _ => (f, false)
  end.

(* kind::ARRAY | kind::OBJECT | kind::BYTES as Parameter::kind() builds it *)
Definition k_param_length : kind :=
  Kind (mkP true false false false false false false false) (Some coll_any) (Some coll_any).

(* restrict_array / restrict_object *)
Definition restrict_array (t : tdef) : tdef :=
  td_with_kind t (k_array (match arr_of (td_kind t) with Some c => c | None => coll_any end)).
Definition restrict_object (t : tdef) : tdef :=
  td_with_kind t (k_object (match obj_of (td_kind t) with Some c => c | None => coll_any end)).

Definition T_inst (f : fname) (before after : list tdef) : tdef :=
  let '(g, bang) := strip_bang f in
  let a := nth 0 after (td_of k_never) in
  let b := nth 0 before (td_of k_never) in
  let is g' := bytes_eqb g (nm g') in
  let param := if is "length" then k_param_length else k_any in
  let base :=
    if is "string" then mkTd (negb (k_is_bytes (td_kind a))) k_bytes k_never
    else if is "int" then mkTd (negb (k_is_integer (td_kind a))) k_integer k_never
    else if is "bool" then mkTd (negb (k_is_boolean (td_kind a))) k_boolean k_never
    else if is "array" then restrict_array (td_fallible_unless a (k_array coll_any))
    else if is "object" then restrict_object (td_fallible_unless a (k_object coll_any))
    else if is "is_null" || is "is_string" then td_of k_boolean
    else if is "length" then td_of k_integer
    else mkTd true k_any k_never in
  let t := if is_superset param (td_kind b) then base else td_fallible base in
  if bang then td_infallible t else t.

Definition F_typed (f : fname) (args : list value) : option value := F_inst (fst (strip_bang f)) args.

Definition type_info_inst := type_info binop_inst T_inst.
Definition program_type_info_inst := program_type_info binop_inst T_inst.
Definition resolve_constant_inst := resolve_constant binop_inst.
Definition run_typed := run F_typed binop_inst.
