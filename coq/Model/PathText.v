(* C20 — path text: rendering (src/path/owned.rs) and the path-string parser (src/path/jit.rs,
   src/path/mod.rs).  Definitions only.

   TEXT.  A text is a list of units `N`.  The Rust iterates `chars()` (Unicode scalar values) and
   slices the `&str` at char boundaries.  Every character the code distinguishes is ASCII
   (dot, percent, brackets, double quote, backslash, minus, underscore, at-sign, digits, letters), every other character is only ever copied or
   rejected as a whole.  In UTF-8 every byte of a non-ASCII character is >= 0x80, so running the same
   machine over the UTF-8 *bytes* takes exactly the same branches and copies exactly the same
   substrings as running it over the code points.  The definitions below are therefore valid under both
   readings (units = code points, or units = UTF-8 bytes); the theorems quantify over arbitrary `list N`
   and the correspondence run feeds the UTF-8 bytes (so that field keys are the `bytes` of Base/Value.v,
   = `KeyString` contents).

   `seg` / `path` are the ones of Base/Value.v: `SField k` with k the key's units, `SIndex i`. *)
From Coq Require Import List NArith ZArith Bool Lia.
From VRL Require Import Base.Bytes Base.Value.
Import ListNotations.
Local Open Scope N_scope.

Definition text := list N.

(* ---------- character classes ---------- *)
Definition is_upper (c : N) : bool := (65 <=? c) && (c <=? 90).      (* 'A'..='Z' *)
Definition is_lower (c : N) : bool := (97 <=? c) && (c <=? 122).     (* 'a'..='z' *)
Definition is_digit (c : N) : bool := (48 <=? c) && (c <=? 57).      (* '0'..='9' *)

(* owned.rs serialize_field: matches!(c, 'A'..='Z' | 'a'..='z' | '_' | '0'..='9' | '@') *)
Definition ser_char (c : N) : bool :=
  is_upper c || is_lower c || (c =? 95) || is_digit c || (c =? 64).

(* jit.rs, every state: 'A'..='Z' | 'a'..='z' | '_' | '0'..='9' | '@' | '-' *)
Definition jit_char (c : N) : bool :=
  is_upper c || is_lower c || (c =? 95) || is_digit c || (c =? 64) || (c =? 45).

(* ---------- isize ---------- *)
Definition isize_min : Z := (- 2 ^ 63)%Z.
Definition isize_max : Z := (2 ^ 63 - 1)%Z.
Definition in_isize (z : Z) : bool := (isize_min <=? z)%Z && (z <=? isize_max)%Z.
(* isize::checked_mul / checked_add / checked_sub: the result, or None on overflow *)
Definition checked (z : Z) : option Z := if in_isize z then Some z else None.

(* ---------- results ---------- *)
Inductive pres (A : Type) :=
| POk (a : A)
| PErr                 (* PathParseError::InvalidPathSyntax (a BorrowedSegment::Invalid was produced) *)
| PPanic               (* a panic caught by the harness; Proofs/PathTextProofs.v shows the model never returns it
                          (until /repo 8dcbd4e the index accumulation overflowed here) *)
| PUnreachable.        (* a branch the Rust cannot reach; Proofs/PathTextProofs.v shows the model never returns it *)
Arguments POk {A} a.
Arguments PErr {A}.
Arguments PPanic {A}.
Arguments PUnreachable {A}.

(* ---------- JitValuePathIter ---------- *)
(* JitState.  `Field { start }` / `Quote { start }` remember a byte offset and later slice
   `path[start..index]`; the model carries that slice (`acc`, the units read since `start`).
   `JitState::End` is only entered together with returning Invalid / the final item, after which
   `collect::<Result<Vec<_>,()>>` stops; it needs no constructor here. *)
Inductive jstate :=
| JEventRoot
| JStart
| JContinue
| JDot
| JIndexStart
| JNegIndex (v : Z)
| JIndex (v : Z)
| JField (acc : text)
| JQuote (acc : text)
| JEscQuote (buf : text).      (* escape_buffer *)

(* Quote, on a backslash: the state is reverted back to the start of the quote to start over with the copy
   method: `self.path = &self.path[start..]; self.chars = self.path.char_indices()` and the state becomes
   EscapedQuote.  The units of the slice read so far (`acc`) are therefore read a second time, now by the
   EscapedQuote transitions, which push every unit other than the double quote (34) and the backslash (92)
   to the escape buffer.  `acc` cannot contain either (both leave the Quote state), hence `None` is
   unreachable. *)
Fixpoint esc_replay (buf : text) (cs : text) : option text :=
  match cs with
  | [] => Some buf
  | c :: r => if (c =? 34) || (c =? 92) then None else esc_replay (buf ++ [c]) r
  end.

Definition digit_val (c : N) : Z := (Z.of_N c - 48)%Z.      (* c as isize - '0' as isize *)

(* The loop of `next()` run to the end by `to_owned_value_path` (collect stops at the first Invalid).
   `out` = the segments produced so far, last first. *)
Fixpoint jit (st : jstate) (cs : text) (out : list seg) {struct cs} : pres path :=
  match cs with
  | [] =>
      match st with
      | JStart | JIndexStart | JIndex _ | JNegIndex _ | JQuote _ | JEscQuote _ | JDot => PErr
      | JContinue | JEventRoot => POk (rev out)
      | JField acc => POk (rev (SField acc :: out))
      end
  | c :: r =>
      match st with
      | JStart =>
          if c =? 46 then jit JEventRoot r out
          else if jit_char c then jit (JField [c]) r out
          else if c =? 91 then jit JIndexStart r out
          else if c =? 34 then jit (JQuote []) r out
          else PErr
      | JContinue =>
          if c =? 46 then jit JDot r out
          else if jit_char c then jit (JField [c]) r out
          else if c =? 91 then jit JIndexStart r out
          else if c =? 34 then jit (JQuote []) r out
          else PErr
      | JEventRoot =>
          if jit_char c then jit (JField [c]) r out
          else if c =? 91 then jit JIndexStart r out
          else if c =? 34 then jit (JQuote []) r out
          else PErr
      | JDot =>
          if jit_char c then jit (JField [c]) r out
          else if c =? 34 then jit (JQuote []) r out
          else PErr
      | JField acc =>
          if jit_char c then jit (JField (acc ++ [c])) r out
          else if c =? 46 then jit JDot r (SField acc :: out)
          else if c =? 91 then jit JIndexStart r (SField acc :: out)
          else PErr
      | JQuote acc =>
          if c =? 34 then jit JContinue r (SField acc :: out)
          else if c =? 92 then
            (* restart from the opening quote in EscapedQuote state ... *)
            match esc_replay [] acc with
            | None => PUnreachable
            | Some buf =>
                (* ... which then reads this same backslash: '\\' => match self.chars.next() *)
                match r with
                | [] => PErr
                | c2 :: r2 => if (c2 =? 92) || (c2 =? 34) then jit (JEscQuote (buf ++ [c2])) r2 out else PErr
                end
            end
          else jit (JQuote (acc ++ [c])) r out
      | JEscQuote buf =>
          if c =? 34 then jit JContinue r (SField buf :: out)
          else if c =? 92 then
            match r with
            | [] => PErr
            | c2 :: r2 => if (c2 =? 92) || (c2 =? 34) then jit (JEscQuote (buf ++ [c2])) r2 out else PErr
            end
          else jit (JEscQuote (buf ++ [c])) r out
      | JIndexStart =>
          if is_digit c then jit (JIndex (digit_val c)) r out
          else if c =? 45 then jit (JNegIndex 0) r out
          else PErr
      | JIndex v =>
          if is_digit c then
            (* value.checked_mul(10).and_then(|v| v.checked_add(new_digit)); None => Invalid *)
            match checked (v * 10) with
            | None => PErr
            | Some m => match checked (m + digit_val c) with
                        | None => PErr
                        | Some v' => jit (JIndex v') r out
                        end
            end
          else if c =? 93 then jit JContinue r (SIndex v :: out)
          else PErr
      | JNegIndex v =>
          if is_digit c then
            match checked (v * 10) with
            | None => PErr
            | Some m => match checked (m - digit_val c) with
                        | None => PErr
                        | Some v' => jit (JNegIndex v') r out
                        end
            end
          else if c =? 93 then jit JContinue r (SIndex v :: out)
          else PErr
      end
  end.

(* path/mod.rs *)
Definition parse_value_path (t : text) : pres path := jit JStart t [].

Inductive prefix := Event | Metadata.
Definition tpath := (prefix * path)%type.

Definition get_target_prefix (t : text) : prefix * text :=
  match t with
  | c :: r => if c =? 46 then (Event, t)            (* the leading dot is left for the value-path parser *)
              else if c =? 37 then (Metadata, r)
              else (Event, t)
  | [] => (Event, t)
  end.

Definition parse_target_path (t : text) : pres tpath :=
  let '(pre, vp) := get_target_prefix t in
  match parse_value_path vp with
  | POk p => POk (pre, p)
  | PErr => PErr
  | PPanic => PPanic
  | PUnreachable => PUnreachable
  end.

(* ---------- rendering ---------- *)

(* decimal digits of a non-negative integer, least significant first; fuel = number of binary digits *)
Fixpoint le_digits (fuel : nat) (n : Z) : list N :=
  match fuel with
  | O => []
  | S f => (48 + Z.to_N (n mod 10)) :: (if (n <? 10)%Z then [] else le_digits f (n / 10)%Z)
  end.

Definition dec_fuel (n : Z) : nat := S (Z.to_nat (Z.log2 n)).
Definition render_nat (n : Z) : text := rev (le_digits (dec_fuel n) n).
(* `{index}` for an isize: Display of a signed integer *)
Definition render_int (z : Z) : text :=
  if (z <? 0)%Z then 45 :: render_nat (- z) else render_nat z.

Definition needs_quotes (f : text) : bool :=
  match f with [] => true | _ => existsb (fun c => negb (ser_char c)) f end.

Fixpoint escape_field (f : text) : text :=
  match f with
  | [] => []
  | c :: r => if (c =? 34) || (c =? 92) then 92 :: c :: escape_field r else c :: escape_field r
  end.

(* serialize_field(string, field, separator) appends: *)
Definition serialize_field (f : text) (sep : text) : text :=
  sep ++ (if needs_quotes f then 34 :: escape_field f ++ [34] else f).

(* From<&OwnedValuePath> for String; `first` = (i == 0) *)
Fixpoint render_from (first : bool) (p : path) : text :=
  match p with
  | [] => []
  | SField f :: r => serialize_field f (if first then [] else [46]) ++ render_from false r
  | SIndex i :: r => 91 :: render_int i ++ 93 :: render_from false r
  end.

Definition render (p : path) : text := render_from true p.

(* Display for OwnedTargetPath *)
Definition render_target (tp : tpath) : text :=
  (match fst tp with Event => 46 | Metadata => 37 end) :: render (snd tp).

(* ---------- comparison helpers for the correspondence glue ---------- *)
Fixpoint path_eqb (a b : path) : bool :=
  match a, b with
  | [], [] => true
  | x :: a', y :: b' => seg_eqb x y && path_eqb a' b'
  | _, _ => false
  end.

Definition prefix_eqb (a b : prefix) : bool :=
  match a, b with Event, Event => true | Metadata, Metadata => true | _, _ => false end.

Definition tpath_eqb (a b : tpath) : bool := prefix_eqb (fst a) (fst b) && path_eqb (snd a) (snd b).

Definition pres_eqb {A} (eqb : A -> A -> bool) (a b : pres A) : bool :=
  match a, b with
  | POk x, POk y => eqb x y
  | PErr, PErr => true
  | PPanic, PPanic => true
  | _, _ => false
  end.

Definition indices_in_isize (p : path) : bool :=
  forallb (fun s => match s with SIndex i => in_isize i | SField _ => true end) p.
