(* C05: loops of stdlib functions whose termination depends on an argument value, with explicit fuel.
   format_number (src/stdlib/format_number.rs): the zero-padding loop `for _ in 0..i - parts[1].len()`
   with `i = scale as usize`;  zip with one argument (src/stdlib/zip.rs): `MultiZip(..).collect()`. *)
From Coq Require Import List NArith ZArith Bool Lia.
From VRL Require Import Base.Bytes Base.Value.
Import ListNotations.

Definition two64 : Z := 18446744073709551616.
(* `scale as usize` on a 64-bit target *)
Definition as_usize (z : Z) : Z := z mod two64.

(* number of iterations of the padding loop for a fractional part of `len` digits (0 when the part is
   truncated instead) *)
Definition pad_iterations_cast (scale len : Z) : Z :=
  let i := as_usize scale in if (len <? i)%Z then (i - len)%Z else 0%Z.

(* since the fix: commit 77df93e a scale <= 0 truncates the fractional part and never reaches the cast *)
Definition pad_iterations (scale len : Z) : Z :=
  if (scale <=? 0)%Z then 0%Z else pad_iterations_cast scale len.

(* MultiZip::next: one element from every iterator, None as soon as one of them is exhausted *)
Fixpoint heads_tails (its : list (list value)) : option (list value * list (list value)) :=
  match its with
  | [] => Some ([], [])
  | [] :: _ => None
  | (x :: r) :: rest =>
      match heads_tails rest with
      | Some (hs, ts) => Some (x :: hs, r :: ts)
      | None => None
      end
  end.

(* `.collect::<Vec<_>>()` with fuel: None = still running when the fuel is gone *)
Fixpoint multizip (fuel : nat) (its : list (list value)) : option (list (list value)) :=
  match fuel with
  | O => None
  | S f =>
      match heads_tails its with
      | None => Some []
      | Some (hs, ts) => match multizip f ts with Some r => Some (hs :: r) | None => None end
      end
  end.

(* zip_all since the fix: commit ab82607: MultiZip::next returns None when there is no iterator at all *)
Definition zip_all (fuel : nat) (its : list (list value)) : option (list (list value)) :=
  match its with [] => Some [] | _ => multizip fuel its end.

Definition min_len (its : list (list value)) : nat :=
  match its with
  | [] => 0
  | l :: r => fold_left (fun m x => Nat.min m (length x)) r (length l)
  end.
