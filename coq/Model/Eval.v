(* Core VRL: the tree-walking runtime (`Expression::resolve` of every expression kind, the closure
   `Runner`, `Runtime::resolve`), mirroring the Rust after the fix: commits recorded in
   known_findings/C06.json.  Definitions only.
   Parameters (Section variables, instantiated in Model/EvalInst.v for execution):
     F     : closure-free stdlib functions on already-evaluated arguments (None = the call fails);
     binop : the non-short-circuit operators of `Op::resolve` (None = ValueError). *)
From Coq Require Import List NArith ZArith Bool.
From VRL Require Import Base.Bytes Base.Value Model.ValueCrud Model.Expr.
Import ListNotations.

Definition try_boolean (v : value) : option bool := match v with VBool b => Some b | _ => None end.

(* VrlValueArithmetic::try_and *)
Definition try_and (l r : value) : option value :=
  match l, r with
  | VNull, _ => Some (VBool false)
  | VBool _, VNull => Some (VBool false)
  | VBool a, VBool b => Some (VBool (a && b))
  | _, _ => None
  end.

Definition falsy (v : value) : bool := match v with VNull | VBool false => true | _ => false end.

(* ---- the Target trait as implemented by TargetValue, with the log and the fault schedule ---- *)

Definition pop_fault (s : state) : bool * list bool :=
  match faults s with [] => (false, []) | b :: r => (b, r) end.

Definition tval (s : state) (pfx : prefix) : value := match pfx with PEvent => ev s | PMeta => md s end.

Definition with_target (s : state) (pfx : prefix) (v : value) (lg : list top) (fs : list bool) : state :=
  match pfx with
  | PEvent => mkState (vars s) v (md s) lg fs
  | PMeta => mkState (vars s) (ev s) v lg fs
  end.

(* target_get(..).ok().flatten(): a rejected read is a missing value *)
Definition t_get (s : state) (pfx : prefix) (p : path) : option value * state :=
  let '(bad, fs) := pop_fault s in
  let s' := mkState (vars s) (ev s) (md s) (TGet pfx p :: tlog s) fs in
  (if bad then None else get (tval s pfx) p, s').

(* drop(target_insert(..)): a rejected write changes nothing *)
Definition t_insert (s : state) (pfx : prefix) (p : path) (v : value) : state :=
  let '(bad, fs) := pop_fault s in
  with_target s pfx (if bad then tval s pfx else insert (tval s pfx) p v) (TIns pfx p :: tlog s) fs.

(* target_remove(..).ok().flatten() *)
Definition t_remove (s : state) (pfx : prefix) (p : path) (compact : bool) : option value * state :=
  let '(bad, fs) := pop_fault s in
  if bad then (None, with_target s pfx (tval s pfx) (TRem pfx p compact :: tlog s) fs)
  else let '(r, v') := remove (tval s pfx) p compact in
       (r, with_target s pfx v' (TRem pfx p compact :: tlog s) fs).

(* assignment::Target::insert *)
Definition target_insert (s : state) (t : target) (v : value) : state :=
  match t with
  | TNoop => s
  | TVar x [] => set_vars s (var_set (vars s) x v)
  | TVar x p =>
      match var_get (vars s) x with
      | Some stored => set_vars s (var_set (vars s) x (insert stored p v))
      | None => set_vars s (var_set (vars s) x (insert VNull p v))      (* value.at_path(path) *)
      end
  | TExt pfx p => t_insert s pfx p v
  end.

Definition or_null (o : option value) : value := match o with Some v => v | None => VNull end.

(* closure.rs `insert` (swap_variable) and `cleanup` *)
Definition bind_param (s : state) (x : option ident) (v : value) : option value * state :=
  match x with
  | Some x => (var_get (vars s) x, set_vars s (var_set (vars s) x v))
  | None => (None, s)
  end.

Definition cleanup_param (s : state) (x : option ident) (old : option value) : state :=
  match x, old with
  | Some x, Some o => set_vars s (var_set (vars s) x o)
  | Some x, None => set_vars s (var_remove (vars s) x)
  | None, _ => s
  end.

(* Runner::run — a `return` in the body ends the iteration with that value *)
Definition iter_result (r : res) : res :=
  match r with inr (Return v) => inl v | _ => r end.

(* Runner::run_key_value / run_index_value: bind two parameters, run, restore, propagate *)
Definition run2 (body : state -> res * state) (p0 p1 : option ident) (a b : value) (s : state)
  : res * state :=
  let '(old0, s1) := bind_param s p0 a in
  let '(old1, s2) := bind_param s1 p1 b in
  let '(r, s3) := body s2 in
  let s4 := cleanup_param s3 p0 old0 in
  let s5 := cleanup_param s4 p1 old1 in
  (iter_result r, s5).

(* Runner::map_key / map_value: one parameter *)
Definition run1 (body : state -> res * state) (p0 : option ident) (a : value) (s : state)
  : res * state :=
  let '(old0, s1) := bind_param s p0 a in
  let '(r, s2) := body s1 in
  (iter_result r, cleanup_param s2 p0 old0).

Definition param (ps : list ident) (n : nat) : option ident :=
  match nth_error ps n with
  | Some [] => None            (* `_` is the empty identifier *)
  | o => o
  end.

(* every closure-taking function iterates in order and stops at the first failing iteration *)
Fixpoint loop {A B} (step : A -> state -> (B + err) * state) (items : list A) (s : state)
  : (list B + err) * state :=
  match items with
  | [] => (inl [], s)
  | a :: r =>
      match step a s with
      | (inl b, s') =>
          match loop step r s' with
          | (inl bs, s'') => (inl (b :: bs), s'')
          | (inr e, s'') => (inr e, s'')
          end
      | (inr e, s') => (inr e, s')
      end
  end.

Fixpoint indexed (a : list value) (i : Z) : list (Z * value) :=
  match a with
  | [] => []
  | v :: r => (i, v) :: indexed r (i + 1)%Z
  end.

Section Eval.
  Variable F : fname -> list value -> option value.
  Variable binop : opcode -> value -> value -> option value.

  Section Closures.
    Variable body : state -> res * state.
    Variable ps : list ident.

    (* one iteration of each closure-taking function; the loop below stops at the first failure *)
    Definition step_each_kv (kv : bytes * value) (s : state) : (unit + err) * state :=
      match run2 body (param ps 0) (param ps 1) (VBytes (fst kv)) (snd kv) s with
      | (inl _, s') => (inl tt, s')
      | (inr e, s') => (inr e, s')
      end.
    Definition step_each_iv (iv : Z * value) (s : state) : (unit + err) * state :=
      match run2 body (param ps 0) (param ps 1) (VInt (fst iv)) (snd iv) s with
      | (inl _, s') => (inl tt, s')
      | (inr e, s') => (inr e, s')
      end.
    (* filter: `.as_boolean().expect("compiler guarantees boolean return type")` *)
    Definition step_filter_kv (kv : bytes * value) (s : state) : (option (bytes * value) + err) * state :=
      match run2 body (param ps 0) (param ps 1) (VBytes (fst kv)) (snd kv) s with
      | (inl (VBool b), s') => (inl (if b then Some kv else None), s')
      | (inl _, s') => (inr Panic, s')
      | (inr e, s') => (inr e, s')
      end.
    Definition step_filter_iv (iv : Z * value) (s : state) : (option value + err) * state :=
      match run2 body (param ps 0) (param ps 1) (VInt (fst iv)) (snd iv) s with
      | (inl (VBool b), s') => (inl (if b then Some (snd iv) else None), s')
      | (inl _, s') => (inr Panic, s')
      | (inr e, s') => (inr e, s')
      end.
    (* map_keys: `*key = result?.try_bytes_utf8_lossy()?.into()` *)
    Definition step_mapk (kv : bytes * value) (s : state) : ((bytes * value) + err) * state :=
      match run1 body (param ps 0) (VBytes (fst kv)) s with
      | (inl (VBytes k'), s') => (inl (k', snd kv), s')
      | (inl _, s') => (inr Error, s')
      | (inr e, s') => (inr e, s')
      end.
    Definition step_mapv_kv (kv : bytes * value) (s : state) : ((bytes * value) + err) * state :=
      match run1 body (param ps 0) (snd kv) s with
      | (inl v', s') => (inl (fst kv, v'), s')
      | (inr e, s') => (inr e, s')
      end.
    Definition step_mapv (v : value) (s : state) : (value + err) * state :=
      match run1 body (param ps 0) v s with
      | (inl v', s') => (inl v', s')
      | (inr e, s') => (inr e, s')
      end.

    Definition lift {A} (f : A -> value) (x : (A + err) * state) : res * state :=
      match x with (inl a, s) => (inl (f a), s) | (inr e, s) => (inr e, s) end.

    (* the object is rebuilt by collecting the pairs: a later duplicate key wins *)
    Definition collect_obj (kvs : list (bytes * value)) : obj :=
      fold_left (fun m kv => obj_set m (fst kv) (snd kv)) kvs [].

    Definition somes {A} (l : list (option A)) : list A :=
      flat_map (fun o => match o with Some a => [a] | None => [] end) l.

    Definition run_closure (cf : cfn) (v : value) (s : state) : res * state :=
      match cf, v with
      | CForEach, VObj m => lift (fun _ => VNull) (loop step_each_kv m s)
      | CForEach, VArr a => lift (fun _ => VNull) (loop step_each_iv (indexed a 0) s)
      | CForEach, _ => (inl VNull, s)
      | CFilter, VObj m => lift (fun l => VObj (somes l)) (loop step_filter_kv m s)
      | CFilter, VArr a => lift (fun l => VArr (somes l)) (loop step_filter_iv (indexed a 0) s)
      | CFilter, _ => (inr Error, s)
      | CMapKeys, VObj m => lift (fun kvs => VObj (collect_obj kvs)) (loop step_mapk m s)
      | CMapKeys, _ => (inl v, s)
      | CMapValues, VObj m => lift VObj (loop step_mapv_kv m s)
      | CMapValues, VArr a => lift VArr (loop step_mapv a s)
      | CMapValues, _ => run1 body (param ps 0) v s
      end.
  End Closures.

  Fixpoint eval (e : expr) (s : state) {struct e} : res * state :=
    let blk :=
      fix blk (es : list expr) (s : state) {struct es} : res * state :=
        match es with
        | [] => (inr Panic, s)                       (* Block::resolve: expect("at least one expression") *)
        | [e1] => eval e1 s
        | e1 :: es' =>
            match eval e1 s with
            | (inl _, s') => blk es' s'
            | (inr er, s') => (inr er, s')
            end
        end in
    match e with
    | ELit v => (inl v, s)
    | EVar x => (inl (or_null (var_get (vars s) x)), s)
    | EQExt pfx p => let '(r, s') := t_get s pfx p in (inl (or_null r), s')
    | EQVar x p => (inl (or_null (get (or_null (var_get (vars s) x)) p)), s)
    | EQExpr e1 p =>
        match eval e1 s with
        | (inl v, s') => (inl (or_null (get v p)), s')
        | (inr er, s') => (inr er, s')
        end
    | EArr es =>
        (fix go (es : list expr) (acc : list value) (s : state) {struct es} : res * state :=
           match es with
           | [] => (inl (VArr (rev acc)), s)
           | e1 :: es' =>
               match eval e1 s with
               | (inl v, s') => go es' (v :: acc) s'
               | (inr er, s') => (inr er, s')
               end
           end) es [] s
    | EObj kvs =>
        (fix go (kvs : list (bytes * expr)) (acc : obj) (s : state) {struct kvs} : res * state :=
           match kvs with
           | [] => (inl (VObj acc), s)
           | (k, e1) :: kvs' =>
               match eval e1 s with
               | (inl v, s') => go kvs' (obj_set acc k v) s'
               | (inr er, s') => (inr er, s')
               end
           end) kvs [] s
    | EBlock es => blk es s
    | EGroup e1 => eval e1 s
    | EIf c t f =>
        match blk c s with
        | (inl v, s') =>
            match try_boolean v with
            | Some true => blk t s'
            | Some false => match f with Some fb => blk fb s' | None => (inl VNull, s') end
            | None => (inr Error, s')
            end
        | (inr er, s') => (inr er, s')
        end
    | EOp OErr a b =>
        match eval a s with
        | (inl v, s') => (inl v, s')
        | (inr Error, s') => eval b s'
        | (inr er, s') => (inr er, s')               (* return / abort are not recoverable errors *)
        end
    | EOp OOr a b =>
        match eval a s with
        | (inl v, s') => if falsy v then eval b s' else (inl v, s')
        | (inr er, s') => (inr er, s')
        end
    | EOp OAnd a b =>
        match eval a s with
        | (inl v, s') =>
            if falsy v then (inl (VBool false), s')
            else match eval b s' with
                 | (inl w, s'') => (match try_and v w with Some r => inl r | None => inr Error end, s'')
                 | (inr er, s'') => (inr er, s'')
                 end
        | (inr er, s') => (inr er, s')
        end
    | EOp o a b =>
        match eval a s with
        | (inl v, s') =>
            match eval b s' with
            | (inl w, s'') => (match binop o v w with Some r => inl r | None => inr Error end, s'')
            | (inr er, s'') => (inr er, s'')
            end
        | (inr er, s') => (inr er, s')
        end
    | ENot e1 =>
        match eval e1 s with
        | (inl v, s') => (match try_boolean v with Some b => inl (VBool (negb b)) | None => inr Error end, s')
        | (inr er, s') => (inr er, s')
        end
    | EAssign t e1 =>
        match eval e1 s with
        | (inl v, s') => (inl v, target_insert s' t v)
        | (inr er, s') => (inr er, s')
        end
    | EAssignInf ok er_t e1 dflt =>
        match eval e1 s with
        | (inl v, s') => (inl v, target_insert (target_insert s' ok v) er_t VNull)
        | (inr Error, s') => (inl ERRMSG, target_insert (target_insert s' ok dflt) er_t ERRMSG)
        | (inr er, s') => (inr er, s')
        end
    | EAbort None => (inr (Abort None), s)
    | EAbort (Some m) =>
        match eval m s with
        | (inl (VBytes b), s') => (inr (Abort (Some b)), s')
        | (inl _, s') => (inr Error, s')
        | (inr er, s') => (inr er, s')
        end
    | EReturn e1 =>
        match eval e1 s with
        | (inl v, s') => (inr (Return v), s')
        | (inr er, s') => (inr er, s')
        end
    | ECall f args =>
        (fix go (es : list expr) (acc : list value) (s : state) {struct es} : res * state :=
           match es with
           | [] => (match F f (rev acc) with Some v => inl v | None => inr Error end, s)
           | e1 :: es' =>
               match eval e1 s with
               | (inl v, s') => go es' (v :: acc) s'
               | (inr er, s') => (inr er, s')
               end
           end) args [] s
    | EDelExt pfx p compact =>
        let '(r, s') := t_remove s pfx p compact in (inl (or_null r), s')
    | EDelVar x p compact =>
        match var_get (vars s) x with
        | Some v =>
            let '(_, v') := remove v p compact in
            (inl (or_null (get v p)), set_vars s (var_set (vars s) x v'))
        | None => (inl VNull, s)
        end
    | EExistsExt pfx p =>
        let '(r, s') := t_get s pfx p in
        (inl (VBool (match r with Some _ => true | None => false end)), s')
    | EExistsVar x p =>
        (inl (VBool (match var_get (vars s) x with
                     | Some v => match get v p with Some _ => true | None => false end
                     | None => false end)), s)
    | EClosure cf arg ps body =>
        match eval arg s with
        | (inl v, s') => run_closure (blk body) ps cf v s'
        | (inr er, s') => (inr er, s')
        end
    end.

  (* Runtime::resolve.  It first reads the event root (consuming one slot of the fault schedule;
     this read is the runtime's own, it is not logged as a program read): a rejected or empty
     root ends the run with an error.  The model's event is always a value, so only the rejected
     case arises. *)
  Inductive outcome := Success (v : value) | Aborted (m : option bytes) | Failed | Panicked.

  Definition run (es : list expr) (s0 : state) : outcome * state :=
    let '(bad, fs) := pop_fault s0 in
    let s := mkState (vars s0) (ev s0) (md s0) (tlog s0) fs in
    if bad then (Failed, s) else
    match eval (EBlock es) s with
    | (inl v, s') => (Success v, s')
    | (inr (Return v), s') => (Success v, s')
    | (inr (Abort m), s') => (Aborted m, s')
    | (inr Error, s') => (Failed, s')
    | (inr Panic, s') => (Panicked, s')
    end.
End Eval.
