(* Model of src/stdlib/to_unix_timestamp.rs and src/stdlib/from_unix_timestamp.rs with the chrono 0.4
   functions they call (DateTime::<Utc>::{timestamp, timestamp_millis, timestamp_micros, timestamp_nanos_opt},
   Utc.{timestamp_opt, timestamp_millis_opt, timestamp_micros, timestamp_nanos}).  Definitions only.
   A timestamp is its number of nanoseconds since the epoch (VTs ns); chrono's DateTime<Utc> covers
   -262143-01-01T00:00:00 ..= +262142-12-31T23:59:59.999999999 (no leap-second representation here). *)
From Coq Require Import List NArith ZArith Bool.
From VRL Require Import Base.Bytes Base.Value Model.ConvRes.
Local Open Scope Z_scope.

Inductive tunit := Seconds | Milliseconds | Microseconds | Nanoseconds.

Definition ts_min_secs : Z := -8334601228800.
Definition ts_max_secs : Z := 8210266876799.
Definition secs_in_range (s : Z) : bool := (ts_min_secs <=? s) && (s <=? ts_max_secs).
Definition ts_in_range (ns : Z) : bool := secs_in_range (ns / 1000000000).

(* DateTime::timestamp / timestamp_subsec_nanos *)
Definition ts_secs (ns : Z) : Z := ns / 1000000000.
Definition ts_subsec (ns : Z) : Z := ns mod 1000000000.

Definition to_unix_timestamp (v : value) (u : tunit) : res value :=
  match v with
  | VTs ns =>
      match u with
      | Seconds => ROk (VInt (ts_secs ns))
      | Milliseconds => ROk (VInt (ts_secs ns * 1000 + ts_subsec ns / 1000000))
      | Microseconds => ROk (VInt (ts_secs ns * 1000000 + ts_subsec ns / 1000))
      | Nanoseconds =>
          (* timestamp_nanos_opt: checked_mul / checked_add after the negative-side fix-up *)
          let '(t, sub) := if ts_secs ns <? 0 then (ts_secs ns + 1, ts_subsec ns - 1000000000)
                           else (ts_secs ns, ts_subsec ns) in
          if in_i64 (t * 1000000000) && in_i64 (t * 1000000000 + sub)
          then ROk (VInt (t * 1000000000 + sub)) else RErr
      end
  | _ => RErr
  end.

(* DateTime::from_timestamp(secs, nsecs) for 0 <= nsecs < 10^9: the date must be representable *)
Definition from_timestamp (secs nsecs : Z) : res value :=
  if secs_in_range secs then ROk (VTs (secs * 1000000000 + nsecs)) else RErr.

Definition from_unix_timestamp (v : value) (u : tunit) : res value :=
  match v with
  | VInt i =>
      match u with
      | Seconds => from_timestamp i 0
      | Milliseconds => from_timestamp (i / 1000) ((i mod 1000) * 1000000)      (* div_euclid / rem_euclid *)
      | Microseconds => from_timestamp (i / 1000000) ((i mod 1000000) * 1000)
      | Nanoseconds => ROk (VTs i)                                              (* every i64 is in range *)
      end
  | _ => RErr
  end.

Definition unit_ns (u : tunit) : Z :=
  match u with Seconds => 1000000000 | Milliseconds => 1000000 | Microseconds => 1000 | Nanoseconds => 1 end.
