(* UTF-8 as the Rust standard library sees it, for the codecs that go through `try_bytes_utf8_lossy`
   (String::from_utf8_lossy) or `decode_utf8_lossy`:
     valid_utf8 : core::str::from_utf8(..).is_ok()
     utf8_lossy : String::from_utf8_lossy — every maximal invalid chunk found by core::str::lossy::Utf8Chunks
                  becomes one U+FFFD (EF BF BD).
   Mirrors library/core/src/str/lossy.rs `Utf8Chunks::next` branch by branch (the lead byte decides the
   width; the second byte of 3/4-byte forms has the restricted ranges that exclude overlongs, surrogates and
   > U+10FFFF; an invalid chunk is the lead byte plus the continuation bytes already accepted).
   Definitions only. *)
From Coq Require Import List NArith Bool.
From VRL Require Import Base.Bytes.
Import ListNotations.
Local Open Scope N_scope.

Definition repl : bytes := [239; 191; 189].          (* U+FFFD *)

Definition in_range (lo hi x : N) : bool := (lo <=? x) && (x <=? hi).
Definition is_cont (b : N) : bool := in_range 128 191 b.          (* b & 0xC0 == 0x80 *)
Definition width2 (b : N) : bool := in_range 194 223 b.           (* C2..DF *)
Definition width3 (b : N) : bool := in_range 224 239 b.           (* E0..EF *)
Definition width4 (b : N) : bool := in_range 240 244 b.           (* F0..F4 *)

(* second byte admissible after a 3-byte lead *)
Definition ok3 (b0 b1 : N) : bool :=
  if b0 =? 224 then in_range 160 191 b1
  else if in_range 225 236 b0 then in_range 128 191 b1
  else if b0 =? 237 then in_range 128 159 b1
  else if in_range 238 239 b0 then in_range 128 191 b1
  else false.

(* second byte admissible after a 4-byte lead *)
Definition ok4 (b0 b1 : N) : bool :=
  if b0 =? 240 then in_range 144 191 b1
  else if in_range 241 243 b0 then in_range 128 191 b1
  else if b0 =? 244 then in_range 128 143 b1
  else false.

Fixpoint utf8_lossy (s : bytes) : bytes :=
  match s with
  | [] => []
  | b0 :: r =>
    if b0 <? 128 then b0 :: utf8_lossy r
    else if width2 b0 then
      match r with
      | b1 :: r1 => if is_cont b1 then b0 :: b1 :: utf8_lossy r1 else repl ++ utf8_lossy r
      | [] => repl
      end
    else if width3 b0 then
      match r with
      | b1 :: r1 =>
        if ok3 b0 b1 then
          match r1 with
          | b2 :: r2 => if is_cont b2 then b0 :: b1 :: b2 :: utf8_lossy r2 else repl ++ utf8_lossy r1
          | [] => repl
          end
        else repl ++ utf8_lossy r
      | [] => repl
      end
    else if width4 b0 then
      match r with
      | b1 :: r1 =>
        if ok4 b0 b1 then
          match r1 with
          | b2 :: r2 =>
            if is_cont b2 then
              match r2 with
              | b3 :: r3 => if is_cont b3 then b0 :: b1 :: b2 :: b3 :: utf8_lossy r3 else repl ++ utf8_lossy r2
              | [] => repl
              end
            else repl ++ utf8_lossy r1
          | [] => repl
          end
        else repl ++ utf8_lossy r
      | [] => repl
      end
    else repl ++ utf8_lossy r
  end.

Fixpoint valid_utf8 (s : bytes) : bool :=
  match s with
  | [] => true
  | b0 :: r =>
    if b0 <? 128 then valid_utf8 r
    else if width2 b0 then
      match r with
      | b1 :: r1 => is_cont b1 && valid_utf8 r1
      | [] => false
      end
    else if width3 b0 then
      match r with
      | b1 :: b2 :: r2 => ok3 b0 b1 && is_cont b2 && valid_utf8 r2
      | _ => false
      end
    else if width4 b0 then
      match r with
      | b1 :: b2 :: b3 :: r3 => ok4 b0 b1 && is_cont b2 && is_cont b3 && valid_utf8 r3
      | _ => false
      end
    else false
  end.

(* code points <-> UTF-8 (used by the punycode model, which works on `char`s).  `utf8_chars` is only
   meaningful on valid UTF-8 (it is always applied to the output of utf8_lossy). *)
Definition utf8_of_cp (c : N) : bytes :=
  if c <? 128 then [c]
  else if c <? 2048 then [192 + c / 64; 128 + c mod 64]
  else if c <? 65536 then [224 + c / 4096; 128 + (c / 64) mod 64; 128 + c mod 64]
  else [240 + c / 262144; 128 + (c / 4096) mod 64; 128 + (c / 64) mod 64; 128 + c mod 64].

Definition utf8_of_cps (l : list N) : bytes := flat_map utf8_of_cp l.

Fixpoint utf8_chars (s : bytes) : list N :=
  match s with
  | [] => []
  | b0 :: r =>
    if b0 <? 128 then b0 :: utf8_chars r
    else if b0 <? 224 then
      match r with
      | b1 :: r1 => ((b0 - 192) * 64 + (b1 - 128)) :: utf8_chars r1
      | [] => []
      end
    else if b0 <? 240 then
      match r with
      | b1 :: b2 :: r2 => ((b0 - 224) * 4096 + (b1 - 128) * 64 + (b2 - 128)) :: utf8_chars r2
      | _ => []
      end
    else
      match r with
      | b1 :: b2 :: b3 :: r3 => ((b0 - 240) * 262144 + (b1 - 128) * 4096 + (b2 - 128) * 64 + (b3 - 128)) :: utf8_chars r3
      | _ => []
      end
  end.

(* a Rust `char`: a Unicode scalar value *)
Definition is_scalar_cp (c : N) : bool := (c <? 55296) || ((57344 <=? c) && (c <? 1114112)).
