(* format_timestamp / parse_timestamp (src/stdlib/format_timestamp.rs, parse_timestamp.rs,
   src/compiler/conversion/mod.rs Conversion::timestamp, src/compiler/datetime.rs) on the full-precision
   layouts, with the parts of chrono 0.4 they reach: the strftime items of these layouts, the numeric /
   fraction / offset formatters, format::parse::parse_internal for the same items (scan::number,
   nanosecond, nanosecond_fixed, timezone_offset, parse_rfc3339_relaxed), Parsed::to_datetime.
   Definitions only.  The proleptic Gregorian calendar (NaiveDate <-> day number) is modelled at
   specification level by the civil-from-days / days-from-civil formulas, not table by table.
   Everything outside the four layouts below is "not modelled" (None): no tie is claimed for it.
   The program's timezone is UTC (the harness runs every case with it). *)
From Coq Require Import String.
From Coq Require Import List NArith ZArith Bool.
From VRL Require Import Base.Bytes Base.Value Model.ConvRes Model.IntText Model.UnixTs.
Import ListNotations.
Local Open Scope Z_scope.

(* the formats the check treats as "full precision": date, time of day, nine fractional digits and the
   offset (or none, the program's timezone being UTC) are all printed *)
Definition full_precision_formats : list bytes :=
  map ascii_bytes
    [ "%+"; "%Y-%m-%dT%H:%M:%S%.9f%z"; "%Y-%m-%dT%H:%M:%S%.f%:z"; "%Y-%m-%d %H:%M:%S.%f";
      "%s.%f"; "%s%.9f"; "%FT%T%.9f%Z" ]%string.

Definition full_precision (fmt : value) : bool :=
  match fmt with
  | VBytes f => existsb (bytes_eqb f) full_precision_formats
  | _ => false
  end.

(* ---------- calendar ---------- *)

(* day number (days since 1970-01-01) -> (year, month, day) *)
Definition civil_from_days (z0 : Z) : Z * Z * Z :=
  let z := z0 + 719468 in
  let era := z / 146097 in
  let doe := z - era * 146097 in
  let yoe := (doe - doe / 1460 + doe / 36524 - doe / 146096) / 365 in
  let y := yoe + era * 400 in
  let doy := doe - (365 * yoe + yoe / 4 - yoe / 100) in
  let mp := (5 * doy + 2) / 153 in
  let d := doy - (153 * mp + 2) / 5 + 1 in
  let m := if mp <? 10 then mp + 3 else mp - 9 in
  (if m <=? 2 then y + 1 else y, m, d).

Definition days_from_civil (y0 m d : Z) : Z :=
  let y := if m <=? 2 then y0 - 1 else y0 in
  let era := y / 400 in
  let yoe := y - era * 400 in
  let doy := (153 * (if 2 <? m then m - 3 else m + 9) + 2) / 5 + d - 1 in
  let doe := yoe * 365 + yoe / 4 - yoe / 100 + doy in
  era * 146097 + doe - 719468.

(* NaiveDate::from_ymd_opt succeeds: the setters have already checked 1 <= m <= 12 and 1 <= d <= 31 *)
Definition valid_ymd (y m d : Z) : bool :=
  (-262143 <=? y) && (y <=? 262142) && (1 <=? m) && (m <=? 12) && (1 <=? d) && (d <=? 31)
  && (let '(y', m', d') := civil_from_days (days_from_civil y m d) in (y' =? y) && (m' =? m) && (d' =? d)).

(* ---------- the layouts ---------- *)

Inductive layout :=
| LIsoNano      (* %Y-%m-%dT%H:%M:%S%.9f%z *)
| LIsoAuto      (* %Y-%m-%dT%H:%M:%S%.f%:z *)
| LRfc3339      (* %+ *)
| LSpaceNum.    (* %Y-%m-%d %H:%M:%S.%f   (no offset: the program's timezone, UTC) *)

Definition layout_of (fmt : bytes) : option layout :=
  if bytes_eqb fmt (ascii_bytes "%Y-%m-%dT%H:%M:%S%.9f%z") then Some LIsoNano
  else if bytes_eqb fmt (ascii_bytes "%Y-%m-%dT%H:%M:%S%.f%:z") then Some LIsoAuto
  else if bytes_eqb fmt (ascii_bytes "%+") then Some LRfc3339
  else if bytes_eqb fmt (ascii_bytes "%Y-%m-%d %H:%M:%S.%f") then Some LSpaceNum
  else None.

(* ---------- formatting ---------- *)

Definition dchar (d : Z) : N := Z.to_N (48 + d).

(* n written with exactly w decimal digits (n < 10^w) *)
Fixpoint pad_digits (w : nat) (n : Z) : bytes :=
  match w with
  | O => []
  | S w' => pad_digits w' (n / 10) ++ [dchar (n mod 10)]
  end.

(* Numeric::Year with Pad::Zero, and the year of write_rfc3339: four digits for 0..=9999, otherwise an
   explicit sign and at least four digits ({:+05}) *)
Definition year_text (y : Z) : bytes :=
  if (0 <=? y) && (y <=? 9999) then pad_digits 4 y
  else
    let a := Z.abs y in
    (if y <? 0 then 45%N else 43%N)
      :: (if a <? 10000 then pad_digits 4 a
          else match digits_loop 64 10 a [] with Some s => s | None => [] end).

(* Fixed::Nanosecond9: ".%09" *)
Definition frac9 (nanos : Z) : bytes := 46%N :: pad_digits 9 nanos.
(* Fixed::Nanosecond and SecondsFormat::AutoSi: nothing, or 3, 6 or 9 digits *)
Definition frac_auto (nanos : Z) : bytes :=
  if nanos =? 0 then []
  else if nanos mod 1000000 =? 0 then 46%N :: pad_digits 3 (nanos / 1000000)
  else if nanos mod 1000 =? 0 then 46%N :: pad_digits 6 (nanos / 1000)
  else 46%N :: pad_digits 9 nanos.

Definition format_layout (l : layout) (ns : Z) : bytes :=
  let secs := ns / 1000000000 in
  let nanos := ns mod 1000000000 in
  let days := secs / 86400 in
  let sod := secs mod 86400 in
  let '(y, m, d) := civil_from_days days in
  let hh := sod / 3600 in
  let mm := (sod / 60) mod 60 in
  let ss := sod mod 60 in
  year_text y ++ 45%N :: pad_digits 2 m ++ 45%N :: pad_digits 2 d
  ++ (match l with LSpaceNum => 32%N | _ => 84%N end)
     :: pad_digits 2 hh ++ 58%N :: pad_digits 2 mm ++ 58%N :: pad_digits 2 ss
  ++ match l with
     | LIsoNano => frac9 nanos ++ ascii_bytes "+0000"
     | LIsoAuto => frac_auto nanos ++ ascii_bytes "+00:00"
     | LRfc3339 => frac_auto nanos ++ ascii_bytes "+00:00"
     | LSpaceNum => 46%N :: pad_digits 9 nanos
     end.

(* None = not modelled *)
Definition format_timestamp (x fmt : value) : option (res value) :=
  match x with
  | VTs ns =>
      match fmt with
      | VBytes f => match layout_of f with
                    | Some l => Some (ROk (VBytes (format_layout l ns)))
                    | None => None
                    end
      | _ => Some RErr
      end
  | _ => Some RErr
  end.

(* ---------- parsing ---------- *)

(* parser outcome: a value and the remaining input, an error (any ParseError), or "not covered by this model" *)
Inductive pr (A : Type) :=
| POk (a : A) (rest : bytes)
| PErr
| PUnk.
Arguments POk {A} a rest.
Arguments PErr {A}.
Arguments PUnk {A}.

Definition pbind {A B} (p : pr A) (f : A -> bytes -> pr B) : pr B :=
  match p with POk a r => f a r | PErr => PErr | PUnk => PUnk end.

Definition is_ws (c : N) : bool := ((9 <=? c) && (c <=? 13) || (c =? 32))%N.
Definition is_digit (c : N) : bool := ((48 <=? c) && (c <=? 57))%N.

(* str::trim_start; a non-ASCII byte in front could be Unicode white space: not covered *)
Fixpoint trim_start (s : bytes) : pr unit :=
  match s with
  | [] => POk tt []
  | c :: s' => if is_ws c then trim_start s'
               else if (128 <=? c)%N then PUnk
               else POk tt s
  end.

(* the digit loop of scan::number(s, min, max) after the length test; i = digits consumed so far *)
Fixpoint number_loop (fuel : nat) (s : bytes) (min max i : nat) (n : Z) : pr Z :=
  match fuel with
  | O => POk n s
  | S f =>
      if Nat.leb max i then POk n s
      else match s with
           | [] => POk n s
           | c :: s' =>
               if is_digit c then
                 let n' := n * 10 + (Z.of_N c - 48) in
                 if in_i64 n' then number_loop f s' min max (S i) n' else PErr     (* OUT_OF_RANGE *)
               else if Nat.ltb i min then PErr else POk n s
           end
  end.

Definition number (s : bytes) (min max : nat) : pr Z :=
  if Nat.ltb (length s) min then PErr else number_loop (S (length s)) s min max O 0.

(* Item::Numeric: optional white space, then the number; `signed` (the year) accepts an explicit sign followed
   by any number of digits.  `unbounded` stands for usize::MAX. *)
Definition numeric (width : nat) (signed : bool) (s : bytes) : pr Z :=
  pbind (trim_start s) (fun _ s =>
    if signed then
      match s with
      | c :: s' =>
          if (c =? 45)%N then pbind (number s' 1 (length s')) (fun v r => POk (- v) r)
          else if (c =? 43)%N then number s' 1 (length s')
          else number s 1 width
      | [] => number s 1 width
      end
    else number s 1 width).

Definition literal (c : N) (s : bytes) : pr unit :=
  match s with
  | d :: s' => if (c =? d)%N then POk tt s' else PErr
  | [] => PErr
  end.

Fixpoint skip_digits (s : bytes) : bytes :=
  match s with
  | c :: s' => if is_digit c then skip_digits s' else s
  | [] => []
  end.

Definition scale9 (consumed : nat) : Z :=
  match consumed with
  | 1%nat => 100000000 | 2%nat => 10000000 | 3%nat => 1000000 | 4%nat => 100000 | 5%nat => 10000
  | 6%nat => 1000 | 7%nat => 100 | 8%nat => 10 | 9%nat => 1 | _ => 0
  end.

(* Fixed::Nanosecond: an optional "." followed by digits, scaled; digits after the ninth are skipped *)
Definition nanosecond_opt (s : bytes) : pr (option Z) :=
  match s with
  | c :: s' =>
      if (c =? 46)%N then
        pbind (number s' 1 9) (fun v r =>
          POk (Some (v * scale9 (length s' - length r))) (skip_digits r))
      else POk None s
  | [] => POk None s
  end.

(* Fixed::Nanosecond9: an optional "." followed by exactly nine digits *)
Definition nanosecond9_opt (s : bytes) : pr (option Z) :=
  match s with
  | c :: s' => if (c =? 46)%N then pbind (number s' 9 9) (fun v r => POk (Some v) r) else POk None s
  | [] => POk None s
  end.

(* scan::colon_or_space *)
Fixpoint colon_or_space (s : bytes) : pr unit :=
  match s with
  | [] => POk tt []
  | c :: s' => if is_ws c || (c =? 58)%N then colon_or_space s'
               else if (128 <=? c)%N then PUnk
               else POk tt s
  end.

(* scan::timezone_offset(s, colon_or_space, allow_zulu, false, true): offset in seconds *)
Definition timezone_offset (allow_zulu : bool) (s : bytes) : pr Z :=
  match s with
  | [] => PErr
  | c :: s1 =>
      if allow_zulu && ((c =? 90) || (c =? 122))%N then POk 0 s1
      else if (128 <=? c)%N then PUnk                       (* U+2212 MINUS SIGN is accepted by chrono *)
      else if negb ((c =? 43) || (c =? 45))%N then PErr
      else
        let negative := (c =? 45)%N in
        match s1 with
        | h1 :: h2 :: s2 =>
            if is_digit h1 && is_digit h2 then
              let hours := (Z.of_N h1 - 48) * 10 + (Z.of_N h2 - 48) in
              pbind (colon_or_space s2) (fun _ s3 =>
                match s3 with
                | m1 :: m2 :: s4 =>
                    if is_digit m1 && is_digit m2 then
                      if (Z.of_N m1 - 48 <=? 5) then
                        let secs := hours * 3600 + ((Z.of_N m1 - 48) * 10 + (Z.of_N m2 - 48)) * 60 in
                        POk (if negative then - secs else secs) s4
                      else PErr
                    else PErr
                | _ => PErr
                end)
            else PErr
        | _ => PErr
        end
  end.

Definition in_i32 (z : Z) : bool := (-2147483648 <=? z) && (z <=? 2147483647).

(* the fields as the Parsed setters accept them *)
Definition set_year (v : Z) : pr Z := if in_i32 v then POk v [] else PErr.
Definition check_range (lo hi v : Z) : bool := (lo <=? v) && (v <=? hi).

(* date: Year [Space] "-" Month [Space] "-" Day ; `relaxed` = the Space items of parse_rfc3339_relaxed *)
Definition parse_date (relaxed : bool) (s : bytes) : pr (Z * Z * Z) :=
  let sp (s : bytes) : pr unit := if relaxed then trim_start s else POk tt s in
  pbind (numeric 4 true s) (fun y s =>
  if negb (in_i32 y) then PErr else
  pbind (sp s) (fun _ s => pbind (literal 45 s) (fun _ s =>
  pbind (numeric 2 false s) (fun m s =>
  if negb (check_range 1 12 m) then PErr else
  pbind (sp s) (fun _ s => pbind (literal 45 s) (fun _ s =>
  pbind (numeric 2 false s) (fun d s =>
  if negb (check_range 1 31 d) then PErr else POk (y, m, d) s))))))).

(* time: Hour [Space] ":" Minute [Space] ":" Second *)
Definition parse_hms (relaxed : bool) (s : bytes) : pr (Z * Z * Z) :=
  let sp (s : bytes) : pr unit := if relaxed then trim_start s else POk tt s in
  pbind (numeric 2 false s) (fun hh s =>
  if negb (check_range 0 23 hh) then PErr else
  pbind (sp s) (fun _ s => pbind (literal 58 s) (fun _ s =>
  pbind (numeric 2 false s) (fun mm s =>
  if negb (check_range 0 59 mm) then PErr else
  pbind (sp s) (fun _ s => pbind (literal 58 s) (fun _ s =>
  pbind (numeric 2 false s) (fun ss s =>
  if negb (check_range 0 60 ss) then PErr else POk (hh, mm, ss) s))))))).

(* Parsed::to_datetime / to_datetime_with_timezone(UTC), then datetime_to_utc: nanoseconds since the epoch.
   A second of 60 is the leap second: 59 with one more second of nanoseconds. *)
Definition resolve (ymd : Z * Z * Z) (hms : Z * Z * Z) (nano : option Z) (offset : Z) : res Z :=
  let '(y, m, d) := ymd in
  let '(hh, mm, ss) := hms in
  let nano := match nano with Some n => n | None => 0 end in
  if negb (valid_ymd y m d) then RErr
  else if negb ((-86400 <? offset) && (offset <? 86400)) then RErr         (* FixedOffset::east_opt *)
  else
    let '(sec, extra) := if ss =? 60 then (59, 1000000000) else (ss, 0) in
    let local := days_from_civil y m d * 86400 + hh * 3600 + mm * 60 + sec in
    let utc := local - offset in
    if secs_in_range utc then ROk (utc * 1000000000 + extra + nano) else RErr.

Definition finish {A} (p : pr A) (f : A -> bytes -> option (res Z)) : option (res Z) :=
  match p with POk a r => f a r | PErr => Some RErr | PUnk => None end.

(* the whole input under one layout: None = not covered *)
Definition parse_layout (l : layout) (s : bytes) : option (res Z) :=
  match l with
  | LIsoNano | LIsoAuto =>
      finish (parse_date false s) (fun ymd s =>
      finish (literal 84 s) (fun _ s =>
      finish (parse_hms false s) (fun hms s =>
      finish (match l with LIsoNano => nanosecond9_opt s | _ => nanosecond_opt s end) (fun nano s =>
      finish (trim_start s) (fun _ s =>
      finish (timezone_offset false s) (fun off s =>
      match s with [] => Some (resolve ymd hms nano off) | _ => Some RErr end))))))       (* TOO_LONG *)
  | LRfc3339 =>
      finish (parse_date true s) (fun ymd s =>
      match s with
      | [] => Some RErr
      | c :: s =>
          if negb ((c =? 116) || (c =? 84) || (c =? 32))%N then Some RErr else
          finish (parse_hms true s) (fun hms s =>
          finish (nanosecond_opt s) (fun nano s =>
          finish (trim_start s) (fun _ s =>
          finish (trim_start s) (fun _ s =>
          let after_offset (p : pr Z) : option (res Z) :=
            finish p (fun off s => match s with [] => Some (resolve ymd hms nano off) | _ => Some RErr end) in
          match s with
          | u :: t :: c :: s' =>
              if ((u =? 85) || (u =? 117))%N && ((t =? 84) || (t =? 116))%N && ((c =? 67) || (c =? 99))%N
              then after_offset (POk 0 s')                    (* "UTC" in place of the offset *)
              else after_offset (timezone_offset true s)
          | _ => after_offset (timezone_offset true s)
          end))))
      end)
  | LSpaceNum =>
      finish (parse_date false s) (fun ymd s =>
      finish (trim_start s) (fun _ s =>
      finish (parse_hms false s) (fun hms s =>
      finish (literal 46 s) (fun _ s =>
      finish (numeric 9 false s) (fun nano s =>
      match s with [] => Some (resolve ymd hms (Some nano) 0) | _ => Some RErr end)))))
  end.

Definition parse_timestamp (x fmt : value) : option (res value) :=
  match x with
  | VBytes s =>
      match fmt with
      | VBytes f =>
          match layout_of f with
          | Some l => match parse_layout l s with
                      | Some (ROk ns) => Some (ROk (VTs ns))
                      | Some _ => Some RErr
                      | None => None
                      end
          | None => None
          end
      | _ => Some RErr
      end
  | VTs _ => Some (ROk x)
  | _ => Some RErr
  end.
