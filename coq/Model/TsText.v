(* format_timestamp / parse_timestamp (src/stdlib/format_timestamp.rs, parse_timestamp.rs; chrono's strftime
   formatter and parser).  Definitions only. *)
From Coq Require Import String.
From Coq Require Import List NArith ZArith Bool.
From VRL Require Import Base.Bytes Base.Value Model.ConvRes.
Import ListNotations.
Local Open Scope Z_scope.

(* the formats the check treats as "full precision": date, time of day, nine fractional digits and the
   offset (or none, the program's timezone being UTC) are all printed *)
Definition full_precision_formats : list bytes :=
  map ascii_bytes
    [ "%+"; "%Y-%m-%dT%H:%M:%S%.9f%z"; "%Y-%m-%dT%H:%M:%S%.f%:z"; "%Y-%m-%d %H:%M:%S.%f";
      "%s.%f"; "%s%.9f"; "%FT%T%.9f%Z" ]%string.

Definition full_precision (fmt : value) : bool :=
  match fmt with
  | VBytes f => existsb (bytes_eqb f) full_precision_formats
  | _ => false
  end.

(* None = not modelled *)
Definition format_timestamp (x fmt : value) : option (res value) := None.
Definition parse_timestamp (x fmt : value) : option (res value) := None.
