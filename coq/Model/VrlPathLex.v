(* C20 — the path fragment of the VRL source language: what `vrl::parser::parse` makes of a text when the
   whole program is one path expression on the external target (event `.` / metadata `%`).
   Hand model of the relevant parts of src/parser/lex.rs (query_start chain scanning, identifier /
   numeric-or-identifier / string-literal tokens, escape validation, `unescape_string_literal`,
   `StringLiteralToken::template`) and src/parser/parser.lalrpop (Query, QueryTarget, Path, PathSegment,
   Field, AnyIdent).  Definitions only.  PARTIAL: tied to the real lexer and LALRPOP tables only by the
   correspondence run (every text goes through the real parser as well).

   `vrl_path s = Some (prefix, p)`  <->  parse(s) is a program of exactly one root expression, and that
   expression is `Expr::Query` with `QueryTarget::External(prefix)` and path p.

   Scope (`vrl_modelled`): texts without line feed, `#` (comments), `;`, without the string escape
   backslash-u, and without the lead bytes C2 E1 E2 E3 (which start the non-ASCII `char::is_whitespace`
   characters; all other non-ASCII characters are not whitespace, so outside string literals they are
   invalid tokens and inside they are copied).  Units are UTF-8 bytes or code points, as in PathText.v. *)
From Coq Require Import List NArith ZArith Bool Lia.
From VRL Require Import Base.Bytes Base.Value Model.PathText.
Import ListNotations.
Local Open Scope N_scope.

(* ---------- lex.rs character classes ---------- *)
Definition is_ws (c : N) : bool := ((9 <=? c) && (c <=? 13)) || (c =? 32).          (* char::is_whitespace, ASCII part *)
Definition is_ident_start (c : N) : bool := (c =? 64) || (c =? 95) || is_lower c || is_upper c.
Definition is_ident_continue (c : N) : bool := is_digit c || is_ident_start c.
Definition is_digit_or_us (c : N) : bool := is_digit c || (c =? 95).

Definition unmodelled_unit (c : N) : bool :=
  (c =? 10) || (c =? 35) || (c =? 59) || (c =? 194) || (c =? 225) || (c =? 226) || (c =? 227).

Fixpoint has_bsl_u (s : text) : bool :=
  match s with
  | c :: r => match r with
              | d :: _ => ((c =? 92) && (d =? 117)) || has_bsl_u r
              | [] => false
              end
  | [] => false
  end.

Definition vrl_modelled (s : text) : bool := forallb (fun c => negb (unmodelled_unit c)) s && negb (has_bsl_u s).

(* ---------- helpers ---------- *)
Fixpoint span (f : N -> bool) (l : text) : text * text :=
  match l with
  | c :: r => if f c then let '(a, b) := span f r in (c :: a, b) else ([], l)
  | [] => ([], [])
  end.

Fixpoint skip_ws (l : text) : text :=
  match l with
  | c :: r => if is_ws c then skip_ws r else l
  | [] => []
  end.

Definition all_ws (l : text) : bool := forallb is_ws l.

(* ---------- string literal token: Lexer::string_literal + escape_code ---------- *)
(* '\n' | '\'' | dquote | '\\' | 'n' | 'r' | 't' | '{' | '}' | '0'   ('u' = unicode escape: out of scope) *)
Definition valid_escape (e : N) : bool :=
  (e =? 10) || (e =? 39) || (e =? 34) || (e =? 92) || (e =? 110) || (e =? 114) || (e =? 116)
  || (e =? 123) || (e =? 125) || (e =? 48).

(* after the opening quote: the raw slice between the quotes, and the text after the closing quote *)
Fixpoint string_lit (cs : text) (raw : text) : option (text * text) :=
  match cs with
  | [] => None                                            (* Error::StringLiteral *)
  | c :: r =>
      if c =? 34 then Some (raw, r)
      else if c =? 92 then
        match r with
        | [] => None
        | e :: r2 => if valid_escape e then string_lit r2 (raw ++ [92; e]) else None   (* Error::EscapeChar *)
        end
      else string_lit r (raw ++ [c])
  end.

(* unescape_string_literal; None = the `s.as_bytes()[i + 1]` / unimplemented!() panics *)
Definition esc_char (e : N) : option N :=
  if e =? 39 then Some 39 else if e =? 34 then Some 34 else if e =? 92 then Some 92
  else if e =? 110 then Some 10 else if e =? 114 then Some 13 else if e =? 116 then Some 9
  else if e =? 48 then Some 0 else if e =? 123 then Some 123 else if e =? 125 then Some 125
  else None.

Fixpoint unescape (cs : text) : option text :=
  match cs with
  | [] => Some []
  | c :: r =>
      if c =? 92 then
        match r with
        | [] => None
        | e :: r2 => match esc_char e, unescape r2 with
                     | Some x, Some u => Some (x :: u)
                     | _, _ => None
                     end
        end
      else match unescape r with Some u => Some (c :: u) | None => None end
  end.

(* StringLiteralToken::template: segments of literal text and `{{ .. }}` templates *)
Inductive tseg := TLit (s : option text) | TTpl (s : text).

Definition trim (s : text) : text := rev (skip_ws (rev (skip_ws s))).

Definition push_lit (segs : list tseg) (cur : text) : list tseg :=
  match cur with [] => segs | _ => segs ++ [TLit (unescape cur)] end.
Definition push_tpl (segs : list tseg) (cur : text) : list tseg :=
  match cur with [] => segs | _ => segs ++ [TTpl (trim cur)] end.

Definition starts_with (c : N) (l : text) : bool := match l with d :: _ => d =? c | [] => false end.

Fixpoint template (tmpl : bool) (cur : text) (cs : text) (segs : list tseg) {struct cs} : list tseg :=
  match cs with
  | [] => if tmpl then segs else push_lit segs cur
  | c :: r =>
      match r with
      | c1 :: r1 =>
          if tmpl && (c =? 125) && (c1 =? 125) then template false [] r1 (push_tpl segs cur)
          else if negb tmpl && (c =? 92) && (c1 =? 123) && starts_with 123 r1 then
            match r1 with _ :: r2 => template tmpl (cur ++ [123; 123]) r2 segs | [] => segs end
          else if negb tmpl && (c =? 92) && (c1 =? 125) && starts_with 125 r1 then
            match r1 with _ :: r2 => template tmpl (cur ++ [125; 125]) r2 segs | [] => segs end
          else if negb tmpl && (c =? 123) && (c1 =? 123) then template true [] r1 (push_lit segs cur)
          else template tmpl (cur ++ [c]) r segs
      | [] => template tmpl (cur ++ [c]) r segs
      end
  end.

(* Field: String => <>.to_string()   (Display of TemplateString) *)
Fixpoint tsegs_to_string (l : list tseg) : option text :=
  match l with
  | [] => Some []
  | TLit (Some s) :: r => match tsegs_to_string r with Some t => Some (s ++ t) | None => None end
  | TLit None :: _ => None
  | TTpl s :: r => match tsegs_to_string r with
                   | Some t => Some ([123; 123; 32] ++ s ++ [32; 125; 125] ++ t)
                   | None => None
                   end
  end.

Definition field_of_raw (raw : text) : option text := tsegs_to_string (template false [] raw []).

(* ---------- integer literal inside [ ] : numeric_literal_or_identifier ---------- *)
Definition i64_ok (z : Z) : bool := in_isize z.

(* digits with underscores removed, most significant first *)
Fixpoint dec_value (l : text) (acc : Z) : Z :=
  match l with
  | c :: r => if c =? 95 then dec_value r acc else dec_value r (acc * 10 + digit_val c)%Z
  | [] => acc
  end.

(* after `[`: whitespace, an integer token, whitespace, `]` *)
Definition vindex (cs : text) : option (Z * text) :=
  let cs1 := skip_ws cs in
  let '(neg, cs2) := match cs1 with
                     | c :: r => if (c =? 45) && (match r with d :: _ => is_digit d | [] => false end)
                                 then (true, r) else (false, cs1)
                     | [] => (false, cs1)
                     end in
  match cs2 with
  | d :: _ =>
      if is_digit d then
        let '(tok, rest) := span is_digit_or_us cs2 in
        let follows_ident := match rest with e :: _ => is_ident_continue e && negb neg | [] => false end in
        let follows_dot := match rest with e :: _ => e =? 46 | [] => false end in
        if follows_ident || follows_dot then None
        else
          let v := dec_value tok 0 in
          let v := if neg then (- v)%Z else v in
          if i64_ok v then
            match skip_ws rest with
            | e :: rest2 => if e =? 93 then Some (v, rest2) else None
            | [] => None
            end
          else None
      else None
  | [] => None
  end.

(* ---------- Field tokens ---------- *)
(* identifier / path field / keyword, or a numeric-looking token that turns out to be an identifier *)
Definition vident (y : text) : option (text * text) :=
  match y with
  | d :: _ =>
      if is_ident_start d then
        let '(tok, rest) := span is_ident_continue y in
        match tok with
        | [u] => if u =? 95 then None else Some (tok, rest)        (* a lone `_` is Token::Underscore *)
        | _ => Some (tok, rest)
        end
      else if is_digit d then
        let '(_, rest1) := span is_digit_or_us y in
        match rest1 with
        | e :: _ => if is_ident_continue e then Some (span is_ident_continue y) else None
        | [] => None
        end
      else None
  | [] => None
  end.

Definition vfield (y : text) : option (text * text) :=
  match y with
  | d :: z =>
      if d =? 34 then
        match string_lit z [] with
        | Some (raw, rest) => match field_of_raw raw with Some f => Some (f, rest) | None => None end
        | None => None
        end
      else vident y
  | [] => None
  end.

(* PathSegment+ up to the end of the query chain; then only whitespace may follow *)
Fixpoint vsegs (fuel : nat) (first : bool) (r : text) (acc : list seg) : option path :=
  match fuel with
  | O => None
  | S f =>
      if all_ws r then Some (rev acc)
      else match r with
           | [] => Some (rev acc)
           | c :: x =>
               if c =? 91 then
                 match vindex x with
                 | Some (i, rest) => vsegs f false rest (SIndex i :: acc)
                 | None => None
                 end
               else if c =? 46 then
                 (* the optional dot of PathSegment; directly after the target it ends the query chain *)
                 if first then None
                 else match vfield x with
                      | Some (k, rest) => vsegs f false rest (SField k :: acc)
                      | None => None
                      end
               else match vfield r with
                    | Some (k, rest) => vsegs f false rest (SField k :: acc)
                    | None => None
                    end
           end
  end.

Definition vrl_path (s : text) : option tpath :=
  match skip_ws s with
  | c :: r =>
      if c =? 46 then match vsegs (S (length r)) true r [] with Some p => Some (Event, p) | None => None end
      else if c =? 37 then match vsegs (S (length r)) true r [] with Some p => Some (Metadata, p) | None => None end
      else None
  | [] => None
  end.

(* ---------- the known disagreement class: a template opener inside the text ---------- *)
Fixpoint has_template_open (s : text) : bool :=
  match s with
  | c :: r => match r with
              | d :: _ => ((c =? 123) && (d =? 123)) || has_template_open r
              | [] => false
              end
  | [] => false
  end.

(* ... or a backslash directly before a template closer (`\}}` is read as an escaped `}}`) *)
Fixpoint has_bsl_close (s : text) : bool :=
  match s with
  | c :: r => (match r with
               | d :: r2 => (c =? 92) && (d =? 125) && starts_with 125 r2
               | [] => false
               end) || has_bsl_close r
  | [] => false
  end.

Definition template_syntax (s : text) : bool := has_template_open s || has_bsl_close s.

Definition opt_tpath_eqb (a b : option tpath) : bool :=
  match a, b with
  | Some x, Some y => tpath_eqb x y
  | None, None => true
  | _, _ => false
  end.
