(* Decidable side conditions under which the soundness theorems of C19 are stated: each is the
   complement of a class of inputs on which the implementation's type abstraction is NOT sound
   (known findings, see known_findings/C19.json and the C19_*_refuted witnesses).  Definitions only. *)
From Coq Require Import List NArith ZArith Bool Lia.
From VRL Require Import Base.Bytes Base.Value Model.ValueCrud Model.Kind Model.KindCrud.
Import ListNotations.

(* ---------- union / merge: an exact unknown meeting an infinite one ---------- *)

(* Unknown::merge replaces an exact unknown by the infinite one it meets.  Nothing is lost when the
   infinite one is `any`, or when the exact one admits no defined value. *)
Definition ucompat (C : kind -> kind -> bool) (l r : unk) : bool :=
  match l, r with
  | UExact x, UExact y => C x y
  | UInf _, UInf _ => true
  | UExact x, UInf j => inf_is_any j || negb (contains_any_defined x)
  | UInf j, UExact x => inf_is_any j || negb (contains_any_defined x)
  end.

(* the pairs of kinds Collection::merge unions, each required to be compatible in turn *)
Definition ccompat {K} (keqb : K -> K -> bool) (C : kind -> kind -> bool) (l r : coll_ K kind) : bool :=
  ucompat C (unknown l) (unknown r)
  && forallb (fun kv => match aget keqb (known r) (fst kv) with
                        | Some ok => C (snd kv) ok
                        | None => if contains_any_defined (unknown_kind r) then C (snd kv) (unknown_kind r) else true
                        end) (known l)
  && forallb (fun kv => ahas keqb (known l) (fst kv)
                        || (if contains_any_defined (unknown_kind l) then C (snd kv) (unknown_kind l) else true))
             (known r).

Definition copt {A} (f : A -> A -> bool) (l r : option A) : bool :=
  match l, r with Some x, Some y => f x y | _, _ => true end.

Fixpoint compat_f (n : nat) (a b : kind) {struct n} : bool :=
  match n with
  | O => true
  | S n' =>
      copt (ccompat Nat.eqb (compat_f n')) (arr_of a) (arr_of b)
      && copt (ccompat bytes_eqb (compat_f n')) (obj_of a) (obj_of b)
  end.

(* no step of `union a b` replaces an exact unknown that admits defined values by a non-`any`
   infinite unknown *)
Definition union_compat (a b : kind) : bool := compat_f (depth a + depth b) a b.

(* ---------- is_superset: an exact unknown whose kind has every state ---------- *)

(* Unknown::is_superset answers Ok for (Exact x, Infinite _) whenever x.is_any(), which only looks at
   the ten states of x, not at what its collections contain.  `no_exact_any k`: no exact unknown
   inside k is_any. *)
Fixpoint no_exact_any (k : kind) : bool :=
  let nu (u : unk) := match u with UExact x => negb (is_any x) && no_exact_any x | UInf _ => true end in
  match k with
  | Kind _ a o =>
      match a with
      | None => true
      | Some c => forallb (fun kv => no_exact_any (snd kv)) (known c) && nu (unknown c)
      end
      && match o with
         | None => true
         | Some c => forallb (fun kv => no_exact_any (snd kv)) (known c) && nu (unknown c)
         end
  end.

(* ---------- at_path: negative indices into arrays with optional known elements ---------- *)

(* one step of get_recursive (the kind the rest of the path is applied to); `at_path_step` in
   Proofs/KindGetProofs.v shows at_path k (s :: p) = at_path (at_seg k s) p for k other than never *)
Definition neg_unknown_params (k : kind) (c : acoll) (i : Z) : kind * nat :=
  let len := match max_opt (map fst (known c)) with Some l => S l | None => 0 end in
  let s := (Z.of_nat len + i)%Z in
  let kind0 := unknown_kind c in
  (if is_exact k && negb (s <? 0)%Z then remove_undefined kind0 else kind0, Z.to_nat (Z.max s 0)).

Definition neg_fold (min_index : nat) (l : list (nat * kind)) (acc : kind) : kind :=
  fold_left (fun acc kv => if Nat.leb min_index (fst kv) then union acc (snd kv) else acc) l acc.

Definition at_index (k : kind) (c : acoll) (idx : nat) : kind :=
  let kk := coll_at Nat.eqb c idx in if is_exact k then kk else or_undefined kk.

Definition at_seg (k : kind) (s : seg) : kind :=
  match s with
  | SField f => get_field k f
  | SIndex i =>
      match arr_of k with
      | None => k_undefined
      | Some c =>
          if (i <? 0)%Z then
            let len := match max_opt (map fst (known c)) with Some l => S l | None => 0 end in
            if contains_any_defined (unknown_kind c) then
              let '(kind1, min_index) := neg_unknown_params k c i in neg_fold min_index (known c) kind1
            else if Nat.leb (Z.to_nat (- i)) len then at_index k c (Z.to_nat (i + Z.of_nat len))
            else k_undefined
          else at_index k c (Z.to_nat i)
      end
  end.

(* every union the negative-index branch performs is one union_sound speaks about *)
Fixpoint neg_fold_ok (min_index : nat) (l : list (nat * kind)) (acc : kind) : bool :=
  match l with
  | [] => true
  | kv :: r =>
      if Nat.leb min_index (fst kv)
      then union_compat acc (snd kv) && neg_fold_ok min_index r (union acc (snd kv))
      else neg_fold_ok min_index r acc
  end.

(* every known element is required (its kind does not admit undefined) *)
Definition all_required {K} (c : coll_ K kind) : bool :=
  forallb (fun kv => negb (p_undefined (prims_of (snd kv)))) (known c).

(* get_recursive computes the array length a negative index counts from out of the known indices;
   that is the length of the value only if no known element is optional *)
Definition seg_ok (k : kind) (s : seg) : bool :=
  match s with
  | SField _ => true
  | SIndex i =>
      if (i <? 0)%Z then
        match arr_of k with
        | None => true
        | Some c =>
            all_required c
            && (if contains_any_defined (unknown_kind c)
                then let '(kind1, min_index) := neg_unknown_params k c i in neg_fold_ok min_index (known c) kind1
                else true)
        end
      else true
  end.

Fixpoint get_ok (k : kind) (p : path) {struct p} : bool :=
  if is_never k then true else
  match p with
  | [] => true
  | s :: p' => seg_ok k s && get_ok (at_seg k s) p'
  end.

(* ---------- insert ---------- *)

(* objects with strictly increasing keys, hereditarily (what a BTreeMap is) *)
Fixpoint wf_value (v : value) : bool :=
  match v with
  | VObj kvs => obj_sorted kvs
                && (fix go (l : list (bytes * value)) : bool :=
                      match l with [] => true | kv :: r => wf_value (snd kv) && go r end) kvs
  | VArr vs => (fix go (l : list value) : bool :=
                  match l with [] => true | x :: r => wf_value x && go r end) vs
  | _ => true
  end.

Definition known_len (c : acoll) : nat :=
  match max_opt (map fst (known c)) with Some l => S l | None => 0 end.

(* every known entry has some defined state *)
Definition all_defined {K} (c : coll_ K kind) : bool :=
  forallb (fun kv => contains_any_defined (snd kv)) (known c).

(* every known entry other than `key` may be missing *)
Definition others_optional {K} (keqb : K -> K -> bool) (c : coll_ K kind) (key : K) : bool :=
  forallb (fun kv => keqb (fst kv) key || p_undefined (prims_of (snd kv))) (known c).

(* unknown positions below i that would be padded while hole filling is skipped (index i is known) *)
Definition pads_ok (c : acoll) (i : nat) : bool :=
  forallb (fun j => ahas Nat.eqb (known c) j || p_null (prims_of (unknown_kind c))) (seq 0 i).

(* the array [null; ..; null; x] of length i+1 built from nothing fits c's known entries *)
Definition idx_fresh_ok (c : acoll) (i : nat) : bool :=
  forallb (fun kv => if Nat.ltb (fst kv) i then p_null (prims_of (snd kv))
                     else if Nat.ltb i (fst kv) then p_undefined (prims_of (snd kv)) else true) (known c)
  && (if ahas Nat.eqb (known c) i then pads_ok c i else true).

(* padding an existing array up to index i: optional known elements below i must admit null *)
Definition idx_pad_ok (c : acoll) (i : nat) : bool :=
  forallb (fun kv => if Nat.ltb (fst kv) i
                     then implb (p_undefined (prims_of (snd kv))) (p_null (prims_of (snd kv))) else true) (known c)
  && match aget Nat.eqb (known c) i with
     | Some ki => if p_undefined (prims_of ki) then pads_ok c i else true
     | None => true
     end.

(* `ins_ok fresh k p`: Kind::insert at p is sound for a slot typed k.  fresh = the slot is vacant (so
   the value-level insert builds the containers from nothing); otherwise it holds a member of k.
   Excluded (each a known finding): coercion of a non-container while the kind's container has required
   entries; padding over optional known elements that do not admit null; negative indices unless the
   kind is exactly one array of known length that the index stays inside. *)
Fixpoint ins_ok (fresh : bool) (k : kind) (p : path) {struct p} : bool :=
  match p with
  | [] => true
  | SField f :: p' =>
      let c := match obj_of k with Some c => c | None => coll_empty end in
      let cur := coll_at bytes_eqb c f in
      if fresh || negb (is_some (obj_of k)) then others_optional bytes_eqb c f && ins_ok true cur p'
      else ins_ok false cur p'
           && (if is_exact k && negb (p_undefined (prims_of cur)) then true else ins_ok true cur p')
           && (is_exact k || others_optional bytes_eqb c f)
  | SIndex i :: p' =>
      let c := match arr_of k with Some c => c | None => coll_empty end in
      if (i <? 0)%Z then
        negb fresh && is_exact k && is_some (arr_of k) && all_required c && all_defined c
        && negb (contains_any_defined (unknown_kind c)) && Nat.leb (Z.to_nat (- i)) (known_len c)
        && ins_ok false (coll_at Nat.eqb c (known_len c - Z.to_nat (- i))) p'
      else
        let idx := Z.to_nat i in
        let cur := coll_at Nat.eqb c idx in
        if fresh || negb (is_some (arr_of k)) then idx_fresh_ok c idx && ins_ok true cur p'
        else idx_pad_ok c idx && ins_ok false cur p'
             && (if is_exact k && negb (p_undefined (prims_of cur)) then true else ins_ok true cur p')
             && (is_exact k || idx_fresh_ok c idx)
  end.

(* ---------- remove ---------- *)

(* Collection::merge(removed, original, false) as performed by CompactOptions::Maybe *)
Definition maybe_ok_o (c : ocoll) (f : bytes) : bool :=
  let c1 := match aget bytes_eqb (known c) f with
            | Some child => set_known c (aset bytes_cmp (known c) f child)
            | None => c
            end in
  ccompat bytes_eqb union_compat (remove_known_o c1 f) c1.
Definition maybe_ok_a (c : acoll) (idx : nat) : bool :=
  let c1 := match aget Nat.eqb (known c) idx with
            | Some child => set_known c (aset Nat.compare (known c) idx child)
            | None => c
            end in
  ccompat Nat.eqb union_compat (remove_shift c1 idx) c1.

(* remove_shift moves only the entry at idx+1: it is right only if nothing is known beyond idx+1 *)
Definition shift_ok (c : acoll) (idx : nat) : bool :=
  forallb (fun kv => Nat.leb (fst kv) (S idx)) (known c).

(* the index a segment designates in an array typed c, when the kind determines it *)
Definition rm_index (c : acoll) (i : Z) : option (option nat) :=   (* None = outside the domain *)
  if (0 <=? i)%Z then Some (Some (Z.to_nat i))
  else if contains_any_defined (unknown_kind c) then None
  else if all_required c && all_defined c then
         Some (if Nat.leb (Z.to_nat (- i)) (known_len c) then Some (known_len c - Z.to_nat (- i)) else None)
       else None.

(* `rm_ok k p`: Kind::remove(p, compact) is sound for a value typed k when compact is false or p has
   at most one segment.  Excluded (known findings): an index removal with more than one known element
   behind it (remove_shift), removal inside an element/field that is not known (the modification is
   discarded), negative indices into arrays of unknown length or with optional elements. *)
Fixpoint rm_ok (k : kind) (p : path) {struct p} : bool :=
  if is_never k then true else
  match p with
  | [] => true
  | SField f :: p' =>
      match obj_of k with
      | None => true
      | Some c =>
          match p' with
          | [] => maybe_ok_o c f
          | _ :: _ =>
              match aget bytes_eqb (known c) f with
              | Some child => rm_ok child p'
              | None => negb (contains_any_defined (unknown_kind c))
              end
          end
      end
  | SIndex i :: p' =>
      match arr_of k with
      | None => true
      | Some c =>
          match rm_index c i with
          | None => false
          | Some None => true
          | Some (Some idx) =>
              match p' with
              | [] => shift_ok c idx && maybe_ok_a c idx
              | _ :: _ =>
                  match aget Nat.eqb (known c) idx with
                  | Some child => rm_ok child p'
                  | None => negb (contains_any_defined (unknown_kind c))
                  end
              end
          end
      end
  end.

Definition remove_ok (k : kind) (p : path) (cpt : bool) : bool :=
  (negb cpt || Nat.leb (length p) 1) && rm_ok k p.
