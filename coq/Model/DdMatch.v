(* Model of `match_datadog_query` (C31):
     src/datadog/search/field.rs        normalize_fields
     src/datadog/filter/resolver.rs     Resolver::build_fields (default)
     src/datadog/filter/matcher.rs      QueryNode::build_matcher, not / any / all, Matcher for bool
     src/datadog/filter/filter.rs       Filter::range (default method, via compare / exists)
     src/datadog/filter/regex.rs        word_regex, wildcard_regex
     src/stdlib/match_datadog_query.rs  VrlFilter {exists, equals, prefix, wildcard, compare},
                                        resolve_value, lookup_field, string_value
     src/path/jit.rs                    parse_value_path, for dotted paths of plain field names
     src/value/value/display.rs         Display for Value (string_value of a non-bytes value)
   Two layers: the implementation (build a `matcher` closure tree once, `run` it on an event) and the
   specification `sem` (a direct evaluator of the query on the event).  Definitions only.

   Library behaviour that is not modelled and is passed in instead:
     fdisp  : f64 Display (Rust's shortest round-trip decimal text)
     tsdisp : Display of a timestamp value (t'<rfc3339>')
   The regex crate is modelled only for the two pattern shapes the code builds (escaped literal
   text with `*` -> `.*`, anchored `^..$` or between two `\b`); bytes >= 0x80 count as word bytes
   (exact for ASCII text and for non-ASCII letters; Unicode punctuation is outside the model).
   Bytes values are assumed to be valid UTF-8 (String::from_utf8_lossy = identity). *)
From Coq Require Import List NArith ZArith Bool String Ascii.
From Coq Require Import Floats.SpecFloat.
From VRL Require Import Base.Bytes Base.Value Base.Lit Model.ValueCrud Model.DdNode.
Import ListNotations.

(* ---------- search/field.rs ---------- *)

Inductive field :=
| FDefault (s : bytes)
| FReserved (s : bytes)
| FAttribute (s : bytes)
| FTag (s : bytes).

Definition DEFAULT_FIELD : bytes := bs "_default_".

Definition DEFAULT_FIELDS : list bytes :=
  [bs "message"; bs "custom.error.message"; bs "custom.error.stack"; bs "custom.title"; bs "_default_"].

Definition RESERVED_ATTRIBUTES : list bytes :=
  [bs "host"; bs "source"; bs "status"; bs "service"; bs "trace_id"; bs "message"; bs "timestamp"; bs "tags"].

Definition mem_bytes (x : bytes) (l : list bytes) : bool := existsb (bytes_eqb x) l.

(* value.replace('@', ".") *)
Definition replace_at (s : bytes) : bytes := map (fun c => if (c =? 64)%N then 46%N else c) s.

Definition starts_with_at (s : bytes) : bool :=
  match s with c :: _ => (c =? 64)%N | [] => false end.

Definition normalize_fields (attr : bytes) : list field :=
  if bytes_eqb attr DEFAULT_FIELD then map FDefault DEFAULT_FIELDS
  else
    let v := replace_at attr in
    [ if starts_with_at attr then FAttribute v
      else if mem_bytes v DEFAULT_FIELDS then FDefault v
      else if mem_bytes v RESERVED_ATTRIBUTES then FReserved v
      else FTag v ].

(* ---------- path/jit.rs, restricted to `.a.b-c` style paths ---------- *)

Inductive ppres :=
| PPOk (p : path)
| PPInvalid          (* BorrowedSegment::Invalid -> PathParseError *)
| PPUnmodelled.      (* an index segment or a quoted segment: outside this model *)

(* 'A'..='Z' | 'a'..='z' | '_' | '0'..='9' | '@' | '-' *)
Definition is_field_char (c : N) : bool :=
  ((65 <=? c) && (c <=? 90) || (97 <=? c) && (c <=? 122) || (c =? 95) || (48 <=? c) && (c <=? 57)
   || (c =? 64) || (c =? 45))%N.

Inductive jstate := JStart | JEventRoot | JDot | JField (acc : bytes).

Fixpoint jit (st : jstate) (s : bytes) (done : path) : ppres :=
  match s with
  | [] =>
      match st with
      | JStart | JDot => PPInvalid
      | JEventRoot => PPOk (rev done)
      | JField acc => PPOk (rev (SField (rev acc) :: done))
      end
  | c :: r =>
      match st with
      | JStart =>
          if (c =? 46)%N then jit JEventRoot r done
          else if is_field_char c then jit (JField [c]) r done
          else if ((c =? 91) || (c =? 34))%N then PPUnmodelled
          else PPInvalid
      | JEventRoot | JDot =>
          if is_field_char c then jit (JField [c]) r done
          else if ((c =? 91) || (c =? 34))%N then PPUnmodelled
          else PPInvalid
      | JField acc =>
          if is_field_char c then jit (JField (c :: acc)) r done
          else if (c =? 46)%N then jit JDot r (SField (rev acc) :: done)
          else if (c =? 91)%N then PPUnmodelled
          else PPInvalid
      end
  end.

Definition parse_value_path (s : bytes) : ppres := jit JStart s [].

(* lookup_field *)
Definition lookup_field (f : field) : ppres :=
  match f with
  | FDefault p | FReserved p | FAttribute p => parse_value_path p
  | FTag _ => PPOk [SField (bs "tags")]
  end.

(* ---------- decimal text of an i64 ---------- *)

Fixpoint pos_digits (fuel : nat) (n : Z) (acc : bytes) : bytes :=
  match fuel with
  | O => acc
  | S f =>
      let acc' := (Z.to_N (n mod 10) + 48)%N :: acc in
      let q := (n / 10)%Z in
      if (q =? 0)%Z then acc' else pos_digits f q acc'
  end.

Definition dec_of_Z (z : Z) : bytes :=
  if (z <? 0)%Z then 45%N :: pos_digits (S (Z.to_nat (Z.log2 (- z)))) (- z) []
  else pos_digits (S (Z.to_nat (Z.log2 z))) z [].

(* ---------- small string helpers ---------- *)

Fixpoint starts_with (s p : bytes) {struct p} : bool :=
  match p with
  | [] => true
  | c :: p' => match s with x :: s' => (x =? c)%N && starts_with s' p' | [] => false end
  end.

(* str::split_once(':') *)
Fixpoint split_once_colon (s : bytes) : option (bytes * bytes) :=
  match s with
  | [] => None
  | c :: r =>
      if (c =? 58)%N then Some ([], r)
      else match split_once_colon r with
           | Some (a, b) => Some (c :: a, b)
           | None => None
           end
  end.

(* ---------- comparisons ---------- *)

Definition zcmp (op : cmpop) (a b : Z) : bool :=
  match op with
  | Lt => (a <? b)%Z | Lte => (a <=? b)%Z | Gt => (b <? a)%Z | Gte => (b <=? a)%Z
  end.

Definition fcmp (op : cmpop) (a b : spec_float) : bool :=
  match op with
  | Lt => SFltb a b | Lte => SFleb a b | Gt => SFltb b a | Gte => SFleb b a
  end.

(* Ord on str = bytewise lexicographic *)
Definition scmp (op : cmpop) (a b : bytes) : bool :=
  match op, bytes_cmp a b with
  | Lt, Datatypes.Lt => true
  | Lte, (Datatypes.Lt | Datatypes.Eq) => true
  | Gt, Datatypes.Gt => true
  | Gte, (Datatypes.Gt | Datatypes.Eq) => true
  | _, _ => false
  end.

(* `x as f64` for an i64: round to nearest, ties to even *)
Definition f64_of_Z (z : Z) : spec_float := binary_normalize prec emax z 0 false.

(* ---------- filter/regex.rs ---------- *)

Inductive pitem := PLit (c : N) | PStar.

(* regex::escape(s).replace("\\*", ".*"): every `*` is `.*`, every other byte is itself *)
Definition pat_of (s : bytes) : list pitem := map (fun c => if (c =? 42)%N then PStar else PLit c) s.

(* ^pat$ ; `.` does not match "\n" *)
Fixpoint glob (p : list pitem) (s : bytes) {struct p} : bool :=
  match p with
  | [] => match s with [] => true | _ => false end
  | PLit c :: p' => match s with x :: s' => (x =? c)%N && glob p' s' | [] => false end
  | PStar :: p' =>
      (fix star (s : bytes) : bool :=
         glob p' s || match s with x :: s' => negb (x =? 10)%N && star s' | [] => false end) s
  end.

(* \w, byte-wise *)
Definition is_word (c : N) : bool :=
  ((48 <=? c) && (c <=? 57) || (65 <=? c) && (c <=? 90) || (97 <=? c) && (c <=? 122) || (c =? 95) || (128 <=? c))%N.

Definition is_word_opt (c : option N) : bool := match c with Some x => is_word x | None => false end.

(* \b between the previous byte and the rest *)
Definition wb (prev : option N) (s : bytes) : bool := xorb (is_word_opt prev) (is_word_opt (hd_error s)).

(* pat\b matched at the current position; prev = the byte before it *)
Fixpoint wglob (p : list pitem) (prev : option N) (s : bytes) {struct p} : bool :=
  match p with
  | [] => wb prev s
  | PLit c :: p' => match s with x :: s' => (x =? c)%N && wglob p' (Some x) s' | [] => false end
  | PStar :: p' =>
      (fix star (prev : option N) (s : bytes) : bool :=
         wglob p' prev s || match s with x :: s' => negb (x =? 10)%N && star (Some x) s' | [] => false end) prev s
  end.

(* Regex::is_match of \bpat\b : some start position *)
Fixpoint wsearch (p : list pitem) (prev : option N) (s : bytes) {struct s} : bool :=
  (wb prev s && wglob p prev s) || match s with x :: s' => wsearch p (Some x) s' | [] => false end.

Definition word_match (p : list pitem) (s : bytes) : bool := wsearch p None s.

(* ---------- the matcher closures ---------- *)

(* closure run on the value found at the looked-up path (the `match_fn` of resolve_value) *)
Inductive vm :=
| VmTrue                                  (* Box::new(true) *)
| VmTagExists (tag : bytes)               (* exists, Field::Tag *)
| VmTagsSelf                              (* exists, Field::Reserved("tags"): v.iter().any(|v| v == value) *)
| VmWordBytes (p : list pitem)            (* equals, Field::Default: Bytes only *)
| VmArrContains (x : value)               (* equals, Reserved("tags") and Tag *)
| VmStrEq (s : bytes)                     (* equals, others *)
| VmWordStr (p : list pitem)              (* prefix / wildcard, Field::Default *)
| VmArrAnyPrefix (s : bytes)              (* prefix, Tag *)
| VmStrPrefix (s : bytes)                 (* prefix, others *)
| VmArrAnyWild (p : list pitem)           (* wildcard, Tag *)
| VmStrWild (p : list pitem)              (* wildcard, others *)
| VmCmpAttr (op : cmpop) (cv : cval)      (* compare, Field::Attribute *)
| VmCmpTag (op : cmpop) (rhs : bytes)     (* compare, Field::Tag *)
| VmCmpStr (op : cmpop) (rhs : bytes).    (* compare, others *)

Inductive matcher :=
| MConst (b : bool)                        (* impl Matcher for bool *)
| MResolve (p : path) (inner : vm)         (* resolve_value(buf, match_fn) *)
| MNot (m : matcher)                       (* not() *)
| MAny (ms : list matcher)                 (* any() *)
| MAll (ms : list matcher)                 (* all() *)
| MBoth (a b : matcher).                   (* Filter::range: lower_func.run(v) && upper_func.run(v) *)

Inductive bres (A : Type) :=
| BOk (a : A)
| BErr               (* PathParseError: the function call fails to compile ("failed to build matcher") *)
| BUnmodelled.
Arguments BOk {A} a.
Arguments BErr {A}.
Arguments BUnmodelled {A}.

(* iter.map(f).collect::<Result<Vec<_>, _>>() *)
Fixpoint collect {A B} (f : A -> bres B) (l : list A) : bres (list B) :=
  match l with
  | [] => BOk []
  | x :: r =>
      match f x with
      | BOk y => match collect f r with BOk ys => BOk (y :: ys) | BErr => BErr | BUnmodelled => BUnmodelled end
      | BErr => BErr
      | BUnmodelled => BUnmodelled
      end
  end.

Definition with_path (f : field) (k : path -> vm) : bres matcher :=
  match lookup_field f with
  | PPOk p => BOk (MResolve p (k p))
  | PPInvalid => BErr
  | PPUnmodelled => BUnmodelled
  end.

Definition TAGS : bytes := bs "tags".

Section Disp.
  Variable fdisp : spec_float -> bytes.
  Variable tsdisp : Z -> bytes.

  (* ---------- value/display.rs ---------- *)

  (* .replace('\\', r"\\").replace('"', r#"\""#).replace('\n', r"\n") *)
  Fixpoint esc_bytes (b : bytes) : bytes :=
    match b with
    | [] => []
    | c :: r =>
        if (c =? 92)%N then 92%N :: 92%N :: esc_bytes r
        else if (c =? 34)%N then 92%N :: 34%N :: esc_bytes r
        else if (c =? 10)%N then 92%N :: 110%N :: esc_bytes r
        else c :: esc_bytes r
    end.

  Fixpoint display (v : value) : bytes :=
    match v with
    | VBytes b => 34%N :: esc_bytes b ++ [34%N]
    | VRegex s => bs "r'" ++ s ++ bs "'"
    | VInt z => dec_of_Z z
    | VFloat f => fdisp f
    | VBool b => if b then bs "true" else bs "false"
    | VTs n => tsdisp n
    | VObj kvs =>
        bs "{ " ++
        (fix go (l : list (bytes * value)) : bytes :=
           match l with
           | [] => []
           | (k, x) :: r =>
               (34%N :: k ++ bs """: " ++ display x) ++ match r with [] => [] | _ :: _ => bs ", " ++ go r end
           end) kvs
        ++ bs " }"
    | VArr vs =>
        91%N ::
        (fix go (l : list value) : bytes :=
           match l with
           | [] => []
           | x :: r => display x ++ match r with [] => [] | _ :: _ => bs ", " ++ go r end
           end) vs
        ++ [93%N]
    | VNull => bs "null"
    end.

  (* match_datadog_query.rs string_value *)
  Definition string_value (v : value) : bytes :=
    match v with
    | VBytes b => b
    | _ => display v
    end.

  (* ComparisonValue Display (comparison_value.to_string()) *)
  Definition cval_display (c : cval) : bytes :=
    match c with
    | CStr s => s
    | CInt z => dec_of_Z z
    | CFloat f => fdisp f
    | CUnb => [42%N]
    end.

  (* ---------- running the closures ---------- *)

  Definition run_vm (m : vm) (v : value) : bool :=
    match m with
    | VmTrue => true
    | VmTagExists tag =>
        match v with
        | VArr vs => existsb (fun x => let s := string_value x in
                                       bytes_eqb s tag || starts_with s (tag ++ [58%N])) vs
        | _ => false
        end
    | VmTagsSelf =>
        match v with
        | VArr vs => existsb (fun x => value_eqb x v) vs
        | _ => false
        end
    | VmWordBytes p =>
        match v with
        | VBytes b => word_match p b
        | _ => false
        end
    | VmArrContains x =>
        match v with
        | VArr vs => existsb (fun y => value_eqb y x) vs
        | _ => false
        end
    | VmStrEq s => bytes_eqb (string_value v) s
    | VmWordStr p => word_match p (string_value v)
    | VmArrAnyPrefix s =>
        match v with
        | VArr vs => existsb (fun x => starts_with (string_value x) s) vs
        | _ => false
        end
    | VmStrPrefix s => starts_with (string_value v) s
    | VmArrAnyWild p =>
        match v with
        | VArr vs => existsb (fun x => glob p (string_value x)) vs
        | _ => false
        end
    | VmStrWild p => glob p (string_value v)
    | VmCmpAttr op cv =>
        match v, cv with
        | VInt l, CInt r => zcmp op l r
        | VInt l, CFloat r => fcmp op (f64_of_Z l) r
        | VFloat l, CFloat r => fcmp op l r
        | VFloat l, CInt r => fcmp op l (f64_of_Z r)
        | _, CStr r => scmp op (string_value v) r
        | _, _ => scmp op (string_value v) (cval_display cv)
        end
    | VmCmpTag op rhs =>
        match v with
        | VArr vs => existsb (fun x => match split_once_colon (string_value x) with
                                       | Some (_, lhs) => scmp op lhs rhs
                                       | None => false
                                       end) vs
        | _ => false
        end
    | VmCmpStr op rhs => scmp op (string_value v) rhs
    end.

  Fixpoint run (m : matcher) (e : value) {struct m} : bool :=
    match m with
    | MConst b => b
    | MResolve p inner => match get e p with Some v => run_vm inner v | None => false end
    | MNot m' => negb (run m' e)
    | MAny ms => (fix go (l : list matcher) : bool :=
                    match l with [] => false | x :: r => run x e || go r end) ms
    | MAll ms => (fix go (l : list matcher) : bool :=
                    match l with [] => true | x :: r => run x e && go r end) ms
    | MBoth a b => run a e && run b e
    end.

  (* ---------- VrlFilter (impl Filter<Value>) ---------- *)

  Definition f_exists (f : field) : bres matcher :=
    with_path f (fun _ =>
      match f with
      | FTag tag => VmTagExists tag
      | FReserved r => if bytes_eqb r TAGS then VmTagsSelf else VmTrue
      | _ => VmTrue
      end).

  Definition f_equals (f : field) (to_match : bytes) : bres matcher :=
    with_path f (fun _ =>
      match f with
      | FDefault _ => VmWordBytes (pat_of to_match)
      | FReserved r => if bytes_eqb r TAGS then VmArrContains (VBytes to_match) else VmStrEq to_match
      | FTag tag => VmArrContains (VBytes (tag ++ 58%N :: to_match))
      | FAttribute _ => VmStrEq to_match
      end).

  Definition f_prefix (f : field) (prefix : bytes) : bres matcher :=
    with_path f (fun _ =>
      match f with
      | FDefault _ => VmWordStr (pat_of (prefix ++ [42%N]))
      | FTag tag => VmArrAnyPrefix (tag ++ 58%N :: prefix)
      | _ => VmStrPrefix prefix
      end).

  Definition f_wildcard (f : field) (wildcard : bytes) : bres matcher :=
    with_path f (fun _ =>
      match f with
      | FDefault _ => VmWordStr (pat_of wildcard)
      | FTag tag => VmArrAnyWild (pat_of (tag ++ 58%N :: wildcard))
      | _ => VmStrWild (pat_of wildcard)
      end).

  Definition f_compare (f : field) (op : cmpop) (cv : cval) : bres matcher :=
    with_path f (fun _ =>
      match f with
      | FAttribute _ => VmCmpAttr op cv
      | FTag _ => VmCmpTag op (cval_display cv)
      | _ => VmCmpStr op (cval_display cv)
      end).

  (* filter.rs: the default Filter::range *)
  Definition lower_op (li : bool) : cmpop := if li then Gte else Gt.
  Definition upper_op (ui : bool) : cmpop := if ui then Lte else Lt.

  Definition f_range (f : field) (lo : cval) (li : bool) (hi : cval) (ui : bool) : bres matcher :=
    match lo, hi with
    | CUnb, CUnb => f_exists f
    | CUnb, _ => f_compare f (upper_op ui) hi
    | _, CUnb => f_compare f (lower_op li) lo
    | _, _ =>
        match f_compare f (lower_op li) lo with
        | BOk a => match f_compare f (upper_op ui) hi with
                   | BOk b => BOk (MBoth a b)
                   | BErr => BErr
                   | BUnmodelled => BUnmodelled
                   end
        | BErr => BErr
        | BUnmodelled => BUnmodelled
        end
    end.

  (* ---------- matcher.rs: QueryNode::build_matcher ---------- *)

  Definition bmap {A B} (g : A -> B) (r : bres A) : bres B :=
    match r with BOk a => BOk (g a) | BErr => BErr | BUnmodelled => BUnmodelled end.

  Fixpoint build_matcher (n : node) : bres matcher :=
    match n with
    | NNone => BOk (MConst false)
    | NAll => BOk (MConst true)
    | NExists attr => bmap MAny (collect f_exists (normalize_fields attr))
    | NMissing attr => bmap MAll (collect (fun f => bmap MNot (f_exists f)) (normalize_fields attr))
    | NTerm attr v | NQuoted attr v => bmap MAny (collect (fun f => f_equals f v) (normalize_fields attr))
    | NPrefix attr v => bmap MAny (collect (fun f => f_prefix f v) (normalize_fields attr))
    | NWild attr v => bmap MAny (collect (fun f => f_wildcard f v) (normalize_fields attr))
    | NCmp attr op v => bmap MAny (collect (fun f => f_compare f op v) (normalize_fields attr))
    | NRange attr lo li hi ui => bmap MAny (collect (fun f => f_range f lo li hi ui) (normalize_fields attr))
    | NNot m => bmap MNot (build_matcher m)
    | NBool op ns =>
        bmap (match op with BAnd => MAll | BOr => MAny end)
             ((fix go (l : list node) : bres (list matcher) :=
                 match l with
                 | [] => BOk []
                 | x :: r =>
                     match build_matcher x with
                     | BOk y => match go r with BOk ys => BOk (y :: ys) | BErr => BErr | BUnmodelled => BUnmodelled end
                     | BErr => BErr
                     | BUnmodelled => BUnmodelled
                     end
                 end) ns)
    end.

  (* the function call: compile (build) once, then resolve on the event *)
  Inductive mres := MRBool (b : bool) | MRCompileError | MRUnmodelled.

  Definition match_datadog_query (n : node) (e : value) : mres :=
    match build_matcher n with
    | BOk m => MRBool (run m e)
    | BErr => MRCompileError
    | BUnmodelled => MRUnmodelled
    end.

  (* ================= the specification: a direct evaluator ================= *)

  (* the value a field addresses in the event *)
  Definition addressed (e : value) (f : field) : option value :=
    match lookup_field f with
    | PPOk p => get e p
    | _ => None
    end.

  Definition on_addr (e : value) (f : field) (k : value -> bool) : bool :=
    match addressed e f with Some v => k v | None => false end.

  Definition arr_any (k : value -> bool) (v : value) : bool :=
    match v with VArr vs => existsb k vs | _ => false end.

  (* the tag strings "key:value" / "key" of the element *)
  Definition tag_has_key (tag : bytes) (x : value) : bool :=
    let s := string_value x in bytes_eqb s tag || starts_with s (tag ++ [58%N]).

  Definition s_exists (e : value) (f : field) : bool :=
    match f with
    | FTag tag => on_addr e f (arr_any (tag_has_key tag))
    | _ => match addressed e f with Some _ => true | None => false end
    end.

  Definition s_equals (v : bytes) (e : value) (f : field) : bool :=
    match f with
    | FDefault _ => on_addr e f (fun x => match x with VBytes b => word_match (pat_of v) b | _ => false end)
    | FReserved r =>
        if bytes_eqb r TAGS then on_addr e f (arr_any (fun y => value_eqb y (VBytes v)))
        else on_addr e f (fun x => bytes_eqb (string_value x) v)
    | FTag tag => on_addr e f (arr_any (fun y => value_eqb y (VBytes (tag ++ 58%N :: v))))
    | FAttribute _ => on_addr e f (fun x => bytes_eqb (string_value x) v)
    end.

  Definition s_prefix (v : bytes) (e : value) (f : field) : bool :=
    match f with
    | FDefault _ => on_addr e f (fun x => word_match (pat_of (v ++ [42%N])) (string_value x))
    | FTag tag => on_addr e f (arr_any (fun y => starts_with (string_value y) (tag ++ 58%N :: v)))
    | _ => on_addr e f (fun x => starts_with (string_value x) v)
    end.

  Definition s_wildcard (v : bytes) (e : value) (f : field) : bool :=
    match f with
    | FDefault _ => on_addr e f (fun x => word_match (pat_of v) (string_value x))
    | FTag tag => on_addr e f (arr_any (fun y => glob (pat_of (tag ++ 58%N :: v)) (string_value y)))
    | _ => on_addr e f (fun x => glob (pat_of v) (string_value x))
    end.

  Definition num_or_str_cmp (op : cmpop) (cv : cval) (x : value) : bool :=
    match x, cv with
    | VInt l, CInt r => zcmp op l r
    | VInt l, CFloat r => fcmp op (f64_of_Z l) r
    | VFloat l, CFloat r => fcmp op l r
    | VFloat l, CInt r => fcmp op l (f64_of_Z r)
    | _, _ => scmp op (string_value x) (cval_display cv)
    end.

  (* a tag comparison is judged on the values of the tags carrying the addressed key *)
  Definition tag_value_cmp (tag : bytes) (op : cmpop) (rhs : bytes) (y : value) : bool :=
    match split_once_colon (string_value y) with
    | Some (k, lhs) => bytes_eqb k tag && scmp op lhs rhs
    | None => false
    end.

  Definition s_compare (op : cmpop) (cv : cval) (e : value) (f : field) : bool :=
    match f with
    | FAttribute _ => on_addr e f (num_or_str_cmp op cv)
    | FTag tag => on_addr e f (arr_any (tag_value_cmp tag op (cval_display cv)))
    | _ => on_addr e f (fun x => scmp op (string_value x) (cval_display cv))
    end.

  Definition s_range (lo : cval) (li : bool) (hi : cval) (ui : bool) (e : value) (f : field) : bool :=
    match lo, hi with
    | CUnb, CUnb => s_exists e f
    | CUnb, _ => s_compare (upper_op ui) hi e f
    | _, CUnb => s_compare (lower_op li) lo e f
    | _, _ => s_compare (lower_op li) lo e f && s_compare (upper_op ui) hi e f
    end.

  Fixpoint sem (n : node) (e : value) {struct n} : bool :=
    match n with
    | NAll => true
    | NNone => false
    | NExists a => existsb (s_exists e) (normalize_fields a)
    | NMissing a => forallb (fun f => negb (s_exists e f)) (normalize_fields a)
    | NTerm a v | NQuoted a v => existsb (s_equals v e) (normalize_fields a)
    | NPrefix a v => existsb (s_prefix v e) (normalize_fields a)
    | NWild a v => existsb (s_wildcard v e) (normalize_fields a)
    | NCmp a op cv => existsb (s_compare op cv e) (normalize_fields a)
    | NRange a lo li hi ui => existsb (s_range lo li hi ui e) (normalize_fields a)
    | NNot m => negb (sem m e)
    | NBool BAnd ns => (fix go (l : list node) : bool :=
                          match l with [] => true | x :: r => sem x e && go r end) ns
    | NBool BOr ns => (fix go (l : list node) : bool :=
                         match l with [] => false | x :: r => sem x e || go r end) ns
    end.

  (* every attribute of the query names a path of the modelled syntax *)
  Definition field_ok (f : field) : bool :=
    match lookup_field f with PPOk _ => true | _ => false end.

  Fixpoint wf_node (n : node) : bool :=
    match n with
    | NAll | NNone => true
    | NExists a | NMissing a | NTerm a _ | NQuoted a _ | NPrefix a _ | NWild a _ | NCmp a _ _
    | NRange a _ _ _ _ => forallb field_ok (normalize_fields a)
    | NNot m => wf_node m
    | NBool _ ns => (fix go (l : list node) : bool :=
                       match l with [] => true | x :: r => wf_node x && go r end) ns
    end.

  (* ---------- where the implementation departs from `sem` (the two recorded findings) ---------- *)

  Definition is_tags_field (f : field) : bool :=
    match f with FReserved r => bytes_eqb r TAGS | _ => false end.
  Definition is_tag_field (f : field) : bool :=
    match f with FTag _ => true | _ => false end.
  Definition tag_of (f : field) : bytes :=
    match f with FTag t | FDefault t | FReserved t | FAttribute t => t end.

  (* C31-exists-tags: existence of the reserved attribute `tags` (also `tags:[* TO *]`) when the event
     has a `tags` attribute *)
  Definition known_tags_exists_leaf (e : value) (n : node) : bool :=
    match n with
    | NExists a | NMissing a | NRange a CUnb _ CUnb _ =>
        existsb (fun f => is_tags_field f && s_exists e f) (normalize_fields a)
    | _ => false
    end.

  (* C31-tagcmp-key: a comparison / range on a tag, and the event's `tags` array holds a
     "key:value" element with a different key *)
  Definition foreign_tag (tag : bytes) (y : value) : bool :=
    match split_once_colon (string_value y) with
    | Some (k, _) => negb (bytes_eqb k tag)
    | None => false
    end.

  Definition has_foreign_tag (e : value) (f : field) : bool :=
    is_tag_field f && on_addr e f (arr_any (foreign_tag (tag_of f))).

  Definition known_tagcmp_leaf (e : value) (n : node) : bool :=
    match n with
    | NRange a CUnb _ CUnb _ => false
    | NCmp a _ _ | NRange a _ _ _ _ => existsb (has_foreign_tag e) (normalize_fields a)
    | _ => false
    end.

  Fixpoint known (e : value) (n : node) : bool :=
    match n with
    | NNot m => known e m
    | NBool _ ns => (fix go (l : list node) : bool :=
                       match l with [] => false | x :: r => known e x || go r end) ns
    | _ => known_tags_exists_leaf e n || known_tagcmp_leaf e n
    end.
End Disp.

(* ---------- f64 Display for the floats the correspondence run generates ---------- *)
(* Exact for finite floats m * 2^e with e >= -8 (the decimal expansion is finite and short), which for
   |x| < 2^40 or so is also the shortest round-trip text Rust prints (integral values print without a
   fraction: 1.0 -> "1").  Not a model of Display in general: theorems quantify over fdisp. *)

Fixpoint frac_digits (fuel : nat) (num den : Z) : bytes :=
  match fuel with
  | O => []
  | S f =>
      if (num =? 0)%Z then []
      else let d := (num * 10 / den)%Z in
           (Z.to_N d + 48)%N :: frac_digits f (num * 10 - d * den)%Z den
  end.

Definition fdisp_simple (f : spec_float) : bytes :=
  match f with
  | S754_zero s => if s then bs "-0" else bs "0"
  | S754_infinity s => if s then bs "-inf" else bs "inf"
  | S754_nan => bs "NaN"
  | S754_finite s m e =>
      let sign := if s then [45%N] else [] in
      if (0 <=? e)%Z then sign ++ dec_of_Z (Zpos m * 2 ^ e)
      else
        let den := (2 ^ (- e))%Z in
        let ip := (Zpos m / den)%Z in
        let fp := (Zpos m mod den)%Z in
        sign ++ dec_of_Z ip ++
        (if (fp =? 0)%Z then [] else 46%N :: frac_digits (Z.to_nat (- e)) fp den)
  end.

Definition tsdisp_none (_ : Z) : bytes := [].
