(* Model of the binary operators of VRL on runtime values:
     src/compiler/value/arithmetic.rs  (impl VrlValueArithmetic for Value: try_mul, try_div, try_add, try_sub,
                                        try_rem, try_gt, try_ge, try_lt, try_le, eq_lossy, float_result)
     src/compiler/value/convert.rs     (try_into_f64, try_bytes, try_timestamp)
     src/compiler/expression/op.rs     (Op::resolve: which method each opcode calls; `!=` = not eq_lossy)
     src/stdlib/mod_func.rs            (mod(value, modulus) = value.try_rem(modulus))
   Definitions only.  Conventions:
     i64            : Z, every integer carried by a well-formed value is in [-2^63, 2^63); the wrapping_*
                      operations are the exact operation followed by wrap64;
     f64            : SpecFloat.spec_float, binary64 = precision 53, emax 1024, round to nearest even;
                      `i as f64` = binary_normalize 53 1024 i 0 false;
     NotNan<f64>    : a float carried by a value is never NaN; float_result turns NaN into an error;
     f64 `%`        : C fmod, exact; written on (mantissa, exponent) pairs (sf_rem);
     Bytes          : list N compared lexicographically (bytes_cmp); DateTime<Utc>: nanoseconds, Z;
     ValueError     : only its class (divide by zero / NaN / any of the type errors) is kept. *)
From Coq Require Import List NArith ZArith Bool.
From Coq Require Import Floats.SpecFloat.
From VRL Require Import Base.Bytes Base.Value.
Import ListNotations.
Local Open Scope Z_scope.

(* ---------- i64 ---------- *)

Definition two63 : Z := 9223372036854775808.
Definition two64 : Z := 18446744073709551616.

Definition in_i64 (z : Z) : Prop := - two63 <= z < two63.
Definition in_i64b (z : Z) : bool := (- two63 <=? z) && (z <? two63).

(* two's-complement wrap-around of an exact result into i64 *)
Definition wrap64 (z : Z) : Z := (z + two63) mod two64 - two63.

(* i64::wrapping_rem: `if rhs == -1 { 0 } else { self % rhs }` (the special case avoids the overflow of
   MIN % -1); `%` on i64 truncates towards zero (sign of the dividend) = Z.rem.  rhs <> 0 is the caller's
   guard. *)
Definition wrapping_rem (a b : Z) : Z := if b =? -1 then 0 else Z.rem a b.

(* ---------- f64 ---------- *)

Notation fprec := 53%Z (only parsing).
Notation femax := 1024%Z (only parsing).

Definition f_add := SFadd fprec femax.
Definition f_sub := SFsub fprec femax.
Definition f_mul := SFmul fprec femax.
Definition f_div := SFdiv fprec femax.

(* `i as f64`: round to nearest, ties to even *)
Definition of_i64 (z : Z) : spec_float := binary_normalize fprec femax z 0 false.

Definition f_is_nan (f : spec_float) : bool := match f with S754_nan => true | _ => false end.
(* `f == 0.0` *)
Definition f_is_zero (f : spec_float) : bool := match f with S754_zero _ => true | _ => false end.

(* f64 comparison operators (IEEE: every comparison with NaN is false; -0 == +0) *)
Definition f_eq (a b : spec_float) : bool := SFeqb a b.
Definition f_lt (a b : spec_float) : bool := SFltb a b.
Definition f_le (a b : spec_float) : bool := SFleb a b.
Definition f_gt (a b : spec_float) : bool := SFltb b a.
Definition f_ge (a b : spec_float) : bool := SFleb b a.

(* Rust `x % y` on f64 (fmod): exact remainder of the truncating division, sign of the dividend.
   Finite operands: both are scaled to the common exponent e = min ex ey (the gap is below 2100 for binary64),
   the remainder of the two integers is exact and has at most as many bits as the smaller operand, so
   binary_normalize does not round. *)
Definition sf_rem (x y : spec_float) : spec_float :=
  match x, y with
  | S754_nan, _ => S754_nan
  | _, S754_nan => S754_nan
  | S754_infinity _, _ => S754_nan
  | _, S754_zero _ => S754_nan
  | _, S754_infinity _ => x
  | S754_zero _, _ => x
  | S754_finite sx mx ex, S754_finite _ my ey =>
      let e := Z.min ex ey in
      let X := Zpos mx * 2 ^ (ex - e) in
      let Y := Zpos my * 2 ^ (ey - e) in
      binary_normalize fprec femax (cond_Zopp sx (X mod Y)) e sx
  end.

(* ---------- outcomes ---------- *)

Inductive err :=
| EDivZero      (* ValueError::DivideByZero *)
| ENan          (* ValueError::NanFloat *)
| EType.        (* Add/Sub/Mul/Div/Rem/Gt/Ge/Lt/Le(kind, kind), Expected{..}: operand kinds not supported *)

Inductive outcome := Ok (v : value) | Err (e : err).

(* fn float_result(value: f64) -> Result<Value, ValueError> *)
Definition float_result (f : spec_float) : outcome :=
  if f_is_nan f then Err ENan else Ok (VFloat f).

(* ---------- byte strings ---------- *)

(* `let as_usize = |num| if num < 0 { 0 } else { num as usize }` *)
Definition as_usize (n : Z) : Z := if n <? 0 then 0 else n.

(* [u8]::repeat(n).  Repeating the empty string does not depend on n (and must not iterate n times). *)
Definition bytes_repeat (s : bytes) (n : Z) : bytes :=
  match s with
  | [] => []
  | _ => concat (repeat s (Z.to_nat n))
  end.

(* ---------- arithmetic (arithmetic.rs, arm by arm) ---------- *)

Definition try_mul (x y : value) : outcome :=
  match x, y with
  | VInt a, VBytes s => Ok (VBytes (bytes_repeat s (as_usize a)))
  | VInt a, VFloat g => float_result (f_mul (of_i64 a) g)
  | VInt a, VInt b => Ok (VInt (wrap64 (a * b)))
  | VFloat f, VInt b => float_result (f_mul f (of_i64 b))
  | VFloat f, VFloat g => float_result (f_mul f g)
  | VBytes s, VInt b => Ok (VBytes (bytes_repeat s (as_usize b)))
  | _, _ => Err EType
  end.

Definition try_div (x y : value) : outcome :=
  match x, y with
  | _, VInt 0 => Err EDivZero
  | _, VFloat g =>
      if f_is_zero g then Err EDivZero
      else match x with
           | VInt a => float_result (f_div (of_i64 a) g)
           | VFloat f => float_result (f_div f g)
           | _ => Err EType
           end
  | VInt a, VInt b => float_result (f_div (of_i64 a) (of_i64 b))
  | VFloat f, VInt b => float_result (f_div f (of_i64 b))
  | _, _ => Err EType
  end.

Definition try_add (x y : value) : outcome :=
  match x, y with
  | VInt a, VInt b => Ok (VInt (wrap64 (a + b)))
  | VInt a, VFloat g => float_result (f_add (of_i64 a) g)
  | VFloat f, VInt b => float_result (f_add f (of_i64 b))
  | VFloat f, VFloat g => float_result (f_add f g)
  | VBytes s, VNull => Ok (VBytes s)
  | VBytes s, VBytes t => Ok (VBytes (s ++ t))
  | VNull, VBytes t => Ok (VBytes t)
  | _, _ => Err EType
  end.

Definition try_sub (x y : value) : outcome :=
  match x, y with
  | VInt a, VInt b => Ok (VInt (wrap64 (a - b)))
  | VInt a, VFloat g => float_result (f_sub (of_i64 a) g)
  | VFloat f, VInt b => float_result (f_sub f (of_i64 b))
  | VFloat f, VFloat g => float_result (f_sub f g)
  | _, _ => Err EType
  end.

Definition try_rem (x y : value) : outcome :=
  match x, y with
  | _, VInt 0 => Err EDivZero
  | _, VFloat g =>
      if f_is_zero g then Err EDivZero
      else match x with
           | VInt a => float_result (sf_rem (of_i64 a) g)
           | VFloat f => float_result (sf_rem f g)
           | _ => Err EType
           end
  | VInt a, VInt b => Ok (VInt (wrapping_rem a b))
  | VFloat f, VInt b => float_result (sf_rem f (of_i64 b))
  | _, _ => Err EType
  end.

(* ---------- ordering ---------- *)

Inductive cmp_op := CGt | CGe | CLt | CLe.

Definition z_cmp (o : cmp_op) (a b : Z) : bool :=
  match o with CGt => a >? b | CGe => a >=? b | CLt => a <? b | CLe => a <=? b end.

Definition f_cmp (o : cmp_op) (a b : spec_float) : bool :=
  match o with CGt => f_gt a b | CGe => f_ge a b | CLt => f_lt a b | CLe => f_le a b end.

(* Ord on Bytes = lexicographic order of the byte slices *)
Definition b_cmp (o : cmp_op) (a b : bytes) : bool :=
  match o, bytes_cmp a b with
  | CGt, Gt => true
  | CGe, (Gt | Eq) => true
  | CLt, Lt => true
  | CLe, (Lt | Eq) => true
  | _, _ => false
  end.

(* try_gt / try_ge / try_lt / try_le share one shape (they differ in the comparison and in the error
   variant, which is abstracted to EType) *)
Definition try_cmp (o : cmp_op) (x y : value) : outcome :=
  match x, y with
  | VInt a, VInt b => Ok (VBool (z_cmp o a b))
  | VInt a, VFloat g => Ok (VBool (f_cmp o (of_i64 a) g))
  | VFloat f, VInt b => Ok (VBool (f_cmp o f (of_i64 b)))
  | VFloat f, VFloat g => Ok (VBool (f_cmp o f g))
  | VBytes s, VBytes t => Ok (VBool (b_cmp o s t))          (* rhs.try_bytes()? *)
  | VBytes _, _ => Err EType
  | VTs s, VTs t => Ok (VBool (z_cmp o s t))                (* rhs.try_timestamp()? *)
  | VTs _, _ => Err EType
  | _, _ => Err EType
  end.

Definition try_gt := try_cmp CGt.
Definition try_ge := try_cmp CGe.
Definition try_lt := try_cmp CLt.
Definition try_le := try_cmp CLe.

(* ---------- equality ---------- *)

(* #[derive(PartialEq)] on Value: component-wise; NotNan<f64> compares the f64s (so 0.0 == -0.0), a regex
   compares by its source text, BTreeMap/Vec compare length and elements in order. *)
Fixpoint value_eq (a b : value) {struct a} : bool :=
  match a, b with
  | VBytes x, VBytes y => bytes_eqb x y
  | VRegex x, VRegex y => bytes_eqb x y
  | VInt x, VInt y => Z.eqb x y
  | VFloat x, VFloat y => f_eq x y
  | VBool x, VBool y => Bool.eqb x y
  | VTs x, VTs y => Z.eqb x y
  | VObj x, VObj y =>
      (fix go (l1 l2 : list (bytes * value)) {struct l1} : bool :=
         match l1, l2 with
         | [], [] => true
         | (k1, v1) :: r1, (k2, v2) :: r2 => bytes_eqb k1 k2 && value_eq v1 v2 && go r1 r2
         | _, _ => false
         end) x y
  | VArr x, VArr y =>
      (fix go (l1 l2 : list value) {struct l1} : bool :=
         match l1, l2 with
         | [], [] => true
         | v1 :: r1, v2 :: r2 => value_eq v1 v2 && go r1 r2
         | _, _ => false
         end) x y
  | VNull, VNull => true
  | _, _ => false
  end.

(* VrlValueConvert::try_into_f64 *)
Definition try_into_f64 (v : value) : option spec_float :=
  match v with
  | VInt a => Some (of_i64 a)
  | VFloat f => Some f
  | _ => None
  end.

(* eq_lossy: two integers are compared exactly as i64 (repaired by /repo 7355ec6; before, both went through f64);
   otherwise a number on the left is compared as f64 with whatever number is on the right (an integer is
   converted first); everything else is Value's PartialEq *)
Definition eq_lossy (x y : value) : bool :=
  match x with
  | VInt a =>
      match y with
      | VInt b => a =? b
      | _ => match try_into_f64 y with Some g => f_eq (of_i64 a) g | None => false end
      end
  | VFloat f => match try_into_f64 y with Some g => f_eq f g | None => false end
  | _ => value_eq x y
  end.

(* ---------- Op::resolve, operands already resolved; `ORem` is the stdlib function mod ---------- *)

Inductive opcode := OMul | ODiv | OAdd | OSub | OEq | ONe | OGt | OGe | OLt | OLe | ORem.

Definition binop (o : opcode) (x y : value) : outcome :=
  match o with
  | OMul => try_mul x y
  | ODiv => try_div x y
  | OAdd => try_add x y
  | OSub => try_sub x y
  | OEq => Ok (VBool (eq_lossy x y))
  | ONe => Ok (VBool (negb (eq_lossy x y)))
  | OGt => try_gt x y
  | OGe => try_ge x y
  | OLt => try_lt x y
  | OLe => try_le x y
  | ORem => try_rem x y
  end.

(* ---------- well-formed operands: what a `Value` can hold ---------- *)

(* a binary64 datum in the canonical representation used by Base/Lit.v (f64_of_bits) and produced by the
   SpecFloat operations *)
Definition wf_float (f : spec_float) : bool :=
  match f with
  | S754_nan => false
  | f => valid_binary fprec femax f
  end.

Fixpoint wf_value (v : value) : bool :=
  match v with
  | VInt z => in_i64b z
  | VFloat f => wf_float f
  | VObj kvs => forallb (fun kv => wf_value (snd kv)) kvs
  | VArr vs => forallb wf_value vs
  | _ => true
  end.

(* ---------- specification-side helpers (used by the statements and by the oracles, not by the model) ---------- *)

(* the two zeros identified, everywhere inside a value *)
Definition f_norm0 (f : spec_float) : spec_float :=
  match f with S754_zero _ => S754_zero false | f => f end.

Fixpoint norm_zero (v : value) : value :=
  match v with
  | VFloat f => VFloat (f_norm0 f)
  | VObj kvs => VObj (map (fun kv => (fst kv, norm_zero (snd kv))) kvs)
  | VArr vs => VArr (map norm_zero vs)
  | v => v
  end.

(* no NaN anywhere inside a value (the NotNan invariant) *)
Fixpoint no_nan (v : value) : bool :=
  match v with
  | VFloat f => negb (f_is_nan f)
  | VObj kvs => forallb (fun kv => no_nan (snd kv)) kvs
  | VArr vs => forallb no_nan vs
  | _ => true
  end.

Definition is_number (v : value) : bool :=
  match v with VInt _ | VFloat _ => true | _ => false end.

(* the class of integer pairs on which `==` was wrong before /repo 7355ec6 (finding C10-int-eq-lossy, fixed):
   different integers whose conversions to f64 coincide.  Only used to state that the class is now handled. *)
Definition known_int_eq (a b : Z) : bool := negb (a =? b) && f_eq (of_i64 a) (of_i64 b).

Definition exactly_one (a b c : bool) : bool :=
  (a && negb b && negb c) || (negb a && b && negb c) || (negb a && negb b && c).

(* The six comparison operators answer on (x, y) and are mutually consistent: exactly one of <, ==, > holds,
   != is the negation of ==, <= is (< or ==), >= is (> or ==). *)
Definition cmp_consistent (x y : value) : Prop :=
  exists lt eq gt : bool,
    binop OLt x y = Ok (VBool lt) /\ binop OEq x y = Ok (VBool eq) /\ binop OGt x y = Ok (VBool gt)
    /\ exactly_one lt eq gt = true
    /\ binop ONe x y = Ok (VBool (negb eq))
    /\ binop OLe x y = Ok (VBool (lt || eq))
    /\ binop OGe x y = Ok (VBool (gt || eq)).

(* `== 0` on a divisor *)
Definition divisor_is_zero (y : value) : bool :=
  match y with
  | VInt 0 => true
  | VFloat g => f_is_zero g
  | _ => false
  end.

(* without float zeros inside, norm_zero is the identity: plain structural equality *)
Fixpoint no_float_zero (v : value) : bool :=
  match v with
  | VFloat f => negb (f_is_zero f)
  | VObj kvs => forallb (fun kv => no_float_zero (snd kv)) kvs
  | VArr vs => forallb no_float_zero vs
  | _ => true
  end.

(* the f64 a number is computed with *)
Definition to_f (v : value) : spec_float :=
  match v with VInt a => of_i64 a | VFloat f => f | _ => S754_nan end.

(* ordering is only defined inside one comparable kind (or between numbers) *)
Definition orderable (x y : value) : bool :=
  match x, y with
  | (VInt _ | VFloat _), (VInt _ | VFloat _) => true
  | VBytes _, VBytes _ => true
  | VTs _, VTs _ => true
  | _, _ => false
  end.
