(* C24 — model of encode_csv / parse_csv (src/stdlib/encode_csv.rs, parse_csv.rs) over bytes.
   Definitions only.

   Writer = csv 1.3.1 `Writer::write_record` on csv-core 0.1.13 `Writer` as configured by
   `WriterBuilder::new().has_headers(false).delimiter(d)`: QuoteStyle::Necessary, quote = 34, double_quote,
   terminator Any(LF) => requires_quotes = {d, 34, CR, LF}; one record; a record that produced no byte at all
   (a single empty field) is written as two quotes; encode_csv pops the final LF; the empty list is "".
   Reader = csv-core `Reader` NFA (transition_nfa / transition_final_nfa; the DFA the crate runs by default is
   compiled from it) as configured by `ReaderBuilder::new().has_headers(false).delimiter(d)`: quoting,
   double_quote, no escape, no comment, Terminator::CRLF (CR or LF ends a record), plus `strip_utf8_bom` on
   the first read.  parse_csv returns the first record (`into_byte_records().next()`), or [] when there is none. *)
From Coq Require Import List NArith Bool.
Import ListNotations.
Local Open Scope N_scope.

Definition bstr := list N.

Definition b_lf : N := 10.  Definition b_cr : N := 13.  Definition b_q : N := 34.

(* ---------------------------------------------------------------- writer *)
Definition special (d b : N) : bool := (b =? d) || (b =? b_q) || (b =? b_cr) || (b =? b_lf).
Definition needs_quotes (d : N) (f : bstr) : bool := existsb (special d) f.

(* csv_core::writer::quote with double_quote = true *)
Definition quote_body (f : bstr) : bstr := flat_map (fun b => if b =? b_q then [b_q; b_q] else [b]) f.

(* Writer::field (+ the closing quote that delimiter()/terminator() write) *)
Definition write_field (d : N) (f : bstr) : bstr :=
  if needs_quotes d f then b_q :: quote_body f ++ [b_q] else f.

Fixpoint write_fields (d : N) (fs : list bstr) : bstr :=
  match fs with
  | [] => []
  | [f] => write_field d f
  | f :: r => write_field d f ++ d :: write_fields d r
  end.

(* write_record then `result.pop()`; terminator(): record_bytes == 0 => two quotes *)
Definition encode_csv (d : N) (fs : list bstr) : bstr :=
  match fs with
  | [] => []                                   (* value_array.is_empty() => "" *)
  | _ => let body := write_fields d fs in
         match body with [] => [b_q; b_q] | _ => body end
  end.

(* ---------------------------------------------------------------- reader *)
Definition is_term (b : N) : bool := (b =? b_cr) || (b =? b_lf).       (* Terminator::CRLF.equals *)

Inductive rstate := StartRecord | StartField | InField | InQuotedField | InDoubleEscapedQuote.

(* One record.  `cur` = bytes of the current field (reversed), `acc` = finished fields (reversed).
   Returns None when the input holds no record (End).  The epsilon states (EndFieldDelim, EndFieldTerm,
   InRecordTerm, EndRecord) are folded into their successors. *)
Fixpoint read_record (d : N) (st : rstate) (cur : bstr) (acc : list bstr) (input : bstr) : option (list bstr) :=
  let finish := Some (rev (rev cur :: acc)) in
  match input with
  | [] =>
      (* transition_final_nfa *)
      match st with
      | StartRecord => None
      | _ => finish
      end
  | c :: r =>
      match st with
      | StartRecord =>
          if is_term c then read_record d StartRecord cur acc r          (* Discard *)
          else (* epsilon to StartField *)
            if c =? b_q then read_record d InQuotedField cur acc r
            else if c =? d then read_record d StartField [] (rev cur :: acc) r
            else read_record d InField (c :: cur) acc r
      | StartField =>
          if c =? b_q then read_record d InQuotedField cur acc r
          else if c =? d then read_record d StartField [] (rev cur :: acc) r
          else if is_term c then finish
          else read_record d InField (c :: cur) acc r
      | InField =>
          if c =? d then read_record d StartField [] (rev cur :: acc) r
          else if is_term c then finish
          else read_record d InField (c :: cur) acc r
      | InQuotedField =>
          if c =? b_q then read_record d InDoubleEscapedQuote cur acc r
          else read_record d InQuotedField (c :: cur) acc r
      | InDoubleEscapedQuote =>
          if c =? b_q then read_record d InQuotedField (c :: cur) acc r
          else if c =? d then read_record d StartField [] (rev cur :: acc) r
          else if is_term c then finish
          else read_record d InField (c :: cur) acc r
      end
  end.

(* strip_utf8_bom: the first read drops a leading EF BB BF *)
Definition starts_with_bom (s : bstr) : bool :=
  match s with
  | a :: b :: c :: _ => (a =? 239) && (b =? 187) && (c =? 191)
  | _ => false
  end.

Definition strip_bom (s : bstr) : bstr := if starts_with_bom s then skipn 3 s else s.

Definition parse_csv (d : N) (s : bstr) : list bstr :=
  match read_record d StartRecord [] [] (strip_bom s) with
  | Some fs => fs
  | None => []                                   (* unwrap_or_default *)
  end.

(* ---------------------------------------------------------------- the class of the theorem *)
Definition good_delim (d : N) : bool := negb (d =? b_q) && negb (d =? b_cr) && negb (d =? b_lf).

(* the known class: the encoded text begins with EF BB BF (for an ASCII delimiter: the first field is left
   unquoted and begins with these bytes) *)
Definition known_bom (d : N) (fs : list bstr) : bool := starts_with_bom (encode_csv d fs).

(* ---------------------------------------------------------------- the VRL functions around them *)
(* encode_csv: the empty array returns "" before the delimiter is looked at; parse_single_byte_delimiter *)
Definition encode_csv_fn (fs : list bstr) (delim : bstr) : option bstr :=
  match fs with
  | [] => Some []
  | _ => match delim with [d] => Some (encode_csv d fs) | _ => None end
  end.

Definition parse_csv_fn (s : bstr) (delim : bstr) : option (list bstr) :=
  match delim with [d] => Some (parse_csv d s) | _ => None end.
