(* C32: Datadog grok rules (src/datadog/grok/{parse_grok_rules,parse_grok,grok_filter,grok}.rs) on a fragment.
   Definitions only.

   Pipeline modelled, in the order the Rust runs it:
     scan        GROK_PATTERN_RE.find_iter over the rule text: raw regex text | %{...} occurrences
     parse_pat   the %{MATCHER:FIELD:FILTER} grammar (lexer.rs + parser.lalrpop), fragment
     compile     resolve_grok_pattern / parse_alias (alias_stack cycle detection) / resolves_match_function
                 + the expansion of %{name:alias} by grok.rs against patterns/core.pattern
     run         matching of the anchored regular expression (?m)\A ... \z by a backtracking matcher with
                 Oniguruma's priorities (greedy: longest first, lazy: shortest first), named captures
     extract     apply_grok_rule: captures in name order, filters (grok_filter.rs), insertion at the field path

   Fragment ("outside" = the model answers GUnmodelled and the correspondence skips the case):
     regex text   : literal characters, written raw when alphanumeric / space / non-ASCII and as \c when c is ASCII
                    punctuation (what a user must write to match the character c itself);
     matchers     : word, integer, notSpace, data (core.pattern) and user aliases;
     filters      : integer, number and scale(k) on integer-valued text, lowercase, uppercase (ASCII), nullIf(string).
   Not modelled: Oniguruma beyond this fragment, the rest of the pattern library, regex/date/boolean matchers,
   array / keyvalue / json ... filters, non-ASCII case mapping. *)
From Coq Require Import List NArith ZArith Bool.
From VRL Require Import Base.Bytes Base.Value Model.ValueCrud Model.IntText.
Import ListNotations.
Local Open Scope list_scope.
Local Open Scope N_scope.

(* ---------- characters ---------- *)
Definition is_digit (c : N) : bool := (48 <=? c) && (c <=? 57).
Definition is_upper (c : N) : bool := (65 <=? c) && (c <=? 90).
Definition is_lower (c : N) : bool := (97 <=? c) && (c <=? 122).
Definition is_alnum (c : N) : bool := is_digit c || is_upper c || is_lower c.
(* ASCII punctuation: 33-47, 58-64, 91-96, 123-126 *)
Definition is_punct (c : N) : bool := (33 <=? c) && (c <=? 126) && negb (is_alnum c).
(* \w (ASCII part), \s (ASCII part: space, \t \n \v \f \r) *)
Definition is_word (c : N) : bool := is_alnum c || (c =? 95).
Definition is_space (c : N) : bool := (c =? 32) || ((9 <=? c) && (c <=? 13)).

Definition BSL : N := 92.   (* \ *)
Definition PCT : N := 37.   (* % *)
Definition LBR : N := 123.  (* { *)
Definition RBR : N := 125.  (* } *)
Definition QUO : N := 34.   (* double quote *)
Definition COL : N := 58.   (* : *)
Definition DOT : N := 46.   (* . *)
Definition LPA : N := 40.
Definition RPA : N := 41.

(* ---------- what the user writes for "exactly the text s" ---------- *)
Definition esc_char (c : N) : bytes := if is_punct c then [BSL; c] else [c].
Definition esc (s : bytes) : bytes := flat_map esc_char s.

(* ---------- scan: GROK_PATTERN_RE: "%{", then one or more of (a character other than a double quote or "}" | a
   double-quoted string), then "}" ---------- *)
Inductive tok := TChr (c : N) | TPat (inner : bytes).

(* the rest of a quoted string, up to and including the closing quote; a backslash inside is outside the fragment *)
Fixpoint scan_quoted (s : bytes) (acc : bytes) : option (option (bytes * bytes)) :=
  match s with
  | [] => Some None                                  (* unterminated: the alternative fails *)
  | c :: r =>
      if c =? BSL then None
      else if c =? QUO then Some (Some (rev (c :: acc), r))
      else scan_quoted r (c :: acc)
  end.

(* the inside of %{ ... }: returns (inner, rest after the closing brace) *)
Fixpoint scan_inner (fuel : nat) (s : bytes) (acc : bytes) : option (option (bytes * bytes)) :=
  match fuel with
  | O => None
  | S fuel' =>
      match s with
      | [] => Some None
      | c :: r =>
          if c =? RBR then Some (match acc with [] => None | _ => Some (rev acc, r) end)
          else if c =? BSL then None
          else if c =? QUO then
            match scan_quoted r [c] with
            | None => None
            | Some None => Some None
            | Some (Some (q, r')) => scan_inner fuel' r' (rev q ++ acc)
            end
          else scan_inner fuel' r (c :: acc)
      end
  end.

Fixpoint scan (fuel : nat) (s : bytes) : option (list tok) :=
  match fuel with
  | O => None
  | S fuel' =>
      match s with
      | [] => Some []
      | c :: r =>
          let plain := match scan fuel' r with Some ts => Some (TChr c :: ts) | None => None end in
          if c =? PCT then
            match r with
            | c2 :: r2 =>
                if c2 =? LBR then
                  match scan_inner (S (List.length r2)) r2 [] with
                  | None => None
                  | Some None => plain
                  | Some (Some (inner, rest)) =>
                      match scan fuel' rest with Some ts => Some (TPat inner :: ts) | None => None end
                  end
                else plain
            | [] => plain
            end
          else plain
      end
  end.

Definition scan_text (s : bytes) : option (list tok) := scan (S (List.length s)) s.

(* ---------- parse_pat: %{name}, %{name:field}, %{name:field:gfilter}, gfilter = f | f(int) | f(string) ---------- *)
Inductive gfilter :=
| FInteger | FNumber | FLower | FUpper
| FScale (k : Z)
| FNullIf (s : bytes).

Record pat := mkPat { p_name : bytes; p_dest : option (list bytes * option (bytes * option (Z + bytes))) }.

Definition is_ident_start (c : N) : bool := is_upper c || is_lower c || (c =? 95).
Definition is_ident_char (c : N) : bool := is_ident_start c || is_digit c.

Fixpoint span (f : N -> bool) (s : bytes) : bytes * bytes :=
  match s with
  | c :: r => if f c then let '(a, b) := span f r in (c :: a, b) else ([], s)
  | [] => ([], [])
  end.

Definition kw (s : bytes) : bool :=
  bytes_eqb s [116;114;117;101] || bytes_eqb s [102;97;108;115;101] || bytes_eqb s [110;117;108;108].

(* an identifier that is neither a keyword nor "extended" *)
Definition take_ident (s : bytes) : option (bytes * bytes) :=
  match s with
  | c :: _ =>
      if is_ident_start c then
        let '(a, b) := span is_ident_char s in
        if kw a then None else Some (a, b)
      else None
  | [] => None
  end.

(* ident ("." ident)* *)
Fixpoint take_dotted (fuel : nat) (s : bytes) : option (list bytes * bytes) :=
  match fuel with
  | O => None
  | S fuel' =>
      match take_ident s with
      | None => None
      | Some (a, r) =>
          match r with
          | c :: r' =>
              if c =? DOT then
                match take_dotted fuel' r' with
                | Some (l, r'') => Some (a :: l, r'')
                | None => None
                end
              else Some ([a], r)
          | [] => Some ([a], r)
          end
      end
  end.

Fixpoint dec_val (s : bytes) (acc : Z) : Z :=
  match s with
  | c :: r => dec_val r (acc * 10 + Z.of_N (c - 48))
  | [] => acc
  end.

Fixpoint join_dots (l : list bytes) : bytes :=
  match l with
  | [] => []
  | [a] => a
  | a :: r => a ++ DOT :: join_dots r
  end.

(* the argument list of a gfilter: ( digits ) or ( a double-quoted string without quotes or backslashes ) *)
Definition take_arg (s : bytes) : option (option (Z + bytes) * bytes) :=
  match s with
  | [] => Some (None, [])
  | c :: r =>
      if c =? LPA then
        match r with
        | d :: _ =>
            if is_digit d then
              let '(ds, r') := span is_digit r in
              if (List.length ds <=? 15)%nat then
                match r' with
                | e :: r'' => if e =? RPA then Some (Some (inl (dec_val ds 0)), r'') else None
                | [] => None
                end
              else None
            else if d =? QUO then
              let '(str, r') := span (fun x => negb (x =? QUO) && negb (x =? BSL)) (tl r) in
              match r' with
              | q :: e :: r'' => if (q =? QUO) && (e =? RPA) then Some (Some (inr str), r'') else None
              | _ => None
              end
            else None
        | [] => None
        end
      else None
  end.

Definition parse_pat (inner : bytes) : option pat :=
  match take_dotted (S (List.length inner)) inner with
  | None => None
  | Some (nm, r) =>
      let name := join_dots nm in
      match r with
      | [] => Some (mkPat name None)
      | c :: r1 =>
          if c =? COL then
            match r1 with
            | [] => Some (mkPat name None)                         (* "%{name:}" *)
            | _ =>
                match take_dotted (S (List.length r1)) r1 with
                | None => None
                | Some (fld, r2) =>
                    match r2 with
                    | [] => Some (mkPat name (Some (fld, None)))
                    | c2 :: r3 =>
                        if c2 =? COL then
                          match take_ident r3 with
                          | None => None
                          | Some (fn, r4) =>
                              match take_arg r4 with
                              | Some (arg, []) => Some (mkPat name (Some (fld, Some (fn, arg))))
                              | _ => None
                              end
                          end
                        else None
                    end
                end
            end
          else None
      end
  end.

(* ---------- the compiled rule ---------- *)
Inductive cls := KWord | KDigit | KNotSpace | KAny | KSign.

Definition in_cls (k : cls) (c : N) : bool :=
  match k with
  | KWord => is_word c
  | KDigit => is_digit c
  | KNotSpace => negb (is_space c)
  | KAny => true                                  (* (?m): the dot matches every character *)
  | KSign => (c =? 43) || (c =? 45)
  end.

Inductive piece :=
| PLit (c : N)
| POpt (k : cls)                                  (* k?  (greedy) *)
| PRep (k : cls) (min1 : bool) (greedy : bool)    (* k+ / k* / k*? *)
| PBnd                                            (* \b *)
| PGrp (cap : option nat) (ps : list piece).      (* (?:..) / (?<grokN>..) *)

(* patterns/core.pattern *)
Definition nm_word : bytes := [119;111;114;100].
Definition nm_integer : bytes := [105;110;116;101;103;101;114].
Definition nm_notSpace : bytes := [110;111;116;83;112;97;99;101].
Definition nm_data : bytes := [100;97;116;97].
Definition nm_number : bytes := [110;117;109;98;101;114].
Definition nm_lowercase : bytes := [108;111;119;101;114;99;97;115;101].
Definition nm_uppercase : bytes := [117;112;112;101;114;99;97;115;101].
Definition nm_scale : bytes := [115;99;97;108;101].
Definition nm_nullIf : bytes := [110;117;108;108;73;102].

(* integerExt numberExt json rubyhash querystring decodeuricomponent boolean xml array keyvalue *)
Definition other_filters : list bytes :=
  [[105;110;116;101;103;101;114;69;120;116]; [110;117;109;98;101;114;69;120;116]; [106;115;111;110];
   [114;117;98;121;104;97;115;104]; [113;117;101;114;121;115;116;114;105;110;103];
   [100;101;99;111;100;101;117;114;105;99;111;109;112;111;110;101;110;116]; [98;111;111;108;101;97;110];
   [120;109;108]; [97;114;114;97;121]; [107;101;121;118;97;108;117;101]].

Definition library (name : bytes) : option (list piece * option gfilter) :=
  if bytes_eqb name nm_word then Some ([PBnd; PRep KWord true true; PBnd], None)               (* \b\w+\b *)
  else if bytes_eqb name nm_integer then Some ([POpt KSign; PRep KDigit true true], Some FInteger)   (* integerStr [+-]?\d+ *)
  else if bytes_eqb name nm_notSpace then Some ([PRep KNotSpace true true], None)              (* \S+ *)
  else if bytes_eqb name nm_data then Some ([PRep KAny false false], None)                     (* .*? *)
  else None.

(* EFuel is not an error of the Rust: the model ran out of alias-expansion fuel (shown impossible in the proofs) *)
Inductive cerr := ECircular (first : bytes) | EUnknownFilter | EInvalidArgs | EInvalidExpr | EFuel.

(* compile result: Some (inl x) = compiled, Some (inr e) = the Rust rejects the rule, None = outside the fragment / out of fuel *)
Definition cres (A : Type) := option (A + cerr).

(* GrokFilter::try_from *)
Definition mk_filter (f : bytes * option (Z + bytes)) : cres gfilter :=
  let '(name, arg) := f in
  if bytes_eqb name nm_integer then Some (inl FInteger)
  else if bytes_eqb name nm_number then Some (inl FNumber)
  else if bytes_eqb name nm_lowercase then Some (inl FLower)
  else if bytes_eqb name nm_uppercase then Some (inl FUpper)
  else if bytes_eqb name nm_scale then
    match arg with
    | Some (inl k) => Some (inl (FScale k))
    | _ => Some (inr EInvalidArgs)
    end
  else if bytes_eqb name nm_nullIf then
    match arg with
    | Some (inr s) => Some (inl (FNullIf s))
    | _ => Some (inr EInvalidArgs)
    end
  else if existsb (bytes_eqb name) other_filters then None    (* known to the Rust, not modelled *)
  else Some (inr EUnknownFilter).

Record field := mkField { f_path : list bytes; f_filters : list gfilter }.

(* GrokRuleParseContext: regex (here: pieces, newest first), fields (capture number -> field), alias_stack *)
Record ctx := mkCtx { c_pieces : list piece; c_fields : list (nat * field); c_stack : list bytes }.

Fixpoint alias_get (al : list (bytes * bytes)) (k : bytes) : option bytes :=
  match al with
  | [] => None
  | (k', v) :: r => if bytes_eqb k k' then Some v else alias_get r k
  end.

Definition on_stack (st : list bytes) (k : bytes) : bool := existsb (bytes_eqb k) st.

(* register_filter: filters.insert(0, f) *)
Fixpoint add_filter (fs : list (nat * field)) (n : nat) (f : gfilter) : list (nat * field) :=
  match fs with
  | [] => []
  | (m, fd) :: r => if Nat.eqb m n then (m, mkField (f_path fd) (f :: f_filters fd)) :: r else (m, fd) :: add_filter r n f
  end.

Section Compile.
  Variable aliases : list (bytes * bytes).

  (* parse_grok_rule over already scanned text; `rec` compiles the (scanned) definition of an alias.
     Raw regex text of the fragment: literal characters, written raw (alphanumeric, space, non-ASCII) or as \c
     (c ASCII punctuation); an unescaped metacharacter is outside the fragment. *)
  Definition comp_toks (rec : list tok -> ctx -> cres ctx) : list tok -> ctx -> cres ctx :=
    fix go (ts : list tok) (cx : ctx) {struct ts} : cres ctx :=
      let push := fun (x : piece) => mkCtx (x :: c_pieces cx) (c_fields cx) (c_stack cx) in
      match ts with
      | [] => Some (inl cx)
      | TChr c :: r =>
          if c =? BSL then
            match r with
            | TChr d :: r' => if is_punct d then go r' (push (PLit d)) else None
            | _ => None
            end
          else if is_punct c then None
          else go r (push (PLit c))
      | TPat inner :: rest =>
          match parse_pat inner with
          | None => None
          | Some p =>
              (* resolve_grok_pattern *)
              let galias := match p_dest p with Some _ => Some (List.length (c_fields cx)) | None => None end in
              let reg : cres (list (nat * field)) :=
                match p_dest p with
                | Some (path, Some f) =>
                    match mk_filter f with
                    | Some (inl fl) => Some (inl (c_fields cx ++ [(List.length (c_fields cx), mkField path [fl])]))
                    | Some (inr e) => Some (inr e)
                    | None => None
                    end
                | Some (path, None) => Some (inl (c_fields cx ++ [(List.length (c_fields cx), mkField path [])]))
                | None => Some (inl (c_fields cx))
                end in
              match reg with
              | None => None
              | Some (inr e) => Some (inr e)
              | Some (inl fields1) =>
                  match alias_get aliases (p_name p) with
                  | Some def =>
                      (* parse_alias *)
                      if on_stack (c_stack cx) (p_name p) then
                        Some (inr (ECircular (last (c_stack cx) (p_name p))))
                      else
                        match scan_text def with
                        | None => None
                        | Some dts =>
                            match rec dts (mkCtx [] fields1 (p_name p :: c_stack cx)) with
                            | None => None
                            | Some (inr e) => Some (inr e)
                            | Some (inl cx') =>
                                let body := rev (c_pieces cx') in
                                let added := match galias with
                                             | Some g => [PGrp (Some g) body]
                                             | None => body
                                             end in
                                go rest (mkCtx (rev added ++ c_pieces cx) (c_fields cx') (c_stack cx))
                            end
                        end
                  | None =>
                      match library (p_name p) with
                      | None => None
                      | Some (ps, implicit) =>
                          let fields2 := match galias, implicit with
                                         | Some g, Some fl => add_filter fields1 g fl
                                         | _, _ => fields1
                                         end in
                          go rest (mkCtx (PGrp galias ps :: c_pieces cx) fields2 (c_stack cx))
                      end
                  end
              end
          end
      end.

  (* `fuel` bounds the depth of alias expansion *)
  Fixpoint comp (fuel : nat) : list tok -> ctx -> cres ctx :=
    match fuel with
    | O => comp_toks (fun _ _ => Some (inr EFuel))
    | S fuel' => comp_toks (comp fuel')
    end.
End Compile.

(* the stack is stored newest first; alias_stack.first() is the oldest entry *)

Definition compile_rule (aliases : list (bytes * bytes)) (rule : bytes) : cres (list piece * list (nat * field)) :=
  match scan_text rule with
  | None => None
  | Some ts =>
      match comp aliases (S (List.length aliases)) ts (mkCtx [] [] []) with
      | None => None
      | Some (inr e) => Some (inr e)
      | Some (inl cx) => Some (inl (rev (c_pieces cx), c_fields cx))
      end
  end.

(* ---------- matching: backtracking with Oniguruma's priorities ---------- *)

(* \b between the previous and the next character *)
Definition wordc (o : option N) : bool := match o with Some c => is_word c | None => false end.
Definition bnd (p n : option N) : bool := xorb (wordc p) (wordc n).

Definition hd_opt (s : bytes) : option N := match s with c :: _ => Some c | [] => None end.

(* one alternative of a match in progress: captures so far (newest first), previous character, remaining input *)
Definition alt := (list (nat * bytes) * option N * bytes)%type.

Fixpoint take_cls (k : cls) (s : bytes) : nat :=
  match s with
  | c :: r => if in_cls k c then S (take_cls k r) else O
  | [] => O
  end.

Fixpoint last_of (p : option N) (s : bytes) : option N :=
  match s with
  | [] => p
  | c :: r => last_of (Some c) r
  end.

(* lengths lo..hi in the order the engine tries them *)
Fixpoint down_from (hi lo : nat) : list nat :=
  match hi with
  | O => if Nat.eqb lo 0 then [O] else []
  | S h => if Nat.leb lo hi then hi :: (if Nat.eqb lo hi then [] else down_from h lo) else []
  end.

Definition lengths (greedy : bool) (lo hi : nat) : list nat :=
  if greedy then down_from hi lo else rev (down_from hi lo).

Fixpoint run_piece (x : piece) (caps : list (nat * bytes)) (p : option N) (s : bytes) {struct x} : list alt :=
  let run_list :=
    fix run_list (ps : list piece) (caps : list (nat * bytes)) (p : option N) (s : bytes) {struct ps} : list alt :=
      match ps with
      | [] => [(caps, p, s)]
      | y :: r => flat_map (fun a : alt => let '(c1, p1, s1) := a in run_list r c1 p1 s1) (run_piece y caps p s)
      end in
  match x with
  | PLit c => match s with d :: r => if d =? c then [(caps, Some d, r)] else [] | [] => [] end
  | POpt k =>
      match s with
      | d :: r => if in_cls k d then [(caps, Some d, r); (caps, p, s)] else [(caps, p, s)]
      | [] => [(caps, p, s)]
      end
  | PRep k min1 greedy =>
      map (fun n => (caps, last_of p (firstn n s), skipn n s))
          (lengths greedy (if min1 then 1%nat else 0%nat) (take_cls k s))
  | PBnd => if bnd p (hd_opt s) then [(caps, p, s)] else []
  | PGrp cap ps =>
      map (fun a : alt =>
             let '(c1, p1, s1) := a in
             match cap with
             | Some g => ((g, firstn (List.length s - List.length s1) s) :: c1, p1, s1)
             | None => (c1, p1, s1)
             end)
          (run_list ps caps p s)
  end.

Fixpoint run_list (ps : list piece) (caps : list (nat * bytes)) (p : option N) (s : bytes) {struct ps} : list alt :=
  match ps with
  | [] => [(caps, p, s)]
  | y :: r => flat_map (fun a : alt => let '(c1, p1, s1) := a in run_list r c1 p1 s1) (run_piece y caps p s)
  end.

(* (?m)\A ... \z : the first alternative, in priority order, that consumed the whole input *)
Definition match_rule (ps : list piece) (t : bytes) : option (list (nat * bytes)) :=
  match List.filter (fun a : alt => match snd a with [] => true | _ => false end) (run_list ps [] None t) with
  | a :: _ => Some (fst (fst a))
  | [] => None
  end.

(* ---------- the declarative reading: the text splits into consecutive parts, one per piece; cs lists the named
   groups met on the way with the part each of them matched (newest first, like the matcher) ---------- *)
Definition nextc (w2 : bytes) (n : option N) : option N := match w2 with c :: _ => Some c | [] => n end.

Fixpoint mpiece (x : piece) (p : option N) (w : bytes) (n : option N) (cs : list (nat * bytes)) {struct x} : Prop :=
  let mlist :=
    fix mlist (ps : list piece) (p : option N) (w : bytes) (n : option N) (cs : list (nat * bytes)) {struct ps} : Prop :=
      match ps with
      | [] => w = [] /\ cs = []
      | y :: r => exists w1 w2 c1 c2, w = w1 ++ w2 /\ cs = c2 ++ c1 /\ mpiece y p w1 (nextc w2 n) c1
                                      /\ mlist r (last_of p w1) w2 n c2
      end in
  match x with
  | PLit c => w = [c] /\ cs = []
  | POpt k => (w = [] \/ exists c, w = [c] /\ in_cls k c = true) /\ cs = []
  | PRep k min1 _ => forallb (in_cls k) w = true /\ (min1 = true -> w <> []) /\ cs = []
  | PBnd => w = [] /\ bnd p n = true /\ cs = []
  | PGrp cap ps => exists c0, mlist ps p w n c0 /\ cs = match cap with Some g => (g, w) :: c0 | None => c0 end
  end.

Fixpoint mlist (ps : list piece) (p : option N) (w : bytes) (n : option N) (cs : list (nat * bytes)) {struct ps} : Prop :=
  match ps with
  | [] => w = [] /\ cs = []
  | y :: r => exists w1 w2 c1 c2, w = w1 ++ w2 /\ cs = c2 ++ c1 /\ mpiece y p w1 (nextc w2 n) c1
                                  /\ mlist r (last_of p w1) w2 n c2
  end.

(* the anchored rule matches the whole text *)
Definition matches (ps : list piece) (t : bytes) : Prop := exists cs, mlist ps None t None cs.

(* ---------- filters (grok_filter.rs apply_filter), on the fragment ---------- *)
Inductive fres := FVal (v : value) | FDrop (* Null or a failed gfilter: the field is left out *) | FUnmodelled.

Definition to_lower (c : N) : N := if is_upper c then c + 32 else c.
Definition to_upper (c : N) : N := if is_lower c then c - 32 else c.
Definition is_ascii (s : bytes) : bool := forallb (fun c => c <? 128) s.

Definition TWO53 : Z := 9007199254740992%Z.
Definition small (z : Z) : bool := (Z.abs z <=? TWO53)%Z.
(* `scale_factor * 1000.0 / 1000.0` is the identity on these *)
Definition smallk (z : Z) : bool := (Z.abs z <=? 1000000000000)%Z.

(* [+-]?\d+ *)
Definition int_text (s : bytes) : bool :=
  match s with
  | c :: r => if (c =? 43) || (c =? 45) then negb (match r with [] => true | _ => false end) && forallb is_digit r
              else forallb is_digit s
  | [] => false
  end.

Definition int_of_text (s : bytes) : Z :=
  match s with
  | c :: r => if c =? 45 then (- dec_val r 0)%Z else if c =? 43 then dec_val r 0 else dec_val s 0
  | [] => 0%Z
  end.

(* certainly rejected by str::parse::<f64>: some character that no float literal contains, and not inf / infinity / nan *)
Definition float_char (c : N) : bool := is_digit c || (c =? 43) || (c =? 45) || (c =? 46) || (c =? 101) || (c =? 69).
Definition unsigned (s : bytes) : bytes :=
  match s with c :: r => if (c =? 43) || (c =? 45) then r else s | [] => s end.
Definition special_float (s : bytes) : bool :=
  let l := map to_lower (unsigned s) in
  bytes_eqb l [105;110;102] || bytes_eqb l [105;110;102;105;110;105;116;121] || bytes_eqb l [110;97;110].
Definition not_float (s : bytes) : bool := negb (forallb float_char s) && negb (special_float s).
(* texts that parse to NaN / to an infinity *)
Definition nan_text (s : bytes) : bool := bytes_eqb (map to_lower (unsigned s)) [110;97;110].
Definition inf_text (s : bytes) : bool :=
  let l := map to_lower (unsigned s) in bytes_eqb l [105;110;102] || bytes_eqb l [105;110;102;105;110;105;116;121].

Definition apply_filter (v : value) (f : gfilter) : fres :=
  match f, v with
  | FInteger, VBytes s => match from_str_radix s 10 with Some z => FVal (VInt z) | None => FDrop end
  | FInteger, _ => FDrop
  | FNumber, VBytes s =>
      (* parse::<f64>, then an integral float becomes an integer: exact when the text is a short integer *)
      if not_float s then FDrop
      else if int_text s && (List.length s <=? 15)%nat then FVal (VInt (int_of_text s)) else FUnmodelled
  | FNumber, _ => FDrop
  | FScale k, VBytes s =>
      if not_float s then FDrop
      else if nan_text s || (inf_text s && (k =? 0)%Z) then FDrop      (* the product is NaN: the filter fails *)
      else if int_text s && (List.length s <=? 15)%nat && smallk k && small (int_of_text s * k) then FVal (VInt (int_of_text s * k))
      else FUnmodelled
  | FScale k, VInt z =>
      if small z && smallk k && small (z * k) then FVal (VInt (z * k)) else FUnmodelled
  | FScale _, _ => FDrop
  | FLower, VBytes s => if is_ascii s then FVal (VBytes (map to_lower s)) else FUnmodelled
  | FUpper, VBytes s => if is_ascii s then FVal (VBytes (map to_upper s)) else FUnmodelled
  | FLower, _ | FUpper, _ => FDrop
  | FNullIf x, VBytes s => if bytes_eqb s x then FDrop else FVal v
  | FNullIf _, _ => FDrop
  end.

Fixpoint apply_filters (v : value) (fs : list gfilter) : fres :=
  match fs with
  | [] => FVal v
  | f :: r =>
      match apply_filter v f with
      | FVal v' => apply_filters v' r
      | other => other
      end
  end.

(* ---------- apply_grok_rule: captures in the order of their names ("grok10" < "grok2") ---------- *)
Fixpoint dec_digits (fuel : nat) (n : nat) (acc : bytes) : bytes :=
  match fuel with
  | O => acc
  | S f => let d := N.of_nat (Nat.modulo n 10) + 48 in
           if Nat.ltb n 10 then d :: acc else dec_digits f (Nat.div n 10) (d :: acc)
  end.
Definition cap_name (n : nat) : bytes := [103;114;111;107] ++ dec_digits (S n) n [].

Fixpoint ins_sorted (x : nat * bytes) (l : list (nat * bytes)) : list (nat * bytes) :=
  match l with
  | [] => [x]
  | y :: r => match bytes_cmp (cap_name (fst x)) (cap_name (fst y)) with
              | Gt => y :: ins_sorted x r
              | _ => x :: l
              end
  end.
Definition sort_caps (l : list (nat * bytes)) : list (nat * bytes) := fold_right ins_sorted [] l.

Fixpoint field_get (fs : list (nat * field)) (n : nat) : option field :=
  match fs with
  | [] => None
  | (m, fd) :: r => if Nat.eqb m n then Some fd else field_get r n
  end.

Definition to_path (l : list bytes) : path := map SField l.

Inductive gres := GOk (v : value) | GNoMatch | GErr (e : cerr) | GUnmodelled.

Fixpoint extract (fs : list (nat * field)) (caps : list (nat * bytes)) (acc : value) : option value :=
  match caps with
  | [] => Some acc
  | (g, s) :: r =>
      match s with
      | [] => extract fs r acc                                  (* an empty match is skipped *)
      | _ =>
          match field_get fs g with
          | None => None
          | Some fd =>
              match apply_filters (VBytes s) (f_filters fd) with
              | FUnmodelled => None
              | FDrop => extract fs r acc
              | FVal v =>
                  let p := to_path (f_path fd) in
                  let acc' :=
                    match get acc p with
                    | Some (VArr vs) => insert acc p (VArr (vs ++ [v]))
                    | Some old => insert acc p (VArr [old; v])
                    | None => insert acc p v
                    end in
                  extract fs r acc'
              end
          end
      end
  end.

Definition apply_rule (rule : list piece * list (nat * field)) (t : bytes) : option gres :=
  match match_rule (fst rule) t with
  | None => Some GNoMatch
  | Some caps =>
      match extract (snd rule) (sort_caps caps) (VObj []) with
      | Some v => Some (GOk v)
      | None => None
      end
  end.

(* parse_grok_rules (every non-empty pattern is compiled first) followed by parse_grok (first matching rule) *)
Fixpoint compile_all (aliases : list (bytes * bytes)) (rules : list bytes)
  : cres (list (list piece * list (nat * field))) :=
  match rules with
  | [] => Some (inl [])
  | r :: rest =>
      match r with
      | [] => compile_all aliases rest
      | _ =>
          match compile_rule aliases r with
          | None => None
          | Some (inr e) => Some (inr e)
          | Some (inl c) =>
              match compile_all aliases rest with
              | None => None
              | Some (inr e) => Some (inr e)
              | Some (inl cs) => Some (inl (c :: cs))
              end
          end
      end
  end.

Fixpoint first_match (cs : list (list piece * list (nat * field))) (t : bytes) : gres :=
  match cs with
  | [] => GNoMatch
  | c :: rest =>
      match apply_rule c t with
      | None => GUnmodelled
      | Some GNoMatch => first_match rest t
      | Some r => r
      end
  end.

Definition parse_groks (aliases : list (bytes * bytes)) (rules : list bytes) (t : bytes) : gres :=
  match compile_all aliases rules with
  | None => GUnmodelled
  | Some (inr e) => GErr e
  | Some (inl cs) => first_match cs t
  end.
