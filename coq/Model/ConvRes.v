(* Outcome type shared by the conversion-function models of C25 (one VRL stdlib call):
   ROk = Ok(value), RErr = the function returned Err(..) (any message), RPanic = the Rust panics
   (debug-build overflow check, expect/unwrap), RFuel = the fuelled loop of the model ran out of fuel
   (i.e. the Rust would not return; never produced on well-formed inputs, see the proofs).
   Plus ASCII string literals as byte lists. *)
From Coq Require Import List NArith ZArith Bool String Ascii.
From VRL Require Import Base.Bytes.
Import ListNotations.

Inductive res (A : Type) :=
| ROk (a : A)
| RErr
| RPanic
| RFuel.
Arguments ROk {A} a.
Arguments RErr {A}.
Arguments RPanic {A}.
Arguments RFuel {A}.

Definition res_bind {A B} (r : res A) (f : A -> res B) : res B :=
  match r with
  | ROk a => f a
  | RErr => RErr
  | RPanic => RPanic
  | RFuel => RFuel
  end.

Definition res_of_option {A} (o : option A) : res A :=
  match o with Some a => ROk a | None => RErr end.

Fixpoint ascii_bytes (s : string) : bytes :=
  match s with
  | EmptyString => []
  | String a r => N_of_ascii a :: ascii_bytes r
  end.

(* i64 *)
Definition i64_min : Z := - 2 ^ 63.
Definition i64_max : Z := 2 ^ 63 - 1.
Definition in_i64 (z : Z) : bool := ((i64_min <=? z) && (z <=? i64_max))%Z.
