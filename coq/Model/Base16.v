(* encode_base16 / decode_base16 (src/stdlib/{encode,decode}_base16.rs; crate base16 0.2.1).
     encode_base16(v) = base16::encode_lower(v)                       — infallible
     decode_base16(v) = base16::decode(from_utf8_lossy(v).to_string()) — error on odd length or a non-hex byte
   base16::decode accepts both cases of a..f.  The lossy UTF-8 conversion in front of the decoder is not
   modelled separately: it only rewrites invalid sequences (all of whose bytes are >= 0x80, hence non-hex)
   into EF BF BD (non-hex again), so the outcome — an error — is the same either way.
   Definitions only. *)
From Coq Require Import List NArith Bool.
From VRL Require Import Base.Bytes.
Import ListNotations.
Local Open Scope N_scope.

(* shared result shape of every modelled stdlib codec function: bytes, a VRL runtime error, or a panic
   that the VRL code lets through from a library (`.expect(..)`, `.unwrap()`, allocation) *)
Inductive res := ROk (b : bytes) | RErr | RPanic.

Definition res_eqb (a b : res) : bool :=
  match a, b with
  | ROk x, ROk y => bytes_eqb x y
  | RErr, RErr => true
  | RPanic, RPanic => true
  | _, _ => false
  end.

Definition of_option (o : option bytes) : res := match o with Some b => ROk b | None => RErr end.

Definition hex_lower (n : N) : N := if n <? 10 then 48 + n else 87 + n.     (* 0-9 a-f *)
Definition hex_upper (n : N) : N := if n <? 10 then 48 + n else 55 + n.     (* 0-9 A-F *)

(* char::to_digit(16) / base16's decode table: 0-9, a-f, A-F *)
Definition unhex (c : N) : option N :=
  if (48 <=? c) && (c <=? 57) then Some (c - 48)
  else if (97 <=? c) && (c <=? 102) then Some (c - 87)
  else if (65 <=? c) && (c <=? 70) then Some (c - 55)
  else None.

Definition is_hex (c : N) : bool := match unhex c with Some _ => true | None => false end.

Definition b16_encode (b : bytes) : bytes :=
  flat_map (fun x => [hex_lower (x / 16); hex_lower (x mod 16)]) b.

Fixpoint b16_decode (s : bytes) : option bytes :=
  match s with
  | [] => Some []
  | [_] => None                                   (* odd length *)
  | a :: b :: r =>
      match unhex a, unhex b, b16_decode r with
      | Some x, Some y, Some t => Some ((x * 16 + y) :: t)
      | _, _, _ => None                             (* invalid byte *)
      end
  end.

Definition encode_base16 (v : bytes) : res := ROk (b16_encode v).
Definition decode_base16 (v : bytes) : res := of_option (b16_decode v).
