(* Block paddings of the `block-padding` crate (0.4.2) for block size 16, as used through
   cipher::BlockModeEncrypt::encrypt_padded_vec / BlockModeDecrypt::decrypt_padded_vec by
   src/stdlib/encrypt.rs and decrypt.rs (names AES-*-CBC-{PKCS7,ANSIX923,ISO7816,ISO10126}).
   Definitions only.

   raw_pad(block, pos) fills block[pos..16]; pos = len mod 16 < 16, so a message whose length is an exact
   multiple of the block gets a whole extra block (encrypt_padded_vec allocates 1 + len/16 blocks).
   raw_unpad(block) looks at the last block only and returns how many of its bytes are data.

   ISO 10126 asks for random filler bytes; the crate writes the PKCS#7 bytes instead ("Instead of generating
   random bytes as specified by Iso10126 we simply use Pkcs7 padding") and its unpad never looks at them.  The
   filler is an explicit argument here; `crate_filler` is what the crate uses. *)
From Coq Require Import List NArith Bool Arith.
From VRL Require Import Base.Bytes.
Import ListNotations.

Inductive scheme := Pkcs7 | AnsiX923 | Iso7816 | Iso10126.

Definition scheme_eqb (a b : scheme) : bool :=
  match a, b with
  | Pkcs7, Pkcs7 | AnsiX923, AnsiX923 | Iso7816, Iso7816 | Iso10126, Iso10126 => true
  | _, _ => false
  end.

Definition bsz : nat := 16.

(* Padding::raw_pad on the tail block: `tail` are the pos = length tail < 16 data bytes of the last block *)
Definition pad_tail (s : scheme) (filler : bytes) (tail : bytes) : bytes :=
  let n := (bsz - length tail)%nat in                           (* 1..16 bytes to write *)
  match s with
  | Pkcs7 => tail ++ repeat (N.of_nat n) n                      (* block[pos..].fill(n) *)
  | AnsiX923 => tail ++ repeat 0%N (n - 1) ++ [N.of_nat n]      (* zeros, then the count *)
  | Iso7816 => tail ++ 128%N :: repeat 0%N (n - 1)              (* 0x80, then zeros *)
  | Iso10126 => tail ++ firstn (n - 1) (filler ++ repeat 0%N (n - 1)) ++ [N.of_nat n]
  end.

(* the filler the crate actually writes for ISO 10126 (Pkcs7::raw_pad) *)
Definition crate_filler (msg_len : nat) : bytes :=
  let n := (bsz - msg_len mod bsz)%nat in repeat (N.of_nat n) n.

(* Padding::pad_detached + the copy of the full blocks: the padded message *)
Definition pad (s : scheme) (filler : bytes) (m : bytes) : bytes :=
  let full := (length m - length m mod bsz)%nat in
  firstn full m ++ pad_tail s filler (skipn full m).

(* Iso7816::raw_unpad, walking the block from its end: zeros are skipped, 0x80 ends the data *)
Fixpoint scan7816 (r : bytes) : option nat :=
  match r with
  | [] => None
  | b :: r' => if N.eqb b 128 then Some (length r')
               else if N.eqb b 0 then scan7816 r' else None
  end.

(* Padding::raw_unpad on one block: Some (number of data bytes) or None (= Err(Error)).
   `rev block` = count byte first, then block[bs-2], block[bs-3], ...; the bytes block[s..bs-1] checked by
   Pkcs7 (strict) / AnsiX923 are the first n-1 of those. *)
Definition raw_unpad (s : scheme) (block : bytes) : option nat :=
  match s with
  | Iso7816 => scan7816 (rev block)
  | _ =>
      match rev block with
      | [] => None
      | nb :: rest =>
          if N.eqb nb 0 || N.ltb (N.of_nat (length block)) nb then None
          else
            let n := N.to_nat nb in
            let mid := firstn (n - 1) rest in
            let keep := (length block - n)%nat in
            match s with
            | Pkcs7 => if forallb (N.eqb nb) mid then Some keep else None
            | AnsiX923 => if forallb (N.eqb 0%N) mid then Some keep else None
            | _ => Some keep                                    (* Iso10126: Pkcs7::unpad(block, strict = false) *)
            end
      end
  end.

(* BlockModeDecrypt::decrypt_padded_inout after the block decryption + Padding::unpad_blocks:
   a tail that is not a whole block, or no block at all, is an error *)
Definition unpad (s : scheme) (data : bytes) : option bytes :=
  let len := length data in
  if negb (Nat.eqb (len mod bsz) 0) || Nat.eqb len 0 then None
  else match raw_unpad s (skipn (len - bsz) data) with
       | Some k => Some (firstn (len - bsz + k) data)
       | None => None
       end.

(* encrypt_padded_vec's result length: bs * (1 + len / bs) *)
Definition padded_len (len : nat) : nat := (bsz * (1 + len / bsz))%nat.
