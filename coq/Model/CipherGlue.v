(* Model of src/stdlib/encrypt.rs, decrypt.rs, encrypt_ip.rs, decrypt_ip.rs (+ ip_utils::to_key and
   ipcrypt_rs::common::{ip_to_bytes, bytes_to_ip}).  Definitions only.

   What is VRL's own code is modelled concretely: the three algorithm tables (the `match` of `encrypt`, the
   `match` of `decrypt`, `is_valid_algorithm` used by both `compile`s), the upper-casing of the algorithm name,
   the key / IV length checks and their order, which primitive + padding each name selects, the mapping of
   library errors (`Invalid input` for a CBC padding error and for an AEAD authentication error), the IP text <-> address <-> 16 bytes conversions and the mode / key checks of the IP functions.
   The library primitives are arguments (record `prims` / `ipprims`): the block cipher (E, D), the AEAD
   seal/open pairs, the two ipcrypt permutations.  Modes and paddings on top of the block cipher are
   Model/Modes.v and Model/Padding.v. *)
From Coq Require Import String.
From Coq Require Import List NArith ZArith Bool Arith.
From VRL Require Import Base.Bytes Model.ConvRes Model.Padding Model.Modes Model.Ip.
Import ListNotations.

(* ---------- algorithm names ---------- *)

Inductive ksize := K128 | K192 | K256.
Definition ksize_bytes (ks : ksize) : nat := match ks with K128 => 16 | K192 => 24 | K256 => 32 end.

Inductive aead := Siv128 | Siv256 | ChaCha | XChaCha | XSalsa.

Inductive prim :=
| PCfb (ks : ksize)                          (* encrypt! / decrypt! with cfb_mode::{Encryptor, Decryptor} *)
| POfb (ks : ksize)                          (* encrypt_keystream! with ofb::Ofb *)
| PCtr (fl : ctr_flavor) (ks : ksize)        (* encrypt_keystream! with ctr::Ctr64LE / Ctr64BE *)
| PCbc (ks : ksize) (s : scheme)             (* encrypt_padded! / decrypt_padded! with cbc::{Encryptor, Decryptor} *)
| PAead (a : aead).                          (* encrypt_stream! / the two ChaCha arms *)

(* get_key_bytes::<N> / get_iv_bytes::<N>: N is the key / IV (nonce) size of the selected type *)
Definition key_len (p : prim) : nat :=
  match p with
  | PCfb ks | POfb ks | PCtr _ ks | PCbc ks _ => ksize_bytes ks
  | PAead Siv128 => 32
  | PAead Siv256 => 64
  | PAead _ => 32
  end.
Definition iv_len (p : prim) : nat :=
  match p with
  | PAead ChaCha => 12
  | PAead XChaCha | PAead XSalsa => 24
  | _ => 16
  end.

Local Open Scope string_scope.

(* the `match algorithm { .. }` of fn encrypt (encrypt.rs), arm by arm ("A" | "B" arms are two rows) *)
Definition enc_table : list (string * prim) :=
  [ ("AES-256-CFB", PCfb K256); ("AES-192-CFB", PCfb K192); ("AES-128-CFB", PCfb K128);
    ("AES-256-OFB", POfb K256); ("AES-192-OFB", POfb K192); ("AES-128-OFB", POfb K128);
    ("AES-256-CTR", PCtr CtrLE K256); ("AES-256-CTR-LE", PCtr CtrLE K256);
    ("AES-192-CTR", PCtr CtrLE K192); ("AES-192-CTR-LE", PCtr CtrLE K192);
    ("AES-128-CTR", PCtr CtrLE K128); ("AES-128-CTR-LE", PCtr CtrLE K128);
    ("AES-256-CTR-BE", PCtr CtrBE K256); ("AES-192-CTR-BE", PCtr CtrBE K192); ("AES-128-CTR-BE", PCtr CtrBE K128);
    ("AES-256-CBC-PKCS7", PCbc K256 Pkcs7); ("AES-192-CBC-PKCS7", PCbc K192 Pkcs7); ("AES-128-CBC-PKCS7", PCbc K128 Pkcs7);
    ("AES-256-CBC-ANSIX923", PCbc K256 AnsiX923); ("AES-192-CBC-ANSIX923", PCbc K192 AnsiX923);
    ("AES-128-CBC-ANSIX923", PCbc K128 AnsiX923);
    ("AES-256-CBC-ISO7816", PCbc K256 Iso7816); ("AES-192-CBC-ISO7816", PCbc K192 Iso7816);
    ("AES-128-CBC-ISO7816", PCbc K128 Iso7816);
    ("AES-256-CBC-ISO10126", PCbc K256 Iso10126); ("AES-192-CBC-ISO10126", PCbc K192 Iso10126);
    ("AES-128-CBC-ISO10126", PCbc K128 Iso10126);
    ("AES-128-SIV", PAead Siv128); ("AES-256-SIV", PAead Siv256);
    ("CHACHA20-POLY1305", PAead ChaCha); ("XCHACHA20-POLY1305", PAead XChaCha);
    ("XSALSA20-POLY1305", PAead XSalsa) ].

(* the `match algorithm { .. }` of fn decrypt (decrypt.rs) *)
Definition dec_table : list (string * prim) :=
  [ ("AES-256-CFB", PCfb K256); ("AES-192-CFB", PCfb K192); ("AES-128-CFB", PCfb K128);
    ("AES-256-OFB", POfb K256); ("AES-192-OFB", POfb K192); ("AES-128-OFB", POfb K128);
    ("AES-256-CTR", PCtr CtrLE K256); ("AES-256-CTR-LE", PCtr CtrLE K256);
    ("AES-192-CTR", PCtr CtrLE K192); ("AES-192-CTR-LE", PCtr CtrLE K192);
    ("AES-128-CTR", PCtr CtrLE K128); ("AES-128-CTR-LE", PCtr CtrLE K128);
    ("AES-256-CTR-BE", PCtr CtrBE K256); ("AES-192-CTR-BE", PCtr CtrBE K192); ("AES-128-CTR-BE", PCtr CtrBE K128);
    ("AES-256-CBC-PKCS7", PCbc K256 Pkcs7); ("AES-192-CBC-PKCS7", PCbc K192 Pkcs7); ("AES-128-CBC-PKCS7", PCbc K128 Pkcs7);
    ("AES-256-CBC-ANSIX923", PCbc K256 AnsiX923); ("AES-192-CBC-ANSIX923", PCbc K192 AnsiX923);
    ("AES-128-CBC-ANSIX923", PCbc K128 AnsiX923);
    ("AES-256-CBC-ISO7816", PCbc K256 Iso7816); ("AES-192-CBC-ISO7816", PCbc K192 Iso7816);
    ("AES-128-CBC-ISO7816", PCbc K128 Iso7816);
    ("AES-256-CBC-ISO10126", PCbc K256 Iso10126); ("AES-192-CBC-ISO10126", PCbc K192 Iso10126);
    ("AES-128-CBC-ISO10126", PCbc K128 Iso10126);
    ("AES-128-SIV", PAead Siv128); ("AES-256-SIV", PAead Siv256);
    ("CHACHA20-POLY1305", PAead ChaCha); ("XCHACHA20-POLY1305", PAead XChaCha);
    ("XSALSA20-POLY1305", PAead XSalsa) ].

(* is_valid_algorithm (encrypt.rs), consulted at compile time by both functions when the argument is a constant *)
Definition valid_names : list string :=
  [ "AES-256-CFB"; "AES-192-CFB"; "AES-128-CFB"; "AES-256-OFB"; "AES-192-OFB"; "AES-128-OFB";
    "AES-256-CTR"; "AES-192-CTR"; "AES-128-CTR"; "AES-256-CTR-LE"; "AES-192-CTR-LE"; "AES-128-CTR-LE";
    "AES-256-CTR-BE"; "AES-192-CTR-BE"; "AES-128-CTR-BE";
    "AES-256-CBC-PKCS7"; "AES-192-CBC-PKCS7"; "AES-128-CBC-PKCS7";
    "AES-256-CBC-ANSIX923"; "AES-192-CBC-ANSIX923"; "AES-128-CBC-ANSIX923";
    "AES-256-CBC-ISO7816"; "AES-192-CBC-ISO7816"; "AES-128-CBC-ISO7816";
    "AES-256-CBC-ISO10126"; "AES-192-CBC-ISO10126"; "AES-128-CBC-ISO10126";
    "AES-128-SIV"; "AES-256-SIV"; "CHACHA20-POLY1305"; "XCHACHA20-POLY1305"; "XSALSA20-POLY1305" ].

Local Close Scope string_scope.

Fixpoint lookup {A} (t : list (string * A)) (name : bytes) : option A :=
  match t with
  | [] => None
  | (s, a) :: r => if bytes_eqb (ascii_bytes s) name then Some a else lookup r name
  end.

Definition is_valid_algorithm (name : bytes) : bool :=
  existsb (fun s => bytes_eqb (ascii_bytes s) name) valid_names.

(* `try_bytes_utf8_lossy()?.to_uppercase()` as far as it matters for the tables: ASCII letters are shifted;
   the only non-ASCII characters whose upper case is a single ASCII letter are U+0131 (dotless i, C4 B1 -> "I")
   and U+017F (long s, C5 BF -> "S"); every other non-ASCII character (and U+FFFD for invalid UTF-8) upper-cases
   to something that is not pure ASCII or to an ASCII pair that occurs in no algorithm name ("SS", "FF", "FI",
   "FL", "FFI", "FFL", "ST"), so keeping its bytes keeps the name unknown. *)
Fixpoint upper_name (b : bytes) : bytes :=
  match b with
  | [] => []
  | c :: r =>
      match r with
      | c2 :: r2 =>
          if N.eqb c 196 && N.eqb c2 177 then 73%N :: upper_name r2
          else if N.eqb c 197 && N.eqb c2 191 then 83%N :: upper_name r2
          else (if N.leb 97 c && N.leb c 122 then (c - 32)%N else c) :: upper_name r
      | [] => [if N.leb 97 c && N.leb c 122 then (c - 32)%N else c]
      end
  end.

(* ---------- the symmetric functions ---------- *)

Record prims := mkPrims {
  pE : cipher;                                                   (* aes::Aes{128,192,256} encrypt_block, by key length *)
  pD : cipher;                                                   (* decrypt_block *)
  pSeal : aead -> bytes -> bytes -> bytes -> bytes;              (* Aead::encrypt: key, nonce, plaintext *)
  pOpen : aead -> bytes -> bytes -> bytes -> option bytes }.     (* Aead::decrypt: None = Err(aead::Error) *)

Inductive cres := COk (b : bytes) | CErrAlg | CErrKey | CErrIv | CErrInput | CPanic.

Definition prim_encrypt (P : prims) (pr : prim) (filler p k iv : bytes) : bytes :=
  match pr with
  | PCfb _ => cfb_encrypt (pE P) k iv p
  | POfb _ => ofb_apply (pE P) k iv p
  | PCtr fl _ => ctr_apply (pE P) fl k iv p
  | PCbc _ s => cbc_encrypt (pE P) k iv (pad s filler p)         (* encrypt_padded_vec::<padding> *)
  | PAead a => pSeal P a k iv p
  end.

Definition prim_decrypt (P : prims) (pr : prim) (c k iv : bytes) : cres :=
  match pr with
  | PCfb _ => COk (cfb_decrypt (pE P) k iv c)
  | POfb _ => COk (ofb_apply (pE P) k iv c)
  | PCtr fl _ => COk (ctr_apply (pE P) fl k iv c)
  | PCbc _ s =>
      (* decrypt_padded_vec: a trailing partial block is an error before anything is decrypted;
         `.map_err(|_| "Invalid input")?` *)
      if negb (Nat.eqb (length c mod 16) 0) then CErrInput
      else match unpad s (cbc_decrypt (pD P) k iv c) with
           | Some m => COk m
           | None => CErrInput
           end
  | PAead a =>
      match pOpen P a k iv c with
      | Some m => COk m
      | None => CErrInput                                        (* .map_err(|_| "Invalid input")? (a3fbb82; it was an .expect) *)
      end
  end.

(* fn encrypt: the name is looked up first (unknown name: "Invalid algorithm" whatever the key is), then
   get_key_bytes(key)?, then get_iv_bytes(iv)? (argument evaluation order of `::new(&key, &iv)`).
   `filler` = the ISO 10126 filler bytes (Model/Padding.v). *)
Definition encrypt (P : prims) (filler name p k iv : bytes) : cres :=
  match lookup enc_table (upper_name name) with
  | None => CErrAlg
  | Some pr =>
      if negb (Nat.eqb (length k) (key_len pr)) then CErrKey
      else if negb (Nat.eqb (length iv) (iv_len pr)) then CErrIv
      else COk (prim_encrypt P pr filler p k iv)
  end.

Definition decrypt (P : prims) (name c k iv : bytes) : cres :=
  match lookup dec_table (upper_name name) with
  | None => CErrAlg
  | Some pr =>
      if negb (Nat.eqb (length k) (key_len pr)) then CErrKey
      else if negb (Nat.eqb (length iv) (iv_len pr)) then CErrIv
      else prim_decrypt P pr c k iv
  end.

(* Function::compile of both: a constant algorithm is upper-cased and checked against is_valid_algorithm *)
Definition compiles_with_constant (name : bytes) : bool := is_valid_algorithm (upper_name name).

(* ciphertext length (the AEADs add a 16-byte tag; the CBC names a whole padding block at most) *)
Definition cipher_len (pr : prim) (plain_len : nat) : nat :=
  match pr with
  | PCbc _ _ => padded_len plain_len
  | PAead _ => (plain_len + 16)%nat
  | _ => plain_len
  end.

(* ---------- encrypt_ip / decrypt_ip ---------- *)

(* ipcrypt_rs::common::ip_to_bytes: IPv4 as the IPv4-mapped IPv6 address *)
Definition ip_to_bytes (a : ipaddr) : bytes :=
  match a with
  | V4 o => repeat 0%N 10 ++ [255%N; 255%N] ++ bytes_of_octets o
  | V6 g => bytes_of_octets (octets_of_segments g)
  end.

Definition is_mapped (b : bytes) : bool :=
  forallb (N.eqb 0) (firstn 10 b) && bytes_eqb (firstn 2 (skipn 10 b)) [255%N; 255%N].

(* ipcrypt_rs::common::bytes_to_ip: anything with the mapped prefix becomes an IPv4 address *)
Definition bytes_to_ip (b : bytes) : ipaddr :=
  if is_mapped b then V4 (octets_of_bytes (skipn 12 b))
  else V6 (segments_of_octets (octets_of_bytes b)).

(* Display for IpAddr *)
Definition ip_text (a : ipaddr) : bytes :=
  match a with V4 o => ipv4_to_string o | V6 g => ipv6_to_string g end.

Definition is_v4 (a : ipaddr) : bool := match a with V4 _ => true | V6 _ => false end.

Record ipprims := mkIpPrims {
  detE : bytes -> bytes -> bytes;                 (* Ipcrypt::encrypt_ip16 (key16, 16 bytes) *)
  detD : bytes -> bytes -> bytes;                 (* Ipcrypt::decrypt_ip16 *)
  pfxE : bytes -> bool -> bytes -> bytes;         (* IpcryptPfx::encrypt_bytes (key32, ip.is_ipv4(), 16 bytes) *)
  pfxD : bytes -> bool -> bytes -> bytes }.       (* IpcryptPfx::decrypt_bytes *)

Inductive ipres := IpOk (s : bytes) | IpErrParse | IpErrMode | IpErrKey | IpPanic.

Definition mode_aes128 : bytes := ascii_bytes "aes128".
Definition mode_pfx : bytes := ascii_bytes "pfx".

(* encrypt_ip (enc = true) / decrypt_ip (enc = false): parse, then the mode, then to_key (length) and, for pfx,
   to_pfx_key's check that the two key halves differ (IpcryptPfx::new would assert it).  CPanic / IpPanic are no
   longer produced by the model; they stay so that a panic of the implementation can never match a model outcome. *)
Definition ip_crypt (enc : bool) (Q : ipprims) (ip key mode : bytes) : ipres :=
  match parse_ip ip with
  | None => IpErrParse
  | Some a =>
      if bytes_eqb mode mode_aes128 then
        if negb (Nat.eqb (length key) 16) then IpErrKey
        else IpOk (ip_text (bytes_to_ip ((if enc then detE Q else detD Q) key (ip_to_bytes a))))
      else if bytes_eqb mode mode_pfx then
        if negb (Nat.eqb (length key) 32) then IpErrKey
        else if bytes_eqb (firstn 16 key) (skipn 16 key) then IpErrKey       (* ip_utils::to_pfx_key (fb618e6) *)
        else IpOk (ip_text (bytes_to_ip ((if enc then pfxE Q else pfxD Q) key (is_v4 a) (ip_to_bytes a))))
      else IpErrMode
  end.

Definition encrypt_ip := ip_crypt true.
Definition decrypt_ip := ip_crypt false.
