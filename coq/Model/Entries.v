(* Model of src/stdlib/to_entries.rs and src/stdlib/from_entries.rs.  Definitions only.
   ObjectMap = BTreeMap<KeyString, Value> is a key-sorted association list (Base/Value.v obj_set = insert). *)
From Coq Require Import List NArith ZArith Bool.
From VRL Require Import Base.Bytes Base.Value Model.ConvRes.
Import ListNotations.

Definition k_key : bytes := [107; 101; 121]%N.            (* "key" *)
Definition k_Key : bytes := [75; 101; 121]%N.             (* "Key" *)
Definition k_name : bytes := [110; 97; 109; 101]%N.       (* "name" *)
Definition k_Name : bytes := [78; 97; 109; 101]%N.        (* "Name" *)
Definition k_value : bytes := [118; 97; 108; 117; 101]%N. (* "value" *)
Definition k_Value : bytes := [86; 97; 108; 117; 101]%N.  (* "Value" *)

(* build_entry: ObjectMap::from([("key", key), ("value", value)]) *)
Definition build_entry (key v : value) : value := VObj [(k_key, key); (k_value, v)].

Fixpoint index_entries (i : Z) (vs : list value) : list value :=
  match vs with
  | [] => []
  | v :: r => build_entry (VInt i) v :: index_entries (i + 1)%Z r
  end.

Definition to_entries (v : value) : res value :=
  match v with
  | VObj m => ROk (VArr (map (fun kv => build_entry (VBytes (fst kv)) (snd kv)) m))
  | VArr a => ROk (VArr (index_entries 0%Z a))      (* i64::try_from(index) cannot fail *)
  | _ => RErr
  end.

(* select_key: the first alias whose value is neither null nor false *)
Fixpoint select_key_in (aliases : list bytes) (entry : obj) : value :=
  match aliases with
  | [] => VNull
  | a :: r =>
      match obj_get entry a with
      | Some VNull => select_key_in r entry
      | Some (VBool false) => select_key_in r entry
      | Some k => k
      | None => select_key_in r entry
      end
  end.
Definition select_key (entry : obj) : value := select_key_in [k_key; k_Key; k_name; k_Name] entry.

(* make_key_string: String::from_utf8_lossy is the identity on the valid UTF-8 this model is used on *)
Definition make_key_string (k : value) : option bytes :=
  match k with VBytes b => Some b | _ => None end.

Definition entry_value (entry : obj) : value :=
  match obj_get entry k_value with
  | Some v => v
  | None => match obj_get entry k_Value with Some v => v | None => VNull end
  end.

Fixpoint from_entries_loop (a : list value) (object : obj) : res obj :=
  match a with
  | [] => ROk object
  | VObj entry :: r =>
      match make_key_string (select_key entry) with
      | Some key => from_entries_loop r (obj_set object key (entry_value entry))
      | None => RErr
      end
  | _ :: _ => RErr
  end.

Definition from_entries (v : value) : res value :=
  match v with
  | VArr a => res_bind (from_entries_loop a []) (fun o => ROk (VObj o))
  | _ => RErr
  end.
