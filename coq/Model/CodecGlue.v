(* The VRL code around the library codecs: encode_/decode_ gzip, zlib, zstd, snappy, lz4, charset and the
   `validate: true` paths of punycode.  The library primitive is an explicit function argument (what
   flate2 / zstd / snap / lz4_flex / encoding_rs / idna computed, or that it failed or panicked); what is
   modelled is what the VRL source itself does: option conversion and range checks, defaults, dispatch
   (lz4 frame magic, prepended size), error mapping, and which library failures are turned into a VRL
   error and which are let through as a panic (`.expect(..)`).
   Definitions only. *)
From Coq Require Import List NArith ZArith Bool.
From VRL Require Import Base.Bytes Model.Base16 Model.CodecUtf8 Model.Punycode.
Import ListNotations.
Local Open Scope Z_scope.

(* outcome of a library call *)
Inductive lres := LOk (b : bytes) | LErr | LPanic.

(* `match result { Ok(b) => Ok(b), Err(_) => Err("unable to ...") }` *)
Definition map_err (r : lres) : res :=
  match r with LOk b => ROk b | LErr => RErr | LPanic => RPanic end.
(* `.expect("... failed, please report")` *)
Definition expect (r : lres) : res :=
  match r with LOk b => ROk b | LErr => RPanic | LPanic => RPanic end.

(* ---------- gzip / zlib (encode_gzip.rs, encode_zlib.rs: identical glue) ---------- *)
Definition default_flate_level : Z := 6.
Definition max_flate_level : Z := 10.                     (* MAX_COMPRESSION_LEVEL *)
Definition as_u32 (z : Z) : Z := z mod 2 ^ 32.            (* `try_integer()? as u32` *)

Definition encode_flate (lib_enc : Z -> bytes -> lres) (level : Z) (v : bytes) : res :=
  let l := as_u32 level in
  if max_flate_level <? l then RErr                       (* "compression level must be <= 10" *)
  else expect (lib_enc l v).

Definition decode_flate (lib_dec : bytes -> lres) (v : bytes) : res := map_err (lib_dec v).

(* ---------- zstd ---------- *)
Definition default_zstd_level : Z := 3.
Definition as_i32 (z : Z) : Z := (z + 2 ^ 31) mod 2 ^ 32 - 2 ^ 31.     (* `try_integer()? as i32` *)

Definition encode_zstd (lib_enc : Z -> bytes -> lres) (level : Z) (v : bytes) : res :=
  expect (lib_enc (as_i32 level) v).
Definition decode_zstd (lib_dec : bytes -> lres) (v : bytes) : res := map_err (lib_dec v).

(* ---------- snappy ---------- *)
Definition encode_snappy (lib_enc : bytes -> lres) (v : bytes) : res := map_err (lib_enc v).
Definition decode_snappy (lib_dec : bytes -> lres) (v : bytes) : res := map_err (lib_dec v).

(* ---------- lz4 ---------- *)
Definition default_prepend_size : bool := true.           (* encode_lz4: DEFAULT_PREPEND_SIZE *)
Definition default_prepended_size : bool := false.        (* decode_lz4: DEFAULT_PREPENDED_SIZE *)
Definition default_buf_size : Z := 1000000.

Definition lz4_magic : bytes := [4; 34; 77; 24]%N.        (* LZ4_FRAME_MAGIC 04 22 4D 18 *)

(* lz4_flex::block::compress_prepend_size: (len as u32).to_le_bytes() in front of the block *)
Definition size_le (n : N) : bytes :=
  [n mod 256; (n / 256) mod 256; (n / 65536) mod 256; (n / 16777216) mod 256]%N.
Definition read_le (b0 b1 b2 b3 : N) : N := (b0 + 256 * b1 + 65536 * b2 + 16777216 * b3)%N.

Definition encode_lz4 (compress : bytes -> bytes) (prepend : bool) (v : bytes) : res :=
  ROk (if prepend then size_le (N.of_nat (length v)) ++ compress v else compress v).

(* `let Ok(buffer_size) = u32::try_from(buf_size) else { return Err("`buf_size` must be between 0 and ..") }`
   (since c2888f1; before, an out-of-range value became usize::MAX and the allocation panicked) *)
Definition buf_valid (buf : Z) : bool := (0 <=? buf) && (buf <? 2 ^ 32).

(* decompress : block -> capacity -> result      frame_dec : frame -> result *)
Definition decode_lz4 (decompress : bytes -> N -> lres) (frame_dec : bytes -> lres)
           (buf : Z) (prepended : bool) (v : bytes) : res :=
  if negb (buf_valid buf) then RErr
  else if starts_with lz4_magic v then map_err (frame_dec v)
  else if prepended then
    match v with
    | b0 :: b1 :: b2 :: b3 :: rest => map_err (decompress rest (read_le b0 b1 b2 b3))
    | _ => RErr                                            (* fewer than 4 bytes *)
    end
  else map_err (decompress v (Z.to_N buf)).

(* ---------- charset ---------- *)
(* for_label : label -> encoding id;  cs_encode / cs_decode : encoding_rs Encoding::encode / ::decode
   (the had-errors flags are dropped by the VRL code).  encode_charset takes its input through
   String::from_utf8_lossy (since a0ffe6c; before, `from_utf8(value).unwrap()` panicked on invalid UTF-8). *)
Definition encode_charset {E} (for_label : bytes -> option E) (cs_encode : E -> bytes -> bytes)
           (label v : bytes) : res :=
  match for_label label with
  | Some e => ROk (cs_encode e (utf8_lossy v))
  | None => RErr                                         (* "Unknown charset" *)
  end.

Definition decode_charset {E} (for_label : bytes -> option E) (cs_decode : E -> bytes -> bytes)
           (label v : bytes) : res :=
  match for_label label with
  | Some e => ROk (cs_decode e v)
  | None => RErr
  end.

(* ---------- punycode, validate: true ---------- *)
(* to_ascii : idna::domain_to_ascii (None = Err(errors));
   to_unicode : idna::domain_to_unicode (string, had errors) *)
Definition encode_punycode_validate (to_ascii : bytes -> option bytes) (v : bytes) : res :=
  match to_ascii (utf8_lossy v) with Some a => ROk a | None => RErr end.

Definition decode_punycode_validate (to_unicode : bytes -> bytes * bool) (v : bytes) : res :=
  let s := utf8_lossy v in
  if negb (contains xn_prefix s) then ROk s
  else let '(d, bad) := to_unicode s in if bad then RErr else ROk d.
