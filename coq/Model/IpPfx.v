(* ipcrypt-pfx (ipcrypt_rs::IpcryptPfx::{encrypt_bytes, decrypt_bytes}), the prefix-preserving mode behind
   encrypt_ip / decrypt_ip with mode "pfx", over an abstract block cipher.  Definitions only.

   The Rust walks the address bits from the most significant processed bit down to bit 0.  For each bit it
   computes one pseudo-random bit from the bits seen so far (`padded_prefix`: a 128-bit register holding a 1
   followed by the prefix; shifted left by one with the original bit entering at the bottom), namely the lowest bit of
   AES_k1(padded) xor AES_k2(padded), and xors it into the address bit.  IPv4 addresses (ip.is_ipv4()) start at
   bit 96 with the register preloaded with 1 || the 96-bit mapped prefix, keep their first 12 bytes and only have
   their last 4 bytes processed; IPv6 addresses start at bit 0 with the register = 1.
   Here a 16-byte register / an address tail is a list of bits, most significant first. *)
From Coq Require Import List NArith Bool Arith.
From VRL Require Import Base.Bytes Model.Modes.
Import ListNotations.

(* ---------- bytes <-> bits, most significant bit first ---------- *)

Definition byte_bits (x : N) : list bool :=
  [N.testbit x 7; N.testbit x 6; N.testbit x 5; N.testbit x 4; N.testbit x 3; N.testbit x 2; N.testbit x 1; N.testbit x 0].

Definition bits_of_bytes (b : bytes) : list bool := flat_map byte_bits b.

Definition bit_n (b : bool) : N := if b then 1%N else 0%N.

Definition byte_of_bits (l : list bool) : N := fold_left (fun acc b => (2 * acc + bit_n b)%N) l 0%N.

Fixpoint bytes_of_bits_f (fuel : nat) (l : list bool) : bytes :=
  match fuel with
  | O => []
  | S f => match l with
           | [] => []
           | _ => byte_of_bits (firstn 8 l) :: bytes_of_bits_f f (skipn 8 l)
           end
  end.
Definition bytes_of_bits (l : list bool) : bytes := bytes_of_bits_f (length l) l.

(* ---------- the bit loop ---------- *)

(* shift_left_one_bit + set_bit(.., 0, bit) on the 128-bit register *)
Definition push_bit (padded : list bool) (o : bool) : list bool := tl padded ++ [o].

Fixpoint pfx_enc_bits (F : list bool -> bool) (padded : list bool) (bits : list bool) : list bool :=
  match bits with
  | [] => []
  | o :: r => Datatypes.xorb (F padded) o :: pfx_enc_bits F (push_bit padded o) r
  end.

Fixpoint pfx_dec_bits (F : list bool -> bool) (padded : list bool) (bits : list bool) : list bool :=
  match bits with
  | [] => []
  | e :: r => let o := Datatypes.xorb (F padded) e in o :: pfx_dec_bits F (push_bit padded o) r
  end.

(* pad_prefix_0: only bit 0 set; pad_prefix_96: bit 96 set and the low 16 bits (the ::ffff of the mapped prefix) *)
Definition pad0 : list bool := repeat false 127 ++ [true].
Definition pad96 : list bool := repeat false 31 ++ [true] ++ repeat false 80 ++ repeat true 16.

(* the pseudo-random bit: lowest bit of the last byte of E_k1(padded) xor E_k2(padded) *)
Definition prf (E : cipher) (k1 k2 : bytes) (padded : list bool) : bool :=
  let pb := bytes_of_bits padded in
  N.testbit (N.lxor (last (E k1 pb) 0%N) (last (E k2 pb) 0%N)) 0.

(* IpcryptPfx::encrypt_bytes(bytes, ip) with v4 = ip.is_ipv4(); the key is split in two 16-byte halves *)
Definition pfx_encrypt_bytes (E : cipher) (key : bytes) (v4 : bool) (b : bytes) : bytes :=
  let F := prf E (firstn 16 key) (skipn 16 key) in
  if v4 then firstn 12 b ++ bytes_of_bits (pfx_enc_bits F pad96 (bits_of_bytes (skipn 12 b)))
  else bytes_of_bits (pfx_enc_bits F pad0 (bits_of_bytes b)).

(* IpcryptPfx::decrypt_bytes: for an IPv4 input the mapped prefix is written afresh *)
Definition pfx_decrypt_bytes (E : cipher) (key : bytes) (v4 : bool) (b : bytes) : bytes :=
  let F := prf E (firstn 16 key) (skipn 16 key) in
  if v4 then repeat 0%N 10 ++ [255%N; 255%N] ++ bytes_of_bits (pfx_dec_bits F pad96 (bits_of_bytes (skipn 12 b)))
  else bytes_of_bits (pfx_dec_bits F pad0 (bits_of_bytes b)).
