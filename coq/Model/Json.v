(* C21 — JSON encoding and parsing as the VRL stdlib does it.

   Rust anchors
     src/stdlib/encode_json.rs      encode_json(value, pretty) = serde_json::to_string[_pretty](&value)
     src/stdlib/parse_json.rs       parse_json(value, lossy=true) = serde_json::from_str(lossy(value).strip_bom())
                                    parse_json(value, lossy=false) = serde_json::from_slice(value.strip_bom())
     src/stdlib/json_utils/bom.rs   &str: trim_start_matches(U+FEFF) (all leading BOMs); &[u8]: one EF BB BF prefix
     src/value/value/serde.rs       Serialize / Deserialize for Value (Bytes -> lossy UTF-8 string, Regex -> pattern
                                    string, Timestamp -> RFC 3339 string, u64 > i64::MAX -> f64, map: BTreeMap insert)
     src/value/value.rs             simdutf_bytes_utf8_lossy = Utf8Chunks: one U+FFFD per maximal invalid chunk
   serde_json 1.0.151 (features std, raw_value; NOT float_roundtrip / arbitrary_precision / preserve_order) is a
   library; its printer (ser.rs: CompactFormatter, PrettyFormatter, format_escaped_str_contents + ESCAPE table, itoa)
   and its parser (de.rs: deserialize_any, parse_integer/parse_number/parse_decimal/parse_exponent/
   parse_long_integer/parse_decimal_overflow/parse_exponent_overflow/f64_from_parts, SeqAccess, MapAccess, end,
   remaining_depth = 128; read.rs: parse_str_bytes, parse_escape, parse_unicode_escape) are mirrored here branch by
   branch.  Errors are `None`; the comment at each `None` names serde_json's ErrorCode.

   Strings are byte lists (UTF-8), as in Value::Bytes.  Float *printing* (the zmij/ryu shortest representation) is
   not modelled: the printer takes `fmt_f64 : spec_float -> bytes` as a parameter.  Float *parsing* is modelled
   exactly (u64 significand -> f64, one multiplication or division by the correctly rounded power of ten, the
   1e308 pre-scaling loop) on SpecFloat binary64.

   Definitions only. *)
From Coq Require Import List NArith ZArith Bool.
From Coq Require Import Floats.SpecFloat.
From VRL Require Import Base.Bytes Base.Value Base.Lit.
Import ListNotations.
Local Open Scope N_scope.

(* ------------------------------------------------------------------------------------------------ *)
(** * UTF-8: validity and the lossy conversion (core::str::lossy::Utf8Chunks) *)

Definition between (lo hi x : N) : bool := (lo <=? x) && (x <=? hi).
Definition is_cont (b : N) : bool := between 128 191 b.

Inductive lead := L1 | L2 | L3 | L4 | Lbad.

Definition lead_of (b : N) : lead :=
  if b <? 128 then L1
  else if between 194 223 b then L2          (* C2..DF *)
  else if between 224 239 b then L3          (* E0..EF *)
  else if between 240 244 b then L4          (* F0..F4 *)
  else Lbad.                                 (* 80..C1, F5..FF *)

(* admissible second byte (Unicode table 3-7): excludes overlongs, surrogates, > U+10FFFF *)
Definition second_ok (b0 b1 : N) : bool :=
  if b0 =? 224 then between 160 191 b1       (* E0 A0..BF *)
  else if b0 =? 237 then between 128 159 b1  (* ED 80..9F *)
  else if b0 =? 240 then between 144 191 b1  (* F0 90..BF *)
  else if b0 =? 244 then between 128 143 b1  (* F4 80..8F *)
  else is_cont b1.

Definition FFFD : bytes := [239; 191; 189].

Fixpoint lossy_utf8 (s : bytes) : bytes :=
  match s with
  | [] => []
  | b0 :: r =>
    match lead_of b0 with
    | L1 => b0 :: lossy_utf8 r
    | L2 =>
      match r with
      | b1 :: r1 => if is_cont b1 then b0 :: b1 :: lossy_utf8 r1 else FFFD ++ lossy_utf8 r
      | [] => FFFD
      end
    | L3 =>
      match r with
      | b1 :: r1 =>
        if second_ok b0 b1 then
          match r1 with
          | b2 :: r2 => if is_cont b2 then b0 :: b1 :: b2 :: lossy_utf8 r2 else FFFD ++ lossy_utf8 r1
          | [] => FFFD
          end
        else FFFD ++ lossy_utf8 r
      | [] => FFFD
      end
    | L4 =>
      match r with
      | b1 :: r1 =>
        if second_ok b0 b1 then
          match r1 with
          | b2 :: r2 =>
            if is_cont b2 then
              match r2 with
              | b3 :: r3 => if is_cont b3 then b0 :: b1 :: b2 :: b3 :: lossy_utf8 r3 else FFFD ++ lossy_utf8 r2
              | [] => FFFD
              end
            else FFFD ++ lossy_utf8 r1
          | [] => FFFD
          end
        else FFFD ++ lossy_utf8 r
      | [] => FFFD
      end
    | Lbad => FFFD ++ lossy_utf8 r
    end
  end.

Fixpoint utf8_ok (s : bytes) : bool :=
  match s with
  | [] => true
  | b0 :: r =>
    match lead_of b0 with
    | L1 => utf8_ok r
    | L2 => match r with b1 :: r1 => is_cont b1 && utf8_ok r1 | _ => false end
    | L3 => match r with b1 :: b2 :: r2 => second_ok b0 b1 && is_cont b2 && utf8_ok r2 | _ => false end
    | L4 => match r with b1 :: b2 :: b3 :: r3 => second_ok b0 b1 && is_cont b2 && is_cont b3 && utf8_ok r3 | _ => false end
    | Lbad => false
    end
  end.

(* json_utils/bom.rs, &str: trim_start_matches('\u{feff}') removes every leading BOM *)
Fixpoint strip_boms (s : bytes) : bytes :=
  match s with
  | a :: b :: c :: r => if (a =? 239) && (b =? 187) && (c =? 191) then strip_boms r else s
  | _ => s
  end.

(* json_utils/bom.rs, &[u8]: strip_prefix(EF BB BF) removes one *)
Definition strip_bom1 (s : bytes) : bytes :=
  match s with
  | a :: b :: c :: r => if (a =? 239) && (b =? 187) && (c =? 191) then r else s
  | _ => s
  end.

(* ------------------------------------------------------------------------------------------------ *)
(** * Printer *)

(* HEX_DIGITS = "0123456789abcdef" *)
Definition hexdig (n : N) : N := if n <? 10 then 48 + n else 87 + n.

(* ser.rs ESCAPE table + write_char_escape *)
Definition escape_byte (b : N) : bytes :=
  if b =? 34 then [92; 34]                      (* backslash quote *)
  else if b =? 92 then [92; 92]                 (* backslash backslash *)
  else if b =? 8 then [92; 98]                  (* \b *)
  else if b =? 9 then [92; 116]                 (* \t *)
  else if b =? 10 then [92; 110]                (* \n *)
  else if b =? 12 then [92; 102]                (* \f *)
  else if b =? 13 then [92; 114]                (* \r *)
  else if b <? 32 then [92; 117; 48; 48; hexdig (b / 16); hexdig (b mod 16)]   (* \u00XX *)
  else [b].                                     (* everything else verbatim, 0x7f and non-ASCII included *)

Fixpoint escape_body (s : bytes) : bytes :=
  match s with
  | [] => []
  | b :: r => escape_byte b ++ escape_body r
  end.

Definition print_string (s : bytes) : bytes := 34 :: escape_body s ++ [34].

(* itoa: decimal digits, least significant first; fuel = bit length + 1 (always enough) *)
Fixpoint lsd (fuel : nat) (n : N) : list N :=
  match fuel with
  | O => []
  | S f => (n mod 10) :: (if n / 10 =? 0 then [] else lsd f (n / 10))
  end.

Definition print_u (n : N) : bytes := map (fun d => 48 + d) (rev (lsd (S (S (N.to_nat (N.log2 n)))) n)).

Definition print_int (z : Z) : bytes :=
  match z with
  | Z0 => [48]
  | Zpos p => print_u (Npos p)
  | Zneg p => 45 :: print_u (Npos p)
  end.

Definition is_finite (f : spec_float) : bool :=
  match f with
  | S754_zero _ | S754_finite _ _ _ => true
  | _ => false
  end.

Definition t_null : bytes := [110; 117; 108; 108].
Definition t_true : bytes := [116; 114; 117; 101].
Definition t_false : bytes := [102; 97; 108; 115; 101].

(* PrettyFormatter: two spaces per level *)
Definition indent (n : nat) : bytes := repeat 32 (n + n).

(* begin_array_value / begin_object_key *)
Definition sep (pretty first : bool) (ind : nat) : bytes :=
  if pretty then (if first then [10] else [44; 10]) ++ indent ind
  else (if first then [] else [44]).

(* end_array / end_object when has_value *)
Definition close (pretty : bool) (ind : nat) : bytes :=
  if pretty then 10 :: indent ind else [].

(* begin_object_value *)
Definition colon (pretty : bool) : bytes := if pretty then [58; 32] else [58].

Section Print.
  Variable fmt_f64 : spec_float -> bytes.      (* zmij::Buffer::format_finite — library, not modelled *)
  Variable fmt_ts : Z -> bytes.                (* timestamp_to_string (chrono RFC 3339, AutoSi, Z) — not modelled *)

  (* Serialize for Value, driven through serde_json's Serializer with the compact or the pretty formatter;
     `ind` is PrettyFormatter::current_indent *)
  Fixpoint print_value (pretty : bool) (ind : nat) (v : value) {struct v} : bytes :=
    match v with
    | VBytes b => print_string (lossy_utf8 b)
    | VRegex src => print_string src
    | VInt z => print_int z
    | VFloat f => if is_finite f then fmt_f64 f else t_null      (* serialize_f64: NaN/inf -> null *)
    | VBool true => t_true
    | VBool false => t_false
    | VTs ns => print_string (fmt_ts ns)
    | VNull => t_null
    | VArr [] => [91; 93]
    | VArr vs =>
        91 :: (fix go (first : bool) (l : list value) {struct l} : bytes :=
                 match l with
                 | [] => close pretty ind ++ [93]
                 | x :: l' => sep pretty first (S ind) ++ print_value pretty (S ind) x ++ go false l'
                 end) true vs
    | VObj [] => [123; 125]
    | VObj kvs =>
        123 :: (fix go (first : bool) (l : list (bytes * value)) {struct l} : bytes :=
                  match l with
                  | [] => close pretty ind ++ [125]
                  | (k, x) :: l' =>
                      sep pretty first (S ind) ++ print_string k ++ colon pretty
                      ++ print_value pretty (S ind) x ++ go false l'
                  end) true kvs
    end.

  (* the VRL function *)
  Definition encode_json (pretty : bool) (v : value) : bytes := print_value pretty 0 v.
End Print.

(* ------------------------------------------------------------------------------------------------ *)
(** * Parser: strings (read.rs, SliceRead/StrRead with validate = true) *)

Definition hexv (b : N) : option N :=
  if between 48 57 b then Some (b - 48)
  else if between 65 70 b then Some (b - 55)
  else if between 97 102 b then Some (b - 87)
  else None.

(* decode_hex_escape *)
Definition hex4 (s : bytes) : option (N * bytes) :=
  match s with
  | a :: b :: c :: d :: r =>
      match hexv a, hexv b, hexv c, hexv d with
      | Some a, Some b, Some c, Some d => Some (((a * 16 + b) * 16 + c) * 16 + d, r)
      | _, _, _, _ => None                      (* InvalidEscape *)
      end
  | _ => None                                   (* EofWhileParsingString *)
  end.

(* push_wtf8_codepoint *)
Definition encode_cp (n : N) : bytes :=
  if n <? 128 then [n]
  else if n <? 2048 then [192 + n / 64; 128 + n mod 64]
  else if n <? 65536 then [224 + n / 4096; 128 + (n / 64) mod 64; 128 + n mod 64]
  else [240 + n / 262144; 128 + (n / 4096) mod 64; 128 + (n / 64) mod 64; 128 + n mod 64].

(* parse_unicode_escape, validate = true; `s` follows "\u" *)
Definition parse_unicode_escape (s : bytes) : option (bytes * bytes) :=
  match hex4 s with
  | None => None
  | Some (n, r) =>
      if between 56320 57343 n then None        (* DC00..DFFF first: LoneLeadingSurrogateInHexEscape *)
      else if (n <? 55296) || (56319 <? n) then Some (encode_cp n, r)
      else                                       (* D800..DBFF: a trailing surrogate must follow *)
        match r with
        | 92 :: 117 :: r2 =>
            match hex4 r2 with
            | Some (n2, r3) =>
                if between 56320 57343 n2
                then Some (encode_cp (65536 + (n - 55296) * 1024 + (n2 - 56320)), r3)
                else None                        (* LoneLeadingSurrogateInHexEscape *)
            | None => None
            end
        | _ => None                              (* UnexpectedEndOfHexEscape / Eof *)
        end
  end.

(* parse_escape; `s` follows the backslash *)
Definition parse_escape (s : bytes) : option (bytes * bytes) :=
  match s with
  | [] => None                                   (* EofWhileParsingString *)
  | c :: r =>
      if c =? 34 then Some ([34], r)
      else if c =? 92 then Some ([92], r)
      else if c =? 47 then Some ([47], r)
      else if c =? 98 then Some ([8], r)
      else if c =? 102 then Some ([12], r)
      else if c =? 110 then Some ([10], r)
      else if c =? 114 then Some ([13], r)
      else if c =? 116 then Some ([9], r)
      else if c =? 117 then parse_unicode_escape r
      else None                                  (* InvalidEscape *)
  end.

(* parse_str_bytes; `s` follows the opening quote.  Returns the decoded contents and the input after the
   closing quote. *)
Fixpoint parse_str_body (fuel : nat) (s : bytes) : option (bytes * bytes) :=
  match fuel with
  | O => None
  | S f =>
    match s with
    | [] => None                                 (* EofWhileParsingString *)
    | b :: r =>
        if b =? 34 then Some ([], r)
        else if b =? 92 then
          match parse_escape r with
          | Some (e, r') =>
              match parse_str_body f r' with
              | Some (t, r'') => Some (e ++ t, r'')
              | None => None
              end
          | None => None
          end
        else if b <? 32 then None                (* ControlCharacterWhileParsingString *)
        else
          match parse_str_body f r with
          | Some (t, r') => Some (b :: t, r')
          | None => None
          end
    end
  end.

Definition parse_string (s : bytes) : option (bytes * bytes) := parse_str_body (S (length s)) s.

(* ------------------------------------------------------------------------------------------------ *)
(** * Parser: numbers (de.rs) *)

Inductive pnum := PU64 (n : N) | PI64 (z : Z) | PF64 (f : spec_float).     (* ParserNumber *)

Definition is_digit (b : N) : bool := between 48 57 b.
Definition is_e (b : N) : bool := (b =? 101) || (b =? 69).
Definition u64_max : N := 18446744073709551615.
Definition i32_max : N := 2147483647.

(* overflow!(a * 10 + d, c) *)
Definition overflow10 (a d c : N) : bool := (c / 10 <=? a) && ((c / 10 <? a) || (c mod 10 <? d)).

(* a non-negative integer rounded to the nearest binary64, ties to even (all results here are zero, normal or
   infinite).  Same function as SpecFloat's `binary_normalize 53 1024 m 0 false`, computed with shifts so that
   10^308 costs microseconds instead of a bit-by-bit loop; JsonNumProofs.round_int_f64_samples compares the two on samples. *)
Definition round_int_f64 (m : Z) : spec_float :=
  match m with
  | Zpos p =>
      let d := (Z.log2 m + 1)%Z in                     (* number of bits *)
      if (d <=? 53)%Z then S754_finite false (Pos.shiftl p (Z.to_N (53 - d))) (d - 53)
      else
        let sh := (d - 53)%Z in
        let q := Z.shiftr m sh in
        let r := (m - Z.shiftl q sh)%Z in
        let half := Z.shiftl 1 (sh - 1) in
        let q' := if (r <? half)%Z then q
                  else if (half <? r)%Z then (q + 1)%Z
                  else if Z.even q then q else (q + 1)%Z in
        let '(q2, e2) := if (q' =? 9007199254740992)%Z then (4503599627370496%Z, (sh + 1)%Z) else (q', sh) in
        if (971 <? e2)%Z then S754_infinity false
        else match q2 with Zpos m2 => S754_finite false m2 e2 | _ => S754_nan end
  | _ => S754_zero false
  end.

Definition f64_of_u64 (n : N) : spec_float := round_int_f64 (Z.of_N n).        (* `n as f64` *)
Definition pow10_f64 (k : Z) : spec_float := round_int_f64 (10 ^ k).             (* POW10[k], 0 <= k <= 308 *)

Definition is_inf (f : spec_float) : bool := match f with S754_infinity _ => true | _ => false end.
Definition is_zero (f : spec_float) : bool := match f with S754_zero _ => true | _ => false end.

(* f64_from_parts without float_roundtrip: the loop runs at most three times on a non-zero u64 *)
Fixpoint from_parts_loop (fuel : nat) (f : spec_float) (e : Z) : option spec_float :=
  if (Z.abs e <=? 308)%Z then
    if (0 <=? e)%Z then
      let f' := SFmul 53 1024 f (pow10_f64 e) in
      if is_inf f' then None                     (* NumberOutOfRange *)
      else Some f'
    else Some (SFdiv 53 1024 f (pow10_f64 (- e)))
  else if is_zero f then Some f
  else if (0 <=? e)%Z then None                  (* NumberOutOfRange *)
  else
    match fuel with
    | O => Some f
    | S k => from_parts_loop k (SFdiv 53 1024 f (pow10_f64 308)) (e + 308)
    end.

Definition f64_from_parts (positive : bool) (sig : N) (e : Z) : option spec_float :=
  match from_parts_loop 8 (f64_of_u64 sig) e with
  | Some f => Some (if positive then f else SFopp f)
  | None => None
  end.

Definition from_parts (positive : bool) (sig : N) (e : Z) (rest : bytes) : option (pnum * bytes) :=
  match f64_from_parts positive sig e with
  | Some f => Some (PF64 f, rest)
  | None => None
  end.

Fixpoint skip_digits (s : bytes) : bytes :=
  match s with
  | d :: r => if is_digit d then skip_digits r else s
  | [] => []
  end.

Definition sat_i32 (z : Z) : Z := Z.max (-2147483648) (Z.min 2147483647 z).

(* the digit loop of parse_exponent after the first digit; exp < 2^31 *)
Fixpoint exp_loop (positive : bool) (sig : N) (start : Z) (pos_exp : bool) (exp : N) (s : bytes)
  : option (pnum * bytes) :=
  match s with
  | d :: r =>
      if is_digit d then
        if overflow10 exp (d - 48) i32_max then
          (* parse_exponent_overflow (the digit has been eaten) *)
          if negb (sig =? 0) && pos_exp then None          (* NumberOutOfRange *)
          else Some (PF64 (S754_zero (negb positive)), skip_digits r)
        else exp_loop positive sig start pos_exp (exp * 10 + (d - 48)) r
      else
        from_parts positive sig
          (if pos_exp then sat_i32 (start + Z.of_N exp) else sat_i32 (start - Z.of_N exp)) s
  | [] =>
      from_parts positive sig
        (if pos_exp then sat_i32 (start + Z.of_N exp) else sat_i32 (start - Z.of_N exp)) []
  end.

(* parse_exponent; `s` follows the 'e': an optional sign, then at least one digit *)
Definition exp_sign (s : bytes) : bool * bytes :=
  match s with
  | c :: r => if c =? 43 then (true, r) else if c =? 45 then (false, r) else (true, s)
  | [] => (true, [])
  end.

Definition exp_first (positive : bool) (sig : N) (start : Z) (pos_exp : bool) (s1 : bytes) : option (pnum * bytes) :=
  match s1 with
  | [] => None                                   (* EofWhileParsingValue *)
  | d :: r => if is_digit d then exp_loop positive sig start pos_exp (d - 48) r
              else None                          (* InvalidNumber *)
  end.

Definition parse_exponent (positive : bool) (sig : N) (start : Z) (s : bytes) : option (pnum * bytes) :=
  exp_first positive sig start (fst (exp_sign s)) (snd (exp_sign s)).

(* what follows the digits of a number whose value is sig * 10^e: an exponent part or the end *)
Definition exp_or_end (positive : bool) (sig : N) (e : Z) (s : bytes) : option (pnum * bytes) :=
  match s with
  | c :: r => if is_e c then parse_exponent positive sig e r else from_parts positive sig e s
  | [] => from_parts positive sig e []
  end.

(* parse_decimal's loop; `s` follows the '.', `any` = at least one digit seen.  On u64 overflow the
   remaining digits are dropped (parse_decimal_overflow). *)
Fixpoint dec_loop (positive : bool) (sig : N) (e : Z) (any : bool) (s : bytes) : option (pnum * bytes) :=
  match s with
  | d :: r =>
      if is_digit d then
        if overflow10 sig (d - 48) u64_max then exp_or_end positive sig e (skip_digits s)
        else dec_loop positive (sig * 10 + (d - 48)) (e - 1) true r
      else if any then exp_or_end positive sig e s
      else None                                  (* InvalidNumber: no digit after '.' *)
  | [] => if any then from_parts positive sig e [] else None   (* EofWhileParsingValue *)
  end.

(* i64 two's complement reinterpretation of a u64, and wrapping_neg *)
Definition as_i64 (n : N) : Z := if n <? 9223372036854775808 then Z.of_N n else (Z.of_N n - 18446744073709551616)%Z.
Definition wrapping_neg (z : Z) : Z := if (z =? -9223372036854775808)%Z then z else (- z)%Z.

(* parse_number *)
Definition parse_number (positive : bool) (sig : N) (s : bytes) : option (pnum * bytes) :=
  let plain :=
    if positive then PU64 sig
    else
      let neg := wrapping_neg (as_i64 sig) in
      if (0 <=? neg)%Z then PF64 (SFopp (f64_of_u64 sig))     (* underflow of i64, or "-0" *)
      else PI64 neg in
  match s with
  | c :: r =>
      if c =? 46 then dec_loop positive sig 0 false r
      else if is_e c then parse_exponent positive sig 0 r
      else Some (plain, s)
  | [] => Some (plain, [])
  end.

(* parse_long_integer: the significand no longer fits u64; further integer digits only raise the exponent *)
Fixpoint long_int (positive : bool) (sig : N) (e : Z) (s : bytes) : option (pnum * bytes) :=
  match s with
  | c :: r =>
      if is_digit c then long_int positive sig (e + 1) r
      else if c =? 46 then dec_loop positive sig e false r
      else if is_e c then parse_exponent positive sig e r
      else from_parts positive sig e s
  | [] => from_parts positive sig e []
  end.

Fixpoint int_loop (positive : bool) (sig : N) (s : bytes) : option (pnum * bytes) :=
  match s with
  | d :: r =>
      if is_digit d then
        if overflow10 sig (d - 48) u64_max then long_int positive sig 0 s
        else int_loop positive (sig * 10 + (d - 48)) r
      else parse_number positive sig s
  | [] => parse_number positive sig []
  end.

(* parse_integer; `s` follows the optional '-' *)
Definition parse_integer (positive : bool) (s : bytes) : option (pnum * bytes) :=
  match s with
  | [] => None                                   (* EofWhileParsingValue *)
  | c :: r =>
      if c =? 48 then
        match r with
        | d :: _ => if is_digit d then None      (* InvalidNumber: leading zero *)
                    else parse_number positive 0 r
        | [] => parse_number positive 0 []
        end
      else if between 49 57 c then int_loop positive (c - 48) r
      else None                                  (* InvalidNumber *)
  end.

(* a whole number token, as deserialize_any dispatches it *)
Definition parse_num_tok (s : bytes) : option (pnum * bytes) :=
  match s with
  | c :: r => if c =? 45 then parse_integer false r
              else if is_digit c then parse_integer true s
              else None
  | [] => None
  end.

Definition i64_max : N := 9223372036854775807.

(* ParserNumber::visit + ValueVisitor::{visit_u64, visit_i64, visit_f64} *)
Definition value_of_pnum (p : pnum) : value :=
  match p with
  | PU64 n => if n <=? i64_max then VInt (Z.of_N n) else VFloat (f64_of_u64 n)
  | PI64 z => VInt z
  | PF64 f => VFloat f
  end.

(* ------------------------------------------------------------------------------------------------ *)
(** * Parser: values (deserialize_any + SeqAccess + MapAccess + ValueVisitor) *)

Definition is_ws (b : N) : bool := (b =? 32) || (b =? 10) || (b =? 9) || (b =? 13).

Fixpoint skip_ws (s : bytes) : bytes :=
  match s with
  | b :: r => if is_ws b then skip_ws r else s
  | [] => []
  end.

(* parse_ident *)
Fixpoint expect (lit s : bytes) : option bytes :=
  match lit with
  | [] => Some s
  | c :: lit' =>
      match s with
      | b :: r => if b =? c then expect lit' r else None    (* ExpectedSomeIdent *)
      | [] => None                                          (* EofWhileParsingValue *)
      end
  end.

(* visit_map: BTreeMap::insert in document order — a later duplicate replaces an earlier one *)
Definition obj_of_list (kvs : list (bytes * value)) : obj :=
  fold_left (fun m kv => obj_set m (fst kv) (snd kv)) kvs [].

(* `depth` is Deserializer::remaining_depth (starts at 128); `fuel` only makes the recursion structural *)
Fixpoint parse_value (fuel : nat) (depth : N) (s : bytes) {struct fuel} : option (value * bytes) :=
  match fuel with
  | O => None
  | S f =>
    match skip_ws s with
    | [] => None                                 (* EofWhileParsingValue *)
    | c :: r =>
        if c =? 110 then match expect [117; 108; 108] r with Some r' => Some (VNull, r') | None => None end
        else if c =? 116 then match expect [114; 117; 101] r with Some r' => Some (VBool true, r') | None => None end
        else if c =? 102 then match expect [97; 108; 115; 101] r with Some r' => Some (VBool false, r') | None => None end
        else if (c =? 45) || is_digit c then
          match parse_num_tok (c :: r) with
          | Some (p, r') => Some (value_of_pnum p, r')
          | None => None
          end
        else if c =? 34 then
          match parse_string r with
          | Some (t, r') => Some (VBytes t, r')
          | None => None
          end
        else if c =? 91 then
          if depth <=? 1 then None               (* RecursionLimitExceeded *)
          else match parse_elems f (depth - 1) true r with
               | Some (vs, r') => Some (VArr vs, r')
               | None => None
               end
        else if c =? 123 then
          if depth <=? 1 then None               (* RecursionLimitExceeded *)
          else match parse_members f (depth - 1) true r with
               | Some (kvs, r') => Some (VObj (obj_of_list kvs), r')
               | None => None
               end
        else None                                (* ExpectedSomeValue *)
    end
  end

(* SeqAccess::next_element_seed in a loop, then end_seq *)
with parse_elems (fuel : nat) (depth : N) (first : bool) (s : bytes) {struct fuel} : option (list value * bytes) :=
  match fuel with
  | O => None
  | S f =>
    match skip_ws s with
    | [] => None                                 (* EofWhileParsingList *)
    | c :: r =>
        if c =? 93 then Some ([], r)
        else if first then
          match parse_value f depth (c :: r) with
          | Some (x, r') =>
              match parse_elems f depth false r' with
              | Some (xs, r'') => Some (x :: xs, r'')
              | None => None
              end
          | None => None
          end
        else if c =? 44 then
          match skip_ws r with
          | [] => None                           (* EofWhileParsingValue *)
          | c2 :: r2 =>
              if c2 =? 93 then None              (* TrailingComma *)
              else
                match parse_value f depth (c2 :: r2) with
                | Some (x, r') =>
                    match parse_elems f depth false r' with
                    | Some (xs, r'') => Some (x :: xs, r'')
                    | None => None
                    end
                | None => None
                end
          end
        else None                                (* ExpectedListCommaOrEnd *)
    end
  end

(* MapAccess::next_key_seed / next_value_seed in a loop, then end_map *)
with parse_members (fuel : nat) (depth : N) (first : bool) (s : bytes) {struct fuel}
  : option (list (bytes * value) * bytes) :=
  match fuel with
  | O => None
  | S f =>
    let member (s1 : bytes) :=                   (* s1 follows the opening quote of the key *)
      match parse_string s1 with
      | Some (k, r1) =>
          match skip_ws r1 with
          | 58 :: r2 =>
              match parse_value f depth r2 with
              | Some (x, r3) =>
                  match parse_members f depth false r3 with
                  | Some (kvs, r4) => Some ((k, x) :: kvs, r4)
                  | None => None
                  end
              | None => None
              end
          | _ => None                            (* ExpectedColon / EofWhileParsingObject *)
          end
      | None => None
      end in
    match skip_ws s with
    | [] => None                                 (* EofWhileParsingObject *)
    | c :: r =>
        if c =? 125 then Some ([], r)
        else if first then
          if c =? 34 then member r else None     (* KeyMustBeAString *)
        else if c =? 44 then
          match skip_ws r with
          | 34 :: r2 => member r2
          | _ => None                            (* TrailingComma / KeyMustBeAString / Eof *)
          end
        else None                                (* ExpectedObjectCommaOrEnd *)
    end
  end.

(* serde_json::from_str::<Value>: one value, then Deserializer::end (only whitespace may follow) *)
Definition parse_doc (s : bytes) : option value :=
  match parse_value (S (S (length s + length s))) 128 s with
  | Some (v, r) => match skip_ws r with [] => Some v | _ => None end     (* TrailingCharacters *)
  | None => None
  end.

(* the VRL function parse_json(value) with the default lossy = true *)
Definition parse_json (text : bytes) : option value := parse_doc (strip_boms (lossy_utf8 text)).

(* parse_json(value, lossy: false): from_slice validates UTF-8 inside every string it reads and a byte >= 0x80
   outside a string is a syntax error, so any invalid sequence in the text is an error *)
Definition parse_json_strict (text : bytes) : option value :=
  let t := strip_bom1 text in
  if utf8_ok t then parse_doc t else None.

(* ------------------------------------------------------------------------------------------------ *)
(** * The round-trip relation: equal, except that a float may move to a neighbouring float *)

Definition sf_sign (f : spec_float) : bool :=
  match f with
  | S754_zero s | S754_infinity s | S754_finite s _ _ => s
  | S754_nan => false
  end.

(* position of |f| among the non-negative floats = its bit pattern *)
Definition sf_mag (f : spec_float) : Z := f64_to_bits (SFabs f).

Definition ulp_close (a b : spec_float) : bool :=
  is_finite a && is_finite b && Bool.eqb (sf_sign a) (sf_sign b) && (Z.abs (sf_mag a - sf_mag b) <=? 1)%Z.

Fixpoint value_close (a b : value) {struct a} : bool :=
  match a, b with
  | VFloat x, VFloat y => ulp_close x y
  | VObj x, VObj y =>
      (fix go (l1 l2 : list (bytes * value)) {struct l1} : bool :=
         match l1, l2 with
         | [], [] => true
         | (k1, v1) :: r1, (k2, v2) :: r2 => bytes_eqb k1 k2 && value_close v1 v2 && go r1 r2
         | _, _ => false
         end) x y
  | VArr x, VArr y =>
      (fix go (l1 l2 : list value) {struct l1} : bool :=
         match l1, l2 with
         | [], [] => true
         | v1 :: r1, v2 :: r2 => value_close v1 v2 && go r1 r2
         | _, _ => false
         end) x y
  | VFloat _, _ | VObj _, _ | VArr _, _ => false
  | _, _ => value_eqb a b
  end.

(* the text printed for float f is read back as a float next to f; all ASCII *)
Definition float_text_ok (txt : bytes) (f : spec_float) : bool :=
  forallb (fun b => b <? 128) txt &&
  match parse_num_tok txt with
  | Some (PF64 f', []) => ulp_close f f'
  | _ => false
  end.

(* ------------------------------------------------------------------------------------------------ *)
(** * "Every value that JSON can represent" *)

Definition in_i64 (z : Z) : bool := (-9223372036854775808 <=? z)%Z && (z <=? 9223372036854775807)%Z.

Fixpoint keys_sorted (l : list (bytes * value)) : bool :=
  match l with
  | [] => true
  | (k, _) :: l' =>
      match l' with
      | [] => true
      | (k', _) :: _ => bytes_ltb k k' && keys_sorted l'
      end
  end.

(* no timestamps or regexes, UTF-8 strings and keys, i64 integers, finite floats whose text satisfies `fok`,
   objects in BTreeMap form (strictly increasing keys) *)
Fixpoint jrep (fok : spec_float -> bool) (v : value) {struct v} : bool :=
  match v with
  | VBytes b => utf8_ok b
  | VRegex _ => false
  | VInt z => in_i64 z
  | VFloat f => is_finite f && fok f
  | VBool _ => true
  | VTs _ => false
  | VNull => true
  | VArr vs => forallb (jrep fok) vs
  | VObj kvs =>
      keys_sorted kvs &&
      (fix go (l : list (bytes * value)) {struct l} : bool :=
         match l with
         | [] => true
         | (k, x) :: l' => utf8_ok k && jrep fok x && go l'
         end) kvs
  end.

(* nesting depth: scalars 0, a container one more than its deepest child *)
Fixpoint vdepth (v : value) {struct v} : N :=
  match v with
  | VArr vs => 1 + fold_right (fun x m => N.max (vdepth x) m) 0 vs
  | VObj kvs =>
      1 + (fix go (l : list (bytes * value)) {struct l} : N :=
             match l with
             | [] => 0
             | (_, x) :: l' => N.max (vdepth x) (go l')
             end) kvs
  | _ => 0
  end.

(* table-driven instances of the two library printers, for the correspondence run: the case file carries the
   text the implementation printed for every float / timestamp of the value *)
Fixpoint table_f64 (tbl : list (spec_float * bytes)) (f : spec_float) : bytes :=
  match tbl with
  | [] => []
  | (g, t) :: tbl' => if sf_eqb g f then t else table_f64 tbl' f
  end.

Fixpoint table_ts (tbl : list (Z * bytes)) (ns : Z) : bytes :=
  match tbl with
  | [] => []
  | (m, t) :: tbl' => if (m =? ns)%Z then t else table_ts tbl' ns
  end.
