(* Model of src/value/kind.rs, kind/builder.rs, kind/comparison.rs, kind/conversion.rs,
   kind/collection.rs, kind/collection/{unknown,index,field}.rs: the `Kind` type, its collections,
   and the membership predicate `member` that is the *specification* of what a kind means.
   Definitions only. *)
From Coq Require Import List NArith ZArith Bool Lia.
From VRL Require Import Base.Bytes Base.Value.
Import ListNotations.

(* ---------- the type ---------- *)

(* the eight primitive states of `struct Kind` (Option<()> fields) *)
Record prims := mkP {
  p_bytes : bool; p_integer : bool; p_float : bool; p_boolean : bool;
  p_timestamp : bool; p_regex : bool; p_null : bool; p_undefined : bool }.

(* collection/unknown.rs `struct Infinite` *)
Record infinite := mkI {
  i_bytes : bool; i_integer : bool; i_float : bool; i_boolean : bool;
  i_timestamp : bool; i_regex : bool; i_null : bool; i_array : bool; i_object : bool }.

(* collection/unknown.rs `enum Inner` *)
Inductive unk_ (A : Type) := UExact (k : A) | UInf (i : infinite).
Arguments UExact {A} k.
Arguments UInf {A} i.

(* collection.rs `struct Collection<T>`: BTreeMap<T, Kind> as an association list (kept sorted by
   the operations below; every definition reads it through first-match lookup) *)
Record coll_ (K A : Type) := mkC { known : list (K * A); unknown : unk_ A }.
Arguments mkC {K A} known unknown.
Arguments known {K A} c.
Arguments unknown {K A} c.

Inductive kind := Kind (p : prims) (a : option (coll_ nat kind)) (o : option (coll_ bytes kind)).

Definition unk := unk_ kind.
Definition acoll := coll_ nat kind.     (* Collection<Index> *)
Definition ocoll := coll_ bytes kind.   (* Collection<Field> *)

Definition prims_of (k : kind) : prims := let 'Kind p _ _ := k in p.
Definition arr_of (k : kind) : option acoll := let 'Kind _ a _ := k in a.     (* as_array *)
Definition obj_of (k : kind) : option ocoll := let 'Kind _ _ o := k in o.     (* as_object *)

(* ---------- builder.rs ---------- *)

Definition p_none : prims := mkP false false false false false false false false.
Definition p_all : prims := mkP true true true true true true true true.

Definition p_or (x y : prims) : prims :=
  mkP (p_bytes x || p_bytes y) (p_integer x || p_integer y) (p_float x || p_float y)
      (p_boolean x || p_boolean y) (p_timestamp x || p_timestamp y) (p_regex x || p_regex y)
      (p_null x || p_null y) (p_undefined x || p_undefined y).

Definition p_set_undefined (x : prims) (b : bool) : prims :=
  mkP (p_bytes x) (p_integer x) (p_float x) (p_boolean x) (p_timestamp x) (p_regex x) (p_null x) b.
Definition p_set_null (x : prims) (b : bool) : prims :=
  mkP (p_bytes x) (p_integer x) (p_float x) (p_boolean x) (p_timestamp x) (p_regex x) b (p_undefined x).

Definition k_never : kind := Kind p_none None None.
Definition k_undefined : kind := Kind (p_set_undefined p_none true) None None.
Definition k_null : kind := Kind (p_set_null p_none true) None None.

Definition or_undefined (k : kind) : kind :=
  let 'Kind p a o := k in Kind (p_set_undefined p true) a o.
Definition remove_undefined (k : kind) : kind :=          (* without_undefined *)
  let 'Kind p a o := k in Kind (p_set_undefined p false) a o.
Definition or_null (k : kind) : kind :=
  let 'Kind p a o := k in Kind (p_set_null p true) a o.

Definition k_array (c : acoll) : kind := Kind p_none (Some c) None.
Definition k_object (c : ocoll) : kind := Kind p_none None (Some c).

(* ---------- comparison.rs ---------- *)

Definition p_is_none (p : prims) : bool :=
  negb (p_bytes p || p_integer p || p_float p || p_boolean p || p_timestamp p || p_regex p
        || p_null p || p_undefined p).

Definition is_some {A} (x : option A) : bool := match x with Some _ => true | None => false end.

Definition is_never (k : kind) : bool :=
  let 'Kind p a o := k in p_is_none p && negb (is_some a) && negb (is_some o).

(* contains_*: "at least", and a `never` kind counts as containing everything *)
Definition contains_bytes k := p_bytes (prims_of k) || is_never k.
Definition contains_integer k := p_integer (prims_of k) || is_never k.
Definition contains_float k := p_float (prims_of k) || is_never k.
Definition contains_boolean k := p_boolean (prims_of k) || is_never k.
Definition contains_timestamp k := p_timestamp (prims_of k) || is_never k.
Definition contains_regex k := p_regex (prims_of k) || is_never k.
Definition contains_null k := p_null (prims_of k) || is_never k.
Definition contains_undefined k := p_undefined (prims_of k) || is_never k.
Definition contains_array k := is_some (arr_of k) || is_never k.
Definition contains_object k := is_some (obj_of k) || is_never k.

(* contains_primitive: field tests only *)
Definition contains_primitive (k : kind) : bool := negb (p_is_none (prims_of k)).

(* is_undefined: every state other than `undefined` is absent (so also true of `never`) *)
Definition is_undefined (k : kind) : bool :=
  let 'Kind p a o := k in
  p_is_none (p_set_undefined p false) && negb (is_some a) && negb (is_some o).
Definition contains_any_defined (k : kind) : bool := negb (is_undefined k).

(* number of states set; is_exact = "at most one" (the disjunction of is_bytes .. is_never) *)
Definition nstates (k : kind) : nat :=
  let 'Kind p a o := k in
  Nat.b2n (p_bytes p) + Nat.b2n (p_integer p) + Nat.b2n (p_float p) + Nat.b2n (p_boolean p)
  + Nat.b2n (p_timestamp p) + Nat.b2n (p_regex p) + Nat.b2n (p_null p) + Nat.b2n (p_undefined p)
  + Nat.b2n (is_some a) + Nat.b2n (is_some o).
Definition is_exact (k : kind) : bool := Nat.leb (nstates k) 1.

Definition is_any (k : kind) : bool :=
  contains_bytes k && contains_integer k && contains_float k && contains_boolean k
  && contains_timestamp k && contains_regex k && contains_null k && contains_undefined k
  && contains_array k && contains_object k.

Definition is_json (k : kind) : bool :=
  contains_bytes k && contains_integer k && contains_float k && contains_boolean k
  && negb (contains_timestamp k) && negb (contains_regex k) && contains_null k
  && contains_undefined k && contains_array k && contains_object k.

(* conversion.rs upgrade_undefined *)
Definition upgrade_undefined (k : kind) : kind :=
  if is_never k then k
  else if contains_undefined k then or_null (remove_undefined k) else k.

(* ---------- collection/unknown.rs ---------- *)

Definition inf_any : infinite := mkI true true true true true true true true true.
Definition inf_json : infinite := mkI true true true true false false true true true.

Definition inf_is_any (i : infinite) : bool :=
  i_bytes i && i_integer i && i_float i && i_boolean i && i_timestamp i && i_regex i && i_null i
  && i_array i && i_object i.

Definition inf_or (x y : infinite) : infinite :=            (* Infinite::merge *)
  mkI (i_bytes x || i_bytes y) (i_integer x || i_integer y) (i_float x || i_float y)
      (i_boolean x || i_boolean y) (i_timestamp x || i_timestamp y) (i_regex x || i_regex y)
      (i_null x || i_null y) (i_array x || i_array y) (i_object x || i_object y).

Definition implb' (a b : bool) : bool := negb a || b.
Definition inf_superset (x y : infinite) : bool :=          (* Infinite::is_superset *)
  implb' (i_bytes y) (i_bytes x) && implb' (i_integer y) (i_integer x) && implb' (i_float y) (i_float x)
  && implb' (i_boolean y) (i_boolean x) && implb' (i_timestamp y) (i_timestamp x)
  && implb' (i_regex y) (i_regex x) && implb' (i_null y) (i_null x) && implb' (i_array y) (i_array x)
  && implb' (i_object y) (i_object x).

(* From<Infinite> for Kind: the collections repeat the same infinite one level down *)
Definition kind_of_inf (i : infinite) : kind :=
  Kind (mkP (i_bytes i) (i_integer i) (i_float i) (i_boolean i) (i_timestamp i) (i_regex i) (i_null i) false)
       (if i_array i then Some (mkC [] (UInf i)) else None)
       (if i_object i then Some (mkC [] (UInf i)) else None).

(* Unknown::to_existing_kind / to_kind *)
Definition existing_kind (u : unk) : kind :=
  remove_undefined (match u with UInf i => kind_of_inf i | UExact k => k end).
Definition unknown_kind_u (u : unk) : kind := or_undefined (existing_kind u).

(* From<&Kind> for Unknown *)
Definition unk_of_kind (k : kind) : unk :=
  if is_any k then UInf inf_any else if is_json k then UInf inf_json else UExact k.

(* ---------- BTreeMap<T, Kind> ---------- *)

Section Assoc.
  Context {K A : Type}.
  Variable keqb : K -> K -> bool.
  Variable kcmp : K -> K -> comparison.

  Fixpoint aget (m : list (K * A)) (k : K) : option A :=
    match m with
    | [] => None
    | (k', x) :: m' => if keqb k' k then Some x else aget m' k
    end.

  Definition ahas (m : list (K * A)) (k : K) : bool := is_some (aget m k).

  (* BTreeMap::insert *)
  Fixpoint aset (m : list (K * A)) (k : K) (x : A) : list (K * A) :=
    match m with
    | [] => [(k, x)]
    | (k', y) :: m' =>
        match kcmp k' k with
        | Lt => (k', y) :: aset m' k x
        | Eq => (k, x) :: m'
        | Gt => (k, x) :: (k', y) :: m'
        end
    end.

  (* BTreeMap::remove *)
  Definition adel (m : list (K * A)) (k : K) : list (K * A) :=
    filter (fun kv => negb (keqb (fst kv) k)) m.

  Definition amap (f : K -> A -> A) (m : list (K * A)) : list (K * A) :=
    map (fun kv => (fst kv, f (fst kv) (snd kv))) m.

  (* insert every binding of `l` into `m` (keys of `l` are distinct in a BTreeMap, so the order of
     insertion is immaterial; folding from the right makes the first binding of a key win, which is
     what first-match lookup in `l` sees) *)
  Definition aset_all (m l : list (K * A)) : list (K * A) :=
    fold_right (fun kv acc => aset acc (fst kv) (snd kv)) m l.
End Assoc.

(* ---------- collection.rs ---------- *)

Definition unknown_kind {K} (c : coll_ K kind) : kind := unknown_kind_u (unknown c).

Definition coll_empty {K} : coll_ K kind := mkC [] (unk_of_kind k_undefined).
Definition coll_any {K} : coll_ K kind := mkC [] (UInf inf_any).
Definition coll_json {K} : coll_ K kind := mkC [] (UInf inf_json).
Definition set_unknown {K} (c : coll_ K kind) (k : kind) : coll_ K kind := mkC (known c) (unk_of_kind k).
Definition set_known {K} (c : coll_ K kind) (m : list (K * kind)) : coll_ K kind := mkC m (unknown c).

Definition k_any : kind := Kind p_all (Some coll_any) (Some coll_any).
Definition k_json : kind :=
  Kind (mkP true true true true false false true false) (Some coll_json) (Some coll_json).

(* the kind the collection assigns to a key: the known entry, else the unknown kind *)
Definition coll_at {K} (keqb : K -> K -> bool) (c : coll_ K kind) (k : K) : kind :=
  match aget keqb (known c) k with Some x => x | None => unknown_kind c end.

Inductive empty_state := EAlways | EMaybe | ENever.
Definition coll_is_empty {K} (c : coll_ K kind) : empty_state :=
  match known c with
  | [] => if contains_any_defined (unknown_kind c) then EMaybe else EAlways
  | _ :: _ => ENever
  end.

(* ---------- collection/index.rs ---------- *)

Definition max_opt (l : list nat) : option nat :=
  match l with [] => None | x :: r => Some (fold_left Nat.max r x) end.

(* largest_known_index: only indices whose kind is not just `undefined` *)
Definition largest_known_index (c : acoll) : option nat :=
  max_opt (map fst (filter (fun kv => contains_any_defined (snd kv)) (known c))).
Definition min_length (c : acoll) : nat :=
  match largest_known_index c with Some i => S i | None => 0 end.

(* get_positive_index *)
Definition get_positive_index (c : acoll) (index : Z) : option nat :=
  if contains_any_defined (unknown_kind c) then None
  else match largest_known_index c with
       | Some l => if (Z.of_nat l >=? - index - 1)%Z then Some (Z.to_nat (Z.of_nat l + 1 + index)) else None
       | None => None
       end.

(* remove_shift: remove the entry at `index`, then `min_length - index` times move the entry at
   index+1 (if any) to index — exactly the loop of the source, which always tests index+1 *)
Definition remove_shift (c : acoll) (index : nat) : acoll :=
  let ml := min_length c in
  let m0 := adel Nat.eqb (known c) index in
  let step (m : list (nat * kind)) :=
    match aget Nat.eqb m (S index) with
    | Some x => aset Nat.compare (adel Nat.eqb m (S index)) index x
    | None => m
    end in
  set_known c (fold_left (fun m _ => step m) (seq index (ml - index)) m0).

(* ---------- the specification: membership of a value in a kind ---------- *)

Fixpoint forallb_i {A} (f : nat -> A -> bool) (i : nat) (l : list A) : bool :=
  match l with
  | [] => true
  | x :: r => f i x && forallb_i f (S i) r
  end.

(* scalar states by flag; arrays: every element is a member of what the collection assigns to its
   index, and every known index that the array does not have must admit `undefined`; objects the
   same with keys.  An infinite unknown unfolds to itself through `unknown_kind`. *)
Fixpoint member (v : value) (k : kind) {struct v} : bool :=
  match v with
  | VBytes _ => p_bytes (prims_of k)
  | VRegex _ => p_regex (prims_of k)
  | VInt _ => p_integer (prims_of k)
  | VFloat _ => p_float (prims_of k)
  | VBool _ => p_boolean (prims_of k)
  | VTs _ => p_timestamp (prims_of k)
  | VNull => p_null (prims_of k)
  | VArr vs =>
      match arr_of k with
      | None => false
      | Some c =>
          (fix go (l : list value) (i : nat) {struct l} : bool :=
             match l with
             | [] => true
             | x :: r => member x (coll_at Nat.eqb c i) && go r (S i)
             end) vs 0
          && forallb (fun i => Nat.ltb i (length vs) || p_undefined (prims_of (coll_at Nat.eqb c i)))
                     (map fst (known c))
      end
  | VObj kvs =>
      match obj_of k with
      | None => false
      | Some c =>
          (fix go (l : list (bytes * value)) {struct l} : bool :=
             match l with
             | [] => true
             | kv :: r => member (snd kv) (coll_at bytes_eqb c (fst kv)) && go r
             end) kvs
          && forallb (fun f => is_some (obj_get kvs f) || p_undefined (prims_of (coll_at bytes_eqb c f)))
                     (map fst (known c))
      end
  end.

(* what `get` may report for a path: a member, or nothing where the kind admits undefined *)
Definition member_opt (o : option value) (k : kind) : bool :=
  match o with Some w => member w k | None => contains_undefined k end.

(* ---------- structural helpers (measures, equality, normal form for comparison) ---------- *)

Definition list_max (l : list nat) : nat := fold_right Nat.max 0 l.

(* nesting depth; an infinite unknown counts 1 (it unfolds to a kind of depth 2, never deeper) *)
Fixpoint depth (k : kind) : nat :=
  let du (u : unk) := match u with UExact x => depth x | UInf _ => 1 end in
  match k with
  | Kind _ a o =>
      S (Nat.max
           (match a with
            | None => 0
            | Some c => Nat.max ((fix go (l : list (nat * kind)) : nat :=
                                    match l with [] => 0 | kv :: r => Nat.max (depth (snd kv)) (go r) end) (known c))
                                (du (unknown c))
            end)
           (match o with
            | None => 0
            | Some c => Nat.max ((fix go (l : list (bytes * kind)) : nat :=
                                    match l with [] => 0 | kv :: r => Nat.max (depth (snd kv)) (go r) end) (known c))
                                (du (unknown c))
            end))
  end.

Definition prims_eqb (x y : prims) : bool :=
  Bool.eqb (p_bytes x) (p_bytes y) && Bool.eqb (p_integer x) (p_integer y) && Bool.eqb (p_float x) (p_float y)
  && Bool.eqb (p_boolean x) (p_boolean y) && Bool.eqb (p_timestamp x) (p_timestamp y)
  && Bool.eqb (p_regex x) (p_regex y) && Bool.eqb (p_null x) (p_null y) && Bool.eqb (p_undefined x) (p_undefined y).

Definition inf_eqb (x y : infinite) : bool := inf_superset x y && inf_superset y x.

(* structural equality (map order included: both sides keep maps sorted) *)
Fixpoint kind_eqb (x y : kind) {struct x} : bool :=
  let ueqb (u w : unk) :=
    match u, w with
    | UExact a, UExact b => kind_eqb a b
    | UInf i, UInf j => inf_eqb i j
    | _, _ => false
    end in
  match x, y with
  | Kind p a o, Kind q b r =>
      prims_eqb p q
      && match a, b with
         | None, None => true
         | Some c, Some d =>
             (fix go (l1 l2 : list (nat * kind)) {struct l1} : bool :=
                match l1, l2 with
                | [], [] => true
                | kv1 :: r1, kv2 :: r2 => Nat.eqb (fst kv1) (fst kv2) && kind_eqb (snd kv1) (snd kv2) && go r1 r2
                | _, _ => false
                end) (known c) (known d)
             && ueqb (unknown c) (unknown d)
         | _, _ => false
         end
      && match o, r with
         | None, None => true
         | Some c, Some d =>
             (fix go (l1 l2 : list (bytes * kind)) {struct l1} : bool :=
                match l1, l2 with
                | [], [] => true
                | kv1 :: r1, kv2 :: r2 => bytes_eqb (fst kv1) (fst kv2) && kind_eqb (snd kv1) (snd kv2) && go r1 r2
                | _, _ => false
                end) (known c) (known d)
             && ueqb (unknown c) (unknown d)
         | _, _ => false
         end
  end.

(* The `undefined` flag stored inside an exact unknown is unobservable through the public API
   (`unknown_kind()` forces it on, `to_existing_kind()` forces it off): normalise it to `true`
   everywhere before comparing a model kind with what the harness read off the implementation. *)
Fixpoint norm (k : kind) : kind :=
  let nu (u : unk) := match u with UExact x => UExact (or_undefined (norm x)) | UInf i => UInf i end in
  match k with
  | Kind p a o =>
      Kind p
           (match a with
            | None => None
            | Some c => Some (mkC (map (fun kv => (fst kv, norm (snd kv))) (known c)) (nu (unknown c)))
            end)
           (match o with
            | None => None
            | Some c => Some (mkC (map (fun kv => (fst kv, norm (snd kv))) (known c)) (nu (unknown c)))
            end)
  end.

Definition kind_same (model impl : kind) : bool := kind_eqb (norm model) (norm impl).
