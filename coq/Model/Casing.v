(* C28: the casing functions (camelcase, pascalcase, snakecase, screamingsnakecase, kebabcase) without an
   `original_case` / `excluded_boundaries` argument, i.e. convert_case 0.7.1 `s.to_case(case)` with
   `Boundary::defaults()`, modelled on PRINTABLE ASCII (bytes 0x20..0x7E; there every grapheme is one byte and the
   letter classes are the ASCII ones).  Outside that alphabet the model claims nothing (word segmentation by
   grapheme clusters and full Unicode case mapping are library code).
     boundary.rs `split`      -> `words`
     pattern.rs  `mutate`     -> `mutate`
     converter.rs `convert`   -> `convert`
   Definitions only. *)
From Coq Require Import List NArith Bool.
From VRL Require Import Base.Bytes.
Import ListNotations.
Local Open Scope N_scope.

Definition printable (c : N) : bool := (32 <=? c) && (c <=? 126).
Definition is_lower (c : N) : bool := (97 <=? c) && (c <=? 122).
Definition is_upper (c : N) : bool := (65 <=? c) && (c <=? 90).
Definition is_digit (c : N) : bool := (48 <=? c) && (c <=? 57).
Definition is_sep (c : N) : bool := (c =? 32) || (c =? 45) || (c =? 95).     (* SPACE, HYPHEN, UNDERSCORE *)

Definition to_lower (c : N) : N := if is_upper c then c + 32 else c.
Definition to_upper (c : N) : N := if is_lower c then c - 32 else c.

(* the zero-width boundaries of Boundary::defaults(), looking at the graphemes s[i], s[i+1], s[i+2]:
   LOWER_UPPER, ACRONYM, LOWER_DIGIT, UPPER_DIGIT, DIGIT_LOWER, DIGIT_UPPER (all with start = 1, len = 0) *)
Definition letter_boundary (c0 : N) (rest : list N) : bool :=
  match rest with
  | [] => false
  | c1 :: rest' =>
      (is_lower c0 && is_upper c1)
      || (is_upper c0 && is_upper c1 && match rest' with c2 :: _ => is_lower c2 | [] => false end)
      || (is_lower c0 && is_digit c1) || (is_upper c0 && is_digit c1)
      || (is_digit c0 && is_lower c1) || (is_digit c0 && is_upper c1)
  end.

(* boundary::split with the default boundaries; `cur` is the current word, reversed; empty words are dropped *)
Definition push_word (cur : list N) (acc : list bytes) : list bytes :=
  match cur with [] => acc | _ => rev cur :: acc end.

Fixpoint words_go (s : bytes) (cur : list N) : list bytes :=
  match s with
  | [] => push_word cur []
  | c :: r =>
      if is_sep c then push_word cur (words_go r [])
      else if letter_boundary c r then rev (c :: cur) :: words_go r []
      else words_go r (c :: cur)
  end.

Definition words (s : bytes) : list bytes := words_go s [].

Inductive word_case := WLower | WUpper | WCapital.

Definition mutate_word (wc : word_case) (w : bytes) : bytes :=
  match wc with
  | WLower => map to_lower w
  | WUpper => map to_upper w
  | WCapital => match w with [] => [] | c :: r => to_upper c :: map to_lower r end
  end.

Inductive pattern := PLowercase | PUppercase | PCapital | PCamel.

Definition mutate (p : pattern) (ws : list bytes) : list bytes :=
  match p with
  | PLowercase => map (mutate_word WLower) ws
  | PUppercase => map (mutate_word WUpper) ws
  | PCapital => map (mutate_word WCapital) ws
  | PCamel => match ws with
              | [] => []
              | w :: r => mutate_word WLower w :: map (mutate_word WCapital) r
              end
  end.

Fixpoint join_with (d : bytes) (ws : list bytes) : bytes :=
  match ws with
  | [] => []
  | [w] => w
  | w :: r => w ++ d ++ join_with d r
  end.

Definition convert (p : pattern) (d : bytes) (s : bytes) : bytes := join_with d (mutate p (words s)).

Definition camelcase := convert PCamel [].
Definition pascalcase := convert PCapital [].
Definition snakecase := convert PLowercase [95].
Definition screamingsnakecase := convert PUppercase [95].
Definition kebabcase := convert PLowercase [45].
