(* C33: the span arithmetic of verify_overwritable (src/compiler/expression/assignment.rs), the only place where the
   compiler computes label positions by arithmetic on the *printed* form of something instead of taking them from the
   lexer.  Definitions only.

     let mut parent_span = target_span;
     while let Some(last) = path.segments.pop() {                        // back to front
         let parent_kind = root_kind.at_path(&path);
         let (variant, segment_span, valid) = match last {
             segment @ Field(_) => {
                 let segment_str = segment.to_string();                                  // Display: quoted if needed
                 let segment_start = parent_span.end().saturating_sub(segment_str.len());
                 let segment_span = Span::new(segment_start, parent_span.end());
                 parent_span = Span::new(parent_span.start(), segment_start.saturating_sub(1));
                 ("object", segment_span, parent_kind.contains_object())
             }
             Index(index) => {
                 let segment_start = parent_span.end().saturating_sub(format!("[{index}]").len());
                 let segment_span = Span::new(segment_start, parent_span.end());
                 parent_span = Span::new(parent_span.start(), segment_start);
                 ("array", segment_span, parent_kind.contains_array())
             }
         };
         if valid { continue; }
         return Err(InvalidParentPathSegment { parent_span, segment_span, .. })   // labels: primary segment_span,
     }                                                                              //         context parent_span

   usize is N (N.sub truncates at 0 = saturating_sub); a path segment is represented by what the arithmetic uses of it:
   its kind and the byte length of its Display text.  The kind test `valid` (Kind::at_path, contains_object /
   contains_array: C19's territory) is a parameter: a list of booleans, one per popped segment.
   Source texts are byte lists; `is_boundary` is str::is_char_boundary. *)
From Coq Require Import List NArith Bool.
From VRL Require Import Base.Bytes.
Import ListNotations.
Local Open Scope N_scope.

Record span := mkSpan { s_start : N; s_end : N }.

Inductive seg :=
| SegField (display_len : N)       (* OwnedSegment::Field: len of `name` or `"name"` *)
| SegIndex (display_len : N).      (* OwnedSegment::Index: len of `[i]` *)

(* one turn of the loop: (segment_span, the new parent_span) *)
Definition step (parent : span) (sg : seg) : span * span :=
  match sg with
  | SegField n =>
      let st := s_end parent - n in
      (mkSpan st (s_end parent), mkSpan (s_start parent) (st - 1))
  | SegIndex n =>
      let st := s_end parent - n in
      (mkSpan st (s_end parent), mkSpan (s_start parent) st)
  end.

(* the loop over the reversed path; `valid` = the outcome of the kind test for each popped segment (a missing entry
   counts as invalid).  Some (segment_span, parent_span) = the spans of the error; None = Ok(()) *)
Fixpoint walk (rsegs : list seg) (valid : list bool) (parent : span) : option (span * span) :=
  match rsegs with
  | [] => None
  | sg :: r =>
      let '(ss, p') := step parent sg in
      match valid with
      | true :: vs => walk r vs p'
      | _ => Some (ss, p')
      end
  end.

Definition verify_overwritable_spans (segs : list seg) (valid : list bool) (target : span) : option (span * span) :=
  walk (rev segs) valid target.

(* every span the loop builds, whether reported or not *)
Fixpoint all_spans (rsegs : list seg) (parent : span) : list (span * span) :=
  match rsegs with
  | [] => []
  | sg :: r => let '(ss, p') := step parent sg in (ss, p') :: all_spans r p'
  end.

(* the text the printed segments would occupy: each field with the '.' before it *)
Definition seg_width (sg : seg) : N :=
  match sg with SegField n => n + 1 | SegIndex n => n end.

Fixpoint total_width (segs : list seg) : N :=
  match segs with [] => 0 | sg :: r => seg_width sg + total_width r end.

(* ---------- character boundaries ---------- *)

Definition is_cont (b : N) : bool := (128 <=? b) && (b <? 192).

(* str::is_char_boundary: 0 and len are boundaries, beyond len nothing is; otherwise the byte is not a continuation *)
Definition is_boundary (src : bytes) (i : N) : bool :=
  let len := N.of_nat (length src) in
  if i =? 0 then true
  else if len <? i then false
  else if i =? len then true
  else negb (is_cont (nth (N.to_nat i) src 0)).

Definition span_ok (src : bytes) (s : span) : bool :=
  (s_start s <=? s_end s) && (s_end s <=? N.of_nat (length src))
  && is_boundary src (s_start s) && is_boundary src (s_end s).

Definition in_bounds (len : N) (s : span) : bool := (s_start s <=? s_end s) && (s_end s <=? len).

(* all bytes of src in [a, b) are ASCII *)
Definition ascii_between (src : bytes) (a b : N) : Prop :=
  forall i, a <= i -> i < b -> nth (N.to_nat i) src 0 < 128.
