(* C27 — SeaHash 4.x as defined by its reference implementation (seahash crate, src/reference.rs; the
   algorithm has no other specification): four 64-bit lanes seeded with fixed constants, every 8-byte
   little-endian chunk (the last one may be shorter) is xored into lane a, diffused, and the lanes rotate;
   the result is diffuse(a xor b xor c xor d xor length).  Reference for `seahash`
   (src/stdlib/seahash.rs).  Definitions only. *)
From Coq Require Import List NArith Bool.
From VRL Require Import Base.Bytes Model.DigestWord.
Import ListNotations.
Local Open Scope N_scope.

Definition sea_diffuse (x : N) : N :=
  let x := mul64 x 0x6eed0e9da4d94a4f in
  let x := N.lxor x (N.shiftr (N.shiftr x 32) (N.shiftr x 60)) in
  mul64 x 0x6eed0e9da4d94a4f.

Definition sea_state := (N * N * N * N)%type.

Definition sea_write (st : sea_state) (chunk : bytes) : sea_state :=
  let '(a, b, c, d) := st in (b, c, d, sea_diffuse (N.lxor a (le_to_N chunk))).

Definition sea_init : sea_state :=
  (0x16f11fe89b0d677c, 0xb480a793d8e6c86c, 0x6fe2e5aaf078ebc9, 0x14f994a4c5259381).

Definition seahash (msg : bytes) : N :=
  let '(a, b, c, d) := fold_left sea_write (chunks 8 msg) sea_init in
  sea_diffuse (N.lxor (N.lxor (N.lxor a b) (N.lxor c d)) (trunc64 (blen msg))).
