(* C27 — xxHash as specified by doc/xxhash_spec.md of Cyan4973/xxHash (XXH32, XXH64: version 0.1.1 of the
   specification; XXH3-64 and XXH3-128: the "XXH3" chapter, default 192-byte secret, seed 0), the reference
   for `xxhash` (src/stdlib/xxhash.rs, which calls xxhash-rust with seed 0 / the default secret).
   Words are `N` with explicit masks, little-endian reads.  Definitions only. *)
From Coq Require Import List NArith Bool.
From VRL Require Import Base.Bytes Model.DigestWord.
Import ListNotations.
Local Open Scope N_scope.

Definition P32_1 : N := 0x9E3779B1.
Definition P32_2 : N := 0x85EBCA77.
Definition P32_3 : N := 0xC2B2AE3D.
Definition P32_4 : N := 0x27D4EB2F.
Definition P32_5 : N := 0x165667B1.
Definition P64_1 : N := 0x9E3779B185EBCA87.
Definition P64_2 : N := 0xC2B2AE3D27D4EB4F.
Definition P64_3 : N := 0x165667B19E3779F9.
Definition P64_4 : N := 0x85EBCA77C2B2AE63.
Definition P64_5 : N := 0x27D4EB2F165667C5.

(* little-endian reads at a byte offset *)
Definition rd (n : nat) (b : bytes) (i : N) : N := le_to_N (firstn n (skipn (N.to_nat i) b)).
Definition rd32 := rd 4.
Definition rd64 := rd 8.
Definition byte_at (b : bytes) (i : N) : N := nth (N.to_nat i) b 0.

(* the stripes of n bytes that are complete, and what is left after them *)
Definition full_chunks (n : nat) (b : bytes) : list bytes :=
  filter (fun c => Nat.eqb (length c) n) (chunks n b).
Definition tail_after (n : nat) (b : bytes) : bytes :=
  skipn (n * Nat.div (length b) n) b.

(* ------------------------------------------------------------------ XXH32 (seed 0) *)
Definition xxh32_round (acc inp : N) : N := mul32 (rotl32 (add32 acc (mul32 inp P32_2)) 13) P32_1.

Definition xxh32_stripe (v : N * N * N * N) (s : bytes) : N * N * N * N :=
  let '(v1, v2, v3, v4) := v in
  (xxh32_round v1 (rd32 s 0), xxh32_round v2 (rd32 s 4), xxh32_round v3 (rd32 s 8), xxh32_round v4 (rd32 s 12)).

Definition xxh32_avalanche (h : N) : N :=
  let h := N.lxor h (N.shiftr h 15) in
  let h := mul32 h P32_2 in
  let h := N.lxor h (N.shiftr h 13) in
  let h := mul32 h P32_3 in
  N.lxor h (N.shiftr h 16).

(* the remaining input: 4 bytes at a time, then byte by byte *)
Definition xxh32_tail_chunk (h : N) (c : bytes) : N :=
  if Nat.eqb (length c) 4 then mul32 (rotl32 (add32 h (mul32 (le_to_N c) P32_3)) 17) P32_4
  else fold_left (fun h x => mul32 (rotl32 (add32 h (mul32 x P32_5)) 11) P32_1) c h.

Definition xxh32 (msg : bytes) : N :=
  let seed := 0 in
  let len := blen msg in
  let h :=
    if 16 <=? len then
      let '(v1, v2, v3, v4) :=
        fold_left xxh32_stripe (full_chunks 16 msg)
                  (add32 (add32 seed P32_1) P32_2, add32 seed P32_2, seed, sub32 seed P32_1) in
      add32 (add32 (rotl32 v1 1) (rotl32 v2 7)) (add32 (rotl32 v3 12) (rotl32 v4 18))
    else add32 seed P32_5 in
  let h := add32 h (trunc32 len) in
  xxh32_avalanche (fold_left xxh32_tail_chunk (chunks 4 (tail_after 16 msg)) h).

(* ------------------------------------------------------------------ XXH64 (seed 0) *)
Definition xxh64_round (acc inp : N) : N := mul64 (rotl64 (add64 acc (mul64 inp P64_2)) 31) P64_1.
Definition xxh64_merge (acc v : N) : N := add64 (mul64 (N.lxor acc (xxh64_round 0 v)) P64_1) P64_4.

Definition xxh64_stripe (v : N * N * N * N) (s : bytes) : N * N * N * N :=
  let '(v1, v2, v3, v4) := v in
  (xxh64_round v1 (rd64 s 0), xxh64_round v2 (rd64 s 8), xxh64_round v3 (rd64 s 16), xxh64_round v4 (rd64 s 24)).

Definition xxh64_avalanche (h : N) : N :=
  let h := N.lxor h (N.shiftr h 33) in
  let h := mul64 h P64_2 in
  let h := N.lxor h (N.shiftr h 29) in
  let h := mul64 h P64_3 in
  N.lxor h (N.shiftr h 32).

Definition xxh64_step1 (h x : N) : N := mul64 (rotl64 (N.lxor h (mul64 x P64_5)) 11) P64_1.
Definition xxh64_step4 (h w : N) : N := add64 (mul64 (rotl64 (N.lxor h (mul64 w P64_1)) 23) P64_2) P64_3.
Definition xxh64_step8 (h w : N) : N := add64 (mul64 (rotl64 (N.lxor h (xxh64_round 0 w)) 27) P64_1) P64_4.

(* the remaining input: 8 bytes at a time, then one 4-byte word if there is room, then byte by byte *)
Definition xxh64_tail_chunk (h : N) (c : bytes) : N :=
  if Nat.eqb (length c) 8 then xxh64_step8 h (le_to_N c)
  else if Nat.leb 4 (length c) then fold_left xxh64_step1 (skipn 4 c) (xxh64_step4 h (le_to_N (firstn 4 c)))
  else fold_left xxh64_step1 c h.

Definition xxh64 (msg : bytes) : N :=
  let seed := 0 in
  let len := blen msg in
  let h :=
    if 32 <=? len then
      let '(v1, v2, v3, v4) :=
        fold_left xxh64_stripe (full_chunks 32 msg)
                  (add64 (add64 seed P64_1) P64_2, add64 seed P64_2, seed, sub64 seed P64_1) in
      let h := add64 (add64 (rotl64 v1 1) (rotl64 v2 7)) (add64 (rotl64 v3 12) (rotl64 v4 18)) in
      xxh64_merge (xxh64_merge (xxh64_merge (xxh64_merge h v1) v2) v3) v4
    else add64 seed P64_5 in
  let h := add64 h (trunc64 len) in
  xxh64_avalanche (fold_left xxh64_tail_chunk (chunks 8 (tail_after 32 msg)) h).

(* ------------------------------------------------------------------ XXH3 (seed 0, default secret) *)
Definition kSecret : bytes :=
  [0xb8; 0xfe; 0x6c; 0x39; 0x23; 0xa4; 0x4b; 0xbe; 0x7c; 0x01; 0x81; 0x2c; 0xf7; 0x21; 0xad; 0x1c;
   0xde; 0xd4; 0x6d; 0xe9; 0x83; 0x90; 0x97; 0xdb; 0x72; 0x40; 0xa4; 0xa4; 0xb7; 0xb3; 0x67; 0x1f;
   0xcb; 0x79; 0xe6; 0x4e; 0xcc; 0xc0; 0xe5; 0x78; 0x82; 0x5a; 0xd0; 0x7d; 0xcc; 0xff; 0x72; 0x21;
   0xb8; 0x08; 0x46; 0x74; 0xf7; 0x43; 0x24; 0x8e; 0xe0; 0x35; 0x90; 0xe6; 0x81; 0x3a; 0x26; 0x4c;
   0x3c; 0x28; 0x52; 0xbb; 0x91; 0xc3; 0x00; 0xcb; 0x88; 0xd0; 0x65; 0x8b; 0x1b; 0x53; 0x2e; 0xa3;
   0x71; 0x64; 0x48; 0x97; 0xa2; 0x0d; 0xf9; 0x4e; 0x38; 0x19; 0xef; 0x46; 0xa9; 0xde; 0xac; 0xd8;
   0xa8; 0xfa; 0x76; 0x3f; 0xe3; 0x9c; 0x34; 0x3f; 0xf9; 0xdc; 0xbb; 0xc7; 0xc7; 0x0b; 0x4f; 0x1d;
   0x8a; 0x51; 0xe0; 0x4b; 0xcd; 0xb4; 0x59; 0x31; 0xc8; 0x9f; 0x7e; 0xc9; 0xd9; 0x78; 0x73; 0x64;
   0xea; 0xc5; 0xac; 0x83; 0x34; 0xd3; 0xeb; 0xc3; 0xc5; 0x81; 0xa0; 0xff; 0xfa; 0x13; 0x63; 0xeb;
   0x17; 0x0d; 0xdd; 0x51; 0xb7; 0xf0; 0xda; 0x49; 0xd3; 0x16; 0x55; 0x26; 0x29; 0xd4; 0x68; 0x9e;
   0x2b; 0x16; 0xbe; 0x58; 0x7d; 0x47; 0xa1; 0xfc; 0x8f; 0xf8; 0xb8; 0xd1; 0x7a; 0xd0; 0x31; 0xce;
   0x45; 0xcb; 0x3a; 0x8f; 0x95; 0x16; 0x04; 0x28; 0xaf; 0xd7; 0xfb; 0xca; 0xbb; 0x4b; 0x40; 0x7e].

Definition PRIME_MX1 : N := 0x165667919E3779F9.
Definition PRIME_MX2 : N := 0x9FB21C651E98DF25.

Definition sec32 (i : N) : N := rd32 kSecret i.
Definition sec64 (i : N) : N := rd64 kSecret i.
Definition bswap32 (x : N) : N := be_to_N (N_to_le 4 x) 0.
Definition bswap64 (x : N) : N := be_to_N (N_to_le 8 x) 0.
Definition xorshift (x n : N) : N := N.lxor x (N.shiftr x n).
Definition mul128_fold64 (a b : N) : N := let p := a * b in N.lxor (trunc64 p) (N.shiftr p 64).

Definition xxh3_avalanche (h : N) : N :=
  let h := xorshift h 37 in
  let h := mul64 h PRIME_MX1 in
  xorshift h 32.

(* seed = 0: secret words are used as they are *)
Definition mix16 (b : bytes) (i s : N) : N :=
  mul128_fold64 (N.lxor (rd64 b i) (sec64 s)) (N.lxor (rd64 b (i + 8)) (sec64 (s + 8))).

Definition sum64 (l : list N) (start : N) : N := fold_left add64 l start.

(* --- long inputs (> 240 bytes): 8 accumulators over 64-byte stripes *)
Definition xxh3_init_acc : list N := [P32_3; P64_1; P64_2; P64_3; P64_4; P32_2; P64_5; P32_1].
Definition idx8 : list N := [0; 1; 2; 3; 4; 5; 6; 7].

(* accumulate_512: acc[i xor 1] += data[i]; acc[i] += lo32(data[i] xor key[i]) * hi32(data[i] xor key[i]);
   written per lane: lane k receives data[k xor 1] and its own product *)
Definition accumulate_512 (acc : list N) (b : bytes) (i s : N) : list N :=
  map (fun k =>
         let dk := N.lxor (rd64 b (i + 8 * k)) (sec64 (s + 8 * k)) in
         add64 (add64 (nth (N.to_nat k) acc 0) (rd64 b (i + 8 * N.lxor k 1)))
               (N.land dk mask32 * N.shiftr dk 32)) idx8.

Definition scramble_acc (acc : list N) (s : N) : list N :=
  map (fun k => mul64 (N.lxor (xorshift (nth (N.to_nat k) acc 0) 47) (sec64 (s + 8 * k))) P32_1) idx8.

Definition nseq (n : N) : list N := map N.of_nat (seq 0 (N.to_nat n)).

Definition acc_stripes (acc : list N) (b : bytes) (off nst : N) : list N :=
  fold_left (fun acc st => accumulate_512 acc b (off + 64 * st) (8 * st)) (nseq nst) acc.

Definition xxh3_long_acc (b : bytes) : list N :=
  let n := blen b in
  let nblocks := (n - 1) / 1024 in      (* 16 stripes of 64 bytes per block: (192 - 64) / 8 *)
  let acc := fold_left (fun acc blk => scramble_acc (acc_stripes acc b (1024 * blk) 16) 128)
                       (nseq nblocks) xxh3_init_acc in
  let acc := acc_stripes acc b (1024 * nblocks) (((n - 1) - 1024 * nblocks) / 64) in
  accumulate_512 acc b (n - 64) 121.    (* last stripe, secret offset 192 - 64 - 7 *)

Definition xxh3_merge (acc : list N) (s start : N) : N :=
  xxh3_avalanche
    (sum64 (map (fun k => mul128_fold64 (N.lxor (nth (N.to_nat (2 * k)) acc 0) (sec64 (s + 16 * k)))
                                         (N.lxor (nth (N.to_nat (2 * k + 1)) acc 0) (sec64 (s + 16 * k + 8))))
                [0; 1; 2; 3]) start).

(* --- XXH3-64 *)
Definition xxh3_64_0 : N := xxh64_avalanche (N.lxor (sec64 56) (sec64 64)).

Definition xxh3_combined (b : bytes) (n : N) : N :=
  N.lor (N.lor (N.shiftl (byte_at b 0) 16) (N.shiftl (byte_at b (N.shiftr n 1)) 24))
        (N.lor (byte_at b (n - 1)) (N.shiftl n 8)).

Definition xxh3_64_1to3 (b : bytes) (n : N) : N :=
  xxh64_avalanche (N.lxor (xxh3_combined b n) (N.lxor (sec32 0) (sec32 4))).

Definition xxh3_rrmxmx (h n : N) : N :=
  let h := N.lxor h (N.lxor (rotl64 h 49) (rotl64 h 24)) in
  let h := mul64 h PRIME_MX2 in
  let h := N.lxor h (N.shiftr h 35 + n) in
  let h := mul64 h PRIME_MX2 in
  xorshift h 28.

Definition xxh3_64_4to8 (b : bytes) (n : N) : N :=
  let in1 := rd32 b 0 in
  let in2 := rd32 b (n - 4) in
  xxh3_rrmxmx (N.lxor (in2 + N.shiftl in1 32) (N.lxor (sec64 8) (sec64 16))) n.

Definition xxh3_64_9to16 (b : bytes) (n : N) : N :=
  let lo := N.lxor (rd64 b 0) (N.lxor (sec64 24) (sec64 32)) in
  let hi := N.lxor (rd64 b (n - 8)) (N.lxor (sec64 40) (sec64 48)) in
  xxh3_avalanche (add64 (add64 n (bswap64 lo)) (add64 hi (mul128_fold64 lo hi))).

Definition xxh3_64_17to128 (b : bytes) (n : N) : N :=
  let m96 := if 96 <? n then [mix16 b 48 96; mix16 b (n - 64) 112] else [] in
  let m64 := if 64 <? n then [mix16 b 32 64; mix16 b (n - 48) 80] else [] in
  let m32 := if 32 <? n then [mix16 b 16 32; mix16 b (n - 32) 48] else [] in
  xxh3_avalanche (sum64 (m96 ++ m64 ++ m32 ++ [mix16 b 0 0; mix16 b (n - 16) 16]) (mul64 n P64_1)).

Definition xxh3_64_129to240 (b : bytes) (n : N) : N :=
  let acc := sum64 (map (fun k => mix16 b (16 * k) (16 * k)) idx8) (mul64 n P64_1) in
  let acc := xxh3_avalanche acc in
  let acc := sum64 (map (fun k => mix16 b (16 * (k + 8)) (16 * k + 3)) (nseq (n / 16 - 8))) acc in
  xxh3_avalanche (add64 acc (mix16 b (n - 16) 119)).   (* 136 - 17 *)

Definition xxh3_64 (b : bytes) : N :=
  let n := blen b in
  if n =? 0 then xxh3_64_0
  else if n <=? 3 then xxh3_64_1to3 b n
  else if n <=? 8 then xxh3_64_4to8 b n
  else if n <=? 16 then xxh3_64_9to16 b n
  else if n <=? 128 then xxh3_64_17to128 b n
  else if n <=? 240 then xxh3_64_129to240 b n
  else xxh3_merge (xxh3_long_acc b) 11 (mul64 n P64_1).

(* --- XXH3-128: (low, high) *)
Definition xxh3_128_0 : N * N :=
  (xxh64_avalanche (N.lxor (sec64 64) (sec64 72)), xxh64_avalanche (N.lxor (sec64 80) (sec64 88))).

Definition xxh3_128_1to3 (b : bytes) (n : N) : N * N :=
  let cl := xxh3_combined b n in
  let ch := rotl32 (bswap32 cl) 13 in
  (xxh64_avalanche (N.lxor cl (N.lxor (sec32 0) (sec32 4))),
   xxh64_avalanche (N.lxor ch (N.lxor (sec32 8) (sec32 12)))).

Definition xxh3_128_4to8 (b : bytes) (n : N) : N * N :=
  let ilo := rd32 b 0 in
  let ihi := rd32 b (n - 4) in
  let keyed := N.lxor (ilo + N.shiftl ihi 32) (N.lxor (sec64 16) (sec64 24)) in
  let m := keyed * add64 P64_1 (N.shiftl n 2) in
  let mlo := trunc64 m in
  let mhi := N.shiftr m 64 in
  let mhi := add64 mhi (N.shiftl mlo 1) in
  let mlo := N.lxor mlo (N.shiftr mhi 3) in
  let mlo := xorshift mlo 35 in
  let mlo := mul64 mlo PRIME_MX2 in
  let mlo := xorshift mlo 28 in
  (mlo, xxh3_avalanche mhi).

Definition xxh3_128_9to16 (b : bytes) (n : N) : N * N :=
  let bl := N.lxor (sec64 32) (sec64 40) in
  let bh := N.lxor (sec64 48) (sec64 56) in
  let ilo := rd64 b 0 in
  let ihi := rd64 b (n - 8) in
  let m := N.lxor (N.lxor ilo ihi) bl * P64_1 in
  let mlo := add64 (trunc64 m) (N.shiftl (n - 1) 54) in
  let mhi := N.shiftr m 64 in
  let ihi := N.lxor ihi bh in
  let mhi := add64 (add64 mhi ihi) (N.land ihi mask32 * (P32_2 - 1)) in
  let mlo := N.lxor mlo (bswap64 mhi) in
  let h := mlo * P64_2 in
  let hlo := trunc64 h in
  let hhi := add64 (N.shiftr h 64) (mul64 mhi P64_2) in
  (xxh3_avalanche hlo, xxh3_avalanche hhi).

Definition mix32 (b : bytes) (acc : N * N) (i1 i2 s : N) : N * N :=
  let '(al, ah) := acc in
  let al := add64 al (mix16 b i1 s) in
  let al := N.lxor al (add64 (rd64 b i2) (rd64 b (i2 + 8))) in
  let ah := add64 ah (mix16 b i2 (s + 16)) in
  let ah := N.lxor ah (add64 (rd64 b i1) (rd64 b (i1 + 8))) in
  (al, ah).

Definition xxh3_128_finish (acc : N * N) (n : N) : N * N :=
  let '(al, ah) := acc in
  (xxh3_avalanche (add64 al ah),
   sub64 0 (xxh3_avalanche (add64 (add64 (mul64 al P64_1) (mul64 ah P64_4)) (mul64 n P64_2)))).

Definition xxh3_128_17to128 (b : bytes) (n : N) : N * N :=
  let acc := (mul64 n P64_1, 0) in
  let acc := if 96 <? n then mix32 b acc 48 (n - 64) 96 else acc in
  let acc := if 64 <? n then mix32 b acc 32 (n - 48) 64 else acc in
  let acc := if 32 <? n then mix32 b acc 16 (n - 32) 32 else acc in
  xxh3_128_finish (mix32 b acc 0 (n - 16) 0) n.

Definition xxh3_128_129to240 (b : bytes) (n : N) : N * N :=
  let acc := fold_left (fun acc k => mix32 b acc (32 * k) (32 * k + 16) (32 * k)) [0; 1; 2; 3] (mul64 n P64_1, 0) in
  let acc := (xxh3_avalanche (fst acc), xxh3_avalanche (snd acc)) in
  (* i = 160, 192, .. while i <= n *)
  let acc := fold_left (fun acc k => mix32 b acc (128 + 32 * k) (144 + 32 * k) (3 + 32 * k))
                       (nseq ((n - 128) / 32)) acc in
  xxh3_128_finish (mix32 b acc (n - 16) (n - 32) 103) n.      (* 136 - 17 - 16 *)

Definition xxh3_128_pair (b : bytes) : N * N :=
  let n := blen b in
  if n =? 0 then xxh3_128_0
  else if n <=? 3 then xxh3_128_1to3 b n
  else if n <=? 8 then xxh3_128_4to8 b n
  else if n <=? 16 then xxh3_128_9to16 b n
  else if n <=? 128 then xxh3_128_17to128 b n
  else if n <=? 240 then xxh3_128_129to240 b n
  else
    let acc := xxh3_long_acc b in
    (xxh3_merge acc 11 (mul64 n P64_1), xxh3_merge acc 117 (N.lxor (mul64 n P64_2) mask64)).   (* 192 - 64 - 11 *)

Definition xxh3_128 (b : bytes) : N := let '(lo, hi) := xxh3_128_pair b in lo + N.shiftl hi 64.
