(* Model of the embedder type-conversion API, src/compiler/conversion/mod.rs (Conversion::parse, Conversion::timestamp,
   Conversion::convert, parse_bool, format_has_zone, parse_unix_timestamp, parse_timestamp with its two ordered format
   lists) and of src/compiler/datetime.rs (TimeZone::datetime_from_str, datetime_to_utc).  Definitions only.

   What is library code and stays abstract (Section variables; the theorems are universally quantified over them and the
   correspondence instantiates them with the results the very same chrono calls returned on the case's text):
     chrono_local tz s fmt   = chrono::format::parse(&mut parsed, s, StrftimeItems::new(fmt)) followed by
                               parsed.to_datetime_with_timezone(tz)            (the body of TimeZone::datetime_from_str)
     chrono_zoned s fmt      = DateTime::parse_from_str(s, fmt)
     chrono_rfc3339 s        = DateTime::parse_from_rfc3339(s)
     chrono_rfc2822 s        = DateTime::parse_from_rfc2822(s)
   each giving None for Err(_) and Some (secs, nanos) = (dt.timestamp(), dt.timestamp_subsec_nanos()) for Ok(dt); chrono
   represents a leap second as nanos in [10^9, 2*10^9).  `s` stands for String::from_utf8_lossy(bytes) of the raw input:
   the composition with the lossy decoding is part of the abstract function.
   Integers and floats are the exact text models of C25/C29 (Model/IntText.v: i64::from_str_radix; Model/NumFns.v:
   str::parse::<f64>), timestamps are nanoseconds since the epoch (VTs).  str::to_lowercase is modelled by ASCII
   lower-casing of the bytes: a text with a non-ASCII character never lower-cases to one of the (all-ASCII, 'k'-free)
   spellings -- the only non-ASCII scalar whose lower case is ASCII is U+212A KELVIN SIGN -> 'k' -- and the byte model
   keeps a byte >= 0x80 in place, so the outcome (no spelling matches) is the same. *)
From Coq Require Import List NArith ZArith Bool String.
From VRL Require Import Base.Bytes Base.Value Base.Lit Model.ConvRes Model.Arith Model.IntText Model.NumFns Model.UnixTs Model.Casing.
Import ListNotations.
Local Open Scope Z_scope.

(* ---------- small text helpers ---------- *)

Definition mem (s : bytes) (l : list bytes) : bool := existsb (bytes_eqb s) l.

Fixpoint is_prefix (p s : bytes) : bool :=
  match p, s with
  | [], _ => true
  | a :: p', b :: s' => (a =? b)%N && is_prefix p' s'
  | _ :: _, [] => false
  end.

(* str::contains(pat) *)
Fixpoint has_sub (p s : bytes) : bool :=
  is_prefix p s || match s with [] => false | _ :: s' => has_sub p s' end.

(* s.splitn(2, '|'): the part before the first '|' and, when there is one, everything after it *)
Fixpoint split_bar (s : bytes) : bytes * option bytes :=
  match s with
  | [] => ([], None)
  | c :: r => if (c =? 124)%N then ([], Some r)
              else let '(a, b) := split_bar r in (c :: a, b)
  end.

(* char::is_whitespace (the Unicode White_Space property) on UTF-8: the rest of the text after one white-space
   character at its head.  U+0009..U+000D, U+0020, U+0085, U+00A0, U+1680, U+2000..U+200A, U+2028, U+2029, U+202F,
   U+205F, U+3000. *)
Definition is_ascii_ws (c : N) : bool := ((9 <=? c) && (c <=? 13) || (c =? 32))%N.
Definition e280_ws (x : N) : bool := ((128 <=? x) && (x <=? 138) || (x =? 168) || (x =? 169) || (x =? 175))%N.

Definition ws_head (s : bytes) : option bytes :=
  match s with
  | [] => None
  | c :: r =>
      if is_ascii_ws c then Some r
      else match s with
           | 194%N :: 133%N :: r' => Some r'
           | 194%N :: 160%N :: r' => Some r'
           | 225%N :: 154%N :: 128%N :: r' => Some r'
           | 226%N :: 128%N :: x :: r' => if e280_ws x then Some r' else None
           | 226%N :: 129%N :: 159%N :: r' => Some r'
           | 227%N :: 128%N :: 128%N :: r' => Some r'
           | _ => None
           end
  end.

(* the same on the reversed text (the last character of a valid UTF-8 text, its bytes in reverse order) *)
Definition ws_last (s : bytes) : option bytes :=
  match s with
  | [] => None
  | c :: r =>
      if is_ascii_ws c then Some r
      else match s with
           | 133%N :: 194%N :: r' => Some r'
           | 160%N :: 194%N :: r' => Some r'
           | 128%N :: 154%N :: 225%N :: r' => Some r'
           | 159%N :: 129%N :: 226%N :: r' => Some r'
           | 128%N :: 128%N :: 227%N :: r' => Some r'
           | x :: 128%N :: 226%N :: r' => if e280_ws x then Some r' else None
           | _ => None
           end
  end.

Fixpoint strip (step : bytes -> option bytes) (fuel : nat) (s : bytes) : bytes :=
  match fuel with
  | O => s
  | S f => match step s with Some r => strip step f r | None => s end
  end.

(* str::trim *)
Definition trim (s : bytes) : bytes :=
  let a := strip ws_head (List.length s) s in
  rev (strip ws_last (List.length a) (rev a)).

(* ---------- format_has_zone ---------- *)

Definition zone_specs : list bytes := map ascii_bytes ["%Z"; "%z"; "%:z"; "%#z"; "%+"]%string.

Definition format_has_zone (fmt : bytes) : bool := existsb (fun p => has_sub p fmt) zone_specs.

(* ---------- parse_bool ---------- *)

Definition true_lits : list bytes := map ascii_bytes ["true"; "t"; "yes"; "y"]%string.
Definition false_lits : list bytes := map ascii_bytes ["false"; "f"; "no"; "n"]%string.
Definition zero_lit : bytes := ascii_bytes "0"%string.

(* None = Err(Error::BoolParse) *)
Definition parse_bool (s : bytes) : option bool :=
  if mem s true_lits then Some true
  else if mem s false_lits || bytes_eqb s zero_lit then Some false
  else match parse_i64 s with                      (* s.parse::<isize>() *)
       | Some n => Some (negb (n =? 0))
       | None =>
           let l := map to_lower s in              (* s.to_lowercase() *)
           if mem l true_lits then Some true
           else if mem l false_lits then Some false
           else None
       end.

(* ---------- results ---------- *)

Inductive cerr := EcBool | EcInt | EcNan | EcFloat | EcTs | EcAuto.

(* Ok(value) | Err(Error::..) | the `expect("invalid timestamp")` of datetime_to_utc panics *)
Inductive cres :=
| COk (v : value)
| CErr (e : cerr)
| CPanic.

(* a chrono DateTime: (timestamp(), timestamp_subsec_nanos()) *)
Definition dt := (Z * Z)%type.

(* datetime_to_utc: Utc.timestamp_opt(ts.timestamp(), ts.timestamp_subsec_nanos()).single().expect("invalid timestamp").
   DateTime::from_timestamp rejects nanos >= 10^9 (a leap second) unless the UTC second of the minute is 59
   (NaiveTime::from_num_seconds_from_midnight_opt); the date itself is that of an existing DateTime, hence in range.
   The timestamp value keeps the leap representation: secs * 10^9 + nanos. *)
Definition datetime_to_utc (d : dt) : res Z :=
  let '(secs, nanos) := d in
  if (nanos <? 1000000000) || ((secs mod 86400) mod 60 =? 59) then ROk (secs * 1000000000 + nanos)
  else RPanic.

Definition ts_res (r : res Z) : cres :=
  match r with
  | ROk ns => COk (VTs ns)
  | _ => CPanic
  end.

(* parse_unix_timestamp: i64 seconds, Utc.timestamp_opt(secs, 0) must be Single (the date is representable) *)
Definition parse_unix_timestamp (s : bytes) : option Z :=
  match parse_i64 s with
  | Some secs => if secs_in_range secs then Some (secs * 1000000000) else None
  | None => None
  end.

Definition local_formats : list bytes :=
  map ascii_bytes [ "%F %T"; "%v %T"; "%FT%T"; "%m/%d/%Y:%T"; "%a, %d %b %Y %T"; "%a %d %b %T %Y";
                    "%A %d %B %T %Y"; "%a %b %e %T %Y" ]%string.

Definition tz_formats : list bytes :=
  map ascii_bytes [ "%+"; "%a %d %b %T %Z %Y"; "%a %d %b %T %z %Y"; "%a %d %b %T %#z %Y"; "%d/%b/%Y:%T %z" ]%string.

Definition names_bytes : list bytes := map ascii_bytes ["asis"; "bytes"; "string"]%string.
Definition names_integer : list bytes := map ascii_bytes ["integer"; "int"]%string.
Definition names_float : list bytes := map ascii_bytes ["float"]%string.
Definition names_boolean : list bytes := map ascii_bytes ["bool"; "boolean"]%string.
Definition name_timestamp : bytes := ascii_bytes "timestamp"%string.

Section Chrono.
  Variable tzT : Type.                                        (* compiler::TimeZone: Local | Named(Tz) *)
  Variable chrono_local : tzT -> bytes -> bytes -> option dt. (* tz, text, format *)
  Variable chrono_zoned : bytes -> bytes -> option dt.        (* text, format *)
  Variable chrono_rfc3339 : bytes -> option dt.
  Variable chrono_rfc2822 : bytes -> option dt.

  Inductive conversion :=
  | CBytes
  | CInteger
  | CFloat
  | CBoolean
  | CTimestamp (tz : tzT)
  | CTimestampFmt (fmt : bytes) (tz : tzT)
  | CTimestampTzFmt (fmt : bytes).

  (* Conversion::timestamp *)
  Definition conv_timestamp (fmt : bytes) (tz : tzT) : conversion :=
    if format_has_zone fmt then CTimestampTzFmt fmt else CTimestampFmt fmt tz.

  (* Conversion::parse; None = Err(UnknownConversion) *)
  Definition parse_conv (name : bytes) (tz : tzT) : option conversion :=
    let '(a, b) := split_bar name in
    let a := trim a in
    match b with
    | None =>
        if mem a names_bytes then Some CBytes
        else if mem a names_integer then Some CInteger
        else if mem a names_float then Some CFloat
        else if mem a names_boolean then Some CBoolean
        else if bytes_eqb a name_timestamp then Some (CTimestamp tz)
        else None
    | Some fmt =>
        if bytes_eqb a name_timestamp then Some (conv_timestamp (trim fmt) tz) else None
    end.

  (* TimeZone::datetime_from_str: None = Err(ParseError); the conversion to UTC can panic *)
  Definition datetime_from_str (tz : tzT) (s fmt : bytes) : option (res Z) :=
    match chrono_local tz s fmt with
    | Some d => Some (datetime_to_utc d)
    | None => None
    end.

  (* `for format in FORMATS { if let Ok(result) = .. { return Ok(result) } }` *)
  Fixpoint first_local (tz : tzT) (s : bytes) (fmts : list bytes) : option (res Z) :=
    match fmts with
    | [] => None
    | f :: r => match datetime_from_str tz s f with
                | Some x => Some x
                | None => first_local tz s r
                end
    end.

  Fixpoint first_zoned (s : bytes) (fmts : list bytes) : option (res Z) :=
    match fmts with
    | [] => None
    | f :: r => match chrono_zoned s f with
                | Some d => Some (datetime_to_utc d)
                | None => first_zoned s r
                end
    end.

  (* parse_timestamp(tz, s) *)
  Definition parse_timestamp (tz : tzT) (s : bytes) : cres :=
    match first_local tz s local_formats with
    | Some r => ts_res r
    | None =>
        match parse_unix_timestamp s with
        | Some ns => COk (VTs ns)
        | None =>
            match chrono_rfc3339 s with
            | Some d => ts_res (datetime_to_utc d)
            | None =>
                match chrono_rfc2822 s with
                | Some d => ts_res (datetime_to_utc d)
                | None =>
                    match first_zoned s tz_formats with
                    | Some r => ts_res r
                    | None => CErr EcAuto
                    end
                end
            end
        end
    end.

  (* Conversion::convert::<Value> *)
  Definition convert (c : conversion) (s : bytes) : cres :=
    match c with
    | CBytes => COk (VBytes s)
    | CInteger => match parse_i64 s with Some z => COk (VInt z) | None => CErr EcInt end
    | CFloat =>
        match parse_f64 s with
        | Some f => if f_is_nan f then CErr EcNan else COk (VFloat f)
        | None => CErr EcFloat
        end
    | CBoolean => match parse_bool s with Some b => COk (VBool b) | None => CErr EcBool end
    | CTimestamp tz => parse_timestamp tz s
    | CTimestampFmt fmt tz =>
        match datetime_from_str tz s fmt with
        | Some r => ts_res r
        | None => CErr EcTs
        end
    | CTimestampTzFmt fmt =>
        match chrono_zoned s fmt with
        | Some d => ts_res (datetime_to_utc d)
        | None => CErr EcTs
        end
    end.

  (* name and text in one step, as an embedder uses it *)
  Definition convert_named (name : bytes) (tz : tzT) (s : bytes) : option cres :=
    match parse_conv name tz with
    | Some c => Some (convert c s)
    | None => None
    end.
End Chrono.

Arguments CBytes {tzT}.
Arguments CInteger {tzT}.
Arguments CFloat {tzT}.
Arguments CBoolean {tzT}.
Arguments CTimestamp {tzT} tz.
Arguments CTimestampFmt {tzT} fmt tz.
Arguments CTimestampTzFmt {tzT} fmt.

(* ---------- specification-side helpers (used by statements and the oracle, not by the model) ---------- *)

(* every way of writing the lower-case ASCII word l with some letters in upper case *)
Fixpoint variants (l : bytes) : list bytes :=
  match l with
  | [] => [[]]
  | x :: r =>
      let vr := variants r in
      if is_lower x then map (cons x) vr ++ map (cons (x - 32)%N) vr else map (cons x) vr
  end.

Definition spellings (b : bool) : list bytes := if b then true_lits else false_lits.

(* DateTime<Utc> of nanoseconds-since-epoch ns, as chrono reports it *)
Definition dt_of_ns (ns : Z) : dt := (ns / 1000000000, ns mod 1000000000).
