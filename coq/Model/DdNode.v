(* The Datadog search syntax tree: src/datadog/search/node.rs `QueryNode`, `ComparisonValue`,
   `Comparison`, `BooleanType`.  Shared by Model/DdMatch.v (C31) and Model/DdSearch.v (C30).
   Strings are byte strings (UTF-8); definitions only. *)
From Coq Require Import List NArith ZArith Bool String Ascii.
From Coq Require Import Floats.SpecFloat.
From VRL Require Import Base.Bytes Base.Value.
Import ListNotations.

(* readable byte-string literals for the model's constants *)
Fixpoint bs (s : string) : bytes :=
  match s with
  | EmptyString => []
  | String a r => N_of_ascii a :: bs r
  end.

Inductive cmpop := Gt | Lt | Gte | Lte.

Inductive cval :=
| CUnb                       (* ComparisonValue::Unbounded *)
| CStr (s : bytes)
| CInt (z : Z)
| CFloat (f : spec_float).

Inductive bop := BAnd | BOr.

Inductive node :=
| NAll                                                        (* MatchAllDocs *)
| NNone                                                       (* MatchNoDocs *)
| NExists (attr : bytes)
| NMissing (attr : bytes)
| NRange (attr : bytes) (lo : cval) (li : bool) (hi : cval) (ui : bool)
| NCmp (attr : bytes) (op : cmpop) (v : cval)
| NTerm (attr v : bytes)
| NQuoted (attr v : bytes)
| NPrefix (attr v : bytes)
| NWild (attr v : bytes)
| NNot (n : node)
| NBool (op : bop) (ns : list node).

Section node_ind_nested.
  Variable P : node -> Prop.
  Hypothesis Hall : P NAll.
  Hypothesis Hnone : P NNone.
  Hypothesis Hexists : forall a, P (NExists a).
  Hypothesis Hmissing : forall a, P (NMissing a).
  Hypothesis Hrange : forall a lo li hi ui, P (NRange a lo li hi ui).
  Hypothesis Hcmp : forall a op v, P (NCmp a op v).
  Hypothesis Hterm : forall a v, P (NTerm a v).
  Hypothesis Hquoted : forall a v, P (NQuoted a v).
  Hypothesis Hprefix : forall a v, P (NPrefix a v).
  Hypothesis Hwild : forall a v, P (NWild a v).
  Hypothesis Hnot : forall n, P n -> P (NNot n).
  Hypothesis Hbool : forall op ns, Forall P ns -> P (NBool op ns).

  Fixpoint node_ind' (n : node) : P n :=
    match n with
    | NAll => Hall
    | NNone => Hnone
    | NExists a => Hexists a
    | NMissing a => Hmissing a
    | NRange a lo li hi ui => Hrange a lo li hi ui
    | NCmp a op v => Hcmp a op v
    | NTerm a v => Hterm a v
    | NQuoted a v => Hquoted a v
    | NPrefix a v => Hprefix a v
    | NWild a v => Hwild a v
    | NNot m => Hnot m (node_ind' m)
    | NBool op ns =>
        Hbool op ns ((fix go (l : list node) : Forall P l :=
                        match l with
                        | [] => Forall_nil _
                        | x :: l' => Forall_cons x (node_ind' x) (go l')
                        end) ns)
    end.
End node_ind_nested.

(* ---------- structural equality (floats by bit pattern class: NaN = NaN) ---------- *)

Definition cmpop_eqb (a b : cmpop) : bool :=
  match a, b with
  | Gt, Gt | Lt, Lt | Gte, Gte | Lte, Lte => true
  | _, _ => false
  end.

Definition cval_eqb (a b : cval) : bool :=
  match a, b with
  | CUnb, CUnb => true
  | CStr x, CStr y => bytes_eqb x y
  | CInt x, CInt y => Z.eqb x y
  | CFloat x, CFloat y => sf_eqb x y
  | _, _ => false
  end.

Definition bop_eqb (a b : bop) : bool :=
  match a, b with
  | BAnd, BAnd | BOr, BOr => true
  | _, _ => false
  end.

Fixpoint node_eqb (a b : node) {struct a} : bool :=
  match a, b with
  | NAll, NAll => true
  | NNone, NNone => true
  | NExists x, NExists y => bytes_eqb x y
  | NMissing x, NMissing y => bytes_eqb x y
  | NRange a1 lo1 li1 hi1 ui1, NRange a2 lo2 li2 hi2 ui2 =>
      bytes_eqb a1 a2 && cval_eqb lo1 lo2 && Bool.eqb li1 li2 && cval_eqb hi1 hi2 && Bool.eqb ui1 ui2
  | NCmp a1 o1 v1, NCmp a2 o2 v2 => bytes_eqb a1 a2 && cmpop_eqb o1 o2 && cval_eqb v1 v2
  | NTerm a1 v1, NTerm a2 v2 => bytes_eqb a1 a2 && bytes_eqb v1 v2
  | NQuoted a1 v1, NQuoted a2 v2 => bytes_eqb a1 a2 && bytes_eqb v1 v2
  | NPrefix a1 v1, NPrefix a2 v2 => bytes_eqb a1 a2 && bytes_eqb v1 v2
  | NWild a1 v1, NWild a2 v2 => bytes_eqb a1 a2 && bytes_eqb v1 v2
  | NNot x, NNot y => node_eqb x y
  | NBool o1 l1, NBool o2 l2 =>
      bop_eqb o1 o2 &&
      (fix go (l1 l2 : list node) {struct l1} : bool :=
         match l1, l2 with
         | [], [] => true
         | x :: r1, y :: r2 => node_eqb x y && go r1 r2
         | _, _ => false
         end) l1 l2
  | _, _ => false
  end.
