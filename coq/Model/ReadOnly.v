(* CompileConfig read-only paths (src/compiler/compile_config.rs) and the compile-time checks that
   consult them: Assignment::new -> verify_mutable, Del::compile. *)
From Coq Require Import List NArith ZArith Bool.
From VRL Require Import Base.Bytes Base.Value Model.Expr Model.Info.
Import ListNotations.

Record ro_path := mkRo { ro_pfx : prefix; ro_p : path; ro_rec : bool }.

(* OwnedValuePath::can_start_with: segment-wise equality (an index never matches a field) *)
Fixpoint starts_with (p pre : path) : bool :=
  match pre, p with
  | [], _ => true
  | s :: pre', t :: p' => seg_eqb t s && starts_with p' pre'
  | _ :: _, [] => false
  end.

Definition pfx_eq (a b : prefix) : bool :=
  match a, b with PEvent, PEvent | PMeta, PMeta => true | _, _ => false end.

Fixpoint path_eq (p q : path) : bool :=
  match p, q with
  | [], [] => true
  | a :: p', b :: q' => seg_eqb a b && path_eq p' q'
  | _, _ => false
  end.

(* CompileConfig::is_read_only_path *)
Definition is_read_only (cfg : list ro_path) (pfx : prefix) (q : path) : bool :=
  existsb (fun r => pfx_eq (ro_pfx r) pfx &&
                    (starts_with (ro_p r) q ||
                     (if ro_rec r then starts_with q (ro_p r) else path_eq q (ro_p r)))) cfg.

(* the target paths a program may modify: assignment targets and del arguments *)
Definition del_paths (es : list expr) : list (prefix * path) :=
  flat_map (fun q => match fst q with Some _ => [snd q] | None => [] end) (queries_l es).
Definition writes (es : list expr) : list (prefix * path) := assigns_l es ++ del_paths es.

(* the program passes the read-only checks of the compiler *)
Definition ro_accepts (cfg : list ro_path) (es : list expr) : bool :=
  forallb (fun w => negb (is_read_only cfg (fst w) (snd w))) (writes es).

(* C15's hypotheses forced by the proof: field-only paths, non-compacting deletions *)
Fixpoint fields_only (p : path) : bool :=
  match p with [] => true | SField _ :: p' => fields_only p' | SIndex _ :: _ => false end.
Definition no_compact_del (es : list expr) : bool :=
  forallb (fun q => match fst q with Some true => false | _ => true end) (queries_l es).
