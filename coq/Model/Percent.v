(* encode_percent / decode_percent (src/stdlib/{encode,decode}_percent.rs; crate percent-encoding 2.3.2).

   encode_percent(value, ascii_set) = utf8_percent_encode(from_utf8_lossy(value), SET): every byte that is
     non-ASCII or in SET becomes "%XX" (upper-case hex), every other byte is copied.
   decode_percent(value) = percent_decode(value).decode_utf8_lossy(): '%' followed by two hex digits
     (either case) becomes that byte, anything else is copied; the result is made UTF-8 lossily.
   The nine sets are copied from encode_percent.rs (FRAGMENT … WWW_FORM_URLENCODED as `.add` chains on
   percent_encoding::CONTROLS) and from the crate (CONTROLS = C0 controls + DEL; NON_ALPHANUMERIC =
   everything but 0-9 A-Z a-z); the correspondence run encodes every ASCII byte under every set.
   `ascii_set` must be a compile-time constant out of the nine names; anything else does not compile.
   Definitions only. *)
From Coq Require Import List NArith Bool String.
From VRL Require Import Base.Bytes Base.Lit Model.Base16 Model.CodecUtf8.
Import ListNotations.
Local Open Scope N_scope.

Inductive ascii_set :=
| NON_ALPHANUMERIC | CONTROLS | FRAGMENT | QUERY | SPECIAL | PATH | USERINFO | COMPONENT | WWW_FORM_URLENCODED.

Definition all_sets : list ascii_set :=
  [NON_ALPHANUMERIC; CONTROLS; FRAGMENT; QUERY; SPECIAL; PATH; USERINFO; COMPONENT; WWW_FORM_URLENCODED].

Definition mem (c : N) (l : list N) : bool := existsb (N.eqb c) l.

Definition is_alnum (c : N) : bool :=
  ((48 <=? c) && (c <=? 57)) || ((65 <=? c) && (c <=? 90)) || ((97 <=? c) && (c <=? 122)).

Definition controls (c : N) : bool := (c <? 32) || (c =? 127).

(* the `.add(..)` chains of encode_percent.rs *)
Definition fragment_add : list N := [32; 34; 60; 62; 96].                   (* space dquote < > backtick *)
Definition query_add : list N := [32; 34; 35; 60; 62].                      (* space dquote # < > *)
Definition special_add : list N := [39].                                    (* apostrophe, on QUERY *)
Definition path_add : list N := [63; 96; 123; 125].                         (* ? backtick { } on QUERY *)
Definition userinfo_add : list N := [47; 58; 59; 61; 64; 91; 92; 93; 94; 124].   (* / : ; = @ [ \ ] ^ | on PATH *)
Definition component_add : list N := [36; 37; 38; 43; 44].                  (* $ % & + , on USERINFO *)
Definition form_add : list N := [33; 39; 40; 41; 126].                      (* ! apostrophe ( ) ~ on COMPONENT *)

(* AsciiSet::contains for an ASCII byte *)
Definition set_contains (s : ascii_set) (c : N) : bool :=
  match s with
  | NON_ALPHANUMERIC => negb (is_alnum c)
  | CONTROLS => controls c
  | FRAGMENT => controls c || mem c fragment_add
  | QUERY => controls c || mem c query_add
  | SPECIAL => controls c || mem c query_add || mem c special_add
  | PATH => controls c || mem c query_add || mem c path_add
  | USERINFO => controls c || mem c query_add || mem c path_add || mem c userinfo_add
  | COMPONENT => controls c || mem c query_add || mem c path_add || mem c userinfo_add || mem c component_add
  | WWW_FORM_URLENCODED =>
      controls c || mem c query_add || mem c path_add || mem c userinfo_add || mem c component_add || mem c form_add
  end.

(* AsciiSet::should_percent_encode *)
Definition should_encode (s : ascii_set) (c : N) : bool := (128 <=? c) || set_contains s c.

Definition pct_encode (s : ascii_set) (b : bytes) : bytes :=
  flat_map (fun c => if should_encode s c then [37; hex_upper (c / 16); hex_upper (c mod 16)] else [c]) b.

(* PercentDecode::next / after_percent_sign *)
Fixpoint pct_decode (s : bytes) : bytes :=
  match s with
  | [] => []
  | c :: r =>
      if c =? 37 then
        match r with
        | h :: l :: r' =>
            match unhex h, unhex l with
            | Some a, Some b => (a * 16 + b) :: pct_decode r'
            | _, _ => c :: pct_decode r
            end
        | _ => c :: pct_decode r
        end
      else c :: pct_decode r
  end.

Definition set_names : list (ascii_set * bytes) :=
  [(NON_ALPHANUMERIC, hx "4e4f4e5f414c5048414e554d45524943"); (CONTROLS, hx "434f4e54524f4c53");
   (FRAGMENT, hx "465241474d454e54"); (QUERY, hx "5155455259"); (SPECIAL, hx "5350454349414c");
   (PATH, hx "50415448"); (USERINFO, hx "55534552494e464f"); (COMPONENT, hx "434f4d504f4e454e54");
   (WWW_FORM_URLENCODED, hx "5757575f464f524d5f55524c454e434f444544")].

Definition set_of_name (name : bytes) : option ascii_set :=
  match find (fun p => bytes_eqb (snd p) name) set_names with
  | Some (s, _) => Some s
  | None => None
  end.

Definition encode_percent (s : ascii_set) (v : bytes) : res := ROk (pct_encode s (utf8_lossy v)).
Definition decode_percent (v : bytes) : res := ROk (utf8_lossy (pct_decode v)).

(* the side condition of the round trip for sets without '%': no '%' followed by two hex digits *)
Definition starts_two_hex (r : bytes) : bool :=
  match r with
  | h :: l :: _ => is_hex h && is_hex l
  | _ => false
  end.

Fixpoint no_triplet (s : bytes) : bool :=
  match s with
  | [] => true
  | c :: r => negb ((c =? 37) && starts_two_hex r) && no_triplet r
  end.
