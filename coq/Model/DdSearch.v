(* Model of the Datadog search-syntax text form (C30):
     src/datadog/search/node.rs      QueryNode::to_lucene, lucene_escape, quoted_escape, is_default_attr,
                                     new_boolean, ComparisonValue::{to_lucene, From<&str>}, escape_quotes
     src/datadog/search/grammar.pest the PEG, as a recursive-descent recogniser with pest's semantics
                                     (ordered choice, greedy repetition without backtracking, implicit
                                     WHITESPACE* between the elements of non-atomic rules only)
     src/datadog/search/grammar.rs   QueryVisitor (visit_query, visit_multiterm, visit_clause, ...), unescape
     src/datadog/search/parser.rs    FromStr for QueryNode
   Text is a list of bytes; the implementation works on chars of a valid UTF-8 str.  Every special
   character of the grammar is ASCII, so consuming a multi-byte char byte by byte is the same thing.
   The visitor is applied clause by clause while parsing (the parse tree of a clause is turned into its
   node at once, the `query` level stays a flat list of items folded by `fold_query` = visit_query).
   Library behaviour passed in: fdisp, the Display of f64 (to_lucene of a float bound).
   i64 / f64 `from_str` are modelled (f64 by exact rational rounding).  Definitions only. *)
From Coq Require Import List NArith ZArith Bool String Ascii.
From Coq Require Import Floats.SpecFloat.
From VRL Require Import Base.Bytes Base.Value Base.Lit Model.DdNode.
Import ListNotations.
Local Open Scope N_scope.

Definition DEFAULT_FIELD : bytes := bs "_default_".
Definition EXISTS_FIELD : bytes := bs "_exists_".
Definition MISSING_FIELD : bytes := bs "_missing_".

(* ====================== node.rs: rendering ====================== *)

(* : + - = > < ! ( ) { } [ ] ^ dquote ~ * ? \ / *)
Definition lucene_special (c : N) : bool :=
  (c =? 58) || (c =? 43) || (c =? 45) || (c =? 61) || (c =? 62) || (c =? 60) || (c =? 33) || (c =? 40)
  || (c =? 41) || (c =? 123) || (c =? 125) || (c =? 91) || (c =? 93) || (c =? 94) || (c =? 34) || (c =? 126)
  || (c =? 42) || (c =? 63) || (c =? 92) || (c =? 47).

Fixpoint lucene_escape (s : bytes) : bytes :=
  match s with
  | [] => []
  | c :: r => if lucene_special c then 92 :: c :: lucene_escape r else c :: lucene_escape r
  end.

Fixpoint quoted_escape (s : bytes) : bytes :=
  match s with
  | [] => []
  | c :: r => if (c =? 34) || (c =? 92) then 92 :: c :: quoted_escape r else c :: quoted_escape r
  end.

(* grammar.rs unescape: drop a backslash, keep whatever follows it *)
Fixpoint unescape_go (esc : bool) (s : bytes) : bytes :=
  match s with
  | [] => []
  | c :: r =>
      if esc then c :: unescape_go false r
      else if c =? 92 then unescape_go true r
      else c :: unescape_go false r
  end.
Definition unescape (s : bytes) : bytes := unescape_go false s.

(* decimal text of an i64 (num.to_string()) *)
Fixpoint pos_digits (fuel : nat) (n : Z) (acc : bytes) : bytes :=
  match fuel with
  | O => acc
  | S f =>
      let acc' := (Z.to_N (n mod 10) + 48) :: acc in
      let q := (n / 10)%Z in
      if (q =? 0)%Z then acc' else pos_digits f q acc'
  end.

Definition dec_of_Z (z : Z) : bytes :=
  if (z <? 0)%Z then 45 :: pos_digits (S (Z.to_nat (Z.log2 (- z)))) (- z) []
  else pos_digits (S (Z.to_nat (Z.log2 z))) z [].

Definition is_default_attr (attr : bytes) : bytes :=
  if bytes_eqb attr DEFAULT_FIELD then [] else attr ++ [58].

Definition cmp_lucene (op : cmpop) : bytes :=
  match op with Gt => bs ">" | Lt => bs "<" | Gte => bs ">=" | Lte => bs "<=" end.

Definition is_bool_node (n : node) : bool := match n with NBool _ _ => true | _ => false end.
Definition is_not_node (n : node) : bool := match n with NNot _ => true | _ => false end.

Definition paren (s : bytes) : bytes := 40 :: s ++ [41].

Section Render.
  Variable fdisp : spec_float -> bytes.

  Definition cval_lucene (c : cval) : bytes :=
    match c with
    | CStr s => lucene_escape s
    | CInt z => dec_of_Z z
    | CFloat f => fdisp f
    | CUnb => [42]
    end.

  Fixpoint to_lucene (n : node) : bytes :=
    match n with
    | NAll => bs "*:*"
    | NNone => bs "-*:*"
    | NExists a => bs "_exists_:" ++ a
    | NMissing a => bs "_missing_:" ++ a
    | NRange a lo li hi ui =>
        is_default_attr a ++ (if li then [91] else [123]) ++ cval_lucene lo ++ bs " TO " ++ cval_lucene hi
        ++ (if ui then [93] else [125])
    | NCmp a op v => is_default_attr a ++ cmp_lucene op ++ cval_lucene v
    | NTerm a v => is_default_attr a ++ lucene_escape v
    | NQuoted a v => is_default_attr a ++ 34 :: quoted_escape v ++ [34]
    | NPrefix a v => is_default_attr a ++ lucene_escape v ++ [42]
    | NWild a v => is_default_attr a ++ v
    | NNot m =>
        if is_not_node m || is_bool_node m then bs "NOT (" ++ to_lucene m ++ [41]
        else bs "NOT " ++ to_lucene m
    | NBool BAnd ns =>
        match ns with
        | [] => bs "*:*"
        | _ =>
            (fix go (l : list node) (first : bool) : bytes :=
               match l with
               | [] => []
               | x :: r =>
                   (if first then [] else bs " AND ") ++
                   (match x with
                    | NNot m => bs "NOT " ++ (if is_bool_node m then paren (to_lucene m) else to_lucene m)
                    | _ => if is_bool_node x then paren (to_lucene x) else to_lucene x
                    end) ++ go r false
               end) ns true
        end
    | NBool BOr ns =>
        match ns with
        | [] => bs "-*:*"
        | _ =>
            (fix go (l : list node) (first : bool) : bytes :=
               match l with
               | [] => []
               | x :: r =>
                   (if first then [] else bs " OR ") ++
                   (if is_bool_node x then paren (to_lucene x) else to_lucene x) ++ go r false
               end) ns true
        end
    end.
End Render.

(* ====================== ComparisonValue::from(&str) ====================== *)

Definition is_digit (c : N) : bool := (48 <=? c) && (c <=? 57).

(* maximal run of ASCII digits *)
Fixpoint digits (s : bytes) : bytes * bytes :=
  match s with
  | c :: r => if is_digit c then let '(a, b) := digits r in (c :: a, b) else ([], s)
  | [] => ([], [])
  end.

Fixpoint dec_value (ds : bytes) (acc : Z) : Z :=
  match ds with
  | [] => acc
  | c :: r => dec_value r (acc * 10 + Z.of_N (c - 48))%Z
  end.

(* an optional sign: (negative?, the rest) *)
Definition split_sign (s : bytes) : bool * bytes :=
  match s with
  | c :: r => if c =? 45 then (true, r) else if c =? 43 then (false, r) else (false, s)
  | [] => (false, s)
  end.

(* i64::from_str: [+-]? digit+, in range *)
Definition parse_i64 (s : bytes) : option Z :=
  let '(neg, body) := split_sign s in
  match digits body with
  | ((_ :: _) as ds, []) =>
      let v := dec_value ds 0 in
      let v := if neg then (- v)%Z else v in
      if ((- 2 ^ 63 <=? v) && (v <? 2 ^ 63))%Z then Some v else None
  | _ => None
  end.

Definition lower (c : N) : N := if (65 <=? c) && (c <=? 90) then c + 32 else c.
Definition eq_ci (s : bytes) (lit : bytes) : bool := bytes_eqb (map lower s) lit.

(* m * 10^e10 (m > 0) correctly rounded to binary64 *)
Definition f64_of_dec (neg : bool) (m : Z) (e10 : Z) : spec_float :=
  if (m =? 0)%Z then S754_zero neg
  else
    let d := Z.log2 m in                                   (* 2^d <= m < 2^(d+1) *)
    if (400 <? e10)%Z then S754_infinity neg                (* m >= 1 *)
    else if (e10 + d / 3 + 1 <? -400)%Z then S754_zero neg  (* m < 10^(d/3+1) *)
    else if (0 <=? e10)%Z then
      match binary_normalize prec emax (m * 10 ^ e10) 0 false with
      | S754_finite _ mm ee => S754_finite neg mm ee
      | S754_infinity _ => S754_infinity neg
      | S754_zero _ => S754_zero neg
      | S754_nan => S754_nan
      end
    else
      let '(q, e', l) := SFdiv_core_binary prec emax m 0 (10 ^ (- e10)) 0 in
      binary_round_aux prec emax neg q e' l.

(* f64::from_str (core::num::dec2flt): [+-]? ( "inf" | "infinity" | "nan" (any case)
                                           | digit* [ "." digit* ] [ (e|E) [+-]? digit+ ] with a digit in the mantissa ) *)
Definition parse_f64 (s : bytes) : option spec_float :=
  let '(neg, body) := split_sign s in
  if eq_ci body (bs "inf") || eq_ci body (bs "infinity") then Some (S754_infinity neg)
  else if eq_ci body (bs "nan") then Some S754_nan
  else
    let '(ip, r1) := digits body in
    let '(fp, r2) := match r1 with
                     | c :: r => if c =? 46 then digits r else ([], r1)
                     | [] => ([], r1)
                     end in
    match ip ++ fp with
    | [] => None
    | _ =>
        let m := dec_value (ip ++ fp) 0 in
        let fl := Z.of_nat (List.length fp) in
        match r2 with
        | [] => Some (f64_of_dec neg m (- fl))
        | c :: r3 =>
            if (c =? 101) || (c =? 69) then
              let '(eneg, r4) := split_sign r3 in
              match digits r4 with
              | ((_ :: _) as es, []) =>
                  let ev := dec_value es 0 in       (* f64_of_dec never raises 10 to a huge power *)
                  let ev := if eneg then (- ev)%Z else ev in
                  Some (f64_of_dec neg m (ev - fl))
              | _ => None
              end
            else None
        end
    end.

Fixpoint no_newline (s : bytes) : bool :=
  match s with [] => true | c :: r => negb (c =? 10) && no_newline r end.

(* escape_quotes: Regex ^"(.+)"$ replaced by $1 *)
Definition escape_quotes (s : bytes) : bytes :=
  match s with
  | c :: r =>
      if c =? 34 then
        match rev r with
        | d :: m => if d =? 34 then
                      match m with
                      | [] => s
                      | _ => if no_newline m then rev m else s
                      end
                    else s
        | [] => s
        end
      else s
  | [] => s
  end.

Definition cval_from (raw : bytes) : cval :=
  let v := escape_quotes (unescape raw) in
  if bytes_eqb v [42] then CUnb
  else match parse_i64 v with
       | Some z => CInt z
       | None => match parse_f64 v with
                 | Some f => CFloat f
                 | None => CStr v
                 end
       end.

(* ====================== grammar.pest: lexical rules (all atomic) ====================== *)

Definition is_ws (c : N) : bool := (c =? 32) || (c =? 13) || (c =? 10) || (c =? 9).

Fixpoint starts_with (s p : bytes) {struct p} : bool :=
  match p with
  | [] => true
  | c :: p' => match s with x :: s' => (x =? c) && starts_with s' p' | [] => false end
  end.

(* a literal: the rest of the input when it starts with p *)
Fixpoint strip_prefix (p s : bytes) {struct p} : option bytes :=
  match p with
  | [] => Some s
  | c :: p' => match s with x :: s' => if x =? c then strip_prefix p' s' else None | [] => None end
  end.

Fixpoint skip (s : bytes) : bytes :=
  match s with
  | c :: r => if is_ws c then skip r else s
  | [] => []
  end.

Definition UNICODE3000 : bytes := bs "UNICODE3000".

(* the single characters of INVALID_TERM_STARTS other than whitespace:
   dquote ( ) [ ] { } + - ! : ~ ^ ? * \ > = < *)
Definition invalid_char (c : N) : bool :=
  (c =? 34) || (c =? 40) || (c =? 41) || (c =? 91) || (c =? 93) || (c =? 123) || (c =? 125) || (c =? 43)
  || (c =? 45) || (c =? 33) || (c =? 58) || (c =? 126) || (c =? 94) || (c =? 63) || (c =? 42) || (c =? 92)
  || (c =? 62) || (c =? 61) || (c =? 60).

(* INVALID_TERM_STARTS matches at c :: r *)
Definition invalid_start (c : N) (r : bytes) : bool :=
  is_ws c || starts_with (c :: r) UNICODE3000 || invalid_char c.

(* TERM_END_CHAR as a lookahead *)
Definition term_end (s : bytes) : bool :=
  match s with
  | [] => true
  | c :: _ => is_ws c || (c =? 41) || (c =? 93) || (c =? 125)
  end.

(* AND | OR | NOT as a lookahead *)
Definition kw_and_or (s : bytes) : bool :=
  starts_with s (bs "AND") || starts_with s (bs "&&") || starts_with s (bs "OR") || starts_with s (bs "||").
Definition kw_not (s : bytes) : bool := starts_with s (bs "NOT") || starts_with s (bs "-").
Definition kw_ahead (s : bytes) : bool := kw_and_or s || kw_not s.

(* the extra characters of TERM_CHAR / TERM_CHAR_GLOB *)
Definition is_pme (c : N) : bool := (c =? 45) || (c =? 43) || (c =? 61).
Definition is_glob (c : N) : bool := (c =? 42) || (c =? 63).

(* TERM_START_CHAR (glob = false) / TERM_START_CHAR_GLOB (glob = true): consumed bytes and rest *)
Definition term_start_char (glob : bool) (s : bytes) : option (bytes * bytes) :=
  match s with
  | [] => None
  | c :: r =>
      if c =? 92 then match r with d :: r' => Some ([c; d], r') | [] => None end     (* ESC_CHAR *)
      else if negb (invalid_start c r) then Some ([c], r)
      else if glob && is_glob c then Some ([c], r)
      else None
  end.

(* TERM_CHAR* / TERM_CHAR_GLOB* *)
Fixpoint term_chars (glob : bool) (s : bytes) : bytes * bytes :=
  match s with
  | [] => ([], [])
  | c :: r =>
      if c =? 92 then
        match r with
        | d :: r' => let '(a, b) := term_chars glob r' in (c :: d :: a, b)
        | [] => ([], s)
        end
      else if negb (invalid_start c r) || is_pme c || (glob && is_glob c) then
        let '(a, b) := term_chars glob r in (c :: a, b)
      else ([], s)
  end.

(* TERM = @{ !(AND | OR | NOT) ~ TERM_START_CHAR ~ TERM_CHAR* } *)
Definition lex_term (s : bytes) : option (bytes * bytes) :=
  if kw_ahead s then None
  else match term_start_char false s with
       | Some (a, r) => let '(b, rest) := term_chars false r in Some (a ++ b, rest)
       | None => None
       end.

(* TERM_PREFIX = @{ TERM_START_CHAR ~ TERM_CHAR* ~ STAR ~ &TERM_END_CHAR }; the text without the star *)
Definition lex_term_prefix (s : bytes) : option (bytes * bytes) :=
  match term_start_char false s with
  | Some (a, r) =>
      let '(b, r2) := term_chars false r in
      match r2 with
      | c :: r3 => if (c =? 42) && term_end r3 then Some (a ++ b, r3) else None
      | [] => None
      end
  | None => None
  end.

(* TERM_GLOB = @{ TERM_START_CHAR_GLOB ~ TERM_CHAR_GLOB* ~ &TERM_END_CHAR } *)
Definition lex_term_glob (s : bytes) : option (bytes * bytes) :=
  match term_start_char true s with
  | Some (a, r) =>
      let '(b, r2) := term_chars true r in
      if term_end r2 then Some (a ++ b, r2) else None
  | None => None
  end.

(* the inside of PHRASE after the opening quote: (ESC_CHAR | !DQUOTE ~ ANY)* ~ DQUOTE *)
Fixpoint phrase_body (s : bytes) : option (bytes * bytes) :=
  match s with
  | [] => None
  | c :: r =>
      if c =? 92 then
        match r with
        | d :: r' => match phrase_body r' with Some (a, b) => Some (c :: d :: a, b) | None => None end
        | [] => None
        end
      else if c =? 34 then Some ([], r)
      else match phrase_body r with Some (a, b) => Some (c :: a, b) | None => None end
  end.

(* PHRASE; the text between the quotes *)
Definition lex_phrase (s : bytes) : option (bytes * bytes) :=
  match s with
  | c :: r => if c =? 34 then phrase_body r else None
  | [] => None
  end.

(* NUM_VALUE = ("-"|"\\-")? ~ ASCII_DIGIT+ ~ ("." ~ ASCII_DIGIT+)? *)
Definition num_value (s : bytes) : option (bytes * bytes) :=
  let '(sg, r0) := match strip_prefix [45] s with
                   | Some r => ([45], r)
                   | None => match strip_prefix [92; 45] s with
                             | Some r => ([92; 45], r)
                             | None => ([], s)
                             end
                   end in
  match digits r0 with
  | ((_ :: _) as ip, r1) =>
      match strip_prefix [46] r1 with
      | Some r2 =>
          match digits r2 with
          | ((_ :: _) as fp, r3) => Some (sg ++ ip ++ 46 :: fp, r3)
          | _ => Some (sg ++ ip, r1)
          end
      | None => Some (sg ++ ip, r1)
      end
  | _ => None
  end.

(* NUMERIC_TERM = ${ NUM_VALUE ~ ("E" ~ NUM_VALUE)? } *)
Definition lex_numeric_term (s : bytes) : option (bytes * bytes) :=
  match num_value s with
  | Some (a, r) =>
      match strip_prefix [69] r with
      | Some r1 =>
          match num_value r1 with
          | Some (b, r2) => Some (a ++ 69 :: b, r2)
          | None => Some (a, r)
          end
      | None => Some (a, r)
      end
  | None => None
  end.

(* RANGE_VALUE = @{ (!(WHITESPACE | RSQRBRACKET | RBRACKET) ~ ANY)+ } *)
Fixpoint range_chars (s : bytes) : bytes * bytes :=
  match s with
  | c :: r => if is_ws c || (c =? 93) || (c =? 125) then ([], s)
              else let '(a, b) := range_chars r in (c :: a, b)
  | [] => ([], [])
  end.

Definition lex_range_value (s : bytes) : option (bytes * bytes) :=
  match range_chars s with
  | ((_ :: _) as a, r) => Some (a, r)
  | _ => None
  end.

(* ====================== grammar.pest: value, and grammar.rs: visit_clause ====================== *)

Inductive pvalue :=
| PVStar
| PVPhrase (inner : bytes)
| PVPrefix (raw : bytes)                         (* without the trailing star *)
| PVCmp (op : cmpop) (numeric : bool) (raw : bytes)
| PVRange (lb : bool) (lo hi : bytes) (rb : bool)   (* true = square bracket *)
| PVTerm (raw : bytes)
| PVGlob (raw : bytes).

(* operator = { GT_EQ | LT_EQ | GT | LT } *)
Definition lex_operator (s : bytes) : option (cmpop * bytes) :=
  match strip_prefix (bs ">=") s with
  | Some r => Some (Gte, r)
  | None =>
  match strip_prefix (bs "<=") s with
  | Some r => Some (Lte, r)
  | None =>
  match strip_prefix (bs ">") s with
  | Some r => Some (Gt, r)
  | None =>
  match strip_prefix (bs "<") s with
  | Some r => Some (Lt, r)
  | None => None
  end end end end.

(* comparison = { operator ~ (NUMERIC_TERM | TERM) }   (inside the compound-atomic `value`: no skipping) *)
Definition parse_comparison (s : bytes) : option (pvalue * bytes) :=
  match lex_operator s with
  | Some (op, r) =>
      match lex_numeric_term r with
      | Some (t, r') => Some (PVCmp op true t, r')
      | None => match lex_term r with
                | Some (t, r') => Some (PVCmp op false t, r')
                | None => None
                end
      end
  | None => None
  end.

(* range = !{ (LSQRBRACKET | LBRACKET) ~ RANGE_VALUE ~ "TO" ~ RANGE_VALUE ~ (RSQRBRACKET | RBRACKET) }  (non-atomic) *)
Definition parse_range (s : bytes) : option (pvalue * bytes) :=
  match s with
  | c :: r =>
      if (c =? 91) || (c =? 123) then
        match lex_range_value (skip r) with
        | Some (lo, r1) =>
            match strip_prefix (bs "TO") (skip r1) with
            | Some r2 =>
                match lex_range_value (skip r2) with
                | Some (hi, r3) =>
                    match skip r3 with
                    | d :: r4 => if (d =? 93) || (d =? 125) then Some (PVRange (c =? 91) lo hi (d =? 93), r4) else None
                    | [] => None
                    end
                | None => None
                end
            | None => None
            end
        | None => None
        end
      else None
  | [] => None
  end.

(* value = ${ STAR ~ &TERM_END_CHAR | PHRASE | TERM_PREFIX | comparison | range | TERM ~ &TERM_END_CHAR | TERM_GLOB } *)
Definition parse_value (s : bytes) : option (pvalue * bytes) :=
  match (match s with c :: r => if (c =? 42) && term_end r then Some (PVStar, r) else None | [] => None end) with
  | Some x => Some x
  | None =>
  match lex_phrase s with
  | Some (p, r) => Some (PVPhrase p, r)
  | None =>
  match lex_term_prefix s with
  | Some (p, r) => Some (PVPrefix p, r)
  | None =>
  match parse_comparison s with
  | Some x => Some x
  | None =>
  match parse_range s with
  | Some x => Some x
  | None =>
  match (match lex_term s with Some (t, r) => if term_end r then Some (PVTerm t, r) else None | None => None end) with
  | Some x => Some x
  | None =>
  match lex_term_glob s with
  | Some (g, r) => Some (PVGlob g, r)
  | None => None
  end end end end end end end.

Inductive vres (A : Type) := VOk (a : A) | VPanic.   (* the visitor's panic!("invalid range comparison") *)
Arguments VOk {A} a.
Arguments VPanic {A}.

(* visit_clause on a `field? ~ value` clause; f = field.unwrap_or(default_field), the raw text *)
Definition clause_node (f : bytes) (v : pvalue) : vres node :=
  if bytes_eqb f EXISTS_FIELD && (match v with PVTerm _ | PVPhrase _ => true | _ => false end) then
    match v with
    | PVTerm t => VOk (NExists (unescape t))
    | PVPhrase p => VOk (NExists (unescape p))
    | _ => VPanic
    end
  else if bytes_eqb f MISSING_FIELD && (match v with PVTerm _ | PVPhrase _ => true | _ => false end) then
    match v with
    | PVTerm t => VOk (NMissing (unescape t))
    | PVPhrase p => VOk (NMissing (unescape p))
    | _ => VPanic
    end
  else
    match v with
    | PVStar => if bytes_eqb f DEFAULT_FIELD then VOk NAll else VOk (NWild (unescape f) [42])
    | PVTerm t => VOk (NTerm (unescape f) (unescape t))
    | PVPhrase p => VOk (NQuoted (unescape f) (unescape p))
    | PVPrefix p => VOk (NPrefix (unescape f) (unescape p))
    | PVGlob g => VOk (NWild (unescape f) (unescape g))
    | PVRange lb lo hi rb =>
        if Bool.eqb lb rb then VOk (NRange (unescape f) (cval_from lo) lb (cval_from hi) rb)
        else VPanic
    | PVCmp op numeric raw =>
        VOk (NCmp (unescape f) op (if numeric then cval_from raw else CStr (unescape raw)))
    end.

(* ====================== grammar.pest: query level; grammar.rs: visit_query ====================== *)

Inductive qitem :=
| QMulti (terms : list bytes)          (* multiterm: the raw TERM texts *)
| QConj (is_or : bool)                 (* conjunction: AND / OR *)
| QMod (is_not : bool)                 (* modifiers: PLUS / NOT *)
| QClause (n : vres node).             (* clause, already visited *)

(* QueryNode::new_boolean *)
Definition new_boolean (op : bop) (ns : list node) : node :=
  match ns with
  | [n] => n
  | _ => NBool op ns
  end.

Fixpoint join_sp (l : list bytes) : bytes :=
  match l with
  | [] => []
  | [x] => x
  | x :: r => x ++ 32 :: join_sp r
  end.

(* the end of visit_query: a negated MatchAllDocs becomes MatchNoDocs *)
Definition finish_query (q : node) : vres node :=
  match q with
  | NNot NAll => VOk NNone
  | _ => VOk q
  end.

(* the loop of visit_query; and_group / and_groups are kept reversed *)
Fixpoint fold_items (df : bytes) (items : list qitem) (is_not : bool) (grp grps : list node) : vres node :=
  match items with
  | [] =>
      finish_query (new_boolean BOr (rev (new_boolean BAnd (rev grp) :: grps)))
  | it :: r =>
      match it with
      | QConj false => fold_items df r is_not grp grps
      | QConj true => fold_items df r is_not [] (new_boolean BAnd (rev grp) :: grps)
      | QMod false => fold_items df r is_not grp grps
      | QMod true => fold_items df r true grp grps
      | QMulti ts =>
          let n := NTerm df (join_sp (map unescape ts)) in
          fold_items df r false ((if is_not then NNot n else n) :: grp) grps
      | QClause VPanic => VPanic
      | QClause (VOk n) => fold_items df r false ((if is_not then NNot n else n) :: grp) grps
      end
  end.

Definition fold_query (df : bytes) (items : list qitem) : vres node := fold_items df items false [] [].

(* multitermlookahead = @{ TERM ~ !(COLON | STAR | WHITESPACE+ ~ (AND | OR)) } *)
Definition multiterm_lookahead (s : bytes) : bool :=
  match lex_term s with
  | Some (_, r) =>
      match r with
      | [] => true
      | c :: r' =>
          if (c =? 58) || (c =? 42) then false
          else if is_ws c then negb (kw_and_or (skip r)) else true
      end
  | None => false
  end.

(* &multitermlookahead ~ TERM *)
Definition multiterm_item (s : bytes) : option (bytes * bytes) :=
  if multiterm_lookahead s then lex_term (skip s) else None.

(* (skip ~ item)* *)
Fixpoint multiterm_more (fuel : nat) (s : bytes) : list bytes * bytes :=
  match fuel with
  | O => ([], s)
  | S f =>
      match multiterm_item (skip s) with
      | Some (t, r) => let '(ts, r') := multiterm_more f r in (t :: ts, r')
      | None => ([], s)
      end
  end.

(* multiterm = { (&multitermlookahead ~ TERM)+ } *)
Definition parse_multiterm (s : bytes) : option (list bytes * bytes) :=
  match multiterm_item s with
  | Some (t, r) => let '(ts, r') := multiterm_more (List.length r) r in Some (t :: ts, r')
  | None => None
  end.

(* modifiers = { PLUS | NOT } *)
Definition parse_modifiers (s : bytes) : option (bool * bytes) :=
  match strip_prefix (bs "+") s with
  | Some r => Some (false, r)
  | None =>
  match strip_prefix (bs "NOT") s with
  | Some r => Some (true, r)
  | None =>
  match strip_prefix (bs "-") s with
  | Some r => Some (true, r)
  | None => None
  end end end.

(* conjunction = { AND | OR } *)
Definition parse_conjunction (s : bytes) : option (bool * bytes) :=
  match strip_prefix (bs "AND") s with
  | Some r => Some (false, r)
  | None =>
  match strip_prefix (bs "&&") s with
  | Some r => Some (false, r)
  | None =>
  match strip_prefix (bs "OR") s with
  | Some r => Some (true, r)
  | None =>
  match strip_prefix (bs "||") s with
  | Some r => Some (true, r)
  | None => None
  end end end end.

(* field = ${ TERM ~ COLON }, optional *)
Definition parse_field_opt (s : bytes) : option bytes * bytes :=
  match lex_term s with
  | Some (t, c :: r) => if c =? 58 then (Some t, r) else (None, s)
  | _ => (None, s)
  end.

Definition or_default (f : option bytes) (df : bytes) : bytes := match f with Some x => x | None => df end.

Section Query.
  (* the `query` parser one level down (for parenthesised groups), given the default field in force *)
  Variable sub_query : bytes -> bytes -> option (list qitem * bytes).

  (* clause = { matchall | (field? ~ value) | (field? ~ LPAREN ~ query ~ RPAREN) } *)
  Definition parse_clause (df : bytes) (s : bytes) : option (vres node * bytes) :=
    match strip_prefix (bs "*:*") s with
    | Some r => Some (VOk NAll, r)                                  (* matchall = @{ STAR ~ COLON ~ STAR } *)
    | None =>
        let '(fld, r1) := parse_field_opt s in
        match parse_value (skip r1) with
        | Some (v, r2) => Some (clause_node (or_default fld df) v, r2)
        | None =>
            match strip_prefix [40] (skip r1) with
            | Some r2 =>
                match sub_query (or_default fld df) (skip r2) with
                | Some (items, r3) =>
                    match strip_prefix [41] (skip r3) with
                    | Some r4 => Some (fold_query (or_default fld df) items, r4)
                    | None => None
                    end
                | None => None
                end
            | None => None
            end
        end
    end.

  (* modifiers? ~ clause *)
  Definition parse_mod_clause (df : bytes) (s : bytes) : option (list qitem * bytes) :=
    let '(ms, r1) := match parse_modifiers s with
                     | Some (m, r) => ([QMod m], r)
                     | None => ([], s)
                     end in
    match parse_clause df (skip r1) with
    | Some (n, r2) => Some (ms ++ [QClause n], r2)
    | None => None
    end.

  (* multiterm | (conjunction? ~ modifiers? ~ clause) *)
  Definition parse_next (df : bytes) (s : bytes) : option (list qitem * bytes) :=
    match parse_multiterm s with
    | Some (ts, r) => Some ([QMulti ts], r)
    | None =>
        let '(cs, r1) := match parse_conjunction s with
                         | Some (c, r) => ([QConj c], r)
                         | None => ([], s)
                         end in
        match parse_mod_clause df (skip r1) with
        | Some (its, r2) => Some (cs ++ its, r2)
        | None => None
        end
    end.

  (* ( skip ~ next )* *)
  Fixpoint parse_more (fuel : nat) (df : bytes) (s : bytes) : list qitem * bytes :=
    match fuel with
    | O => ([], s)
    | S f =>
        match parse_next df (skip s) with
        | Some (its, r) => let '(more, r') := parse_more f df r in (its ++ more, r')
        | None => ([], s)
        end
    end.

  (* query = { (multiterm | (modifiers? ~ clause)) ~ (multiterm | (conjunction? ~ modifiers? ~ clause))* } *)
  Definition parse_query_body (df : bytes) (s : bytes) : option (list qitem * bytes) :=
    match (match parse_multiterm s with
           | Some (ts, r) => Some ([QMulti ts], r)
           | None => parse_mod_clause df s
           end) with
    | Some (its, r) => let '(more, r') := parse_more (List.length r) df r in Some (its ++ more, r')
    | None => None
    end.
End Query.

Fixpoint parse_query (fuel : nat) (df : bytes) (s : bytes) : option (list qitem * bytes) :=
  match fuel with
  | O => None
  | S f => parse_query_body (parse_query f) df s
  end.

(* ====================== parser.rs: FromStr ====================== *)

(* str::trim().is_empty(): only White_Space characters *)
Fixpoint all_whitespace (s : bytes) : bool :=
  match s with
  | [] => true
  | c :: r =>
      if ((9 <=? c) && (c <=? 13)) || (c =? 32) then all_whitespace r
      else if c =? 194 then                                            (* U+0085, U+00A0 *)
        match r with d :: r' => ((d =? 133) || (d =? 160)) && all_whitespace r' | [] => false end
      else if c =? 225 then                                            (* U+1680 *)
        match r with 154 :: 128 :: r' => all_whitespace r' | _ => false end
      else if c =? 226 then                                            (* U+2000-200A, 2028, 2029, 202F, 205F *)
        match r with
        | 128 :: d :: r' =>
            (((128 <=? d) && (d <=? 138)) || (d =? 168) || (d =? 169) || (d =? 175)) && all_whitespace r'
        | 129 :: 159 :: r' => all_whitespace r'
        | _ => false
        end
      else if c =? 227 then                                            (* U+3000 *)
        match r with 128 :: 128 :: r' => all_whitespace r' | _ => false end
      else false
  end.

Inductive parse_result :=
| PRNode (n : node)
| PRError            (* pest error: Err(..) *)
| PRPanic.           (* the visitor panicked *)

(* queryroot = { query ~ EOI } *)
Definition parse (q : bytes) : parse_result :=
  if all_whitespace q then PRNode NAll
  else
    match parse_query (S (List.length q)) DEFAULT_FIELD q with
    | Some (items, rest) =>
        match skip rest with
        | [] => match fold_query DEFAULT_FIELD items with
                | VOk n => PRNode n
                | VPanic => PRPanic
                end
        | _ => PRError
        end
    | None => PRError
    end.
