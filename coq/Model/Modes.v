(* Block cipher modes of operation as the RustCrypto crates used by src/stdlib/encrypt.rs / decrypt.rs
   implement them (cbc 0.2.1, cfb-mode 0.9.1, ofb 0.7.1, ctr 0.10.1 with the Ctr64LE / Ctr64BE flavours),
   over an abstract 16-byte block cipher  E, D : key -> block -> block  (the functions are arguments; the
   theorems in Proofs/ModesProofs.v quantify over them).  Definitions only.

   Data is cut into 16-byte chunks; the last chunk of a stream mode may be shorter (CFB: the crate copies the
   tail into a zero block, processes it and copies the first n bytes out — the same bytes as the truncating
   xor used here; OFB/CTR: apply_keystream xors as many key-stream bytes as there is data). *)
From Coq Require Import List NArith Bool Arith.
From VRL Require Import Base.Bytes.
Import ListNotations.

Definition cipher := bytes -> bytes -> bytes.        (* key -> block -> block *)

(* byte-wise xor, as long as the shorter argument *)
Fixpoint xorb (a b : bytes) : bytes :=
  match a, b with
  | x :: a', y :: b' => N.lxor x y :: xorb a' b'
  | _, _ => []
  end.

Fixpoint chunks_f (fuel : nat) (d : bytes) : list bytes :=
  match fuel with
  | O => []
  | S f => match d with
           | [] => []
           | _ => firstn 16 d :: chunks_f f (skipn 16 d)
           end
  end.
Definition chunks (d : bytes) : list bytes := chunks_f (length d) d.

(* ---------- CBC (cbc::Encryptor / Decryptor): c_i = E(p_i xor c_{i-1}), c_0 = iv ---------- *)

Fixpoint cbc_enc (E : cipher) (k prev : bytes) (blocks : list bytes) : list bytes :=
  match blocks with
  | [] => []
  | p :: r => let c := E k (xorb p prev) in c :: cbc_enc E k c r
  end.

Fixpoint cbc_dec (D : cipher) (k prev : bytes) (blocks : list bytes) : list bytes :=
  match blocks with
  | [] => []
  | c :: r => xorb (D k c) prev :: cbc_dec D k c r
  end.

(* whole blocks only: the callers pad first / reject other lengths *)
Definition cbc_encrypt (E : cipher) (k iv d : bytes) : bytes := concat (cbc_enc E k iv (chunks d)).
Definition cbc_decrypt (D : cipher) (k iv d : bytes) : bytes := concat (cbc_dec D k iv (chunks d)).

(* ---------- CFB-128 (cfb_mode::Encryptor / Decryptor): the state is E(iv), then E(c_i) ---------- *)

Fixpoint cfb_enc (E : cipher) (k st : bytes) (l : list bytes) : list bytes :=
  match l with
  | [] => []
  | p :: r => let c := xorb p st in c :: cfb_enc E k (E k c) r
  end.

Fixpoint cfb_dec (E : cipher) (k st : bytes) (l : list bytes) : list bytes :=
  match l with
  | [] => []
  | c :: r => xorb c st :: cfb_dec E k (E k c) r
  end.

Definition cfb_encrypt (E : cipher) (k iv d : bytes) : bytes := concat (cfb_enc E k (E k iv) (chunks d)).
Definition cfb_decrypt (E : cipher) (k iv d : bytes) : bytes := concat (cfb_dec E k (E k iv) (chunks d)).

(* ---------- OFB (ofb::Ofb): key stream O_1 = E(iv), O_{i+1} = E(O_i); one function both ways ---------- *)

Fixpoint ofb_run (E : cipher) (k st : bytes) (l : list bytes) : list bytes :=
  match l with
  | [] => []
  | p :: r => let st' := E k st in xorb p st' :: ofb_run E k st' r
  end.

Definition ofb_apply (E : cipher) (k iv d : bytes) : bytes := concat (ofb_run E k iv (chunks d)).

(* ---------- CTR with a 64-bit counter (ctr::Ctr64BE / Ctr64LE) ---------- *)

Fixpoint be_val (b : bytes) : N :=                 (* u64::from_be_bytes *)
  match b with
  | [] => 0
  | x :: r => (x * 256 ^ N.of_nat (length r) + be_val r)%N
  end.
Fixpoint le_val (b : bytes) : N :=                 (* u64::from_le_bytes *)
  match b with
  | [] => 0
  | x :: r => (x + 256 * le_val r)%N
  end.
Fixpoint le_bytes (n : nat) (v : N) : bytes :=     (* to_le_bytes, n bytes *)
  match n with
  | O => []
  | S n' => (v mod 256)%N :: le_bytes n' (v / 256)%N
  end.
Definition be_bytes (n : nat) (v : N) : bytes := rev (le_bytes n v).

Definition two64 : N := 18446744073709551616%N.

Inductive ctr_flavor := CtrLE | CtrBE.

(* CtrFlavor::current_block for block number i (the counter starts at 0 and is added, wrapping, to the
   64-bit word taken from the IV: the last 8 bytes big-endian, or the first 8 bytes little-endian) *)
Definition ctr_block (fl : ctr_flavor) (iv : bytes) (i : N) : bytes :=
  match fl with
  | CtrBE => firstn 8 iv ++ be_bytes 8 ((be_val (skipn 8 iv) + i) mod two64)%N
  | CtrLE => le_bytes 8 ((le_val (firstn 8 iv) + i) mod two64)%N ++ skipn 8 iv
  end.

Fixpoint ctr_run (E : cipher) (fl : ctr_flavor) (k iv : bytes) (i : N) (l : list bytes) : list bytes :=
  match l with
  | [] => []
  | p :: r => xorb p (E k (ctr_block fl iv i)) :: ctr_run E fl k iv (i + 1)%N r
  end.

Definition ctr_apply (E : cipher) (fl : ctr_flavor) (k iv d : bytes) : bytes :=
  concat (ctr_run E fl k iv 0%N (chunks d)).
