(* The fragment of Core VRL on which C01 / C02 are proved (Proofs/TypeSoundProofs.v), and the relation
   between a run-time state and a type state that the proofs maintain. *)
From Coq Require Import List NArith ZArith Bool.
From VRL Require Import Base.Bytes Base.Value Model.ValueCrud Model.Kind Model.KindCrud Model.KindDomains
  Model.Expr Model.Eval Model.TypeInfo.
Import ListNotations.

(* the run-time state conforms to the type state: every variable the type state knows holds a well-formed
   member of its kind; event and metadata are well-formed members of the external kinds; no injected faults *)
Definition conf (G : tstate) (s : state) : Prop :=
  (forall x d, lvar (locals G) x = Some d ->
     exists v, var_get (vars s) x = Some v /\ member v (td_kind (fst d)) = true /\ wf_value v = true)
  /\ member (ev s) (tgt G) = true /\ wf_value (ev s) = true
  /\ member (md s) (mdk G) = true /\ wf_value (md s) = true
  /\ faults s = [].

(* variables, event, metadata and fault schedule are the same (the target log may have grown) *)
Definition same_data (s s' : state) : Prop :=
  vars s' = vars s /\ ev s' = ev s /\ md s' = md s /\ faults s' = faults s.

Definition upk (t : tdef) : kind := upgrade_undefined (td_kind t).


Section Fragment.
  Variable binop : opcode -> value -> value -> option value.
  Variable T : fname -> list tdef -> list tdef -> tdef.
  Notation ti := (type_info binop T).

  Definition var_td (G : tstate) (x : ident) : tdef :=
    match lvar (locals G) x with Some d => fst d | None => td_of k_undefined end.

  (* a query inside C19's get_ok whose kind is not the empty kind *)
  Definition q_ok (k : kind) (p : path) : bool := get_ok k p && negb (is_never (at_path k p)).

  (* the effect-free fragment, with the side conditions of the queries *)
  Fixpoint pure_ok (e : expr) (G : tstate) {struct e} : bool :=
    match e with
    | ELit v => wf_value v
    | EVar x => is_some (lvar (locals G) x)
    | EQExt pfx p => q_ok (ext_kind G pfx) p
    | EQVar x p => is_some (lvar (locals G) x) && q_ok (td_kind (var_td G x)) p
    | EQExpr e1 p => pure_ok e1 G && negb (contains_undefined (td_kind (snd (ti e1 G))))
                     && q_ok (td_kind (snd (ti e1 G))) p
    | EArr es => forallb (fun e1 => pure_ok e1 G) es
    | EObj kvs => forallb (fun kv => pure_ok (snd kv) G) kvs
    | EGroup e1 => pure_ok e1 G
    | EOp OEq a b | EOp ONe a b => pure_ok a G && pure_ok b G
    | ENot e1 => pure_ok e1 G && k_is_boolean (td_kind (snd (ti e1 G)))
    | EExistsExt _ _ | EExistsVar _ _ => true
    | _ => false
    end.

End Fragment.

(* the targets whose type-level insertion is inside C19's ins_ok; a path below a variable needs the
   variable to be known to the type state *)
Definition assign_ok (t : target) (G : tstate) : bool :=
  match t with
  | TNoop => true
  | TVar x p =>
      match p with
      | [] => true
      | _ => match lvar (locals G) x with Some d => ins_ok false (td_kind (fst d)) p | None => false end
      end
  | TExt pfx p => ins_ok false (ext_kind G pfx) p
  end.


Section Statements.
  Variable binop : opcode -> value -> value -> option value.
  Variable T : fname -> list tdef -> list tdef -> tdef.
  Notation ti := (type_info binop T).

  (* a statement of the fragment: an effect-free expression, or the assignment of one *)
  Definition stmt_ok (e : expr) (G : tstate) : bool :=
    match e with
    | EAssign t e1 => pure_ok binop T e1 G && assign_ok t G
    | _ => pure_ok binop T e G
    end.

  (* a straight-line program of the fragment; every statement is judged in the type state before it *)
  Fixpoint stmts_ok (es : list expr) (G : tstate) {struct es} : bool :=
    match es with
    | [] => true
    | e :: r => stmt_ok e G && stmts_ok r (fst (ti e G))
    end.

End Statements.

(* C12 on the fragment: an assignment below a variable must not record a constant (insert_type_def
   stores the right-hand side's constant for the whole variable: known class 126) *)
Section ConstStatements.
  Variable binop : opcode -> value -> value -> option value.
  Variable T : fname -> list tdef -> list tdef -> tdef.

  Definition const_stmt_ok (e : expr) (G : tstate) : bool :=
    match e with
    | EAssign (TVar _ (_ :: _)) e1 => negb (is_some (resolve_constant binop e1 G))
    | _ => true
    end.

  Fixpoint const_stmts_ok (es : list expr) (G : tstate) {struct es} : bool :=
    match es with
    | [] => true
    | e :: r => const_stmt_ok e G && const_stmts_ok r (fst (type_info binop T e G))
    end.
End ConstStatements.
