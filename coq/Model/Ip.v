(* Model of src/stdlib/{ip_aton,ip_ntoa,ip_pton,ip_ntop,ip_to_ipv6,ipv6_to_ipv4}.rs together with the parts
   of core::net they call: Display for Ipv4Addr / Ipv6Addr (RFC 5952 text: lower-case hex groups, the
   first longest run of >= 2 zero groups compressed to "::", "::ffff:a.b.c.d" for IPv4-mapped
   addresses), FromStr for Ipv4Addr / IpAddr (core::net::parser: read_number, read_ipv4_addr,
   read_ipv6_addr with read_groups), Ipv4Addr::to_ipv6_mapped, Ipv6Addr::to_ipv4.  Definitions only.
   An IPv4 address is its 4 octets, an IPv6 address its 8 sixteen-bit segments (both lists of Z). *)
From Coq Require Import String.
From Coq Require Import List NArith ZArith Bool.
From VRL Require Import Base.Bytes Base.Value Model.ConvRes Model.IntText.
Import ListNotations.
Local Open Scope Z_scope.

Definition ch_dot : N := 46%N.
Definition ch_colon : N := 58%N.

(* ---------- printing ---------- *)

(* Display for u8 *)
Definition dec_u8 (n : Z) : bytes :=
  match digits_loop 3 10 n [] with Some s => s | None => [] end.

(* {:x} for u16 *)
Definition hex_u16 (g : Z) : bytes :=
  match digits_loop 4 16 g [] with Some s => s | None => [] end.

(* Display for Ipv4Addr *)
Definition ipv4_to_string (o : list Z) : bytes :=
  match o with
  | [a; b; c; d] => dec_u8 a ++ ch_dot :: dec_u8 b ++ ch_dot :: dec_u8 c ++ ch_dot :: dec_u8 d
  | _ => []
  end.

(* fmt_subslice: colon-separated lower-hex groups *)
Fixpoint fmt_subslice (gs : list Z) : bytes :=
  match gs with
  | [] => []
  | [g] => hex_u16 g
  | g :: rest => hex_u16 g ++ ch_colon :: fmt_subslice rest
  end.

(* the loop that finds the first longest run of zero segments; spans are (start, len) *)
Fixpoint zero_span (gs : list Z) (i : nat) (longest current : nat * nat) : nat * nat :=
  match gs with
  | [] => longest
  | g :: rest =>
      if g =? 0 then
        let cur := (if Nat.eqb (snd current) 0 then i else fst current, S (snd current)) in
        let lon := if Nat.ltb (snd longest) (snd cur) then cur else longest in
        zero_span rest (S i) lon cur
      else zero_span rest (S i) longest (O, O)
  end.

(* Ipv6Addr::to_ipv4_mapped: [0,0,0,0,0,0xffff,ab,cd] *)
Definition to_ipv4_mapped (gs : list Z) : option (list Z) :=
  match gs with
  | [g0; g1; g2; g3; g4; g5; ab; cd] =>
      if (g0 =? 0) && (g1 =? 0) && (g2 =? 0) && (g3 =? 0) && (g4 =? 0) && (g5 =? 65535)
      then Some [ab / 256; ab mod 256; cd / 256; cd mod 256] else None
  | _ => None
  end.

(* Display for Ipv6Addr *)
Definition ipv6_to_string (gs : list Z) : bytes :=
  match to_ipv4_mapped gs with
  | Some v4 => ascii_bytes "::ffff:"%string ++ ipv4_to_string v4
  | None =>
      let '(start, len) := zero_span gs O (O, O) (O, O) in
      if Nat.ltb 1 len then
        fmt_subslice (firstn start gs) ++ ch_colon :: ch_colon :: fmt_subslice (skipn (start + len) gs)
      else fmt_subslice gs
  end.

(* ---------- parsing (core::net::parser::Parser; the state is the remaining input) ---------- *)

(* the `while let Some(digit) = read_char()?.to_digit(radix)` loop of read_number with max_digits = Some(maxd):
   result = (value, digit_count, rest); None when digit_count exceeds maxd *)
Fixpoint read_digits (radix : Z) (maxd : nat) (s : bytes) (acc : Z) (count : nat) : option (Z * nat * bytes) :=
  match s with
  | c :: s' =>
      match to_digit radix c with
      | Some d => if Nat.ltb maxd (S count) then None else read_digits radix maxd s' (acc * radix + d) (S count)
      | None => Some (acc, count, s)
      end
  | [] => Some (acc, count, s)
  end.

(* read_number(radix, Some(maxd), allow_zero_prefix) into a type with maximum `tmax` (u8: 255, u16: 65535) *)
Definition read_number (radix : Z) (maxd : nat) (allow_zero_prefix : bool) (tmax : Z) (s : bytes) : option (Z * bytes) :=
  let has_leading_zero := match s with 48%N :: _ => true | _ => false end in
  match read_digits radix maxd s 0 O with
  | None => None
  | Some (v, count, rest) =>
      if Nat.eqb count 0 then None
      else if negb allow_zero_prefix && has_leading_zero && Nat.ltb 1 count then None
      else if v <=? tmax then Some (v, rest) else None
  end.

(* read_separator(sep, index, inner): for index > 0 the separator must be read first *)
Definition read_separator {A} (sep : N) (index : nat) (inner : bytes -> option (A * bytes)) (s : bytes) : option (A * bytes) :=
  match index with
  | O => inner s
  | S _ => match s with
           | c :: s' => if (c =? sep)%N then inner s' else None
           | [] => None
           end
  end.

Definition read_octet (index : nat) (s : bytes) : option (Z * bytes) :=
  read_separator ch_dot index (read_number 10 3 false 255) s.

(* read_ipv4_addr *)
Definition read_ipv4_addr (s : bytes) : option (list Z * bytes) :=
  match read_octet 0 s with
  | Some (a, s1) =>
      match read_octet 1 s1 with
      | Some (b, s2) =>
          match read_octet 2 s2 with
          | Some (c, s3) =>
              match read_octet 3 s3 with
              | Some (d, s4) => Some ([a; b; c; d], s4)
              | None => None
              end
          | None => None
          end
      | None => None
      end
  | None => None
  end.

(* read_groups(p, groups[..limit]) : (groups read, an embedded IPv4 address was read, rest).
   n = limit - i is the number of slots left. *)
Fixpoint read_groups (n : nat) (i : nat) (s : bytes) : list Z * bool * bytes :=
  match n with
  | O => ([], false, s)
  | S n' =>
      let v4 := if Nat.leb 1 n' then read_separator ch_colon i read_ipv4_addr s else None in
      match v4 with
      | Some ([a; b; c; d], s') => ([a * 256 + b; c * 256 + d], true, s')
      | _ =>
          match read_separator ch_colon i (read_number 16 4 true 65535) s with
          | Some (g, s') => let '(gs, v4', s'') := read_groups n' (S i) s' in (g :: gs, v4', s'')
          | None => ([], false, s)
          end
      end
  end.

(* read_ipv6_addr *)
Definition read_ipv6_addr (s : bytes) : option (list Z * bytes) :=
  let '(head, head_v4, s1) := read_groups 8 0 s in
  if Nat.eqb (length head) 8 then Some (head, s1)
  else if head_v4 then None
  else match s1 with
       | 58%N :: 58%N :: s2 =>
           let limit := (8 - (length head + 1))%nat in
           let '(tail, _, s3) := read_groups limit 0 s2 in
           Some (head ++ repeat 0 (8 - length head - length tail) ++ tail, s3)
       | _ => None
       end.

Inductive ipaddr := V4 (o : list Z) | V6 (g : list Z).

(* Ipv4Addr::from_str (parse_ascii: at most 15 bytes, whole input consumed) *)
Definition parse_ipv4 (s : bytes) : option (list Z) :=
  if Nat.ltb 15 (length s) then None
  else match read_ipv4_addr s with
       | Some (o, []) => Some o
       | _ => None
       end.

(* IpAddr::from_str: read_ipv4_addr().or_else(read_ipv6_addr), whole input consumed *)
Definition parse_ip (s : bytes) : option ipaddr :=
  match read_ipv4_addr s with
  | Some (o, rest) => match rest with [] => Some (V4 o) | _ => None end
  | None =>
      match read_ipv6_addr s with
      | Some (g, []) => Some (V6 g)
      | _ => None
      end
  end.

(* ---------- octets <-> segments <-> u32 ---------- *)

Fixpoint segments_of_octets (b : list Z) : list Z :=
  match b with
  | hi :: lo :: rest => (hi * 256 + lo) :: segments_of_octets rest
  | _ => []
  end.

Fixpoint octets_of_segments (g : list Z) : list Z :=
  match g with
  | x :: rest => x / 256 :: x mod 256 :: octets_of_segments rest
  | [] => []
  end.

Definition u32_of_octets (o : list Z) : Z :=
  match o with
  | [a; b; c; d] => ((a * 256 + b) * 256 + c) * 256 + d
  | _ => 0
  end.

Definition octets_of_u32 (n : Z) : list Z :=
  [n / 16777216; (n / 65536) mod 256; (n / 256) mod 256; n mod 256].

Definition bytes_of_octets (o : list Z) : bytes := map Z.to_N o.
Definition octets_of_bytes (b : bytes) : list Z := map Z.of_N b.

(* ---------- the six stdlib functions ---------- *)

Definition ip_aton (v : value) : res value :=
  match v with
  | VBytes s => match parse_ipv4 s with
                | Some o => ROk (VInt (u32_of_octets o))
                | None => RErr
                end
  | _ => RErr
  end.

Definition ip_ntoa (v : value) : res value :=
  match v with
  | VInt i => if (0 <=? i) && (i <? 4294967296)       (* u32::try_from *)
              then ROk (VBytes (ipv4_to_string (octets_of_u32 i))) else RErr
  | _ => RErr
  end.

Definition ip_pton (v : value) : res value :=
  match v with
  | VBytes s => match parse_ip s with
                | Some (V4 o) => ROk (VBytes (bytes_of_octets o))
                | Some (V6 g) => ROk (VBytes (bytes_of_octets (octets_of_segments g)))
                | None => RErr
                end
  | _ => RErr
  end.

Definition ip_ntop (v : value) : res value :=
  match v with
  | VBytes b =>
      if Nat.eqb (length b) 4 then ROk (VBytes (ipv4_to_string (octets_of_bytes b)))
      else if Nat.eqb (length b) 16 then ROk (VBytes (ipv6_to_string (segments_of_octets (octets_of_bytes b))))
      else RErr
  | _ => RErr
  end.

(* Ipv4Addr::to_ipv6_mapped *)
Definition to_ipv6_mapped (o : list Z) : list Z :=
  match o with
  | [a; b; c; d] => [0; 0; 0; 0; 0; 65535; a * 256 + b; c * 256 + d]
  | _ => []
  end.

(* Ipv6Addr::to_ipv4: [0,0,0,0,0,0 | 0xffff, ab, cd] *)
Definition to_ipv4 (g : list Z) : option (list Z) :=
  match g with
  | [g0; g1; g2; g3; g4; f; ab; cd] =>
      if (g0 =? 0) && (g1 =? 0) && (g2 =? 0) && (g3 =? 0) && (g4 =? 0) && ((f =? 0) || (f =? 65535))
      then Some [ab / 256; ab mod 256; cd / 256; cd mod 256] else None
  | _ => None
  end.

Definition ip_to_ipv6 (v : value) : res value :=
  match v with
  | VBytes s => match parse_ip s with
                | Some (V4 o) => ROk (VBytes (ipv6_to_string (to_ipv6_mapped o)))
                | Some (V6 g) => ROk (VBytes (ipv6_to_string g))
                | None => RErr
                end
  | _ => RErr
  end.

Definition ipv6_to_ipv4 (v : value) : res value :=
  match v with
  | VBytes s => match parse_ip s with
                | Some (V4 o) => ROk (VBytes (ipv4_to_string o))
                | Some (V6 g) => match to_ipv4 g with
                                 | Some o => ROk (VBytes (ipv4_to_string o))
                                 | None => RErr
                                 end
                | None => RErr
                end
  | _ => RErr
  end.
