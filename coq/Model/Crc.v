(* C27 — CRC: the Rocksoft(tm) model of Ross Williams ("A painless guide to CRC error detection
   algorithms", 1993) — width, poly, init, refin, refout, xorout — evaluated bit by bit, and the
   parameter sets of the 112 catalogue entries (reveng "Catalogue of parametrised CRC algorithms", as
   shipped in crc-catalog 2.4.0) whose names `crc` (src/stdlib/crc.rs) accepts.  Each entry carries the
   catalogue's `check` value (the CRC of "123456789"); Properties/C27.v proves that the model reproduces
   all 112 of them, which pins every parameter set.  Definitions only. *)
From Coq Require Import List NArith Bool String.
From VRL Require Import Base.Bytes Model.DigestWord.
Import ListNotations.
Local Open Scope N_scope.

Record crc_params := mkCrc {
  c_width : N; c_poly : N; c_init : N; c_refin : bool; c_refout : bool; c_xorout : N }.

(* bit reversal of the low n bits *)
Fixpoint reflect_aux (n : nat) (x acc : N) : N :=
  match n with O => acc | S k => reflect_aux k (N.div2 x) (N.double acc + N.b2n (N.odd x)) end.
Definition reflect (n : nat) (x : N) : N := reflect_aux n x 0.

(* shift one message bit into the register (most significant bit first) *)
Definition crc_bit (p : crc_params) (reg : N) (bit : bool) : N :=
  let top := xorb (N.testbit reg (c_width p - 1)) bit in
  let reg' := N.land (N.shiftl reg 1) (N.ones (c_width p)) in
  if top then N.lxor reg' (c_poly p) else reg'.

Definition crc_byte (p : crc_params) (reg byte : N) : N :=
  let b := if c_refin p then reflect 8 byte else byte in
  fold_left (fun r i => crc_bit p r (N.testbit b i)) [7; 6; 5; 4; 3; 2; 1; 0] reg.

Definition crc (p : crc_params) (msg : bytes) : N :=
  let r := fold_left (crc_byte p) msg (c_init p) in
  let r := if c_refout p then reflect (N.to_nat (c_width p)) r else r in
  N.lxor r (c_xorout p).

Local Open Scope string_scope.

(* (name, parameters, check value) *)
Definition crc_catalogue : list (string * crc_params * N) :=
  [
   ("CRC_3_GSM", mkCrc 3 0x3 0x0 false false 0x7, 0x4);
   ("CRC_3_ROHC", mkCrc 3 0x3 0x7 true true 0x0, 0x6);
   ("CRC_4_G_704", mkCrc 4 0x3 0x0 true true 0x0, 0x7);
   ("CRC_4_INTERLAKEN", mkCrc 4 0x3 0xf false false 0xf, 0xb);
   ("CRC_5_EPC_C1G2", mkCrc 5 0x9 0x9 false false 0x0, 0x0);
   ("CRC_5_G_704", mkCrc 5 0x15 0x0 true true 0x0, 0x7);
   ("CRC_5_USB", mkCrc 5 0x5 0x1f true true 0x1f, 0x19);
   ("CRC_6_CDMA2000_A", mkCrc 6 0x27 0x3f false false 0x0, 0xd);
   ("CRC_6_CDMA2000_B", mkCrc 6 0x7 0x3f false false 0x0, 0x3b);
   ("CRC_6_DARC", mkCrc 6 0x19 0x0 true true 0x0, 0x26);
   ("CRC_6_G_704", mkCrc 6 0x3 0x0 true true 0x0, 0x6);
   ("CRC_6_GSM", mkCrc 6 0x2f 0x0 false false 0x3f, 0x13);
   ("CRC_7_MMC", mkCrc 7 0x9 0x0 false false 0x0, 0x75);
   ("CRC_7_ROHC", mkCrc 7 0x4f 0x7f true true 0x0, 0x53);
   ("CRC_7_UMTS", mkCrc 7 0x45 0x0 false false 0x0, 0x61);
   ("CRC_8_AUTOSAR", mkCrc 8 0x2f 0xff false false 0xff, 0xdf);
   ("CRC_8_BLUETOOTH", mkCrc 8 0xa7 0x0 true true 0x0, 0x26);
   ("CRC_8_CDMA2000", mkCrc 8 0x9b 0xff false false 0x0, 0xda);
   ("CRC_8_DARC", mkCrc 8 0x39 0x0 true true 0x0, 0x15);
   ("CRC_8_DVB_S2", mkCrc 8 0xd5 0x0 false false 0x0, 0xbc);
   ("CRC_8_GSM_A", mkCrc 8 0x1d 0x0 false false 0x0, 0x37);
   ("CRC_8_GSM_B", mkCrc 8 0x49 0x0 false false 0xff, 0x94);
   ("CRC_8_HITAG", mkCrc 8 0x1d 0xff false false 0x0, 0xb4);
   ("CRC_8_I_432_1", mkCrc 8 0x7 0x0 false false 0x55, 0xa1);
   ("CRC_8_I_CODE", mkCrc 8 0x1d 0xfd false false 0x0, 0x7e);
   ("CRC_8_LTE", mkCrc 8 0x9b 0x0 false false 0x0, 0xea);
   ("CRC_8_MAXIM_DOW", mkCrc 8 0x31 0x0 true true 0x0, 0xa1);
   ("CRC_8_MIFARE_MAD", mkCrc 8 0x1d 0xc7 false false 0x0, 0x99);
   ("CRC_8_NRSC_5", mkCrc 8 0x31 0xff false false 0x0, 0xf7);
   ("CRC_8_OPENSAFETY", mkCrc 8 0x2f 0x0 false false 0x0, 0x3e);
   ("CRC_8_ROHC", mkCrc 8 0x7 0xff true true 0x0, 0xd0);
   ("CRC_8_SAE_J1850", mkCrc 8 0x1d 0xff false false 0xff, 0x4b);
   ("CRC_8_SMBUS", mkCrc 8 0x7 0x0 false false 0x0, 0xf4);
   ("CRC_8_TECH_3250", mkCrc 8 0x1d 0xff true true 0x0, 0x97);
   ("CRC_8_WCDMA", mkCrc 8 0x9b 0x0 true true 0x0, 0x25);
   ("CRC_10_ATM", mkCrc 10 0x233 0x0 false false 0x0, 0x199);
   ("CRC_10_CDMA2000", mkCrc 10 0x3d9 0x3ff false false 0x0, 0x233);
   ("CRC_10_GSM", mkCrc 10 0x175 0x0 false false 0x3ff, 0x12a);
   ("CRC_11_FLEXRAY", mkCrc 11 0x385 0x1a false false 0x0, 0x5a3);
   ("CRC_11_UMTS", mkCrc 11 0x307 0x0 false false 0x0, 0x61);
   ("CRC_12_CDMA2000", mkCrc 12 0xf13 0xfff false false 0x0, 0xd4d);
   ("CRC_12_DECT", mkCrc 12 0x80f 0x0 false false 0x0, 0xf5b);
   ("CRC_12_GSM", mkCrc 12 0xd31 0x0 false false 0xfff, 0xb34);
   ("CRC_12_UMTS", mkCrc 12 0x80f 0x0 false true 0x0, 0xdaf);
   ("CRC_13_BBC", mkCrc 13 0x1cf5 0x0 false false 0x0, 0x4fa);
   ("CRC_14_DARC", mkCrc 14 0x805 0x0 true true 0x0, 0x82d);
   ("CRC_14_GSM", mkCrc 14 0x202d 0x0 false false 0x3fff, 0x30ae);
   ("CRC_15_CAN", mkCrc 15 0x4599 0x0 false false 0x0, 0x59e);
   ("CRC_15_MPT1327", mkCrc 15 0x6815 0x0 false false 0x1, 0x2566);
   ("CRC_16_ARC", mkCrc 16 0x8005 0x0 true true 0x0, 0xbb3d);
   ("CRC_16_CDMA2000", mkCrc 16 0xc867 0xffff false false 0x0, 0x4c06);
   ("CRC_16_CMS", mkCrc 16 0x8005 0xffff false false 0x0, 0xaee7);
   ("CRC_16_DDS_110", mkCrc 16 0x8005 0x800d false false 0x0, 0x9ecf);
   ("CRC_16_DECT_R", mkCrc 16 0x589 0x0 false false 0x1, 0x7e);
   ("CRC_16_DECT_X", mkCrc 16 0x589 0x0 false false 0x0, 0x7f);
   ("CRC_16_DNP", mkCrc 16 0x3d65 0x0 true true 0xffff, 0xea82);
   ("CRC_16_EN_13757", mkCrc 16 0x3d65 0x0 false false 0xffff, 0xc2b7);
   ("CRC_16_GENIBUS", mkCrc 16 0x1021 0xffff false false 0xffff, 0xd64e);
   ("CRC_16_GSM", mkCrc 16 0x1021 0x0 false false 0xffff, 0xce3c);
   ("CRC_16_IBM_3740", mkCrc 16 0x1021 0xffff false false 0x0, 0x29b1);
   ("CRC_16_IBM_SDLC", mkCrc 16 0x1021 0xffff true true 0xffff, 0x906e);
   ("CRC_16_ISO_IEC_14443_3_A", mkCrc 16 0x1021 0xc6c6 true true 0x0, 0xbf05);
   ("CRC_16_KERMIT", mkCrc 16 0x1021 0x0 true true 0x0, 0x2189);
   ("CRC_16_LJ1200", mkCrc 16 0x6f63 0x0 false false 0x0, 0xbdf4);
   ("CRC_16_M17", mkCrc 16 0x5935 0xffff false false 0x0, 0x772b);
   ("CRC_16_MAXIM_DOW", mkCrc 16 0x8005 0x0 true true 0xffff, 0x44c2);
   ("CRC_16_MCRF4XX", mkCrc 16 0x1021 0xffff true true 0x0, 0x6f91);
   ("CRC_16_MODBUS", mkCrc 16 0x8005 0xffff true true 0x0, 0x4b37);
   ("CRC_16_NRSC_5", mkCrc 16 0x80b 0xffff true true 0x0, 0xa066);
   ("CRC_16_OPENSAFETY_A", mkCrc 16 0x5935 0x0 false false 0x0, 0x5d38);
   ("CRC_16_OPENSAFETY_B", mkCrc 16 0x755b 0x0 false false 0x0, 0x20fe);
   ("CRC_16_PROFIBUS", mkCrc 16 0x1dcf 0xffff false false 0xffff, 0xa819);
   ("CRC_16_RIELLO", mkCrc 16 0x1021 0xb2aa true true 0x0, 0x63d0);
   ("CRC_16_SPI_FUJITSU", mkCrc 16 0x1021 0x1d0f false false 0x0, 0xe5cc);
   ("CRC_16_T10_DIF", mkCrc 16 0x8bb7 0x0 false false 0x0, 0xd0db);
   ("CRC_16_TELEDISK", mkCrc 16 0xa097 0x0 false false 0x0, 0xfb3);
   ("CRC_16_TMS37157", mkCrc 16 0x1021 0x89ec true true 0x0, 0x26b1);
   ("CRC_16_UMTS", mkCrc 16 0x8005 0x0 false false 0x0, 0xfee8);
   ("CRC_16_USB", mkCrc 16 0x8005 0xffff true true 0xffff, 0xb4c8);
   ("CRC_16_XMODEM", mkCrc 16 0x1021 0x0 false false 0x0, 0x31c3);
   ("CRC_17_CAN_FD", mkCrc 17 0x1685b 0x0 false false 0x0, 0x4f03);
   ("CRC_21_CAN_FD", mkCrc 21 0x102899 0x0 false false 0x0, 0xed841);
   ("CRC_24_BLE", mkCrc 24 0x65b 0x555555 true true 0x0, 0xc25a56);
   ("CRC_24_FLEXRAY_A", mkCrc 24 0x5d6dcb 0xfedcba false false 0x0, 0x7979bd);
   ("CRC_24_FLEXRAY_B", mkCrc 24 0x5d6dcb 0xabcdef false false 0x0, 0x1f23b8);
   ("CRC_24_INTERLAKEN", mkCrc 24 0x328b63 0xffffff false false 0xffffff, 0xb4f3e6);
   ("CRC_24_LTE_A", mkCrc 24 0x864cfb 0x0 false false 0x0, 0xcde703);
   ("CRC_24_LTE_B", mkCrc 24 0x800063 0x0 false false 0x0, 0x23ef52);
   ("CRC_24_OPENPGP", mkCrc 24 0x864cfb 0xb704ce false false 0x0, 0x21cf02);
   ("CRC_24_OS_9", mkCrc 24 0x800063 0xffffff false false 0xffffff, 0x200fa5);
   ("CRC_30_CDMA", mkCrc 30 0x2030b9c7 0x3fffffff false false 0x3fffffff, 0x4c34abf);
   ("CRC_31_PHILIPS", mkCrc 31 0x4c11db7 0x7fffffff false false 0x7fffffff, 0xce9e46c);
   ("CRC_32_AIXM", mkCrc 32 0x814141ab 0x0 false false 0x0, 0x3010bf7f);
   ("CRC_32_AUTOSAR", mkCrc 32 0xf4acfb13 0xffffffff true true 0xffffffff, 0x1697d06a);
   ("CRC_32_BASE91_D", mkCrc 32 0xa833982b 0xffffffff true true 0xffffffff, 0x87315576);
   ("CRC_32_BZIP2", mkCrc 32 0x4c11db7 0xffffffff false false 0xffffffff, 0xfc891918);
   ("CRC_32_CD_ROM_EDC", mkCrc 32 0x8001801b 0x0 true true 0x0, 0x6ec2edc4);
   ("CRC_32_CKSUM", mkCrc 32 0x4c11db7 0x0 false false 0xffffffff, 0x765e7680);
   ("CRC_32_ISCSI", mkCrc 32 0x1edc6f41 0xffffffff true true 0xffffffff, 0xe3069283);
   ("CRC_32_ISO_HDLC", mkCrc 32 0x4c11db7 0xffffffff true true 0xffffffff, 0xcbf43926);
   ("CRC_32_JAMCRC", mkCrc 32 0x4c11db7 0xffffffff true true 0x0, 0x340bc6d9);
   ("CRC_32_MEF", mkCrc 32 0x741b8cd7 0xffffffff true true 0x0, 0xd2c22f51);
   ("CRC_32_MPEG_2", mkCrc 32 0x4c11db7 0xffffffff false false 0x0, 0x376e6e7);
   ("CRC_32_XFER", mkCrc 32 0xaf 0x0 false false 0x0, 0xbd0be338);
   ("CRC_40_GSM", mkCrc 40 0x4820009 0x0 false false 0xffffffffff, 0xd4164fc646);
   ("CRC_64_ECMA_182", mkCrc 64 0x42f0e1eba9ea3693 0x0 false false 0x0, 0x6c40df5f0b497347);
   ("CRC_64_GO_ISO", mkCrc 64 0x1b 0xffffffffffffffff true true 0xffffffffffffffff, 0xb90956c775a41001);
   ("CRC_64_MS", mkCrc 64 0x259c84cba6426349 0xffffffffffffffff true true 0x0, 0x75d4b74f024eceea);
   ("CRC_64_REDIS", mkCrc 64 0xad93d23594c935a9 0x0 true true 0x0, 0xe9c6d914c4b8d9ca);
   ("CRC_64_WE", mkCrc 64 0x42f0e1eba9ea3693 0xffffffffffffffff false false 0xffffffffffffffff, 0x62ec59e3f1a4f00a);
   ("CRC_64_XZ", mkCrc 64 0x42f0e1eba9ea3693 0xffffffffffffffff true true 0xffffffffffffffff, 0x995dc9bbdf1939fa);
   ("CRC_82_DARC", mkCrc 82 0x308c0111011401440411 0x0 true true 0x0, 0x9ea83f625023801fd612)
  ].
