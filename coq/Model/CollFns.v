(* C28: the collection functions of src/stdlib (unique, compact, keys, values, length, merge, push, append,
   flatten on arrays), mirrored on `value` (Base/Value.v: objects are key-sorted association lists =
   BTreeMap<KeyString, Value> iteration order).  Definitions only. *)
From Coq Require Import List NArith ZArith Bool.
From Coq Require Import Floats.SpecFloat.
From VRL Require Import Base.Bytes Base.Value Model.CodecUtf8 Model.StrFns.
Import ListNotations.

(* ---------- `impl Eq for Value` (derived; NotNan<f64> compares with ==, so 0.0 == -0.0;
   ValueRegex compares the pattern text) ---------- *)
Definition float_eq (a b : spec_float) : bool :=
  match a, b with
  | S754_zero _, S754_zero _ => true
  | _, _ => sf_eqb a b
  end.

Fixpoint veq (a b : value) {struct a} : bool :=
  match a, b with
  | VBytes x, VBytes y => bytes_eqb x y
  | VRegex x, VRegex y => bytes_eqb x y
  | VInt x, VInt y => Z.eqb x y
  | VFloat x, VFloat y => float_eq x y
  | VBool x, VBool y => Bool.eqb x y
  | VTs x, VTs y => Z.eqb x y
  | VObj x, VObj y =>
      (fix go (l1 l2 : list (bytes * value)) {struct l1} : bool :=
         match l1, l2 with
         | [], [] => true
         | (k1, v1) :: r1, (k2, v2) :: r2 => bytes_eqb k1 k2 && veq v1 v2 && go r1 r2
         | _, _ => false
         end) x y
  | VArr x, VArr y =>
      (fix go (l1 l2 : list value) {struct l1} : bool :=
         match l1, l2 with
         | [], [] => true
         | v1 :: r1, v2 :: r2 => veq v1 v2 && go r1 r2
         | _, _ => false
         end) x y
  | VNull, VNull => true
  | _, _ => false
  end.

(* ---------- unique: IndexSet::from_iter(..).into_iter() — insertion-ordered set ---------- *)
Definition uniq_step (acc : list value) (x : value) : list value :=
  if existsb (veq x) acc then acc else acc ++ [x].
Definition unique_list (l : list value) : list value := fold_left uniq_step l [].

Definition fn_unique (v : value) : res :=
  match v with
  | VArr l => ROk (VArr (unique_list l))
  | _ => RErr
  end.

(* ---------- compact ---------- *)
Record compact_opts := { co_recursive : bool; co_null : bool; co_string : bool; co_object : bool;
                         co_array : bool; co_nullish : bool }.

Definition compact_defaults : compact_opts :=
  {| co_recursive := true; co_null := true; co_string := true; co_object := true; co_array := true;
     co_nullish := false |}.

(* stdlib/util.rs is_nullish *)
Definition is_nullish (v : value) : bool :=
  match v with
  | VBytes b => match b with
                | [] => true
                | [45%N] => true
                | _ => forallb is_ws (chars b)
                end
  | VNull => true
  | _ => false
  end.

(* CompactOptions::is_empty *)
Definition is_empty_for (o : compact_opts) (v : value) : bool :=
  if co_nullish o && is_nullish v then true
  else match v with
       | VBytes b => co_string o && match b with [] => true | _ => false end
       | VNull => co_null o
       | VObj m => co_object o && match m with [] => true | _ => false end
       | VArr a => co_array o && match a with [] => true | _ => false end
       | _ => false
       end.

(* recurse_compact / compact_object / compact_array as one structural recursion over the value *)
Fixpoint compact_val (o : compact_opts) (v : value) {struct v} : value :=
  match v with
  | VArr a =>
      VArr ((fix go (l : list value) : list value :=
               match l with
               | [] => []
               | x :: r =>
                   let x' := if co_recursive o then compact_val o x else x in
                   if is_empty_for o x' then go r else x' :: go r
               end) a)
  | VObj m =>
      VObj ((fix go (l : list (bytes * value)) : list (bytes * value) :=
               match l with
               | [] => []
               | (k, x) :: r =>
                   let x' := if co_recursive o then compact_val o x else x in
                   if is_empty_for o x' then go r else (k, x') :: go r
               end) m)
  | _ => v
  end.

Definition opt_bool (v : value) : option bool := match v with VBool b => Some b | _ => None end.

Definition all_bools (l : list value) : option (list bool) :=
  fold_right (fun v acc => match opt_bool v, acc with Some b, Some t => Some (b :: t) | _, _ => None end)
             (Some []) l.

Definition opts_of (l : list bool) : option compact_opts :=
  match l with
  | [r; n; s; ob; a; nl] =>
      Some {| co_recursive := r; co_null := n; co_string := s; co_object := ob; co_array := a;
              co_nullish := nl |}
  | _ => None
  end.

Definition fn_compact (v : value) (flags : option (list value)) : res :=
  let opts := match flags with
              | None => Some compact_defaults
              | Some l => match all_bools l with Some bs => opts_of bs | None => None end
              end in
  match opts with
  | None => RErr
  | Some o => match v with
              | VObj _ | VArr _ => ROk (compact_val o v)
              | _ => RErr
              end
  end.

(* ---------- keys / values / length ---------- *)
Definition fn_keys (v : value) : res :=
  match v with VObj m => ROk (VArr (map (fun kv => VBytes (fst kv)) m)) | _ => RErr end.
Definition fn_values (v : value) : res :=
  match v with VObj m => ROk (VArr (map snd m)) | _ => RErr end.
Definition fn_length (v : value) : res :=
  match v with
  | VArr a => ROk (VInt (Z.of_nat (length a)))
  | VObj m => ROk (VInt (Z.of_nat (length m)))
  | VBytes b => ROk (VInt (Z.of_nat (length b)))
  | _ => RErr
  end.

(* ---------- merge: merge_maps(&mut to, &from, deep) ---------- *)
Fixpoint merge_into (deep : bool) (m1 : obj) (from : value) {struct from} : obj :=
  match from with
  | VObj m2 =>
      (fix go (m1 : obj) (l : list (bytes * value)) {struct l} : obj :=
         match l with
         | [] => m1
         | (k, x) :: r =>
             go (match deep, obj_get m1 k, x with
                 | true, Some (VObj c1), VObj _ => obj_set m1 k (VObj (merge_into deep c1 x))
                 | _, _, _ => obj_set m1 k x
                 end) r
         end) m1 m2
  | _ => m1
  end.

Definition fn_merge (a b : value) (deep : option value) : res :=
  match a, b with
  | VObj m1, VObj _ =>
      match deep with
      | None => ROk (VObj (merge_into false m1 b))
      | Some (VBool d) => ROk (VObj (merge_into d m1 b))
      | Some _ => RErr
      end
  | _, _ => RErr
  end.

(* ---------- push / append ---------- *)
Definition fn_push (a x : value) : res :=
  match a with VArr l => ROk (VArr (l ++ [x])) | _ => RErr end.
Definition fn_append (a b : value) : res :=
  match a, b with VArr l, VArr r => ROk (VArr (l ++ r)) | _, _ => RErr end.

(* ---------- flatten (arrays): ArrayFlatten ---------- *)
Fixpoint flat_items (v : value) {struct v} : list value :=
  match v with
  | VArr l => (fix go (l : list value) : list value :=
                 match l with
                 | [] => []
                 | x :: r => flat_items x ++ go r
                 end) l
  | _ => [v]
  end.

Definition fn_flatten (v : value) : res :=
  match v with
  | VArr _ => ROk (VArr (flat_items v))
  | VObj _ => RUnmodelled          (* MapFlatten: Model/Flatten.v (C25) *)
  | _ => RErr
  end.
