(* C27 — word-level helpers shared by the digest specifications.
   Words are `N` kept below 2^32 / 2^64 by explicit masks; byte strings are `list N` (Base/Bytes.v).
   Definitions only. *)
From Coq Require Import List NArith Bool.
From VRL Require Import Base.Bytes.
Import ListNotations.
Local Open Scope N_scope.

Definition mask32 : N := 0xFFFFFFFF.
Definition mask64 : N := 0xFFFFFFFFFFFFFFFF.
Definition mask (w : N) : N := N.ones w.

Definition trunc (w x : N) : N := N.land x (N.ones w).
Definition add_w (w a b : N) : N := trunc w (a + b).
Definition mul_w (w a b : N) : N := trunc w (a * b).
Definition sub_w (w a b : N) : N := trunc w (a + 2 ^ w - trunc w b).
Definition not_w (w a : N) : N := N.lxor (trunc w a) (N.ones w).
Definition rotl_w (w x n : N) : N := N.lor (trunc w (N.shiftl x n)) (N.shiftr x (w - n)).
Definition rotr_w (w x n : N) : N := N.lor (N.shiftr x n) (trunc w (N.shiftl x (w - n))).

(* the same at the two fixed sizes, with the mask as a constant (faster under vm_compute) *)
Definition trunc32 (x : N) : N := N.land x mask32.
Definition trunc64 (x : N) : N := N.land x mask64.
Definition add32 (a b : N) : N := trunc32 (a + b).
Definition add64 (a b : N) : N := trunc64 (a + b).
Definition mul32 (a b : N) : N := trunc32 (a * b).
Definition mul64 (a b : N) : N := trunc64 (a * b).
Definition sub32 (a b : N) : N := trunc32 (a + 0x100000000 - trunc32 b).
Definition sub64 (a b : N) : N := trunc64 (a + 0x10000000000000000 - trunc64 b).
Definition rotl32 (x n : N) : N := N.lor (trunc32 (N.shiftl x n)) (N.shiftr x (32 - n)).
Definition rotl64 (x n : N) : N := N.lor (trunc64 (N.shiftl x n)) (N.shiftr x (64 - n)).
Definition rotr32 (x n : N) : N := N.lor (N.shiftr x n) (trunc32 (N.shiftl x (32 - n))).
Definition rotr64 (x n : N) : N := N.lor (N.shiftr x n) (trunc64 (N.shiftl x (64 - n))).

(* ---- bytes <-> integers ---- *)
Fixpoint be_to_N (b : bytes) (acc : N) : N :=
  match b with [] => acc | x :: r => be_to_N r (acc * 256 + x) end.
Fixpoint le_to_N (b : bytes) : N :=
  match b with [] => 0 | x :: r => x + 256 * le_to_N r end.

(* n bytes, most significant first / least significant first *)
Fixpoint N_to_be (n : nat) (x : N) : bytes :=
  match n with O => [] | S k => N.land (N.shiftr x (8 * N.of_nat k)) 255 :: N_to_be k x end.
Fixpoint N_to_le (n : nat) (x : N) : bytes :=
  match n with O => [] | S k => N.land x 255 :: N_to_le k (N.shiftr x 8) end.

(* ---- chunking: consecutive pieces of n elements; the last one may be shorter ---- *)
Fixpoint chunks_fuel {A} (fuel n : nat) (l : list A) : list (list A) :=
  match fuel with
  | O => []
  | S f => match l with [] => [] | _ => firstn n l :: chunks_fuel f n (skipn n l) end
  end.
Definition chunks {A} (n : nat) (l : list A) : list (list A) := chunks_fuel (S (length l)) n l.

Definition words_be (wbytes : nat) (b : bytes) : list N := map (fun c => be_to_N c 0) (chunks wbytes b).
Definition words_le (wbytes : nat) (b : bytes) : list N := map le_to_N (chunks wbytes b).

Definition blen (b : bytes) : N := N.of_nat (length b).
Definition zeros (n : N) : bytes := repeat 0 (N.to_nat n).

(* Merkle-Damgard strengthening: 0x80, zeros up to (block - lenbytes) mod block, then the bit length *)
Definition md_pad_zeros (block lenbytes len : N) : N :=
  (block - (len + 1 + lenbytes) mod block) mod block.

Definition xor_bytes (c : N) (b : bytes) : bytes := map (fun x => N.lxor x c) b.
