(* C27 — HMAC as specified by RFC 2104 (= FIPS 198-1), over any hash function H with block size B bytes:
     K' = H(K) if |K| > B else K, right-padded with zeros to B bytes;
     HMAC(K, m) = H((K' xor opad) || H((K' xor ipad) || m)),  ipad = 0x36.., opad = 0x5c..
   Reference for `hmac` (src/stdlib/hmac.rs, which calls the `hmac` crate).  Definitions only. *)
From Coq Require Import List NArith Bool.
From VRL Require Import Base.Bytes Model.DigestWord.
Import ListNotations.
Local Open Scope N_scope.

Section Hmac.
  Variable H : bytes -> bytes.
  Variable B : N.

  Definition hmac_key0 (key : bytes) : bytes := if B <? blen key then H key else key.
  Definition hmac_key (key : bytes) : bytes :=
    let k0 := hmac_key0 key in k0 ++ zeros (B - blen k0).
  Definition hmac (key msg : bytes) : bytes :=
    let k := hmac_key key in
    H (xor_bytes 0x5c k ++ H (xor_bytes 0x36 k ++ msg)).
End Hmac.
