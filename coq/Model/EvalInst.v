(* Executable instance of the Core-VRL evaluator's parameters, used by the correspondence run:
   the operators of Model/Arith.v and a handful of closure-free stdlib functions. *)
From Coq Require Import List NArith ZArith Bool String Ascii.
From VRL Require Import Base.Bytes Base.Value Model.ValueCrud Model.Expr Model.Eval.
From VRL Require Model.Arith.
Import ListNotations.

Fixpoint nm (s : string) : bytes :=
  match s with
  | EmptyString => []
  | String c r => N_of_ascii c :: nm r
  end.

Definition lift_arith (o : VRL.Model.Arith.outcome) : option value :=
  match o with VRL.Model.Arith.Ok v => Some v | VRL.Model.Arith.Err _ => None end.

(* try_merge: `lhs.into_iter().chain(rhs).collect()` — the right operand wins *)
Definition try_merge (x y : value) : option value :=
  match x, y with
  | VObj a, VObj b => Some (VObj (fold_left (fun m kv => obj_set m (fst kv) (snd kv)) b a))
  | _, _ => None
  end.

Definition binop_inst (o : opcode) (x y : value) : option value :=
  match o with
  | OMul => lift_arith (VRL.Model.Arith.try_mul x y)
  | ODiv => lift_arith (VRL.Model.Arith.try_div x y)
  | OAdd => lift_arith (VRL.Model.Arith.try_add x y)
  | OSub => lift_arith (VRL.Model.Arith.try_sub x y)
  | OEq => Some (VBool (VRL.Model.Arith.eq_lossy x y))
  | ONe => Some (VBool (negb (VRL.Model.Arith.eq_lossy x y)))
  | OGt => lift_arith (VRL.Model.Arith.try_gt x y)
  | OGe => lift_arith (VRL.Model.Arith.try_ge x y)
  | OLt => lift_arith (VRL.Model.Arith.try_lt x y)
  | OLe => lift_arith (VRL.Model.Arith.try_le x y)
  | OMerge => try_merge x y
  | OOr | OAnd | OErr => None       (* resolved by Op::resolve itself, never reach here *)
  end.

Local Open Scope string_scope.

(* stdlib: string/int/bool/array/object (type assertions), is_null, is_string, length *)
Definition F_inst (f : fname) (args : list value) : option value :=
  match args with
  | [v] =>
      if bytes_eqb f (nm "string") then match v with VBytes _ => Some v | _ => None end
      else if bytes_eqb f (nm "int") then match v with VInt _ => Some v | _ => None end
      else if bytes_eqb f (nm "bool") then match v with VBool _ => Some v | _ => None end
      else if bytes_eqb f (nm "array") then match v with VArr _ => Some v | _ => None end
      else if bytes_eqb f (nm "object") then match v with VObj _ => Some v | _ => None end
      else if bytes_eqb f (nm "is_null") then Some (VBool (match v with VNull => true | _ => false end))
      else if bytes_eqb f (nm "is_string") then Some (VBool (match v with VBytes _ => true | _ => false end))
      else if bytes_eqb f (nm "length") then
        match v with
        | VBytes b => Some (VInt (Z.of_nat (List.length b)))
        | VArr a => Some (VInt (Z.of_nat (List.length a)))
        | VObj m => Some (VInt (Z.of_nat (List.length m)))
        | _ => None
        end
      else None
  | _ => None
  end.

Definition eval_inst := eval F_inst binop_inst.
Definition run_inst := run F_inst binop_inst.

(* result, variables, event, metadata (without the target log), for examples *)
Definition run_core (es : list expr) (s : state) :=
  let '(o, s') := run_inst es s in (o, vars s', ev s', md s').
